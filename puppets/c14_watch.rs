// Puppet for C14 (spec/Watch.tla).
// Built with: rustc +1.89 --edition 2021 -g -C panic=abort   (no_std: the only debug info is this file's,
// which keeps a debugger launch/restart cheap - BugStalker clones every parsed unit on restart)
//
// Program points (the `phase` variable of the specification); the driver puts a breakpoint on every
// line carrying a marker `@Pn` (markers are looked up textually, never hard-coded):
//   P0  main, only the main thread exists, locals of scoped_fn not in scope
//   P1  inside scoped_fn, `la` (u64) and `lb` (u32) are live stack locals
//   P2  back in main (scope of la/lb left), still one thread
//   P3  thread 2 has been created (after P2) and is parked in read()
//   P4  thread 3 has been created (after P3) and is parked in read()
//   P5  thread 2 has exited and was joined; threads {1,3}
//   then thread 3 is released, joined, exit(0)
//
// With C14_WRITES=1 in the environment the segments between the program points access the globals /
// locals in a fixed order.  Without it nothing touches them, so the same scripts are valid whether or
// not the host delivers hardware data breakpoints.
#![no_std]
#![no_main]

use core::ffi::{c_char, c_int, c_void};
use core::hint::black_box;

#[link(name = "c")]
extern "C" {
    fn pthread_create(t: *mut u64, attr: *const c_void, f: extern "C" fn(*mut c_void) -> *mut c_void, arg: *mut c_void) -> c_int;
    fn pthread_join(t: u64, ret: *mut *mut c_void) -> c_int;
    fn pipe(fds: *mut c_int) -> c_int;
    fn read(fd: c_int, buf: *mut c_void, n: usize) -> isize;
    fn write(fd: c_int, buf: *const c_void, n: usize) -> isize;
    fn getenv(name: *const c_char) -> *const c_char;
    fn abort() -> !;
}

#[panic_handler]
fn panic(_: &core::panic::PanicInfo) -> ! {
    unsafe { abort() }
}

/// libcore's unwind tables refer to it; never called (panic = abort).
#[no_mangle]
pub extern "C" fn rust_eh_personality() {}

#[no_mangle]
pub static mut G0: u64 = 0x1000;
#[no_mangle]
pub static mut G1: u64 = 0x1100;
#[no_mangle]
pub static mut G2: u64 = 0x1200;
#[no_mangle]
pub static mut G3: u64 = 0x1300;
#[no_mangle]
pub static mut G4: u64 = 0x1400;
#[no_mangle]
pub static mut G5: u64 = 0x1500;

static mut WRITES: bool = false;

#[inline(never)]
fn wr(p: *mut u64) {
    unsafe {
        if WRITES {
            let v = core::ptr::read_volatile(p);
            core::ptr::write_volatile(p, v + 1);
        }
    }
}

#[inline(never)]
fn rd(p: *const u64) -> u64 {
    unsafe {
        if WRITES {
            core::ptr::read_volatile(p)
        } else {
            0
        }
    }
}

#[inline(never)]
fn nop(n: u64) -> u64 {
    black_box(n)
}

#[inline(never)]
fn scoped_fn(seed: u64) -> u64 {
    let mut la: u64 = seed + 0x1A1A_1A1A_0000_0007; // content signature the harness recognises
    let lb: u32 = (seed as u32) + 0x1B1B_0009;
    let mut acc = nop(1); // @P1
    wr(&mut la as *mut u64); // event: main writes la
    acc += nop(2);
    acc += la + lb as u64;
    acc
}

/// One parked worker: a command pipe (main -> worker) and an answer pipe (worker -> main).
struct Chan {
    cmd: [c_int; 2],
    ans: [c_int; 2],
}

fn send(fd: c_int, b: u8) {
    let v = b;
    unsafe {
        if write(fd, &v as *const u8 as *const c_void, 1) != 1 {
            abort()
        }
    }
}

fn recv(fd: c_int) -> u8 {
    let mut v = 0u8;
    unsafe {
        if read(fd, &mut v as *mut u8 as *mut c_void, 1) != 1 {
            abort()
        }
    }
    v
}

extern "C" fn worker(arg: *mut c_void) -> *mut c_void {
    let ch = unsafe { &*(arg as *const Chan) };
    send(ch.ans[1], b'u');
    loop {
        match recv(ch.cmd[0]) {
            b'q' => return core::ptr::null_mut(),
            c => {
                let p = match c {
                    b'0' => &raw mut G0,
                    b'1' => &raw mut G1,
                    b'2' => &raw mut G2,
                    b'3' => &raw mut G3,
                    b'4' => &raw mut G4,
                    _ => &raw mut G5,
                };
                wr(p);
                send(ch.ans[1], b'k');
            }
        }
    }
}

fn spawn(ch: &mut Chan) -> u64 {
    let mut t = 0u64;
    unsafe {
        if pipe(ch.cmd.as_mut_ptr()) != 0 || pipe(ch.ans.as_mut_ptr()) != 0 {
            abort()
        }
        if pthread_create(&mut t, core::ptr::null(), worker, ch as *mut Chan as *mut c_void) != 0 {
            abort()
        }
    }
    if recv(ch.ans[0]) != b'u' {
        unsafe { abort() }
    }
    t
}

#[no_mangle]
pub extern "C" fn main(_argc: c_int, _argv: *const *const c_char) -> c_int {
    unsafe {
        let v = getenv(c"C14_WRITES".as_ptr());
        WRITES = !v.is_null() && *v == b'1' as c_char;
    }
    let mut acc = nop(0); // @P0
    wr(&raw mut G0); // event: main writes G0
    acc += rd(&raw const G1); // event: main reads G1
    acc += scoped_fn(nop(0));
    acc += nop(3); // @P2
    wr(&raw mut G2); // event: main writes G2
    let mut c2 = Chan { cmd: [0; 2], ans: [0; 2] };
    let t2 = spawn(&mut c2);
    acc += nop(4); // @P3
    send(c2.cmd[1], b'3'); // event: thread 2 writes G3
    recv(c2.ans[0]);
    let mut c3 = Chan { cmd: [0; 2], ans: [0; 2] };
    let t3 = spawn(&mut c3);
    acc += nop(5); // @P4
    send(c3.cmd[1], b'4'); // event: thread 3 writes G4
    recv(c3.ans[0]);
    send(c2.cmd[1], b'q');
    unsafe {
        pthread_join(t2, core::ptr::null_mut());
    }
    acc += nop(6); // @P5
    wr(&raw mut G5); // event: main writes G5
    send(c3.cmd[1], b'q');
    unsafe {
        pthread_join(t3, core::ptr::null_mut());
    }
    black_box(acc);
    0
}

// Puppet for C14 (spec/Watch.tla).  Built with: rustc +1.89 --edition 2021 -g
//
// Program points (the `Phase` variable of the specification); the driver puts a breakpoint on every
// line carrying a marker `@Pn` (markers are looked up textually, never hard-coded):
//   P0  main, only the main thread exists, locals of scoped_fn not in scope
//   P1  inside scoped_fn, `la` (u64) and `lb` (u32) are live stack locals
//   P2  back in main (scope of la/lb left), still one thread
//   P3  thread 2 has been created (after P2) and is parked
//   P4  thread 3 has been created (after P3) and is parked
//   P5  thread 2 has exited and was joined; threads {1,3}
//   then thread 3 is released, joined, exit(0)
//
// With C14_WRITES=1 the segments between the program points access the globals / locals in a fixed
// order (the `Events` table of the specification).  Without it nothing touches them, so the same
// scripts are valid whether or not the host delivers hardware data breakpoints.
use std::sync::mpsc::{channel, Receiver, Sender};
use std::thread;

#[no_mangle]
pub static mut G0: u64 = 0x1000;
#[no_mangle]
pub static mut G1: u64 = 0x1100;
#[no_mangle]
pub static mut G2: u64 = 0x1200;
#[no_mangle]
pub static mut G3: u64 = 0x1300;
#[no_mangle]
pub static mut G4: u64 = 0x1400;
#[no_mangle]
pub static mut G5: u64 = 0x1500;

static mut WRITES: bool = false;

#[inline(never)]
fn wr(p: *mut u64) {
    unsafe {
        if WRITES {
            let v = std::ptr::read_volatile(p);
            std::ptr::write_volatile(p, v + 1);
        }
    }
}

#[inline(never)]
fn rd(p: *const u64) -> u64 {
    unsafe {
        if WRITES {
            std::ptr::read_volatile(p)
        } else {
            0
        }
    }
}

#[inline(never)]
fn nop(n: u64) -> u64 {
    std::hint::black_box(n)
}

#[inline(never)]
fn scoped_fn(seed: u64) -> u64 {
    let mut la: u64 = seed + 7;
    let lb: u32 = (seed as u32) + 9;
    let mut acc = nop(1); // @P1
    wr(&mut la as *mut u64); // event: main writes la
    acc += nop(2);
    acc += la + lb as u64;
    acc
}

enum Cmd {
    Touch(usize),
    Quit,
}

fn worker(up: Sender<u32>, rx: Receiver<Cmd>, id: u32) {
    up.send(id).unwrap();
    loop {
        match rx.recv() {
            Ok(Cmd::Touch(i)) => {
                unsafe {
                    let p = match i {
                        0 => &raw mut G0,
                        1 => &raw mut G1,
                        2 => &raw mut G2,
                        3 => &raw mut G3,
                        4 => &raw mut G4,
                        _ => &raw mut G5,
                    };
                    wr(p);
                }
                up.send(100 + i as u32).unwrap();
            }
            Ok(Cmd::Quit) | Err(_) => return,
        }
    }
}

fn main() {
    unsafe {
        WRITES = std::env::var("C14_WRITES").map(|v| v == "1").unwrap_or(false);
    }
    let mut acc = nop(0); // @P0
    unsafe {
        wr(&raw mut G0); // event: main writes G0
        acc += rd(&raw const G1); // event: main reads G1
    }
    acc += scoped_fn(acc);
    acc += nop(3); // @P2
    unsafe {
        wr(&raw mut G2); // event: main writes G2
    }
    let (up_tx, up_rx) = channel::<u32>();
    let (t2_tx, t2_rx) = channel::<Cmd>();
    let up2 = up_tx.clone();
    let t2 = thread::spawn(move || worker(up2, t2_rx, 2));
    assert_eq!(up_rx.recv().unwrap(), 2);
    acc += nop(4); // @P3
    t2_tx.send(Cmd::Touch(3)).unwrap(); // event: thread 2 writes G3
    assert_eq!(up_rx.recv().unwrap(), 103);
    let (t3_tx, t3_rx) = channel::<Cmd>();
    let up3 = up_tx.clone();
    let t3 = thread::spawn(move || worker(up3, t3_rx, 3));
    assert_eq!(up_rx.recv().unwrap(), 3);
    acc += nop(5); // @P4
    t3_tx.send(Cmd::Touch(4)).unwrap(); // event: thread 3 writes G4
    assert_eq!(up_rx.recv().unwrap(), 104);
    t2_tx.send(Cmd::Quit).unwrap();
    t2.join().unwrap();
    acc += nop(6); // @P5
    unsafe {
        wr(&raw mut G5); // event: main writes G5
    }
    t3_tx.send(Cmd::Quit).unwrap();
    t3.join().unwrap();
    std::hint::black_box(acc);
}

// Multi-threaded puppet for teardown scenarios (C11): N workers loop through `work`, main joins them.
use std::sync::atomic::{AtomicU64, Ordering};
use std::thread;
use std::time::Duration;

static COUNT: AtomicU64 = AtomicU64::new(0);

#[inline(never)]
fn work(id: u64, rounds: u64) -> u64 {
    let mut acc = 0;
    let mut i = 0;
    while i < rounds {
        acc += id + i;
        COUNT.fetch_add(1, Ordering::SeqCst);
        thread::sleep(Duration::from_millis(2));
        i += 1;
    }
    acc
}

fn main() {
    let n: u64 = std::env::args().nth(1).and_then(|s| s.parse().ok()).unwrap_or(3);
    let mut hs = vec![];
    for id in 0..n {
        hs.push(thread::spawn(move || work(id, 40)));
    }
    let mut s = 0;
    for h in hs {
        s += h.join().unwrap();
    }
    println!("COUNT={} S={}", COUNT.load(Ordering::SeqCst), s);
    std::process::exit((s % 100) as i32);
}

// C04 puppet: a generic instantiated twice, closures, an #[inline(always)] helper used by two callers.
use std::fmt::Debug;
use std::hint::black_box;

#[inline(never)]
fn show<T: Debug + Clone>(v: &T, n: usize) -> String {
    let mut out = String::new();
    for _ in 0..n {
        let c = v.clone();
        out.push_str(&format!("{:?}", c));
    }
    out
}

#[inline(never)]
fn largest<T: PartialOrd + Copy>(xs: &[T]) -> T {
    let mut m = xs[0];
    for &x in xs {
        if x > m {
            m = x;
        }
    }
    m
}

#[inline(always)]
fn helper(a: u32, b: u32) -> u32 {
    let t = a ^ b;
    t.wrapping_mul(31)
}

#[inline(never)]
fn caller_one(a: u32) -> u32 {
    let r = helper(a, 5);
    r + 1
}

#[inline(never)]
fn caller_two(a: u32) -> u32 {
    let q = a * 2;
    let r = helper(q, 9);
    r - 1
}

#[inline(never)]
fn apply<F: Fn(u32) -> u32>(f: F, x: u32) -> u32 {
    f(x)
}

fn main() {
    let s1 = show(&black_box(7u32), 2);
    let s2 = show(&black_box(String::from("ab")), 2);
    let l1 = largest(&[1i32, 9, 3]);
    let l2 = largest(&[1.5f64, 0.5]);
    let k = black_box(3u32);
    let one_line = |x: u32| x + k;
    let multi = |x: u32| {
        let y = x * k;
        y + 2
    };
    let a = apply(one_line, 4);
    let b = apply(multi, 5);
    let c = apply(|z| z.wrapping_sub(k), 6);
    let d = caller_one(black_box(8)) + caller_two(black_box(8));
    println!("{s1} {s2} {l1} {l2} {a} {b} {c} {d}");
}

// C04 puppet, LIBRARY crate of c04_twocrate (built as an rlib).  The code of this one source file ends up in two
// compilation units: the non-generic functions in the rlib's own unit, the generic ones - instantiated by the
// binary crate - in the binary's unit.  No blank lines between the functions on purpose: the last line of a
// function that exists only in one unit is directly followed by the first line of a function of the other unit.
use std::fmt::Debug;

#[inline(never)] pub fn area<T: Into<f64> + Copy>(w: T, h: T) -> f64 {
    let a: f64 = w.into();
    let b: f64 = h.into();
    a * b
}
#[inline(never)] pub fn perimeter(w: u32, h: u32) -> u32 {
    let s = w + h;
    s * 2
}
#[inline(never)] pub fn label<T: Debug>(v: &T) -> String {
    let s = format!("{:?}", v);
    s
}
#[inline(never)] pub fn diagonal2(w: u32, h: u32) -> u32 {
    let a = w * w;

    let b = h * h;
    a + b
}

// C04 puppet, BINARY crate: instantiates the generics of the library crate c04_shapes at two types each.
use std::hint::black_box;

fn main() {
    let a1 = c04_shapes::area(black_box(3u32), black_box(4u32));
    let a2 = c04_shapes::area(black_box(1.5f32), black_box(2.0f32));
    let p = c04_shapes::perimeter(black_box(3), black_box(4));
    let l1 = c04_shapes::label(&black_box(7u8));
    let l2 = c04_shapes::label(&black_box("x"));
    let d = c04_shapes::diagonal2(black_box(3), black_box(4));
    println!("{a1} {a2} {p} {l1} {l2} {d}");
}

// C04 puppet: branches, loops, match, early return.
use std::hint::black_box;

#[inline(never)]
fn classify(n: i64) -> &'static str {
    if n < 0 {
        "neg"
    } else if n == 0 {
        "zero"
    } else {
        "pos"
    }
}

#[inline(never)]
fn sum_to(n: u64) -> u64 {
    let mut acc = 0;
    let mut i = 0;
    while i < n {
        acc += i;
        i += 1;
    }
    acc
}

#[inline(never)]
fn count_even(v: &[u32]) -> usize {
    let mut c = 0;
    for x in v {
        if x % 2 == 0 {
            c += 1;
        }
    }
    c
}

#[inline(never)]
fn first_big(v: &[u32], lim: u32) -> Option<usize> {
    let mut i = 0;
    loop {
        if i >= v.len() {
            return None;
        }
        if v[i] > lim {
            break;
        }
        i += 1;
    }
    Some(i)
}

#[inline(never)]
fn pick(k: u8) -> u32 {
    match k {
        0 => 10,
        1 | 2 => 20,
        3..=9 => {
            let t = k as u32;
            t * 7
        }
        _ => 0,
    }
}

fn main() {
    let v = [1u32, 2, 3, 4, 50, 6];
    let a = classify(black_box(-3));
    let b = classify(black_box(0));
    let c = sum_to(black_box(5));
    let d = count_even(black_box(&v));
    let e = first_big(black_box(&v), 10);
    let f = pick(black_box(4)) + pick(black_box(1)) + pick(black_box(200));
    println!("{a} {b} {c} {d} {e:?} {f}");
}

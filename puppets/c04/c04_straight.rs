// C04 puppet: straight-line code, multi-line statements, lines without code followed by code,
// two functions adjacent in memory.
use std::hint::black_box;

#[inline(never)]
fn first(a: u64, b: u64) -> u64 {
    let s = a + b;

    // a comment line without code

    let t = s * 3;
    let u = t
        .wrapping_add(a)
        .wrapping_mul(
            b | 1,
        );
    u ^ s
}

#[inline(never)]
fn second(x: u64) -> u64 {
    let y = x.rotate_left(7);
    /* block comment
       spanning lines */
    let z = y.wrapping_sub(
        x,
    );
    z
}

#[inline(never)]
fn third(v: &[u64]) -> u64
{
    let a = v[0];
    let b = v[1];
    let c = first(
        a,
        b,
    );
    second(c)
}

struct Pt {
    x: i64,
    y: i64,
}

impl Pt {
    #[inline(never)]
    fn norm1(&self) -> i64 {
        self.x.abs()
            + self.y.abs()
    }
}

fn main() {
    let v = vec![black_box(3u64), black_box(5u64)];
    let r = third(&v);
    let p = Pt {
        x: black_box(-4),
        y: black_box(9),
    };

    let n = p.norm1();
    println!("{} {}", r, n);
}

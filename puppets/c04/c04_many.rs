// C04 puppet: many small functions of different sizes laid out back to back - some end exactly on a
// 16-byte boundary, so the end_sequence row of one function shares its address with the first row of
// the next one (written once by a script, committed as plain source).
use std::hint::black_box;

#[inline(never)]
fn f00(x: u64) -> u64 {
    let mut a = x;
    a = a.wrapping_add(3);
    a
}

#[inline(never)]
fn f01(x: u64) -> u64 {
    let mut a = x;
    a ^= 4;
    a = a.rotate_left(3);
    a = a.wrapping_mul(6);
    a = a.wrapping_add(7);
    a ^= 8;
    a = a.rotate_left(7);
    a = a.wrapping_mul(10);
    a = a.wrapping_add(11);
    a
}

#[inline(never)]
fn f02(x: u64) -> u64 {
    let mut a = x;
    a = a.rotate_left(3);
    a = a.wrapping_mul(6);
    a = a.wrapping_add(7);
    a ^= 8;
    a
}

#[inline(never)]
fn f03(x: u64) -> u64 {
    let mut a = x;
    a = a.wrapping_mul(6);
    a = a.wrapping_add(7);
    a ^= 8;
    a = a.rotate_left(7);
    a = a.wrapping_mul(10);
    a = a.wrapping_add(11);
    a ^= 12;
    a = a.rotate_left(11);
    a = a.wrapping_mul(14);
    a = a.wrapping_add(15);
    a ^= 16;
    a
}

#[inline(never)]
fn f04(x: u64) -> u64 {
    let mut a = x;
    a = a.wrapping_add(7);
    a ^= 8;
    a = a.rotate_left(7);
    a = a.wrapping_mul(10);
    a = a.wrapping_add(11);
    a ^= 12;
    a = a.rotate_left(11);
    a
}

#[inline(never)]
fn f05(x: u64) -> u64 {
    let mut a = x;
    a ^= 8;
    a = a.rotate_left(7);
    a = a.wrapping_mul(10);
    a
}

#[inline(never)]
fn f06(x: u64) -> u64 {
    let mut a = x;
    a = a.rotate_left(7);
    a = a.wrapping_mul(10);
    a = a.wrapping_add(11);
    a ^= 12;
    a = a.rotate_left(11);
    a = a.wrapping_mul(14);
    a = a.wrapping_add(15);
    a ^= 16;
    a = a.rotate_left(2);
    a = a.wrapping_mul(18);
    a
}

#[inline(never)]
fn f07(x: u64) -> u64 {
    let mut a = x;
    a = a.wrapping_mul(10);
    a = a.wrapping_add(11);
    a ^= 12;
    a = a.rotate_left(11);
    a = a.wrapping_mul(14);
    a = a.wrapping_add(15);
    a
}

#[inline(never)]
fn f08(x: u64) -> u64 {
    let mut a = x;
    a = a.wrapping_add(11);
    a ^= 12;
    a
}

#[inline(never)]
fn f09(x: u64) -> u64 {
    let mut a = x;
    a ^= 12;
    a = a.rotate_left(11);
    a = a.wrapping_mul(14);
    a = a.wrapping_add(15);
    a ^= 16;
    a = a.rotate_left(2);
    a = a.wrapping_mul(18);
    a = a.wrapping_add(19);
    a ^= 20;
    a
}

#[inline(never)]
fn f10(x: u64) -> u64 {
    let mut a = x;
    a = a.rotate_left(11);
    a = a.wrapping_mul(14);
    a = a.wrapping_add(15);
    a ^= 16;
    a = a.rotate_left(2);
    a
}

#[inline(never)]
fn f11(x: u64) -> u64 {
    let mut a = x;
    a = a.wrapping_mul(14);
    a
}

#[inline(never)]
fn f12(x: u64) -> u64 {
    let mut a = x;
    a = a.wrapping_add(15);
    a ^= 16;
    a = a.rotate_left(2);
    a = a.wrapping_mul(18);
    a = a.wrapping_add(19);
    a ^= 20;
    a = a.rotate_left(6);
    a = a.wrapping_mul(22);
    a
}

#[inline(never)]
fn f13(x: u64) -> u64 {
    let mut a = x;
    a ^= 16;
    a = a.rotate_left(2);
    a = a.wrapping_mul(18);
    a = a.wrapping_add(19);
    a
}

#[inline(never)]
fn f14(x: u64) -> u64 {
    let mut a = x;
    a = a.rotate_left(2);
    a = a.wrapping_mul(18);
    a = a.wrapping_add(19);
    a ^= 20;
    a = a.rotate_left(6);
    a = a.wrapping_mul(22);
    a = a.wrapping_add(23);
    a ^= 24;
    a = a.rotate_left(10);
    a = a.wrapping_mul(26);
    a = a.wrapping_add(27);
    a
}

#[inline(never)]
fn f15(x: u64) -> u64 {
    let mut a = x;
    a = a.wrapping_mul(18);
    a = a.wrapping_add(19);
    a ^= 20;
    a = a.rotate_left(6);
    a = a.wrapping_mul(22);
    a = a.wrapping_add(23);
    a ^= 24;
    a
}

#[inline(never)]
fn f16(x: u64) -> u64 {
    let mut a = x;
    a = a.wrapping_add(19);
    a ^= 20;
    a = a.rotate_left(6);
    a
}

#[inline(never)]
fn f17(x: u64) -> u64 {
    let mut a = x;
    a ^= 20;
    a = a.rotate_left(6);
    a = a.wrapping_mul(22);
    a = a.wrapping_add(23);
    a ^= 24;
    a = a.rotate_left(10);
    a = a.wrapping_mul(26);
    a = a.wrapping_add(27);
    a ^= 28;
    a = a.rotate_left(1);
    a
}

#[inline(never)]
fn f18(x: u64) -> u64 {
    let mut a = x;
    a = a.rotate_left(6);
    a = a.wrapping_mul(22);
    a = a.wrapping_add(23);
    a ^= 24;
    a = a.rotate_left(10);
    a = a.wrapping_mul(26);
    a
}

#[inline(never)]
fn f19(x: u64) -> u64 {
    let mut a = x;
    a = a.wrapping_mul(22);
    a = a.wrapping_add(23);
    a
}

#[inline(never)]
fn f20(x: u64) -> u64 {
    let mut a = x;
    a = a.wrapping_add(23);
    a ^= 24;
    a = a.rotate_left(10);
    a = a.wrapping_mul(26);
    a = a.wrapping_add(27);
    a ^= 28;
    a = a.rotate_left(1);
    a = a.wrapping_mul(30);
    a = a.wrapping_add(31);
    a
}

#[inline(never)]
fn f21(x: u64) -> u64 {
    let mut a = x;
    a ^= 24;
    a = a.rotate_left(10);
    a = a.wrapping_mul(26);
    a = a.wrapping_add(27);
    a ^= 28;
    a
}

#[inline(never)]
fn f22(x: u64) -> u64 {
    let mut a = x;
    a = a.rotate_left(10);
    a
}

#[inline(never)]
fn f23(x: u64) -> u64 {
    let mut a = x;
    a = a.wrapping_mul(26);
    a = a.wrapping_add(27);
    a ^= 28;
    a = a.rotate_left(1);
    a = a.wrapping_mul(30);
    a = a.wrapping_add(31);
    a ^= 32;
    a = a.rotate_left(5);
    a
}

#[inline(never)]
fn f24(x: u64) -> u64 {
    let mut a = x;
    a = a.wrapping_add(27);
    a ^= 28;
    a = a.rotate_left(1);
    a = a.wrapping_mul(30);
    a
}

#[inline(never)]
fn f25(x: u64) -> u64 {
    let mut a = x;
    a ^= 28;
    a = a.rotate_left(1);
    a = a.wrapping_mul(30);
    a = a.wrapping_add(31);
    a ^= 32;
    a = a.rotate_left(5);
    a = a.wrapping_mul(34);
    a = a.wrapping_add(35);
    a ^= 36;
    a = a.rotate_left(9);
    a = a.wrapping_mul(38);
    a
}

#[inline(never)]
fn f26(x: u64) -> u64 {
    let mut a = x;
    a = a.rotate_left(1);
    a = a.wrapping_mul(30);
    a = a.wrapping_add(31);
    a ^= 32;
    a = a.rotate_left(5);
    a = a.wrapping_mul(34);
    a = a.wrapping_add(35);
    a
}

#[inline(never)]
fn f27(x: u64) -> u64 {
    let mut a = x;
    a = a.wrapping_mul(30);
    a = a.wrapping_add(31);
    a ^= 32;
    a
}

#[inline(never)]
fn f28(x: u64) -> u64 {
    let mut a = x;
    a = a.wrapping_add(31);
    a ^= 32;
    a = a.rotate_left(5);
    a = a.wrapping_mul(34);
    a = a.wrapping_add(35);
    a ^= 36;
    a = a.rotate_left(9);
    a = a.wrapping_mul(38);
    a = a.wrapping_add(39);
    a ^= 40;
    a
}

#[inline(never)]
fn f29(x: u64) -> u64 {
    let mut a = x;
    a ^= 32;
    a = a.rotate_left(5);
    a = a.wrapping_mul(34);
    a = a.wrapping_add(35);
    a ^= 36;
    a = a.rotate_left(9);
    a
}

fn main() {
    let mut s = black_box(1u64);
    s = f00(s);
    s = f01(s);
    s = f02(s);
    s = f03(s);
    s = f04(s);
    s = f05(s);
    s = f06(s);
    s = f07(s);
    s = f08(s);
    s = f09(s);
    s = f10(s);
    s = f11(s);
    s = f12(s);
    s = f13(s);
    s = f14(s);
    s = f15(s);
    s = f16(s);
    s = f17(s);
    s = f18(s);
    s = f19(s);
    s = f20(s);
    s = f21(s);
    s = f22(s);
    s = f23(s);
    s = f24(s);
    s = f25(s);
    s = f26(s);
    s = f27(s);
    s = f28(s);
    s = f29(s);
    println!("{s}");
}

#![allow(static_mut_refs, unused)]
#[no_mangle]
pub static mut TICK: u64 = 0;
// pre-main gate: when PUPPET_WAIT is set the process waits for one byte on stdin (attach scenarios)
#[used]
#[link_section = ".init_array"]
static GATE: extern "C" fn() = gate;
#[no_mangle]
pub static mut SIGCNT: u64 = 0;
extern "C" fn on_usr1(_s: i32) {
    unsafe {
        SIGCNT += 1;
    }
}
extern "C" fn gate() {
    extern "C" {
        fn getenv(n: *const u8) -> *const u8;
        fn read(fd: i32, b: *mut u8, n: usize) -> isize;
        fn signal(sig: i32, h: extern "C" fn(i32)) -> usize;
    }
    unsafe {
        signal(10, on_usr1); // SIGUSR1: counted, otherwise harmless
        if !getenv(b"PUPPET_WAIT\0".as_ptr()).is_null() {
            let mut b = 0u8;
            read(0, &mut b, 1);
        }
    }
}
#[collapse_debuginfo(yes)]
macro_rules! t {
    () => { unsafe { TICK += 1; } };
    ($e:expr) => {{ unsafe { TICK += 1; } $e }};
}

// C19 puppet: nested blocks 3 deep, sibling blocks with same-named variables, shadowing at three
// depths, a variable declared after most stop lines, loops with block-local variables, and a callee
// whose parameter and locals carry the same names as the caller's.
#[inline(never)]
fn helper(a: i64, x: i64) -> i64 {
    let r = t!(a * 1000 + x);
    let y = t!(r + 7);
    return t!(y - a);
}

#[inline(never)]
fn scopes(a: i64) -> i64 {
    let x = t!(a + 4);
    let x = t!(x + 1);
    let mut r = t!(0);
    {
        let x = t!(x * 2);
        let y = t!(x + 1);
        {
            let z = t!(y + x);
            {
                let w = t!(z + helper(a, x));
                r = t!(r + w);
            }
            r = t!(r + z);
        }
        r = t!(r + y);
    }
    {
        let y = t!(x + 100);
        let q = t!(y + 1);
        r = t!(r + q + helper(q, y));
    }
    let late = t!(r + x);
    let mut i = t!(0);
    while t!(i < 2) {
        let sq = t!(i * i + 50);
        let x = t!(sq + i);
        r = t!(r + x);
        i = t!(i + 1);
    }
    return t!(r + late);
}

fn main() {
    let mut s = t!(0);
    let mut a = t!(1);
    while t!(a < 3) {
        let v = t!(scopes(a));
        s = t!(s + v % 1000);
        a = t!(a + 1);
    }
    t!();
    report(s);
}

// target of injected calls (`call probe_id 7`): does not touch TICK
#[no_mangle]
pub static mut PROBED: i64 = 0;
// never written by the program: a watchpoint armed on it can never fire, on any hardware
#[no_mangle]
pub static mut WATCHME: u64 = 0;
#[inline(never)]
#[no_mangle]
pub fn probe_id(a: i64) -> i64 {
    unsafe {
        PROBED += a;
    }
    a
}

#[inline(never)]
fn gate2() {
    extern "C" {
        fn getenv(n: *const u8) -> *const u8;
        fn read(fd: i32, b: *mut u8, n: usize) -> isize;
    }
    unsafe {
        if !getenv(b"PUPPET_WAIT\0".as_ptr()).is_null() {
            let mut b = 0u8;
            read(0, &mut b, 1);
        }
    }
}

#[inline(never)]
fn report(s: i64) {
    gate2();
    if s == i64::MIN {
        probe_id(s + unsafe { WATCHME } as i64);
    }
    println!("TICK={} S={}", unsafe { TICK }, s);
    std::process::exit((s % 100) as i32);
}

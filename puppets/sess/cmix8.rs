#![allow(static_mut_refs, unused)]
#[no_mangle]
pub static mut TICK: u64 = 0;
// pre-main gate: when PUPPET_WAIT is set the process waits for one byte on stdin (attach scenarios)
#[used]
#[link_section = ".init_array"]
static GATE: extern "C" fn() = gate;
#[no_mangle]
pub static mut SIGCNT: u64 = 0;
extern "C" fn on_usr1(_s: i32) {
    unsafe {
        SIGCNT += 1;
    }
}
extern "C" fn gate() {
    extern "C" {
        fn getenv(n: *const u8) -> *const u8;
        fn read(fd: i32, b: *mut u8, n: usize) -> isize;
        fn signal(sig: i32, h: extern "C" fn(i32)) -> usize;
    }
    unsafe {
        signal(10, on_usr1); // SIGUSR1: counted, otherwise harmless
        if !getenv(b"PUPPET_WAIT\0".as_ptr()).is_null() {
            let mut b = 0u8;
            read(0, &mut b, 1);
        }
    }
}
#[collapse_debuginfo(yes)]
macro_rules! t {
    () => { unsafe { TICK += 1; } };
    ($e:expr) => {{ unsafe { TICK += 1; } $e }};
}

extern "C" {
    // C, built without .eh_frame entries: its call frame information is in .debug_frame only
    fn cmix8_c_apply(v: i64, cb: extern "C" fn(i64) -> i64) -> i64;
    fn cmix8_c_twice(v: i64, cb: extern "C" fn(i64) -> i64) -> i64;
}

#[inline(never)]
extern "C" fn rust_cb(a: i64) -> i64 {
    let b = t!(a * 2);
    return t!(b + 1);
}

#[inline(never)]
extern "C" fn rust_cb_deep(a: i64) -> i64 {
    let mut r = t!(a);
    if t!(a > 0) {
        r = t!(unsafe { cmix8_c_apply(a - 6, rust_cb_deep) });
    }
    return t!(r + 3);
}

#[inline(never)]
fn outer(d: i64) -> i64 {
    let x = t!(d + 40);
    let r = t!(unsafe { cmix8_c_apply(x, rust_cb) });
    let q = t!(unsafe { cmix8_c_twice(r, rust_cb) });
    return t!(q + x);
}

fn main() {
    let mut s = t!(0);
    let mut i = t!(0);
    while t!(i < 3) {
        s = t!(s + outer(i));
        i = t!(i + 1);
    }
    s = t!(s + unsafe { cmix8_c_apply(3, rust_cb_deep) });
    t!();
    report(s);
}

// target of injected calls (`call probe_id 7`): does not touch TICK
#[no_mangle]
pub static mut PROBED: i64 = 0;
// never written by the program: a watchpoint armed on it can never fire, on any hardware
#[no_mangle]
pub static mut WATCHME: u64 = 0;
#[inline(never)]
#[no_mangle]
pub fn probe_id(a: i64) -> i64 {
    unsafe {
        PROBED += a;
    }
    a
}

#[inline(never)]
fn gate2() {
    extern "C" {
        fn getenv(n: *const u8) -> *const u8;
        fn read(fd: i32, b: *mut u8, n: usize) -> isize;
    }
    unsafe {
        if !getenv(b"PUPPET_WAIT\0".as_ptr()).is_null() {
            let mut b = 0u8;
            read(0, &mut b, 1);
        }
    }
}

#[inline(never)]
fn report(s: i64) {
    gate2();
    if s == i64::MIN {
        probe_id(s + unsafe { WATCHME } as i64);
    }
    println!("TICK={} S={}", unsafe { TICK }, s);
    std::process::exit((s % 100) as i32);
}

#![allow(static_mut_refs, unused)]
#[no_mangle]
pub static mut TICK: u64 = 0;
// pre-main gate: when PUPPET_WAIT is set the process waits for one byte on stdin (attach scenarios)
#[used]
#[link_section = ".init_array"]
static GATE: extern "C" fn() = gate;
#[no_mangle]
pub static mut SIGCNT: u64 = 0;
extern "C" fn on_usr1(_s: i32) {
    unsafe {
        SIGCNT += 1;
    }
}
extern "C" fn gate() {
    extern "C" {
        fn getenv(n: *const u8) -> *const u8;
        fn read(fd: i32, b: *mut u8, n: usize) -> isize;
        fn signal(sig: i32, h: extern "C" fn(i32)) -> usize;
    }
    unsafe {
        signal(10, on_usr1); // SIGUSR1: counted, otherwise harmless
        if !getenv(b"PUPPET_WAIT\0".as_ptr()).is_null() {
            let mut b = 0u8;
            read(0, &mut b, 1);
        }
    }
}
#[collapse_debuginfo(yes)]
macro_rules! t {
    () => { unsafe { TICK += 1; } };
    ($e:expr) => {{ unsafe { TICK += 1; } $e }};
}

// arguments that stay in their argument registers (rdi, rsi, rdx, rcx, r8, r9 = DWARF registers 5, 4, 1, 2, 8, 9)
// at the first statements of an optimised function: built at opt-level 1 only
#[inline(never)]
fn six(a: i64, b: i64, c: i64, d: i64, e: i64, f: i64) -> i64 {
    let r = t!(a ^ b);
    let s = t!(r + c * 3);
    let u = t!(s + d * 5);
    return t!(u + e * 7 + f * 11);
}

#[inline(never)]
fn four(a: i64, b: i64, c: i64, d: i64) -> i64 {
    let r = t!(a - b);
    let s = t!(r * c);
    return t!(s + d);
}

#[inline(never)]
fn caller(n: i64) -> i64 {
    let x = t!(n + 2);
    let y = t!(six(x, n, x + 1, n + 5, x * 2, n - 1));
    let z = t!(four(y, x, n + 7, x + 9));
    return t!(y + z);
}

fn main() {
    let mut s = t!(0);
    let mut i = t!(1);
    while t!(i < 4) {
        s = t!(s + caller(i));
        i = t!(i + 1);
    }
    t!();
    report(s);
}

// target of injected calls (`call probe_id 7`): does not touch TICK
#[no_mangle]
pub static mut PROBED: i64 = 0;
// never written by the program: a watchpoint armed on it can never fire, on any hardware
#[no_mangle]
pub static mut WATCHME: u64 = 0;
#[inline(never)]
#[no_mangle]
pub fn probe_id(a: i64) -> i64 {
    unsafe {
        PROBED += a;
    }
    a
}

#[inline(never)]
fn gate2() {
    extern "C" {
        fn getenv(n: *const u8) -> *const u8;
        fn read(fd: i32, b: *mut u8, n: usize) -> isize;
    }
    unsafe {
        if !getenv(b"PUPPET_WAIT\0".as_ptr()).is_null() {
            let mut b = 0u8;
            read(0, &mut b, 1);
        }
    }
}

#[inline(never)]
fn report(s: i64) {
    gate2();
    if s == i64::MIN {
        probe_id(s + unsafe { WATCHME } as i64);
    }
    println!("TICK={} S={}", unsafe { TICK }, s);
    std::process::exit((s % 100) as i32);
}

/* companion of cmix8.rs: compiled with -g -fno-asynchronous-unwind-tables -fno-unwind-tables, so the
   call frame information of these functions exists in .debug_frame only (the Rust code and the
   runtime have theirs in .eh_frame) */
typedef long (*cb_t)(long);
extern unsigned long TICK;

long cmix8_c_apply(long v, cb_t cb) {
    long c_local = v + 5;
    TICK += 1;
    long r = cb(c_local);
    TICK += 1;
    return r - 5;
}

long cmix8_c_twice(long v, cb_t cb) {
    long a, b;
    TICK += 1;
    a = cb(v);
    TICK += 1;
    b = cb(a);
    TICK += 1;
    return a + b - v;
}

#![allow(static_mut_refs, unused)]
#[no_mangle]
pub static mut TICK: u64 = 0;
// pre-main gate: when PUPPET_WAIT is set the process waits for one byte on stdin (attach scenarios)
#[used]
#[link_section = ".init_array"]
static GATE: extern "C" fn() = gate;
#[no_mangle]
pub static mut SIGCNT: u64 = 0;
extern "C" fn on_usr1(_s: i32) {
    unsafe {
        SIGCNT += 1;
    }
}
extern "C" fn gate() {
    extern "C" {
        fn getenv(n: *const u8) -> *const u8;
        fn read(fd: i32, b: *mut u8, n: usize) -> isize;
        fn signal(sig: i32, h: extern "C" fn(i32)) -> usize;
    }
    unsafe {
        signal(10, on_usr1); // SIGUSR1: counted, otherwise harmless
        if !getenv(b"PUPPET_WAIT\0".as_ptr()).is_null() {
            let mut b = 0u8;
            read(0, &mut b, 1);
        }
    }
}
#[collapse_debuginfo(yes)]
macro_rules! t {
    () => { unsafe { TICK += 1; } };
    ($e:expr) => {{ unsafe { TICK += 1; } $e }};
}

// C19 puppet: a caller frame whose locals are addressed off rsp (DW_OP_breg7): an over-aligned local makes rustc
// realign the stack in aligned_mid, so its variables are described relative to rsp, not rbp.  The stop is in
// leaf; aligned_mid is then frame 1 and plain_outer frame 2 (main -> plain_outer -> aligned_mid -> leaf).
#[repr(align(64))]
struct A(i64, i64); // two plain stores, no memset: external calls would end the judged part of the execution

#[inline(never)]
fn leaf(p: i64, q: i64) -> i64 {
    let m = t!(p * 2 + q);
    let w = t!(m + 5);
    return t!(w - p);
}

#[inline(never)]
fn aligned_mid(n: i64) -> i64 {
    let first = t!(n * 100 + 7);
    let a = t!(A(n + 3, n * 2));
    let second = t!(first + a.0);
    let third = t!(leaf(second, n));
    let fourth = t!(leaf(third, first));
    return t!(third + fourth + a.1);
}

#[inline(never)]
fn plain_outer(n: i64) -> i64 {
    let before = t!(n + 40);
    let got = t!(aligned_mid(before));
    let after = t!(got % 1000 + before);
    return t!(after);
}

fn main() {
    let mut s = t!(0);
    let mut n = t!(1);
    while t!(n < 3) {
        let v = t!(plain_outer(n));
        s = t!(s + v);
        n = t!(n + 1);
    }
    t!();
    report(s);
}

// target of injected calls (`call probe_id 7`): does not touch TICK
#[no_mangle]
pub static mut PROBED: i64 = 0;
// never written by the program: a watchpoint armed on it can never fire, on any hardware
#[no_mangle]
pub static mut WATCHME: u64 = 0;
#[inline(never)]
#[no_mangle]
pub fn probe_id(a: i64) -> i64 {
    unsafe {
        PROBED += a;
    }
    a
}

#[inline(never)]
fn gate2() {
    extern "C" {
        fn getenv(n: *const u8) -> *const u8;
        fn read(fd: i32, b: *mut u8, n: usize) -> isize;
    }
    unsafe {
        if !getenv(b"PUPPET_WAIT\0".as_ptr()).is_null() {
            let mut b = 0u8;
            read(0, &mut b, 1);
        }
    }
}

#[inline(never)]
fn report(s: i64) {
    gate2();
    if s == i64::MIN {
        probe_id(s + unsafe { WATCHME } as i64);
    }
    println!("TICK={} S={}", unsafe { TICK }, s);
    std::process::exit((s % 100) as i32);
}

#![allow(static_mut_refs, unused)]
#[no_mangle]
pub static mut TICK: u64 = 0;
// pre-main gate: when PUPPET_WAIT is set the process waits for one byte on stdin (attach scenarios)
#[used]
#[link_section = ".init_array"]
static GATE: extern "C" fn() = gate;
#[no_mangle]
pub static mut SIGCNT: u64 = 0;
extern "C" fn on_usr1(_s: i32) {
    unsafe {
        SIGCNT += 1;
    }
}
extern "C" fn gate() {
    extern "C" {
        fn getenv(n: *const u8) -> *const u8;
        fn read(fd: i32, b: *mut u8, n: usize) -> isize;
        fn signal(sig: i32, h: extern "C" fn(i32)) -> usize;
    }
    unsafe {
        signal(10, on_usr1); // SIGUSR1: counted, otherwise harmless
        if !getenv(b"PUPPET_WAIT\0".as_ptr()).is_null() {
            let mut b = 0u8;
            read(0, &mut b, 1);
        }
    }
}
#[collapse_debuginfo(yes)]
macro_rules! t {
    () => { unsafe { TICK += 1; } };
    ($e:expr) => {{ unsafe { TICK += 1; } $e }};
}

// C19 puppet: recursion with an argument and a local per activation (different value per depth),
// a closure capturing a local (called through a non-inlined trampoline), identical names in caller
// and callee, narrow integer types.
#[inline(never)]
fn apply(f: &dyn Fn(i64) -> i64, v: i64) -> i64 {
    let n = t!(v + 1);
    return t!(f(n));
}

#[inline(never)]
fn clos(n: i64) -> i64 {
    let base = t!(n + 7);
    let loc = t!(base * 3);
    let add = |v: i64| -> i64 {
        let loc = t!(v + base);
        return t!(loc * 2);
    };
    let r = t!(apply(&add, loc));
    return t!(r + loc);
}

#[inline(never)]
fn recd(n: i64, k: i64) -> i64 {
    let loc = t!(n * 10 + k);
    let small = t!((n as i32) * 3 - 1);
    let mut res = t!(loc);
    if t!(n > 0) {
        let sub = t!(recd(n - 1, k + 2));
        res = t!(res + sub);
    } else {
        let sub = t!(clos(k));
        res = t!(res + sub);
    }
    return t!(res + loc + small as i64);
}

fn main() {
    let mut s = t!(0);
    let mut n = t!(2);
    while t!(n < 4) {
        let loc = t!(recd(n, 1));
        s = t!(s + loc % 1000);
        n = t!(n + 1);
    }
    t!();
    report(s);
}

// target of injected calls (`call probe_id 7`): does not touch TICK
#[no_mangle]
pub static mut PROBED: i64 = 0;
// never written by the program: a watchpoint armed on it can never fire, on any hardware
#[no_mangle]
pub static mut WATCHME: u64 = 0;
#[inline(never)]
#[no_mangle]
pub fn probe_id(a: i64) -> i64 {
    unsafe {
        PROBED += a;
    }
    a
}

#[inline(never)]
fn gate2() {
    extern "C" {
        fn getenv(n: *const u8) -> *const u8;
        fn read(fd: i32, b: *mut u8, n: usize) -> isize;
    }
    unsafe {
        if !getenv(b"PUPPET_WAIT\0".as_ptr()).is_null() {
            let mut b = 0u8;
            read(0, &mut b, 1);
        }
    }
}

#[inline(never)]
fn report(s: i64) {
    gate2();
    if s == i64::MIN {
        probe_id(s + unsafe { WATCHME } as i64);
    }
    println!("TICK={} S={}", unsafe { TICK }, s);
    std::process::exit((s % 100) as i32);
}

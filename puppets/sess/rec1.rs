#![allow(static_mut_refs, unused)]
#[no_mangle]
pub static mut TICK: u64 = 0;
#[collapse_debuginfo(yes)]
macro_rules! t {
    () => { unsafe { TICK += 1; } };
    ($e:expr) => {{ unsafe { TICK += 1; } $e }};
}

#[inline(never)]
fn f2(a: i64) -> i64 {
    let b = t!(a + 1);
    return t!(b * 2);
}

#[inline(never)]
fn f1(d: i64) -> i64 {
    let mut acc = t!(d);
    if t!(d > 0) {
        acc = t!(f1(d - 1));
    }
    let r = t!(f2(acc));
    return t!(acc + r);
}

fn main() {
    let mut s = t!(0);
    let mut i = t!(0);
    while t!(i < 3) {
        s = t!(s + f1(i));
        i = t!(i + 1);
    }
    t!();
    report(s);
}

#[inline(never)]
fn report(s: i64) {
    println!("TICK={} S={}", unsafe { TICK }, s);
    std::process::exit((s % 100) as i32);
}

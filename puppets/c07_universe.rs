// C07 puppet: the value universe of spec/Dqe.tla held as locals of `main` at the probe line.
//
// Every local below mirrors one entry of `Env` in spec/Dqe.tla.  The program prints a self-report
// (`C07-ENV {json}`) of its own values in the abstract shape of the specification, every node
// carrying its address ("@"); tools/checks/c07.py compares the self-report with the environment
// TLC prints (a difference is a tool error: program and model out of sync) and uses the addresses
// as the independent ground truth for pointer results.
//
// Build: rustc +1.89 --edition 2021 -g   (done and cached by tools/checks/c07.py)
#![allow(dead_code, unused_variables)]
use std::cell::RefCell;
use std::collections::{BTreeMap, BTreeSet, HashMap, HashSet, VecDeque};
use std::hash::{Hash, Hasher};
use std::rc::Rc;

trait Abs {
    fn body(&self) -> String;
    fn rep(&self) -> String {
        let b = self.body();
        format!("{{\"@\":{},{}}}", self as *const Self as *const u8 as usize, b)
    }
}

fn r<T: Abs>(t: &T) -> String {
    t.rep()
}

fn seq<'a, T: Abs + 'a>(it: impl Iterator<Item = &'a T>) -> String {
    it.map(|x| r(x)).collect::<Vec<_>>().join(",")
}

impl Abs for i32 {
    fn body(&self) -> String {
        format!("\"k\":\"int\",\"i\":{}", self)
    }
}
impl Abs for usize {
    fn body(&self) -> String {
        format!("\"k\":\"int\",\"i\":{}", self)
    }
}
impl Abs for isize {
    fn body(&self) -> String {
        format!("\"k\":\"int\",\"i\":{}", self)
    }
}
impl Abs for f64 {
    fn body(&self) -> String {
        format!("\"k\":\"float\",\"f\":\"{:?}\"", self)
    }
}
impl Abs for bool {
    fn body(&self) -> String {
        format!("\"k\":\"bool\",\"b\":{}", self)
    }
}
impl Abs for String {
    fn body(&self) -> String {
        format!("\"k\":\"str\",\"s\":\"{}\"", self)
    }
}
impl Abs for &'static str {
    fn body(&self) -> String {
        format!("\"k\":\"str\",\"s\":\"{}\"", self)
    }
}
impl<T: Abs, const N: usize> Abs for [T; N] {
    fn body(&self) -> String {
        format!("\"k\":\"array\",\"items\":[{}]", seq(self.iter()))
    }
}
impl<T: Abs> Abs for Vec<T> {
    fn body(&self) -> String {
        format!("\"k\":\"vec\",\"items\":[{}]", seq(self.iter()))
    }
}
impl<T: Abs> Abs for VecDeque<T> {
    fn body(&self) -> String {
        format!("\"k\":\"vecdeque\",\"items\":[{}]", seq(self.iter()))
    }
}
fn kv<'a, K: Abs + 'a, V: Abs + 'a>(it: impl Iterator<Item = (&'a K, &'a V)>) -> String {
    it.map(|(k, v)| format!("[{},{}]", r(k), r(v))).collect::<Vec<_>>().join(",")
}
impl<K: Abs, V: Abs> Abs for HashMap<K, V> {
    fn body(&self) -> String {
        format!("\"k\":\"map\",\"kv\":[{}]", kv(self.iter()))
    }
}
impl<K: Abs, V: Abs> Abs for BTreeMap<K, V> {
    fn body(&self) -> String {
        format!("\"k\":\"map\",\"kv\":[{}]", kv(self.iter()))
    }
}
impl<T: Abs> Abs for HashSet<T> {
    fn body(&self) -> String {
        format!("\"k\":\"set\",\"items\":[{}]", seq(self.iter()))
    }
}
impl<T: Abs> Abs for BTreeSet<T> {
    fn body(&self) -> String {
        format!("\"k\":\"set\",\"items\":[{}]", seq(self.iter()))
    }
}
fn fields(fs: &[(&str, String)]) -> String {
    let inner = fs.iter().map(|(n, v)| format!("[\"{}\",{}]", n, v)).collect::<Vec<_>>().join(",");
    format!("\"k\":\"struct\",\"fields\":[{}]", inner)
}
impl<A: Abs, B: Abs> Abs for (A, B) {
    fn body(&self) -> String {
        fields(&[("__0", r(&self.0)), ("__1", r(&self.1))])
    }
}
// references / Box: a pointer whose target is reported separately as a hidden root
impl<T> Abs for &T {
    fn body(&self) -> String {
        format!("\"k\":\"ptr\",\"addr\":{}", *self as *const T as *const u8 as usize)
    }
}
impl<T> Abs for Box<T> {
    fn body(&self) -> String {
        format!("\"k\":\"ptr\",\"addr\":{}", &**self as *const T as *const u8 as usize)
    }
}
impl<T> Abs for *const T {
    fn body(&self) -> String {
        format!("\"k\":\"ptr\",\"addr\":{}", *self as *const u8 as usize)
    }
}
impl<T> Abs for Rc<T> {
    fn body(&self) -> String {
        // the Rc points at its RcInner {strong, weak, value} (repr(C): value follows two usize counters)
        format!("\"k\":\"rc\",\"addr\":{}", Rc::as_ptr(self) as *const u8 as usize - 16)
    }
}
impl<T: Abs> Abs for RefCell<T> {
    fn body(&self) -> String {
        let v = self.borrow();
        format!("\"k\":\"refcell\",\"fields\":[[\"borrow\",{{\"k\":\"int\",\"i\":0}}],[\"value\",{}]]", r(&*v))
    }
}
impl<T: Abs> Abs for Option<T> {
    fn body(&self) -> String {
        match self {
            None => "\"k\":\"enum\",\"variant\":\"None\",\"payload\":{\"k\":\"struct\",\"fields\":[]}".to_string(),
            Some(v) => format!(
                "\"k\":\"enum\",\"variant\":\"Some\",\"payload\":{{{}}}",
                fields(&[("__0", r(v))])
            ),
        }
    }
}

#[derive(Debug, Clone, PartialEq, Eq, Hash, PartialOrd, Ord)]
struct Key {
    a: i32,
    b: i32,
}
impl Abs for Key {
    fn body(&self) -> String {
        fields(&[("a", r(&self.a)), ("b", r(&self.b))])
    }
}

#[derive(Debug, Clone, PartialEq, Eq, Hash, PartialOrd, Ord)]
enum Color {
    Red,
    Green,
    Blue,
}
impl Abs for Color {
    fn body(&self) -> String {
        format!("\"k\":\"cenum\",\"v\":\"{:?}\"", self)
    }
}

#[derive(Debug, Clone, PartialEq, Eq, Hash, PartialOrd, Ord)]
enum Shape {
    Dot,
    Circle(i32),
    Rect { w: i32, h: i32 },
}
impl Abs for Shape {
    fn body(&self) -> String {
        let (n, p) = match self {
            Shape::Dot => ("Dot", fields(&[])),
            Shape::Circle(rad) => ("Circle", fields(&[("__0", r(rad))])),
            Shape::Rect { w, h } => ("Rect", fields(&[("w", r(w)), ("h", r(h))])),
        };
        format!("\"k\":\"enum\",\"variant\":\"{}\",\"payload\":{{{}}}", n, p)
    }
}

/// float usable as a map key (tuple struct around f64)
#[derive(Debug, Clone, Copy)]
struct Fk(f64);
impl PartialEq for Fk {
    fn eq(&self, o: &Self) -> bool {
        self.0.to_bits() == o.0.to_bits()
    }
}
impl Eq for Fk {}
impl Hash for Fk {
    fn hash<H: Hasher>(&self, h: &mut H) {
        self.0.to_bits().hash(h)
    }
}
impl Abs for Fk {
    fn body(&self) -> String {
        fields(&[("__0", r(&self.0))])
    }
}

struct Pt {
    x: i32,
    y: i32,
}
impl Abs for Pt {
    fn body(&self) -> String {
        fields(&[("x", r(&self.x)), ("y", r(&self.y))])
    }
}

struct Outer {
    id: i32,
    pt: Pt,
    arr: [i32; 3],
    v: Vec<i32>,
    r: &'static i32,
    t: (i32, bool),
}
impl Abs for Outer {
    fn body(&self) -> String {
        fields(&[
            ("id", r(&self.id)),
            ("pt", r(&self.pt)),
            ("arr", r(&self.arr)),
            ("v", r(&self.v)),
            ("r", r(&self.r)),
            ("t", r(&self.t)),
        ])
    }
}

static G: i32 = 77;

#[inline(never)]
fn probe(n: usize) -> usize {
    std::hint::black_box(n) + 1
}

fn main() {
    let x: i32 = 7;
    let fl: f64 = 1.5;
    let flag: bool = true;
    let s: String = String::from("ab");
    let arr: [i32; 5] = [10, 11, 12, 13, 14];
    let arr2: [[i32; 2]; 2] = [[1, 2], [3, 4]];
    let v: Vec<i32> = vec![20, 21, 22, 23];
    let vp: Vec<Pt> = vec![Pt { x: 1, y: 2 }, Pt { x: 3, y: 4 }];
    // ring buffer with a wrapped head: logical content 31,32,33,34
    let mut vd: VecDeque<i32> = VecDeque::with_capacity(4);
    vd.push_back(29);
    vd.push_back(30);
    vd.push_back(31);
    vd.push_back(32);
    vd.pop_front();
    vd.pop_front();
    vd.push_back(33);
    vd.push_back(34);
    let hm_i: HashMap<i32, i32> = HashMap::from([(1, 100), (2, 200), (-3, 300)]);
    let hm_s: HashMap<String, i32> = HashMap::from([("ab".to_string(), 1), ("cd".to_string(), 2)]);
    let hm_b: HashMap<bool, i32> = HashMap::from([(true, 1), (false, 0)]);
    let bm_k: BTreeMap<Key, i32> =
        BTreeMap::from([(Key { a: 1, b: 2 }, 12), (Key { a: 1, b: 3 }, 13), (Key { a: 2, b: 2 }, 22)]);
    let hm_t: HashMap<(i32, bool), i32> = HashMap::from([((1, true), 11), ((2, false), 20)]);
    let hm_c: HashMap<Color, i32> = HashMap::from([(Color::Red, 1), (Color::Blue, 3)]);
    let bm_o: BTreeMap<Option<i32>, i32> = BTreeMap::from([(None, 0), (Some(5), 50), (Some(6), 60)]);
    let hm_f: HashMap<Fk, i32> = HashMap::from([(Fk(1.5), 15), (Fk(-2.25), 22)]);
    let hm_v: HashMap<Vec<i32>, i32> = HashMap::from([(vec![1, 2], 12), (vec![1, 3], 13), (vec![1], 1)]);
    let bm_set: BTreeMap<BTreeSet<(i32, bool)>, i32> = BTreeMap::from([
        (BTreeSet::from([(1, false), (1, true)]), 1),
        (BTreeSet::from([(2, false)]), 2),
    ]);
    let hs: HashSet<i32> = HashSet::from([1, 2, 3]);
    let bs_t: BTreeSet<(i32, bool)> = BTreeSet::from([(1, false), (1, true)]);
    let st: Outer = Outer { id: 9, pt: Pt { x: 1, y: 2 }, arr: [5, 6, 7], v: vec![8, 9], r: &G, t: (4, true) };
    let tup: (i32, Pt) = (3, Pt { x: 5, y: 6 });
    let color: Color = Color::Green;
    let en_c: Shape = Shape::Circle(5);
    let en_r: Shape = Shape::Rect { w: 2, h: 3 };
    let en_d: Shape = Shape::Dot;
    let opt: Option<i32> = Some(3);
    let rx: &i32 = &x;
    let rrx: &&i32 = &rx;
    let rarr: &[i32; 5] = &arr;
    let rst: &Outer = &st;
    let px: *const i32 = &arr[1] as *const i32;
    let bx: Box<Pt> = Box::new(Pt { x: 8, y: 9 });
    let rc: Rc<i32> = Rc::new(41);
    let cell: RefCell<i32> = RefCell::new(55);
    let hm_p: HashMap<*const i32, i32> = HashMap::from([(&x as *const i32, 1), (&arr[2] as *const i32, 2)]);

    // ---- self-report ----------------------------------------------------------------------------
    let roots: Vec<(&str, String)> = vec![
        ("x", r(&x)),
        ("fl", r(&fl)),
        ("flag", r(&flag)),
        ("s", r(&s)),
        ("arr", r(&arr)),
        ("arr2", r(&arr2)),
        ("v", r(&v)),
        ("vp", r(&vp)),
        ("vd", r(&vd)),
        ("hm_i", r(&hm_i)),
        ("hm_s", r(&hm_s)),
        ("hm_b", r(&hm_b)),
        ("bm_k", r(&bm_k)),
        ("hm_t", r(&hm_t)),
        ("hm_c", r(&hm_c)),
        ("bm_o", r(&bm_o)),
        ("hm_f", r(&hm_f)),
        ("hm_v", r(&hm_v)),
        ("bm_set", r(&bm_set)),
        ("hs", r(&hs)),
        ("bs_t", r(&bs_t)),
        ("st", r(&st)),
        ("tup", r(&tup)),
        ("color", r(&color)),
        ("en_c", r(&en_c)),
        ("en_r", r(&en_r)),
        ("en_d", r(&en_d)),
        ("opt", r(&opt)),
        ("rx", r(&rx)),
        ("rrx", r(&rrx)),
        ("rarr", r(&rarr)),
        ("rst", r(&rst)),
        ("px", r(&px)),
        ("bx", r(&bx)),
        ("rc", r(&rc)),
        ("cell", r(&cell)),
        ("hm_p", r(&hm_p)),
        // hidden roots: pointees that are not locals
        ("#G", r(&G)),
        ("#bx", r(&*bx)),
        (
            "#rcbox",
            format!(
                "{{\"@\":{},\"k\":\"struct\",\"fields\":[[\"strong\",{{\"k\":\"opaque\"}}],[\"weak\",{{\"k\":\"opaque\"}}],[\"value\",{}]]}}",
                Rc::as_ptr(&rc) as *const u8 as usize - 16,
                r(&*rc)
            ),
        ),
    ];
    let body = roots.iter().map(|(n, v)| format!("\"{}\":{}", n, v)).collect::<Vec<_>>().join(",");
    println!("C07-ENV {{{}}}", body);
    let n = probe(roots.len()); // PROBE
    println!("C07-DONE {}", n);
}

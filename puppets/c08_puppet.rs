// C08 puppet: the debuggee of the console leg, the DAP leg and the "extras" of the poison leg.
//
// `work` stops at the line marked PROBE with locals of many types in scope (names are the constants
// `XVars` of spec/Console.tla).  Before the probe line the program reports address and size of every
// local (`C08-VAR name addr size`): the driver overwrites exactly these bytes with poison patterns.
// A second thread exists (parked) so that `thread switch 2` is a valid command.
// argv[1] = "segv": dereference a wild pointer after the probe line (the "debuggee crashed" state).
// argv[1] = "plain": `node.next` stays null (no self-referential pointer among the locals).
//
// Build: rustc +1.89 --edition 2021 -g   (done and cached by tools/checks/c08.py)
#![allow(dead_code, unused_variables, unused_mut)]
use std::cell::{Cell, RefCell};
use std::collections::{BTreeMap, BTreeSet, HashMap, HashSet, VecDeque};
use std::marker::PhantomData;
use std::rc::Rc;
use std::sync::mpsc;
use std::sync::Arc;

#[derive(Debug, Clone, Copy)]
struct Pt {
    x: i32,
    y: i32,
}

struct Zst;

struct Node {
    val: i64,
    next: *const Node,
    prev: Option<Box<Node>>,
}

#[derive(Debug, Clone, Copy)]
enum Color {
    Red,
    Green,
    Blue,
}

enum Shape {
    Dot,
    Circle(i32),
    Rect { w: i32, h: i32 },
}

struct Holder<'a> {
    id: u8,
    name: String,
    tags: Vec<&'a str>,
    pt: Pt,
    mark: PhantomData<u64>,
}

#[no_mangle]
#[inline(never)]
pub fn sum2(a: i64, b: i64) -> i64 {
    a.wrapping_add(b)
}

#[no_mangle]
#[inline(never)]
pub fn noarg() -> i64 {
    42
}

macro_rules! report {
    ($($n:ident),* $(,)?) => {
        $( println!("C08-VAR {} {} {}", stringify!($n), &$n as *const _ as *const u8 as usize, std::mem::size_of_val(&$n)); )*
    };
}

#[inline(never)]
fn work(n: i32, crash: bool, plain: bool) -> i64 {
    let i8v: i8 = -5;
    let u8v: u8 = 200;
    let i64v: i64 = -6_000_000_000;
    let u64v: u64 = 18_000_000_000_000_000_000;
    let i128v: i128 = -170_141_183_460_469_231_731_687_303_715_884_105_000;
    let f32v: f32 = 2.5;
    let chr: char = 'q';
    let unit: () = ();
    let zst: Zst = Zst;
    let zarr: [Zst; 3] = [Zst, Zst, Zst];
    let vz: Vec<()> = vec![(), (), ()];
    let strs: &str = "hello";
    let string: String = String::from("world");
    let slice: &[i32] = &[1, 2, 3][..];
    let arr: [i32; 5] = [10, 11, 12, 13, 14];
    let v: Vec<i32> = vec![20, 21, 22, 23];
    let vs: Vec<String> = vec!["a".to_string(), "bc".to_string()];
    let mut vd: VecDeque<i32> = VecDeque::with_capacity(4);
    vd.push_back(29);
    vd.push_back(30);
    vd.push_back(31);
    vd.push_back(32);
    vd.pop_front();
    vd.push_back(33);
    let hm: HashMap<i32, i32> = (0..20).map(|i| (i, i * 10)).collect();
    let hms: HashMap<String, Vec<i32>> = HashMap::from([("k".to_string(), vec![1, 2])]);
    let hs: HashSet<u8> = HashSet::from([1, 2, 3]);
    let bm: BTreeMap<i32, i32> = (0..40).map(|i| (i, i + 100)).collect();
    let bs: BTreeSet<i32> = (0..5).collect();
    let pt: Pt = Pt { x: 1, y: 2 };
    let tup: (i32, Pt, bool) = (3, Pt { x: 5, y: 6 }, true);
    let color: Color = Color::Green;
    let shape: Shape = Shape::Rect { w: 2, h: 3 };
    let opt: Option<i32> = Some(3);
    let optb: Option<Box<Pt>> = Some(Box::new(Pt { x: 7, y: 8 }));
    let res: Result<i32, String> = Err("bad".to_string());
    let rx: &i32 = &arr[0];
    let px: *const i32 = &arr[1] as *const i32;
    let bx: Box<Pt> = Box::new(Pt { x: 8, y: 9 });
    let rc: Rc<i32> = Rc::new(41);
    let arc: Arc<String> = Arc::new("shared".to_string());
    let cell: Cell<i32> = Cell::new(5);
    let rcell: RefCell<Vec<i32>> = RefCell::new(vec![1]);
    let holder: Holder = Holder { id: 1, name: "h".to_string(), tags: vec!["t1", "t2"], pt, mark: PhantomData };
    let mut node: Node = Node { val: 1, next: std::ptr::null(), prev: Some(Box::new(Node { val: 0, next: std::ptr::null(), prev: None })) };
    if !plain {
        node.next = &node as *const Node; // a genuinely self-referential pointer
    }
    let fptr: fn(i64, i64) -> i64 = sum2;
    report!(
        i8v, u8v, i64v, u64v, i128v, f32v, chr, unit, zst, zarr, vz, strs, string, slice, arr, v, vs, vd, hm, hms, hs,
        bm, bs, pt, tup, color, shape, opt, optb, res, rx, px, bx, rc, arc, cell, rcell, holder, node, fptr
    );
    let acc = sum2(n as i64, v.len() as i64); // PROBE
    if crash {
        let p: *const i32 = std::hint::black_box(8usize) as *const i32;
        let bad = unsafe { std::ptr::read_volatile(p) }; // SEGV
        return bad as i64;
    }
    let out = acc + arr[1] as i64 + bm.len() as i64 + hm.len() as i64 + noarg();
    out
}

fn main() {
    let crash = std::env::args().nth(1).as_deref() == Some("segv");
    let plain = std::env::args().nth(1).as_deref() == Some("plain");
    let (tx, rx) = mpsc::channel::<()>();
    let th = std::thread::spawn(move || {
        let _ = rx.recv(); // parked until main is done
    });
    let r = work(1, crash, plain);
    println!("C08-RESULT {}", r);
    drop(tx);
    let _ = th.join();
}

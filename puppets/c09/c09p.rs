// C09 puppet: N worker threads loop K times through a breakpoint site; optionally every worker
// spawns one child thread (which loops K2 times) and exits.  Configured through the environment:
//
//   C09_N=<workers> C09_K=<iterations> C09_K2=<child iterations> C09_SITES=1|2 C09_SPAWN=0|1
//   C09_GATES=fd,fd,...    one read end per logical thread (workers 0..N-1, children N..2N-1); when set,
//                          every statement (site pass, spawn, exit) is preceded by a blocking read(fd,1)
//   C09_ACK=fd             write end of the report pipe: 8-byte messages [kind, logical, 0, 0, u32 value]
//                          kind 1 = thread started (value = tid), 2 = at gate (value = statement index),
//                          3 = thread leaving (value = passes)
//   C09_YIELD=<seed>       free-running mode: seeded sched_yield()/spin between statements (0 = none)
//   C09_PIN=<cpu>|-1       pin every thread to one CPU
//
// Self-reporting: PASS[t] is incremented by the statement on the breakpoint line itself, i.e. it counts
// the executions of the patched instruction's line by logical thread t.  main prints them at exit.
use std::sync::atomic::{AtomicU32, AtomicU64, Ordering::SeqCst};
use std::sync::Mutex;
use std::thread::JoinHandle;

extern "C" {
    fn read(fd: i32, buf: *mut u8, n: usize) -> isize;
    fn write(fd: i32, buf: *const u8, n: usize) -> isize;
    fn sched_yield() -> i32;
    fn sched_setaffinity(pid: i32, sz: usize, mask: *const u64) -> i32;
    fn syscall(n: i64, ...) -> i64;
}

const MAXT: usize = 160;
#[allow(clippy::declare_interior_mutable_const)]
const Z: AtomicU64 = AtomicU64::new(0);
static PASS: [AtomicU64; MAXT] = [Z; MAXT];
static STARTED: AtomicU32 = AtomicU32::new(0);
static CHILDREN: Mutex<Vec<JoinHandle<()>>> = Mutex::new(Vec::new());

#[derive(Clone)]
struct Cfg {
    n: usize,
    k: usize,
    k2: usize,
    sites: usize,
    spawn: bool,
    gates: Vec<i32>,
    ack: i32,
    yield_seed: u64,
    pin: i64,
}

fn env_num(name: &str, default: i64) -> i64 {
    std::env::var(name).ok().and_then(|v| v.parse().ok()).unwrap_or(default)
}

#[inline(never)]
fn site_a(t: usize) {
    PASS[t].fetch_add(1, SeqCst); // BP_A
}

#[inline(never)]
fn site_b(t: usize) {
    PASS[t].fetch_add(1, SeqCst); // BP_B
}

fn tell(cfg: &Cfg, kind: u8, t: usize, v: u32) {
    if cfg.ack < 0 {
        return;
    }
    let mut m = [0u8; 8];
    m[0] = kind;
    m[1] = t as u8;
    m[4..8].copy_from_slice(&v.to_le_bytes());
    unsafe {
        write(cfg.ack, m.as_ptr(), 8);
    }
}

struct Me {
    t: usize,
    stmt: u32,
    rng: u64,
}

fn pause(cfg: &Cfg, me: &mut Me) {
    if let Some(&fd) = cfg.gates.get(me.t) {
        tell(cfg, 2, me.t, me.stmt);
        let mut b = 0u8;
        loop {
            let r = unsafe { read(fd, &mut b, 1) };
            if r == 1 || r == 0 {
                break;
            }
        }
    } else if cfg.yield_seed != 0 {
        me.rng = me.rng.wrapping_mul(6364136223846793005).wrapping_add(1442695040888963407);
        let r = me.rng >> 33;
        match r % 4 {
            0 => {}
            1 => unsafe {
                sched_yield();
            },
            2 => {
                for _ in 0..(r >> 4) % 3 {
                    unsafe {
                        sched_yield();
                    }
                }
            }
            _ => {
                let mut x = 0u64;
                for i in 0..((r >> 4) % 2000) {
                    x = x.wrapping_add(i);
                }
                std::hint::black_box(x);
            }
        }
    }
    me.stmt += 1;
}

fn body(cfg: Cfg, t: usize, iters: usize, may_spawn: bool) {
    let tid = unsafe { syscall(186) } as u32;
    if cfg.pin >= 0 {
        let mask: [u64; 16] = {
            let mut m = [0u64; 16];
            m[(cfg.pin as usize) / 64] = 1 << ((cfg.pin as usize) % 64);
            m
        };
        unsafe {
            sched_setaffinity(0, 128, mask.as_ptr());
        }
    }
    STARTED.fetch_add(1, SeqCst);
    tell(&cfg, 1, t, tid);
    let mut me = Me { t, stmt: 0, rng: cfg.yield_seed.wrapping_mul(t as u64 + 7) | 1 };
    for i in 0..iters {
        pause(&cfg, &mut me);
        if cfg.sites == 2 && (t + i) % 2 == 1 {
            site_b(t);
        } else {
            site_a(t);
        }
    }
    if may_spawn && cfg.spawn {
        pause(&cfg, &mut me);
        let c = cfg.clone();
        let k2 = cfg.k2;
        let n = cfg.n;
        let h = std::thread::spawn(move || body(c, n + t, k2, false));
        CHILDREN.lock().unwrap().push(h);
    }
    pause(&cfg, &mut me);
    tell(&cfg, 3, t, PASS[t].load(SeqCst) as u32);
}

fn main() {
    let gates: Vec<i32> = std::env::var("C09_GATES")
        .ok()
        .map(|s| s.split(',').filter(|x| !x.is_empty()).map(|x| x.parse().unwrap()).collect())
        .unwrap_or_default();
    let cfg = Cfg {
        n: env_num("C09_N", 2) as usize,
        k: env_num("C09_K", 2) as usize,
        k2: env_num("C09_K2", 1) as usize,
        sites: env_num("C09_SITES", 1) as usize,
        spawn: env_num("C09_SPAWN", 0) != 0,
        gates,
        ack: env_num("C09_ACK", -1) as i32,
        yield_seed: env_num("C09_YIELD", 0) as u64,
        pin: env_num("C09_PIN", -1),
    };
    assert!(2 * cfg.n <= MAXT);
    let mut hs = vec![];
    for t in 0..cfg.n {
        let c = cfg.clone();
        let k = cfg.k;
        hs.push(std::thread::spawn(move || body(c, t, k, true)));
    }
    for h in hs {
        h.join().unwrap();
    }
    loop {
        let h = CHILDREN.lock().unwrap().pop();
        match h {
            Some(h) => h.join().unwrap(),
            None => break,
        }
    }
    let total = if cfg.spawn { 2 * cfg.n } else { cfg.n };
    let mut s = String::from("PASS");
    for t in 0..total {
        s.push_str(&format!(" {}={}", t, PASS[t].load(SeqCst)));
    }
    println!("{s}");
}

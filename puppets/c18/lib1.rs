// C18 puppet: shared library (crate-type cdylib).  Line numbers matter: tools/c18_puppet.py finds them by marker.
use std::hint::black_box;

#[inline(never)]
#[no_mangle]
pub extern "C" fn lib_inner(x: u64) -> u64 {
    let y = black_box(x) * 2;
    let z = y + 1; // LINE lib_inner
    black_box(z)
}

#[inline(never)]
#[no_mangle]
pub extern "C" fn lib_add(a: u64, b: u64) -> u64 {
    let s = black_box(a) + black_box(b);
    let t = lib_inner(s); // LINE lib_add
    black_box(t) + 1
}

// C18 puppet: executable with lib1 linked at start-up (DT_NEEDED + rpath).
use std::hint::black_box;

#[link(name = "lib1")]
extern "C" {
    fn lib_add(a: u64, b: u64) -> u64;
}

static mut ACC: u64 = 0;

fn gate(name: &str) {
    // attach mode: wait here until the harness writes one byte to stdin
    if std::env::var("C18_GATE").map(|v| v == name).unwrap_or(false) {
        use std::io::Read;
        let mut b = [0u8; 1];
        let _ = std::io::stdin().read(&mut b);
    }
}

#[inline(never)]
fn stage_pre(x: u64) -> u64 {
    let y = black_box(x) + 1;
    unsafe { ACC += y }; // LINE stage_pre
    y
}

#[inline(never)]
fn stage_mid(x: u64) -> u64 {
    let y = black_box(x) + 2;
    unsafe { ACC += y }; // LINE stage_mid
    y
}

#[inline(never)]
fn stage_closed(x: u64) -> u64 {
    let y = black_box(x) + 3;
    unsafe { ACC += y }; // LINE stage_closed
    y
}

#[inline(never)]
fn stage_reopened(x: u64) -> u64 {
    let y = black_box(x) + 4;
    unsafe { ACC += y }; // LINE stage_reopened
    y
}

fn main() {
    gate("pre");
    let mut v = stage_pre(1);
    gate("mid");
    v = stage_mid(v);
    v += unsafe { lib_add(20, 22) };
    v = stage_closed(v);
    v = stage_reopened(v);
    v += unsafe { lib_add(31, 12) };
    println!("C18 done {} {}", v, unsafe { ACC });
}

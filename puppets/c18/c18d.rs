// C18 puppet: executable that dlopen()s / dlclose()s / dlopen()s lib1 through hand-declared libc FFI.
use std::ffi::{c_char, c_int, c_void, CString};
use std::hint::black_box;

extern "C" {
    fn dlopen(filename: *const c_char, flags: c_int) -> *mut c_void;
    fn dlsym(handle: *mut c_void, symbol: *const c_char) -> *mut c_void;
    fn dlclose(handle: *mut c_void) -> c_int;
}
const RTLD_NOW: c_int = 2;

static mut ACC: u64 = 0;

fn gate(name: &str) {
    // attach mode: wait here until the harness writes one byte to stdin
    if std::env::var("C18_GATE").map(|v| v == name).unwrap_or(false) {
        use std::io::Read;
        let mut b = [0u8; 1];
        let _ = std::io::stdin().read(&mut b);
    }
}

#[inline(never)]
fn stage_pre(x: u64) -> u64 {
    let y = black_box(x) + 1;
    unsafe { ACC += y }; // LINE stage_pre
    y
}

#[inline(never)]
fn stage_mid(x: u64) -> u64 {
    let y = black_box(x) + 2;
    unsafe { ACC += y }; // LINE stage_mid
    y
}

#[inline(never)]
fn stage_closed(x: u64) -> u64 {
    let y = black_box(x) + 3;
    unsafe { ACC += y }; // LINE stage_closed
    y
}

#[inline(never)]
fn stage_reopened(x: u64) -> u64 {
    let y = black_box(x) + 4;
    unsafe { ACC += y }; // LINE stage_reopened
    y
}

type AddFn = unsafe extern "C" fn(u64, u64) -> u64;

fn open(path: &CString) -> (*mut c_void, AddFn) {
    unsafe {
        let h = dlopen(path.as_ptr(), RTLD_NOW);
        if h.is_null() {
            eprintln!("dlopen failed");
            std::process::exit(3);
        }
        let name = CString::new("lib_add").unwrap();
        let f = dlsym(h, name.as_ptr());
        if f.is_null() {
            eprintln!("dlsym failed");
            std::process::exit(4);
        }
        (h, std::mem::transmute::<*mut c_void, AddFn>(f))
    }
}

fn main() {
    let lib = std::env::args().nth(1).expect("usage: c18d <liblib1.so>");
    let path = CString::new(lib).unwrap();
    gate("pre");
    let mut v = stage_pre(1);
    let (h, f) = open(&path);
    gate("mid");
    v = stage_mid(v);
    v += unsafe { f(20, 22) };
    unsafe { dlclose(h) };
    v = stage_closed(v);
    // an anonymous mapping between the two loads makes it likely that the loader picks another place
    let (h2, f2) = open(&path);
    v = stage_reopened(v);
    v += unsafe { f2(31, 12) };
    unsafe { dlclose(h2) };
    println!("C18 done {} {}", v, unsafe { ACC });
}

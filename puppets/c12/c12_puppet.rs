// C12 puppet: prints lines to stdout/stderr around one call of `bp_here`, then exits.
// args: PRE_OUT PRE_ERR POST_OUT POST_ERR EXIT_CODE GAP_MS ERR_FIRST
//   PRE_* lines are printed before bp_here, POST_* after it; within a batch stdout and stderr lines
//   alternate, the first stream is stdout unless ERR_FIRST=1, GAP_MS is slept between two lines.
use std::io::Write;

#[inline(never)]
fn bp_here(n: u32) -> u32 {
    std::hint::black_box(n) + 1
}

fn emit(o: u32, e: u32, tag: &str, gap: u64, err_first: bool) {
    let n = o.max(e);
    for i in 0..n {
        for k in 0..2 {
            let is_err = (k == 0) == err_first;
            if is_err && i < e {
                eprintln!("err {tag} {i}");
                if gap > 0 { std::thread::sleep(std::time::Duration::from_millis(gap)); }
            }
            if !is_err && i < o {
                println!("out {tag} {i}");
                let _ = std::io::stdout().flush();
                if gap > 0 { std::thread::sleep(std::time::Duration::from_millis(gap)); }
            }
        }
    }
}

fn main() {
    let a: Vec<u64> = std::env::args().skip(1).map(|s| s.parse().unwrap_or(0)).collect();
    let g = |i: usize| a.get(i).copied().unwrap_or(0);
    let gap = g(5);
    let ef = g(6) == 1;
    emit(g(0) as u32, g(1) as u32, "pre", gap, ef);
    let mut counter = 5u32;
    counter = bp_here(counter);
    emit(g(2) as u32, g(3) as u32, "post", gap, ef);
    let code = g(4) as i32 + (counter as i32 - 6);
    std::process::exit(code)
}

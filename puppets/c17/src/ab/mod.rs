// module ab ("ab" ends with "b": `b::f` must not select `ab::f`)
#[inline(never)] pub fn f() -> u64 {
    let v = std::hint::black_box(40u64);
    v + 1
}

pub mod b;

// module ab::b
#[inline(never)] pub fn f() -> u64 {
    let v = std::hint::black_box(50u64);
    v + 1
}

#[inline(never)]
pub fn g<T: Copy + Into<u64>>(t: T) -> u64 {
    let x: u64 = t.into();
    std::hint::black_box(x) + 51
}

// module ba::b
#[inline(never)] pub fn f() -> u64 {
    let v = std::hint::black_box(80u64);
    v + 1
}

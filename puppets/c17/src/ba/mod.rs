// module ba ("ba" ends with "a": `a/b.rs` must not select `ba/b.rs`)
#[inline(never)] pub fn f() -> u64 {
    let v = std::hint::black_box(70u64);
    v + 1
}

pub mod b;

// C17 puppet (fixed source).  Every file has a statement of its own `f` on line 3.
#[inline(never)] pub fn f() -> u64 {
    let v = std::hint::black_box(1u64);
    v + 1
}

#[inline(never)]
pub fn xf() -> u64 {
    std::hint::black_box(2u64)
}

#[inline(never)]
pub fn fx() -> u64 {
    std::hint::black_box(3u64)
}

// a generic function instantiated at three types
#[inline(never)]
pub fn g<T: Copy + Into<u64>>(t: T) -> u64 {
    let x: u64 = t.into();
    std::hint::black_box(x) + 4
}

pub mod a;
pub mod ab;
pub mod b;
pub mod ba;
#[path = "sub/xb.rs"]
pub mod xb;
#[path = "sub/b.rs"]
pub mod sb;

extern "C" {
    fn c17dep_entry(x: u64) -> u64;
}

// functions without a linkage name (their path exists only as the chain of DW_TAG_namespace parents)
pub mod ffi {
    #[no_mangle]
    #[inline(never)]
    pub extern "C" fn c17_hook(x: u64) -> u64 {
        std::hint::black_box(x) + 40
    }
    pub mod deep {
        #[no_mangle]
        #[inline(never)]
        pub extern "C" fn c17_deep_hook(x: u64) -> u64 {
            std::hint::black_box(x) + 41
        }
    }
}

use a::b::Tr;

fn main() {
    let mut acc = 0u64;
    acc += f() + xf() + fx();
    acc += g(1u8) + g(2u32) + g(3u64);
    acc += a::f() + a::ff() + a::b::f() + a::b::xf() + a::b::b();
    acc += 5u32.m() + 6u64.m() + 5u32.dm() + 6u64.dm();
    acc += a::b::S::new(7).f() + a::b::S::new(8).get();
    acc += a::b::G::new(9u8).get() as u64 + a::b::G::new(10u64).get();
    acc += ab::f() + ab::b::f() + ab::b::g(1u16) + ab::b::g(2u64);
    acc += b::f() + b::fx() + ba::f() + ba::b::f();
    acc += xb::f() + xb::b() + sb::f();
    let k = std::hint::black_box(11u64);
    let c1 = |x: u64| x + k;
    let c2 = |x: u64| x * k;
    acc += c1(1) + c2(2);
    acc += ffi::c17_hook(1) + ffi::deep::c17_deep_hook(2) + a::b::c17_ab_hook(3);
    acc += unsafe { c17dep_entry(acc) };
    println!("c17 {}", acc);
}

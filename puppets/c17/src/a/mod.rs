// module a
#[inline(never)] pub fn f() -> u64 {
    let v = std::hint::black_box(20u64);
    v + 1
}

#[inline(never)]
pub fn ff() -> u64 {
    std::hint::black_box(21u64)
}

pub mod b;

// module a::b
#[inline(never)] pub fn f() -> u64 {
    let v = std::hint::black_box(30u64);
    v + 1
}

#[inline(never)]
pub fn xf() -> u64 {
    std::hint::black_box(31u64)
}

// a function called like a module
#[inline(never)]
pub fn b() -> u64 {
    std::hint::black_box(32u64)
}

pub trait Tr {
    fn m(&self) -> u64;
    #[inline(never)]
    fn dm(&self) -> u64 {
        self.m() + std::hint::black_box(33u64)
    }
}

impl Tr for u32 {
    #[inline(never)]
    fn m(&self) -> u64 {
        *self as u64 + std::hint::black_box(34u64)
    }
}

impl Tr for u64 {
    #[inline(never)]
    fn m(&self) -> u64 {
        *self + std::hint::black_box(35u64)
    }
}

pub struct S(pub u64);

impl S {
    #[inline(never)]
    pub fn new(x: u64) -> S {
        S(std::hint::black_box(x))
    }
    #[inline(never)]
    pub fn f(&self) -> u64 {
        self.0 + std::hint::black_box(36u64)
    }
    #[inline(never)]
    pub fn get(&self) -> u64 {
        self.0 + std::hint::black_box(37u64)
    }
}

pub struct G<T>(pub T);

impl<T: Copy> G<T> {
    #[inline(never)]
    pub fn new(x: T) -> G<T> {
        G(std::hint::black_box(x))
    }
    #[inline(never)]
    pub fn get(&self) -> T {
        std::hint::black_box(self.0)
    }
}

// after the impl blocks above (method declarations inside the struct DIEs): no linkage name
#[no_mangle]
#[inline(never)]
pub extern "C" fn c17_ab_hook(x: u64) -> u64 {
    std::hint::black_box(x) + 42
}

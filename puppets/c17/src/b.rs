// module b
#[inline(never)] pub fn f() -> u64 {
    let v = std::hint::black_box(60u64);
    v + 1
}

#[inline(never)]
pub fn fx() -> u64 {
    std::hint::black_box(61u64)
}

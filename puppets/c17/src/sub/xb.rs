// module xb, file sub/xb.rs ("xb.rs" ends with "b.rs")
#[inline(never)] pub fn f() -> u64 {
    let v = std::hint::black_box(90u64);
    v + 1
}

#[inline(never)]
pub fn b() -> u64 {
    std::hint::black_box(91u64)
}

// module sb, file sub/b.rs
#[inline(never)] pub fn f() -> u64 {
    let v = std::hint::black_box(100u64);
    v + 1
}

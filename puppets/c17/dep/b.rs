// dep module b
#[inline(never)] pub fn f() -> u64 {
    let v = std::hint::black_box(1030u64);
    v + 1
}

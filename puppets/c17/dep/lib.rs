// C17 puppet, second loaded object (cdylib).  Same layout idea: `f` statement on line 3.
#[inline(never)] pub fn f() -> u64 {
    let v = std::hint::black_box(1000u64);
    v + 1
}

pub mod a;
pub mod b;
#[path = "sub/xb.rs"]
pub mod xb;

#[no_mangle]
pub extern "C" fn c17dep_entry(x: u64) -> u64 {
    x + f() + a::f() + a::b::f() + a::b::only_dep() + b::f() + xb::f()
}

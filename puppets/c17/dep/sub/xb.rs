// dep module xb
#[inline(never)] pub fn f() -> u64 {
    let v = std::hint::black_box(1040u64);
    v + 1
}

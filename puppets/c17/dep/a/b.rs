// dep module a::b
#[inline(never)] pub fn f() -> u64 {
    let v = std::hint::black_box(1020u64);
    v + 1
}

#[inline(never)]
pub fn only_dep() -> u64 {
    std::hint::black_box(1021u64)
}

// dep module a
#[inline(never)] pub fn f() -> u64 {
    let v = std::hint::black_box(1010u64);
    v + 1
}

pub mod b;

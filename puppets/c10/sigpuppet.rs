// C10 puppet: counts handler invocations per signal, loops through a breakpoint site.
// usage: sigpuppet <threads 1..4> <iterations> <spin> [free]   (gated by C10_GO unless `free`)
// build: rustc +1.89 --edition 2021 -g sigpuppet.rs
use std::hint::black_box;
use std::sync::atomic::{AtomicU64, Ordering::SeqCst};

#[no_mangle]
pub static C10_CNT: [AtomicU64; 4] = [AtomicU64::new(0), AtomicU64::new(0), AtomicU64::new(0), AtomicU64::new(0)];
#[no_mangle]
pub static C10_ITER: [AtomicU64; 2] = [AtomicU64::new(0), AtomicU64::new(0)];
/// set by the harness through /proc/pid/mem: the main loop ends after the current iteration
#[no_mangle]
pub static C10_DONE: AtomicU64 = AtomicU64::new(0);
/// gate of the main loop: iteration i starts when C10_GO > i (one initial credit: `start` reaches the site; the
/// harness adds one per `continue` through /proc/pid/mem)
#[no_mangle]
pub static C10_GO: AtomicU64 = AtomicU64::new(1);
static WORKER_DONE: AtomicU64 = AtomicU64::new(0);

const SIGINT: i32 = 2;
const SIGUSR1: i32 = 10;
const SIGUSR2: i32 = 12;
const SIGALRM: i32 = 14;
const SA_RESTART: i32 = 0x1000_0000;

#[repr(C)]
struct SigAction {
    sa_handler: usize,
    sa_mask: [u64; 16],
    sa_flags: i32,
    sa_restorer: usize,
}

extern "C" {
    fn sigaction(signum: i32, act: *const SigAction, old: *mut SigAction) -> i32;
}

extern "C" fn on_sig(sig: i32) {
    let i = match sig {
        SIGUSR1 => 0,
        SIGUSR2 => 1,
        SIGALRM => 2,
        SIGINT => 3,
        _ => return,
    };
    C10_CNT[i].fetch_add(1, SeqCst);
}

#[inline(never)]
fn spin(n: u64) {
    let mut i = 0u64;
    while i < n {
        i = black_box(i) + 1;
    }
}

#[inline(never)]
fn site(i: u64) -> u64 {
    let a = black_box(i) + 1; // BP_SITE
    let b = a * 2;
    b + 1
}

#[inline(never)]
fn wsite(i: u64) -> u64 {
    black_box(i) ^ 1
}

fn worker(n: u64) {
    let mut k = 0u64;
    while WORKER_DONE.load(SeqCst) == 0 {
        spin(n);
        k = wsite(k);
        C10_ITER[1].fetch_add(1, SeqCst);
    }
}

fn main() {
    let args: Vec<String> = std::env::args().collect();
    let threads: u64 = args.get(1).and_then(|s| s.parse().ok()).unwrap_or(1);
    let iters: u64 = args.get(2).and_then(|s| s.parse().ok()).unwrap_or(3);
    let n: u64 = args.get(3).and_then(|s| s.parse().ok()).unwrap_or(200_000);
    for s in [SIGUSR1, SIGUSR2, SIGALRM, SIGINT] {
        let act = SigAction { sa_handler: on_sig as usize, sa_mask: [0; 16], sa_flags: SA_RESTART, sa_restorer: 0 };
        let rc = unsafe { sigaction(s, &act, std::ptr::null_mut()) };
        assert_eq!(rc, 0);
    }
    if args.get(4).map(|s| s == "free").unwrap_or(false) {
        C10_GO.store(u64::MAX, SeqCst);
    }
    let mut hs = Vec::new();
    for _ in 1..threads {
        hs.push(std::thread::spawn(move || worker(n)));
    }
    if !hs.is_empty() {
        while C10_ITER[1].load(SeqCst) == 0 {
            spin(1000);
        }
    }
    let mut acc = 0u64;
    let mut i = 0u64;
    while i < iters && C10_DONE.load(SeqCst) == 0 {
        while C10_GO.load(SeqCst) <= i && C10_DONE.load(SeqCst) == 0 {
            spin(2000);
        }
        spin(n);
        acc += site(i);
        C10_ITER[0].fetch_add(1, SeqCst);
        i += 1;
    }
    WORKER_DONE.store(1, SeqCst);
    for h in hs {
        h.join().unwrap();
    }
    black_box(acc);
    println!(
        "SIG USR1={} USR2={} ALRM={} INT={}",
        C10_CNT[0].load(SeqCst),
        C10_CNT[1].load(SeqCst),
        C10_CNT[2].load(SeqCst),
        C10_CNT[3].load(SeqCst)
    );
}

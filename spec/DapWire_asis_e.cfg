\* (E) as written for defect (e) only: thread_cache survives the end of the process; the other candidate fixes applied.
\* TLC's counterexample to EventsOnceAndCausal is the behaviour replayed against the real adapter.
SPECIFICATION Spec
CONSTANTS
  MaxReq = 6
  Universe <- UniverseE
  QMaxEv = 0
  PreLines = 0
  PostLines = 0
  SeqUnderLock = TRUE
  RespondAfter = TRUE
  FwdHonoursTerm = TRUE
  InitViaQueue = TRUE
  ClearCache = FALSE
  DrainKeepsTerm = FALSE
INVARIANTS TypeOK EventsOnceAndCausal
ALIAS BehAlias

SPECIFICATION Spec
VIEW View
INVARIANTS Emit DecoderEqualsAbstraction
CONSTANTS
  Mode = "colls"
  MaxDepth = 0
  Rot = 1
  LeafSet = "all"
  CtorSet = "all"
  MaxOps = 0
  NKeys = 1
  MaxBulk = 0
  History = FALSE
  Kinds = {"vec"}
  Elems = {"u64"}
  Scripts <- ScriptsR6
  MaxCap = 6
  HbBuckets = {1, 2, 4, 8}
  BtLevels = 3

------------------------------- MODULE DapWire -------------------------------
(* The DAP adapter's wire discipline (src/dap/yadap/session/{mod,control,init}.rs).            *)
(*                                                                                           *)
(* Three writer threads -- the session thread `sess` and the two output forwarders `fout`,   *)
(* `ferr` -- share an atomic sequence counter (`server_seq`) and the transport mutex, which  *)
(* the session also holds while it blocks in `read_message`.  One action per linearization   *)
(* point.  A request handler is a *message plan* (`todo`): which responses/events it sends,  *)
(* in which order, before/after which fallible step, exactly as the code does it.            *)
(*                                                                                           *)
(* The second half is the REFERENCE (what property C12 demands), written as a monitor over   *)
(* the observable history only (requests read, messages on the wire, quiescence points).    *)
(* It is fed by the model's actions here and by recorded real traces in TraceDap.tla.        *)
EXTENDS Naturals, Sequences, FiniteSets, TLC

CONSTANTS
  MaxReq,          \* number of requests the client sends before closing
  Universe,        \* set of <<class, shape>> request kinds the client may send
  QMaxEv,          \* bound on neutral events before/after the response of a query-like request
  PreLines,        \* lines the puppet prints on each stream before its breakpoint site
  PostLines,       \* ... and after it
  SeqUnderLock,    \* FALSE = as written (fetch_add before the lock)       TRUE = candidate fix (a)
  RespondAfter,    \* FALSE = as written (`continue` responds, then fails) TRUE = candidate fix (b)
  FwdHonoursTerm,  \* FALSE = as written (forwarders ignore `terminated`)  TRUE = candidate fix (c)
  InitViaQueue,    \* FALSE = as written (`initialized` bypasses the latch) TRUE = candidate fix (d)
  ClearCache,      \* FALSE = as written (thread_cache survives process end) TRUE = candidate fix (e)
  DrainKeepsTerm   \* FALSE = as written: drain_events empties self.events and THEN returns if terminated (events
                   \* enqueued while terminated are discarded).  TRUE = the mutation family "latch checked before
                   \* the queue is taken": such events stay queued and surface after the next launch resets the latch

Fwd   == {"fout", "ferr"}
Procs == {"sess"} \cup Fwd

VARIABLES
  seq,      \* server_seq: next value fetch_add hands out
  lock,     \* holder of the transport mutex, or "free"
  wire,     \* messages written so far, in byte-stream order
  ppc,      \* control point per thread
  held,     \* sequence number a thread has taken and not yet written
  pending,  \* the message a thread is about to write
  reqlog,   \* requests read so far
  closed,   \* the client closed the connection
  todo,     \* session: rest of the current handler's message plan
  phs,      \* session: "handler" | "top" (the drain at the top of the run loop)
  queue,    \* session: self.events
  termd,    \* session: self.terminated
  dbg,      \* debugger sub-state: none | unloaded | stopped | exited
  mode,     \* session_mode: none | launch
  bpset,    \* a breakpoint at the puppet's site is armed
  phase,    \* process position: pre | post (before / after the breakpoint site)
  gen,      \* process generation (stands for the main thread's id)
  cache,    \* thread_cache: 0 = empty, else the generation whose thread is cached
  minfo,    \* module_info is Some
  left,     \* lines the current process has not printed yet: [pre, post]
  avail,    \* lines sitting in the pipe of each forwarder
  mon,      \* REFERENCE monitor state
  viol      \* REFERENCE violations observed so far

mvars == <<seq, lock, wire, ppc, held, pending, reqlog, closed, todo, phs, queue, termd, dbg, mode,
           bpset, phase, gen, cache, minfo, left, avail>>
vars  == <<mvars, mon, viol>>

\* ---------------------------------------------------------------------------------------------
\* messages and plan items (uniform record shapes)
\* ---------------------------------------------------------------------------------------------
Msg(type, name, rseq, ok, reason, tid) ==
  [seq |-> 0, type |-> type, name |-> name, rseq |-> rseq, ok |-> ok, reason |-> reason, tid |-> tid, by |-> ""]
Ev(name, reason, tid) == Msg("event", name, 0, TRUE, reason, tid)
Neutral == Ev("neutral", "", 0)

It(k, m, how) == [k |-> k, m |-> m, how |-> how]
Resp(ok)   == It("resp", Msg("response", "", 0, ok, "", 0), "")
Direct(m)  == It("direct", m, "")
Enq(m)     == It("enq", m, "")
DrainIt    == It("drain", Neutral, "")
RefreshIt  == It("refresh", Neutral, "")
RunIt(how) == It("run", Neutral, how)
EndIt      == It("end", Neutral, "")
Rep(x, n)  == [i \in 1..n |-> x]

InternalExited     == Ev("#exited", "", 0)       \* InternalEvent::Exited / ::Terminated (never on the wire)
InternalTerminated == Ev("#terminated", "", 0)
Has(q, m) == \E i \in 1..Len(q) : q[i] = m

\* ---------------------------------------------------------------------------------------------
\* REFERENCE: the monitor.  Observations: a request was read; a message hit the wire; the
\* session is quiescent (back in read_message, or gone).
\* ---------------------------------------------------------------------------------------------
Resume  == {"confdone", "continue", "step", "restart"}   \* success => the process ran and stopped/exited
Manual  == {"pause", "goto"}                             \* success => one `stopped`
ExecCtl == Resume \cup Manual

NoCur == <<>>
MonInit == [rterm |-> FALSE, rexited |-> FALSE, rdbg |-> "none", thr |-> {}, cur |-> NoCur, ended |-> FALSE]

V(c, a) == [c |-> c, a |-> a, at |-> Len(wire) + Len(reqlog)]

MustFail(c) == c.shape = "bad" \/ (c.cls \in ExecCtl /\ c.rdbg0 = "none")

\* a request was read
MonReq(m, r) ==
  LET epoch == r.cls \in {"launch", "attach"} /\ r.shape # "bad"   \* a launch that gets as far as starting opens a new epoch
      m1 == IF epoch THEN [m EXCEPT !.rterm = FALSE, !.rexited = FALSE] ELSE m
  IN [m1 EXCEPT !.cur = <<[rseq |-> r.rseq, cmd |-> r.cmd, cls |-> r.cls, shape |-> r.shape,
                           nresp |-> 0, ok |-> TRUE, nstop |-> 0, nexit |-> 0, ncont |-> 0,
                           term0 |-> m1.rterm, rdbg0 |-> m.rdbg]>>]

CurCls(m) == IF m.cur = NoCur THEN "none" ELSE m.cur[1].cls

\* a message hit the wire at position Len(wire)+1
MonMsgViol(m, x) ==
  LET c == m.cur[1] IN
  (IF x.seq # Len(wire) + 1 THEN {V("seq_out_of_order", x.by)} ELSE {})
  \cup
  (IF x.type = "response" THEN
      (IF m.cur = NoCur \/ (m.cur # NoCur /\ (x.rseq # c.rseq \/ x.name # c.cmd))
         THEN {V("unmatched_response", x.name)}
         ELSE (IF c.nresp >= 1 THEN {V("duplicate_response", c.cls)} ELSE {})
              \cup (IF c.nresp = 0 /\ x.ok /\ MustFail(c) THEN {V("failure_not_error", c.cls)} ELSE {}))
   ELSE
      (IF m.rterm THEN {V("event_after_terminated", x.name)} ELSE {})
      \cup (IF x.name = "exited" /\ m.rexited THEN {V("exited_twice", CurCls(m))} ELSE {})
      \cup (IF x.name = "terminated" /\ ~m.rexited /\ CurCls(m) \notin {"terminate", "disconnect", "termthreads"}
              THEN {V("terminated_without_cause", CurCls(m))} ELSE {})
      \cup (IF x.name \in {"stopped", "continued"} /\ m.rdbg = "none"
              THEN {V("event_without_process", x.name)} ELSE {})
      \cup (IF x.name = "continued" /\ m.cur # NoCur /\ (c.nstop + c.nexit > 0)
              THEN {V("continued_after_stop", c.cls)} ELSE {})
      \cup (IF x.name = "thread" /\ x.reason = "started" /\ x.tid \in m.thr
              THEN {V("thread_started_twice", CurCls(m))} ELSE {})
      \cup (IF x.name = "thread" /\ x.reason = "exited" /\ x.tid \notin m.thr
              THEN {V("thread_exited_twice", CurCls(m))} ELSE {}))

MonMsg(m, x) ==
  IF x.type = "response" THEN
     IF m.cur # NoCur /\ x.rseq = m.cur[1].rseq /\ x.name = m.cur[1].cmd
       THEN LET c  == m.cur[1]
                c1 == [c EXCEPT !.nresp = c.nresp + 1, !.ok = IF c.nresp = 0 THEN x.ok ELSE c.ok]
                live == c.cls = "launch" /\ x.ok
            IN [m EXCEPT !.cur = <<c1>>, !.rdbg = IF live THEN "live" ELSE m.rdbg]
       ELSE m
  ELSE
     LET m1 == CASE x.name = "terminated" ->
                      [m EXCEPT !.rterm = TRUE, !.rdbg = IF m.rexited THEN m.rdbg ELSE "none"]
                 [] x.name = "exited" -> [m EXCEPT !.rexited = TRUE]
                 [] x.name = "thread" /\ x.reason = "started" -> [m EXCEPT !.thr = m.thr \cup {x.tid}]
                 [] x.name = "thread" /\ x.reason = "exited"  -> [m EXCEPT !.thr = m.thr \ {x.tid}]
                 [] OTHER -> m
     IN IF m.cur = NoCur THEN m1
        ELSE LET c == m.cur[1] IN
             [m1 EXCEPT !.cur = <<[c EXCEPT !.nstop = c.nstop + (IF x.name = "stopped" THEN 1 ELSE 0),
                                            !.nexit = c.nexit + (IF x.name = "exited" THEN 1 ELSE 0),
                                            !.ncont = c.ncont + (IF x.name = "continued" THEN 1 ELSE 0)]>>]

\* the session is quiescent: the request in `cur` is finished
MonQuietViol(m) ==
  IF m.cur = NoCur THEN {} ELSE
  LET c == m.cur[1]
      owed == c.nresp = 1 /\ c.ok /\ ~c.term0 /\ ~m.rterm    \* events are owed only in a live epoch
      owedx == c.nresp = 1 /\ c.ok /\ ~c.term0               \* ... the request itself may end the epoch
  IN (IF c.nresp = 0 THEN {V("missing_response", c.cls)} ELSE {})
     \cup (IF c.cls \in Resume /\ owedx /\ c.nstop + c.nexit = 0 THEN {V("missing_stop_event", c.cls)} ELSE {})
     \cup (IF c.cls \in Manual /\ owed /\ c.nstop = 0 THEN {V("missing_stop_event", c.cls)} ELSE {})
     \cup (IF c.cls \in ExecCtl /\ c.nstop + c.nexit > 1 THEN {V("duplicate_stop_event", c.cls)} ELSE {})
     \cup (IF c.cls \in ExecCtl /\ c.ncont > 1 THEN {V("duplicate_continued_event", c.cls)} ELSE {})
     \cup (IF c.cls \notin ExecCtl /\ c.nstop + c.ncont + c.nexit > 0 THEN {V("spurious_stop_event", c.cls)} ELSE {})
     \cup (IF c.cls \in ExecCtl /\ c.nresp = 1 /\ ~c.ok /\ c.nstop + c.ncont + c.nexit > 0
             THEN {V("events_for_failed_request", c.cls)} ELSE {})
MonQuiet(m) == [m EXCEPT !.cur = NoCur]

\* the session's run() returned
MonEndViol(m, byClient) ==
  MonQuietViol(m) \cup
  (IF ~byClient /\ CurCls(m) \notin {"terminate", "disconnect"} THEN {V("connection_dropped", CurCls(m))} ELSE {})

\* ---------------------------------------------------------------------------------------------
\* IMPLEMENTATION MODEL
\* ---------------------------------------------------------------------------------------------
Init ==
  /\ seq = 1 /\ lock = "free" /\ wire = <<>>
  /\ ppc = [p \in Procs |-> IF p = "sess" THEN "top" ELSE "idle"]
  /\ held = [p \in Procs |-> 0]
  /\ pending = [p \in Procs |-> Neutral]
  /\ reqlog = <<>> /\ closed = FALSE
  /\ todo = <<>> /\ phs = "top" /\ queue = <<>> /\ termd = FALSE
  /\ dbg = "none" /\ mode = "none" /\ bpset = FALSE /\ phase = "pre" /\ gen = 0 /\ cache = 0 /\ minfo = FALSE
  /\ left = [pre |-> 0, post |-> 0] /\ avail = [f \in Fwd |-> 0]
  /\ mon = MonInit /\ viol = {}

\* ---- generic send: fetch_add ; lock ; write ----------------------------------------------
TakeSeq(p) ==
  /\ ~SeqUnderLock
  /\ ppc[p] = "send"
  /\ held' = [held EXCEPT ![p] = seq] /\ seq' = seq + 1
  /\ ppc' = [ppc EXCEPT ![p] = "lock"]
  /\ UNCHANGED <<lock, wire, pending, reqlog, closed, todo, phs, queue, termd, dbg, mode, bpset, phase,
                 gen, cache, minfo, left, avail, mon, viol>>

\* candidate fix (c): a forwarder that finds the session terminated drops the line (under the lock)
FwdSkips(p) == FwdHonoursTerm /\ p \in Fwd /\ termd

Acquire(p) ==
  /\ ppc[p] = (IF SeqUnderLock THEN "send" ELSE "lock")
  /\ lock = "free"
  /\ IF FwdSkips(p)
       THEN /\ ppc' = [ppc EXCEPT ![p] = "sent"] /\ UNCHANGED <<lock, held, seq>>
       ELSE /\ lock' = p
            /\ ppc' = [ppc EXCEPT ![p] = "write"]
            /\ IF SeqUnderLock THEN held' = [held EXCEPT ![p] = seq] /\ seq' = seq + 1
                               ELSE UNCHANGED <<held, seq>>
  /\ UNCHANGED <<wire, pending, reqlog, closed, todo, phs, queue, termd, dbg, mode, bpset, phase,
                 gen, cache, minfo, left, avail, mon, viol>>

\* x is the message as it appears on the wire (TraceDap passes the recorded one)
WriteMsg(p, x) ==
  /\ ppc[p] = "write" /\ lock = p
  /\ wire' = Append(wire, x)
  /\ viol' = viol \cup MonMsgViol(mon, x)
  /\ mon' = MonMsg(mon, x)
  /\ lock' = "free"
  /\ ppc' = [ppc EXCEPT ![p] = IF p = "sess" THEN "exec" ELSE "sent"]
  /\ UNCHANGED <<seq, held, pending, reqlog, closed, todo, phs, queue, termd, dbg, mode, bpset, phase,
                 gen, cache, minfo, left, avail>>

Write(p) == WriteMsg(p, [pending[p] EXCEPT !.seq = held[p], !.by = p])

\* ---- forwarders ----------------------------------------------------------------------------
FwdLine(f) ==
  /\ ppc[f] \in {"idle", "sent"} /\ avail[f] > 0
  /\ avail' = [avail EXCEPT ![f] = avail[f] - 1]
  /\ pending' = [pending EXCEPT ![f] = Ev("output", "", 0)]
  /\ ppc' = [ppc EXCEPT ![f] = "send"]
  /\ UNCHANGED <<seq, lock, wire, held, reqlog, closed, todo, phs, queue, termd, dbg, mode, bpset, phase,
                 gen, cache, minfo, left, mon, viol>>

\* ---- session: the run loop -----------------------------------------------------------------
\* drain_events(): what is sent for the queued internal events
ProcEnd == (IF minfo THEN <<Direct(Neutral), Direct(Neutral)>> ELSE <<>>)
           \o (IF cache # 0 THEN <<Direct(Ev("thread", "exited", cache))>> ELSE <<>>)
Sendable(q) == SelectSeq(q, LAMBDA e : e \notin {InternalExited, InternalTerminated})
DrainSends ==
  IF termd THEN <<>>
  ELSE IF Has(queue, InternalExited)
    THEN ProcEnd \o <<Direct(Ev("exited", "", 0)), Direct(Ev("terminated", "", 0))>>
  ELSE IF Has(queue, InternalTerminated)
    THEN ProcEnd \o <<Direct(Ev("terminated", "", 0))>>
  ELSE [i \in 1..Len(Sendable(queue)) |-> Direct(Sendable(queue)[i])]
DrainLifecycle == ~termd /\ (Has(queue, InternalExited) \/ Has(queue, InternalTerminated))

DoDrain(rest) ==
  IF termd /\ DrainKeepsTerm
    THEN /\ todo' = rest /\ UNCHANGED <<queue, termd, minfo, cache>>
    ELSE /\ todo' = DrainSends \o rest
         /\ queue' = <<>>
         /\ termd' = (termd \/ DrainLifecycle)
         /\ minfo' = IF DrainLifecycle THEN FALSE ELSE minfo
         /\ cache' = IF DrainLifecycle /\ ClearCache THEN 0 ELSE cache

LoopDrain ==
  /\ ppc["sess"] = "top"
  /\ DoDrain(<<>>)
  /\ phs' = "top"
  /\ ppc' = [ppc EXCEPT !["sess"] = "exec"]
  /\ UNCHANGED <<seq, lock, wire, held, pending, reqlog, closed, dbg, mode, bpset, phase, gen, left, avail,
                 mon, viol>>

ReadBegin ==
  /\ ppc["sess"] = "idle" /\ lock = "free"
  /\ lock' = "sess"
  /\ ppc' = [ppc EXCEPT !["sess"] = "reading"]
  /\ viol' = viol \cup MonQuietViol(mon)
  /\ mon' = MonQuiet(mon)
  /\ UNCHANGED <<seq, wire, held, pending, reqlog, closed, todo, phs, queue, termd, dbg, mode, bpset, phase,
                 gen, cache, minfo, left, avail>>

\* r = [rseq, cmd, cls, shape]
ReadEnd(r) ==
  /\ ppc["sess"] = "reading" /\ ~closed
  /\ lock' = "free"
  /\ reqlog' = Append(reqlog, r)
  /\ mon' = MonReq(mon, r)
  /\ ppc' = [ppc EXCEPT !["sess"] = "disp"]
  /\ UNCHANGED <<seq, wire, held, pending, closed, todo, phs, queue, termd, dbg, mode, bpset, phase,
                 gen, cache, minfo, left, avail, viol>>

ClientClose ==
  /\ ~closed /\ closed' = TRUE
  /\ UNCHANGED <<seq, lock, wire, ppc, held, pending, reqlog, todo, phs, queue, termd, dbg, mode, bpset,
                 phase, gen, cache, minfo, left, avail, mon, viol>>

\* read_message fails ("connection closed"): run() returns Err, the lock guard is dropped
ReadEof ==
  /\ ppc["sess"] = "reading" /\ closed
  /\ lock' = "free"
  /\ ppc' = [ppc EXCEPT !["sess"] = "done"]
  /\ viol' = viol \cup MonEndViol(mon, TRUE)
  /\ mon' = [MonQuiet(mon) EXCEPT !.ended = TRUE]
  /\ UNCHANGED <<seq, wire, held, pending, reqlog, closed, todo, phs, queue, termd, dbg, mode, bpset, phase,
                 gen, cache, minfo, left, avail>>

\* ---- session: message plans per command class (one per behavioural class of handler) -------
Full == [pre |-> PreLines, post |-> PostLines]
StopReason(out) == IF out = "exit" THEN <<Enq(InternalExited), DrainIt>>
                   ELSE <<RefreshIt, Enq(Ev("stopped", "", 0)), DrainIt>>
QPlan(a, b, ok) == Rep(Enq(Neutral), a) \o <<DrainIt, Resp(ok)>> \o Rep(Enq(Neutral), b) \o <<DrainIt>>
InitPlan == IF InitViaQueue THEN <<Resp(TRUE), Enq(Ev("initialized", "", 0)), DrainIt>>
                            ELSE <<Resp(TRUE), Direct(Ev("initialized", "", 0))>>

\* plan, and the state the handler leaves behind (applied at dispatch; nothing observes the difference)
Keep == [dbg |-> dbg, mode |-> mode, bpset |-> bpset, termd |-> termd, gen |-> gen, phase |-> phase,
         minfo |-> minfo, left |-> left]
Plan(cls, shape, a, b, ok) ==
  CASE cls = "init" -> [p |-> InitPlan, s |-> Keep]
    [] cls = "launch" /\ shape = "bad" -> [p |-> <<Resp(FALSE)>>, s |-> Keep]
    [] cls = "launch" /\ shape = "noexec" ->
         [p |-> <<Enq(Neutral), Enq(Neutral), DrainIt, Resp(FALSE)>>,
          s |-> [Keep EXCEPT !.termd = FALSE, !.mode = "launch"]]
    [] cls = "launch" /\ shape = "ok" ->
         [p |-> <<Enq(Neutral), Enq(Neutral), DrainIt>> \o Rep(Enq(Neutral), 5) \o <<Resp(TRUE), DrainIt>>,
          s |-> [Keep EXCEPT !.termd = FALSE, !.mode = "launch", !.dbg = "unloaded", !.bpset = FALSE,
                             !.gen = gen + 1, !.phase = "pre", !.minfo = TRUE, !.left = Full]]
    [] cls = "attach" -> [p |-> <<Resp(FALSE)>>, s |-> Keep]
    [] cls = "confdone" ->
         [p |-> IF dbg = "unloaded" THEN <<RunIt("start")>> ELSE <<Resp(FALSE)>>, s |-> Keep]
    [] cls = "continue" ->
         [p |-> IF RespondAfter
                  THEN (IF dbg = "stopped" THEN <<Enq(Ev("continued", "", 0)), Resp(TRUE), DrainIt,
                                                  RunIt(IF ok THEN "cont" ELSE "contfail")>>
                                           ELSE <<Resp(FALSE)>>)
                  ELSE <<Enq(Ev("continued", "", 0)), Resp(TRUE), DrainIt>>
                       \o (IF dbg = "stopped" THEN <<RunIt(IF ok THEN "cont" ELSE "contfail")>> ELSE <<Resp(FALSE)>>),
          s |-> Keep]
    [] cls = "step" ->
         [p |-> IF dbg = "stopped" /\ ok THEN <<RunIt("step")>> ELSE <<Resp(FALSE)>>, s |-> Keep]   \* ~ok: the step itself fails
    [] cls = "pause" ->
         [p |-> IF dbg = "none" THEN <<Resp(FALSE)>> ELSE <<Resp(TRUE), Enq(Ev("stopped", "", 0))>>, s |-> Keep]
    [] cls = "restart" ->
         [p |-> IF mode # "launch" \/ dbg = "none" THEN <<Resp(FALSE)>> ELSE <<RunIt("restart")>>, s |-> Keep]
    [] cls = "goto" ->
         [p |-> IF shape = "ok" /\ dbg = "stopped" /\ ok
                  THEN <<Resp(TRUE), RefreshIt, Enq(Ev("stopped", "", 0)), DrainIt>> ELSE <<Resp(FALSE)>>,
          s |-> Keep]
    [] cls = "threads" ->
         [p |-> IF dbg = "none" THEN <<Resp(FALSE)>> ELSE <<RefreshIt, Resp(TRUE)>>, s |-> Keep]
    [] cls = "setbp" ->
         [p |-> QPlan(a, b, dbg # "none"), s |-> [Keep EXCEPT !.bpset = bpset \/ dbg # "none"]]
    [] cls = "query" -> [p |-> QPlan(a, b, ok /\ shape # "bad"), s |-> Keep]
    [] cls = "terminate" \/ (cls = "disconnect" /\ shape = "term") ->
         [p |-> <<Resp(TRUE), Enq(InternalTerminated), DrainIt, EndIt>>,
          s |-> [Keep EXCEPT !.dbg = "none", !.left = [pre |-> 0, post |-> 0]]]
    [] cls = "disconnect" /\ shape # "term" ->
         [p |-> <<Resp(TRUE), EndIt>>, s |-> [Keep EXCEPT !.dbg = "none", !.left = [pre |-> 0, post |-> 0]]]
    [] cls = "termthreads" /\ shape = "empty" ->
         [p |-> <<Resp(TRUE), Enq(InternalTerminated), DrainIt>>,
          s |-> [Keep EXCEPT !.dbg = "none", !.left = [pre |-> 0, post |-> 0]]]
    [] cls = "termthreads" /\ shape # "empty" -> [p |-> <<Resp(FALSE)>>, s |-> Keep]

Classes == {"init", "launch", "attach", "confdone", "continue", "step", "pause", "restart", "goto", "threads",
            "setbp", "query", "terminate", "disconnect", "termthreads"}
QueryLike == {"setbp", "query"}

Dispatch(a, b, ok) ==
  /\ ppc["sess"] = "disp"
  /\ LET r == reqlog[Len(reqlog)]
         pl == Plan(r.cls, r.shape, a, b, ok)
     IN /\ r.cls \in Classes
        /\ (r.cls \notin QueryLike => a = 0 /\ b = 0)
        /\ (r.cls \notin {"query", "goto", "step", "continue"} => ok)
        /\ todo' = pl.p
        /\ dbg' = pl.s.dbg /\ mode' = pl.s.mode /\ bpset' = pl.s.bpset /\ termd' = pl.s.termd
        /\ gen' = pl.s.gen /\ phase' = pl.s.phase /\ minfo' = pl.s.minfo /\ left' = pl.s.left
  /\ phs' = "handler"
  /\ ppc' = [ppc EXCEPT !["sess"] = "exec"]
  /\ UNCHANGED <<seq, lock, wire, held, pending, reqlog, closed, queue, cache, avail, mon, viol>>

\* ---- session: executing the plan -----------------------------------------------------------
Cur == reqlog[Len(reqlog)]

ExecSend ==   \* send_response_raw / send_event_raw: the message is built, next comes fetch_add
  /\ ppc["sess"] = "exec" /\ todo # <<>> /\ Head(todo).k \in {"resp", "direct"}
  /\ LET it == Head(todo)
         m  == IF it.k = "resp" THEN [it.m EXCEPT !.rseq = Cur.rseq, !.name = Cur.cmd] ELSE it.m
     IN pending' = [pending EXCEPT !["sess"] = m]
  /\ todo' = Tail(todo)
  /\ ppc' = [ppc EXCEPT !["sess"] = "send"]
  /\ UNCHANGED <<seq, lock, wire, held, reqlog, closed, phs, queue, termd, dbg, mode, bpset, phase, gen,
                 cache, minfo, left, avail, mon, viol>>

EnqBody ==
  /\ ppc["sess"] = "exec" /\ todo # <<>> /\ Head(todo).k = "enq"
  /\ queue' = Append(queue, Head(todo).m)
  /\ todo' = Tail(todo)
  /\ UNCHANGED <<seq, lock, wire, ppc, held, pending, reqlog, closed, phs, termd, dbg, mode, bpset, phase,
                 gen, cache, minfo, left, avail, mon, viol>>
ExecEnq == ~termd /\ EnqBody
\* a request handler enqueues an internal event while the session is terminated (pause / restart / step / goto /
\* threads / breakpoint and query progress / a redundant terminateThreads after the end of the debuggee): the
\* event must be discarded by the next drain and must never surface in a later launch
ExecEnqTerm == termd /\ EnqBody

ExecDrain ==
  /\ ppc["sess"] = "exec" /\ todo # <<>> /\ Head(todo).k = "drain"
  /\ DoDrain(Tail(todo))
  /\ UNCHANGED <<seq, lock, wire, ppc, held, pending, reqlog, closed, phs, dbg, mode, bpset, phase, gen,
                 left, avail, mon, viol>>

\* refresh_threads_with_events(): compare the live thread set with thread_cache
ExecRefresh ==
  /\ ppc["sess"] = "exec" /\ todo # <<>> /\ Head(todo).k = "refresh"
  /\ LET live == IF dbg = "stopped" THEN gen ELSE 0 IN
       /\ queue' = queue \o (IF live # cache /\ live # 0 THEN <<Ev("thread", "started", live)>> ELSE <<>>)
                         \o (IF live # cache /\ cache # 0 THEN <<Ev("thread", "exited", cache)>> ELSE <<>>)
       /\ cache' = live
  /\ todo' = Tail(todo)
  /\ UNCHANGED <<seq, lock, wire, ppc, held, pending, reqlog, closed, phs, termd, dbg, mode, bpset, phase,
                 gen, minfo, left, avail, mon, viol>>

\* the fallible step: the debugger resumes the debuggee and blocks until it stops or exits.
\* out \in {"stop", "exit"};  more = the lines printed when the process does not exit
ExecRun(out, more) ==
  /\ ppc["sess"] = "exec" /\ todo # <<>> /\ Head(todo).k = "run"
  /\ LET how == Head(todo).how
         base == IF how = "restart" /\ dbg = "exited" THEN Full ELSE left   \* lines the running process will print
         n   == IF out = "exit" THEN base.pre + base.post ELSE more
         live == how = "restart" /\ dbg = "stopped"
     IN
     /\ CASE how = "start" -> /\ out = (IF bpset THEN "stop" ELSE "exit")
                              /\ more = left.pre
                              /\ todo' = <<Resp(TRUE)>> \o StopReason(out)
                              /\ UNCHANGED gen
          [] how = "cont"  -> /\ out = (IF bpset /\ phase = "pre" THEN "stop" ELSE "exit")
                              /\ more = left.pre
                              /\ todo' = StopReason(out)
                              /\ UNCHANGED gen
          [] how = "contfail" -> \* continue_debugee_with_reason returns Err after the response went out:
                                 \* as written run()'s error arm answers the same request a second time
                                 /\ out = "stop" /\ more = 0
                                 \* (candidate fix: no second response; the process is still stopped, say so)
                                 /\ todo' = IF RespondAfter THEN <<Enq(Ev("stopped", "", 0)), DrainIt>> ELSE <<Resp(FALSE)>>
                                 /\ UNCHANGED gen
          [] how = "step"  -> /\ more \in {0, left.pre + left.post}
                              /\ todo' = <<Enq(Ev("continued", "", 0)), Resp(TRUE)>>
                                         \o (IF out = "exit" THEN <<Enq(InternalExited), DrainIt>>
                                                             ELSE <<Enq(Ev("stopped", "", 0)), DrainIt>>)
                              /\ UNCHANGED gen
          [] how = "restart" -> \* start_debugee_force: a live (stopped) process is replaced and the stop is
                                \* announced as `entry`; a process that is not running (never started, or
                                \* exited) is (re)started and runs to its first stop or to its end
                                /\ IF dbg = "stopped"
                                     THEN out = "stop" /\ more = 0
                                     ELSE out = (IF bpset THEN "stop" ELSE "exit") /\ more = base.pre
                                /\ gen' = IF dbg = "unloaded" THEN gen ELSE gen + 1
                                /\ todo' = <<Resp(TRUE)>> \o StopReason(out)
     /\ dbg' = IF out = "exit" THEN "exited" ELSE "stopped"   \* (a failed continue leaves the process stopped)
     /\ phase' = IF live THEN "pre" ELSE IF how = "contfail" THEN phase ELSE "post"
     /\ bpset' = IF live THEN FALSE ELSE bpset
     /\ left' = IF live THEN Full
                ELSE IF n = base.pre + base.post THEN [pre |-> 0, post |-> 0]
                ELSE IF n = 0 THEN base
                ELSE [pre |-> 0, post |-> base.post]
     /\ avail' = [f \in Fwd |-> avail[f] + n]
  /\ UNCHANGED <<seq, lock, wire, ppc, held, pending, reqlog, closed, phs, queue, termd, mode, cache, minfo,
                 mon, viol>>

ExecEnd ==   \* dispatch returned Ok(false): run() returns Ok
  /\ ppc["sess"] = "exec" /\ todo # <<>> /\ Head(todo).k = "end"
  /\ ppc' = [ppc EXCEPT !["sess"] = "done"]
  /\ todo' = <<>>
  /\ viol' = viol \cup MonEndViol(mon, FALSE)
  /\ mon' = [MonQuiet(mon) EXCEPT !.ended = TRUE]
  /\ UNCHANGED <<seq, lock, wire, held, pending, reqlog, closed, phs, queue, termd, dbg, mode, bpset, phase,
                 gen, cache, minfo, left, avail>>

ExecDone ==  \* plan finished: handler -> top of the loop; top drain -> read
  /\ ppc["sess"] = "exec" /\ todo = <<>>
  /\ ppc' = [ppc EXCEPT !["sess"] = IF phs = "handler" THEN "top" ELSE "idle"]
  /\ UNCHANGED <<seq, lock, wire, held, pending, reqlog, closed, todo, phs, queue, termd, dbg, mode, bpset,
                 phase, gen, cache, minfo, left, avail, mon, viol>>

SessLocal == ExecSend \/ ExecEnq \/ ExecEnqTerm \/ ExecDrain \/ ExecRefresh \/ ExecEnd \/ ExecDone \/ LoopDrain
Runs == \E out \in {"stop", "exit"}, more \in 0..(2 * (PreLines + PostLines)) : ExecRun(out, more)

\* ---- the environment of the exhaustive model: the client -----------------------------------
CmdOf(k) == k[1]     \* in the model a class stands for its commands
ClientSends ==
  /\ Len(reqlog) < MaxReq
  /\ \E k \in Universe : ReadEnd([rseq |-> Len(reqlog) + 1, cmd |-> CmdOf(k), cls |-> k[1], shape |-> k[2]])
ClientCloses == Len(reqlog) = MaxReq /\ ppc["sess"] = "reading" /\ ClientClose

Next ==
  \/ \E p \in Procs : TakeSeq(p) \/ Acquire(p) \/ Write(p)
  \/ \E f \in Fwd : FwdLine(f)
  \/ ReadBegin \/ ClientSends \/ ClientCloses \/ ReadEof
  \/ \E a, b \in 0..QMaxEv, ok \in BOOLEAN : Dispatch(a, b, ok)
  \/ SessLocal \/ Runs

Spec == Init /\ [][Next]_vars

\* ---------------------------------------------------------------------------------------------
\* PROPERTIES (C12)
\* ---------------------------------------------------------------------------------------------
Vio(cs) == {v \in viol : v.c \in cs}
WireSeqOrdered         == \A i \in 1..Len(wire) : wire[i].seq = i
WireSeqOrderedMon      == Vio({"seq_out_of_order"}) = {}
OneResponsePerRequest  == Vio({"duplicate_response", "missing_response", "unmatched_response"}) = {}
EventsOnceAndCausal    == Vio({"exited_twice", "terminated_without_cause", "event_without_process", "continued_after_stop",
                               "thread_started_twice", "thread_exited_twice", "missing_stop_event",
                               "duplicate_stop_event", "duplicate_continued_event", "spurious_stop_event",
                               "events_for_failed_request"}) = {}
NoEventAfterTerminated == Vio({"event_after_terminated"}) = {}
FailureIsErrorResponse == Vio({"failure_not_error", "connection_dropped"}) = {}

\* the reference stated directly on the history, for the two properties that have a closed form
NoEventAfterTerminatedW ==
  \A i, j \in 1..Len(wire) :
     (i < j /\ wire[i].type = "event" /\ wire[i].name = "terminated" /\ wire[j].type = "event")
       => \E k \in 1..Len(reqlog) : reqlog[k].cls = "launch" /\ reqlog[k].shape # "bad"
AtMostOneResponseW ==
  \A i, j \in 1..Len(wire) :
     (i < j /\ wire[i].type = "response" /\ wire[j].type = "response") => wire[i].rseq # wire[j].rseq

\* sanity of the model itself
TypeOK == /\ lock \in Procs \cup {"free"}
          /\ (ppc["sess"] = "reading" => lock = "sess")
          /\ \A p \in Procs : ppc[p] = "write" => lock = p
          /\ dbg \in {"none", "unloaded", "stopped", "exited"}

\* G mode: terminal states print the behaviour (requests + writer order) for replay
Terminal == ppc["sess"] = "done" /\ \A f \in Fwd : avail[f] = 0 /\ ppc[f] \in {"idle", "sent"}
=============================================================================

---------------------------- MODULE TraceKernel ----------------------------
(* Mode (V) for C09: validate recorded syscall-grain traces of the REAL tracer     *)
(* against the kernel model (DESIGN App. A) and evaluate the property on the       *)
(* reconstructed kernel state at every step of the real run.                       *)
(*                                                                                 *)
(* The trace holds what the tracer thread did (ptrace requests, wait results, in   *)
(* the interposer's total order) plus the harness' prompt probes.  What the        *)
(* debuggee threads did is NOT logged: it is inferred on demand (`Silent`): only   *)
(* the thread step that the next logged `wait` needs.                              *)
(*                                                                                 *)
(* Monitor style: a step of the real run that the kernel model cannot explain      *)
(* rejects the trace (model error, never a finding); everything the PROPERTY       *)
(* talks about is judged into `viol` and printed as a verdict, so one TLC run      *)
(* judges many sessions (each starts with a `head` event).                         *)
(*                                                                                 *)
(* Events (normalised by tools/checks/c09.py, purely syntactically):               *)
(*  head    [id, main, tids, bps, pass (<<tid, n>> pairs), complete]               *)
(*  cmd     [tasks]                     /proc states just before the command       *)
(*  report  [kind, tid, pc, tasks, threads, bstopped]                              *)
(*  patch   [addr, byte]   setregs [tid, pc, old]   cont/step [tid, ret]           *)
(*  interrupt [tid, ret]   wait [sel, tid, kind, child]                            *)
EXTENDS Integers, Sequences, FiniteSets, TLC, Json, IOUtils

Rec == IF "TRACE" \in DOMAIN IOEnv THEN ndJsonDeserialize(IOEnv.TRACE) ELSE <<>>
N == Len(Rec)

VARIABLES l,        \* next event to consume
          sid,      \* id of the current session
          main, bps, pass,
          kst, kstop, unrep, intr, mid, sstep,     \* kernel truth, reconstructed
          at,       \* pc a stopped task was last placed at by the tracer (0 = unknown)
          code,     \* addresses holding int3
          prompt,
          owed, nrep,                              \* report accounting (reading rule R1)
          viol,     \* verdicts
          stats
vars == <<l, sid, main, bps, pass, kst, kstop, unrep, intr, mid, sstep, at, code, prompt, owed, nrep, viol, stats>>
kvars == <<kst, kstop, unrep, intr, mid, sstep>>

SeqToSet(s) == {s[i] : i \in 1..Len(s)}
V(cls, act, exp, actl) == [k |-> l, sid |-> sid, class |-> cls, action |-> act, expected |-> exp, actual |-> actl]

Init == /\ l = 1 /\ sid = "" /\ main = 0 /\ bps = {} /\ pass = <<>>
        /\ kst = <<>> /\ kstop = <<>> /\ unrep = <<>> /\ intr = <<>> /\ mid = <<>> /\ sstep = <<>> /\ at = <<>>
        /\ code = {} /\ prompt = FALSE /\ owed = <<>> /\ nrep = <<>>
        /\ viol = <<>> /\ stats = <<>>

Ev == Rec[l]
Is(name) == l <= N /\ Ev.ev = name
Adv == l' = l + 1
Tids == DOMAIN kst
Known(t) == t \in Tids

\* ---- session start ------------------------------------------------------------------------------
SessHead == /\ Is("head") /\ Adv
        /\ LET ts == SeqToSet(Ev.tids) IN
           /\ sid' = Ev.id /\ main' = Ev.main /\ bps' = SeqToSet(Ev.bps) /\ pass' = Ev.pass
           /\ kst' = [t \in ts |-> IF t = Ev.main THEN "stopped" ELSE "unborn"]
           /\ kstop' = [t \in ts |-> IF t = Ev.main THEN "sigstop" ELSE "none"]
           /\ unrep' = [t \in ts |-> FALSE] /\ intr' = [t \in ts |-> "no"]
           /\ mid' = [t \in ts |-> FALSE] /\ sstep' = [t \in ts |-> FALSE]
           /\ at' = [t \in ts |-> 0] /\ owed' = [t \in ts |-> FALSE] /\ nrep' = [t \in ts |-> 0]
        /\ code' = {} /\ prompt' = FALSE
        /\ UNCHANGED <<viol, stats>>

\* ---- prompt probes ------------------------------------------------------------------------------
TaskState(tasks, t) == IF ToString(t) \in DOMAIN tasks THEN tasks[ToString(t)] ELSE "-"
ProbeTids(tasks) == {t \in Tids : ToString(t) \in DOMAIN tasks}
\* the property's first sentence, on the independent observable: every task of the process that is not
\* dead sits in a tracing stop
\* (a task the tracer has released from its PTRACE_EVENT_EXIT stop runs the kernel's exit path for a moment
\* before it shows as Z: it executes no user code any more and is not a live thread -- model state zombie)
Dying(t) == kst[t] \in {"zombie", "exited"}
NotStopped(tasks) == {t \in ProbeTids(tasks) : tasks[ToString(t)] \notin {"t", "Z", "X"} /\ ~Dying(t)}
LiveByProbe(tasks) == {t \in ProbeTids(tasks) : tasks[ToString(t)] \notin {"Z", "X"} /\ ~Dying(t)}
\* kernel-model validation: a task the model holds stopped must show `t` (else the MODEL is wrong)
\* (exception: a child whose birth stop the tracer has not collected yet -- the model enters it into its event
\* stop together with its creator's PTRACE_EVENT_CLONE, the kernel only when the child is first scheduled; until
\* then it is runnable without having executed anything.  All other stops are inferred right before the wait
\* that returns them.  Such a task still counts for not_all_stopped: a stop reported before the tracer has
\* seen every thread stopped is what the property excludes.)
ProbeDisagrees(tasks) == {t \in Tids : kst[t] = "stopped" /\ TaskState(tasks, t) # "t"
                                       /\ ~(unrep[t] /\ kstop[t] = "event_stop")}
ProbeChecks(act, tasks) ==
  (IF NotStopped(tasks) # {}
     THEN <<V("not_all_stopped", act, "every task in tracing stop",
              [t \in NotStopped(tasks) |-> <<tasks[ToString(t)], kst[t]>>])>> ELSE <<>>) \o
  (IF ProbeDisagrees(tasks) # {}
     THEN <<V("MODEL_probe_disagrees", act, "t", [t \in ProbeDisagrees(tasks) |-> TaskState(tasks, t)])>> ELSE <<>>) \o
  (IF {t \in Tids : kst[t] = "running" /\ TaskState(tasks, t) = "t"} # {}
     THEN <<V("NOTE_unconsumed_stop_at_prompt", act, "", {t \in Tids : kst[t] = "running" /\ TaskState(tasks, t) = "t"})>> ELSE <<>>)

Cmd == /\ Is("cmd") /\ Adv /\ prompt' = FALSE
       /\ viol' = viol \o (IF prompt /\ "tasks" \in DOMAIN Ev THEN ProbeChecks("stays_stopped", Ev.tasks) ELSE <<>>)
       /\ UNCHANGED <<sid, main, bps, pass, kst, kstop, unrep, intr, mid, sstep, at, code, owed, nrep, stats>>

PassOf(t) == LET S == {i \in 1..Len(pass) : pass[i][1] = t} IN IF S = {} THEN -1 ELSE pass[CHOOSE i \in S : TRUE][2]
ExitChecks ==
  LET ws == {pass[i][1] : i \in 1..Len(pass)} IN
  (IF {t \in Tids : owed[t]} # {} THEN <<V("missed_arrival", "exit", "every arrival reported", {t \in Tids : owed[t]})>> ELSE <<>>) \o
  (IF {t \in ws : Known(t) /\ PassOf(t) > nrep[t]} # {}
     THEN <<V("arrival_not_reported", "exit", [t \in {x \in ws : Known(x) /\ PassOf(x) > nrep[x]} |-> PassOf(t)],
              [t \in {x \in ws : Known(x) /\ PassOf(x) > nrep[x]} |-> nrep[t]])>> ELSE <<>>) \o
  (IF {t \in ws : Known(t) /\ PassOf(t) < nrep[t]} # {}
     THEN <<V("reported_more_than_arrived", "exit", [t \in {x \in ws : Known(x) /\ PassOf(x) < nrep[x]} |-> PassOf(t)],
              [t \in {x \in ws : Known(x) /\ PassOf(x) < nrep[x]} |-> nrep[t]])>> ELSE <<>>) \o
  (IF {t \in Tids : kst[t] \notin {"exited", "unborn"}} # {}
     THEN <<V("exit_with_live_tasks", "exit", {}, [t \in {x \in Tids : kst[x] \notin {"exited", "unborn"}} |-> kst[t]])>> ELSE <<>>)

StopKinds == {"breakpoint", "signal", "watchpoint", "step"}      \* reports after which the user has a prompt
Report ==
  /\ Is("report") /\ Adv /\ prompt' = (Ev.kind \in StopKinds)
  /\ LET t == Ev.tid
         isbp == Ev.kind = "breakpoint"
         believed == SeqToSet(Ev.threads)
         bst == SeqToSet(Ev.bstopped)
         live == LiveByProbe(Ev.tasks)
     IN
     /\ viol' = viol \o
          (IF Ev.kind \in StopKinds THEN
             ProbeChecks("report", Ev.tasks) \o
             (IF believed # live THEN <<V("thread_list_mismatch", "report", live, believed)>> ELSE <<>>) \o
             (IF {x \in bst : ~Known(x) \/ kst[x] # "stopped"} # {}
                THEN <<V("belief_unsound", "report", "stopped", {x \in bst : ~Known(x) \/ kst[x] # "stopped"})>> ELSE <<>>) \o
             (IF believed \ bst # {} THEN <<V("NOTE_believed_running_at_prompt", "report", {}, believed \ bst)>> ELSE <<>>)
           ELSE <<>>) \o
          (IF isbp THEN
             (IF ~Known(t) THEN <<V("report_unknown_thread", "report", Tids, t)>>
              ELSE (IF ~owed[t] THEN <<V("spurious_report", "report", "an unreported arrival of the thread", [tid |-> t, pc |-> Ev.pc, at |-> at[t], nrep |-> nrep[t]])>> ELSE <<>>) \o
                   (IF owed[t] /\ at[t] # Ev.pc THEN <<V("report_wrong_pc", "report", at[t], Ev.pc)>> ELSE <<>>) \o
                   (IF kst[t] # "stopped" THEN <<V("reported_thread_not_stopped", "report", "stopped", kst[t])>> ELSE <<>>))
           ELSE <<>>) \o
          (IF Ev.kind = "exit" THEN ExitChecks
           ELSE IF Ev.kind \in StopKinds THEN <<>>
           ELSE <<V("command_failed", "report", "stop or exit", [kind |-> Ev.kind, err |-> Ev.err])>>)
     /\ owed' = IF isbp /\ Known(t) THEN [owed EXCEPT ![t] = FALSE] ELSE owed
     /\ nrep' = IF isbp /\ Known(t) THEN [nrep EXCEPT ![t] = @ + 1] ELSE nrep
     /\ stats' = IF Ev.kind = "exit" THEN Append(stats, [sid |-> sid, nrep |-> nrep, k |-> l]) ELSE stats
  /\ UNCHANGED <<sid, main, bps, pass, kst, kstop, unrep, intr, mid, sstep, at, code>>

\* ---- logged tracer requests ---------------------------------------------------------------------
Patch == /\ Is("patch") /\ Adv
         /\ code' = IF Ev.byte = "int3" THEN code \cup {Ev.addr} ELSE code \ {Ev.addr}
         /\ UNCHANGED <<sid, main, bps, pass, kst, kstop, unrep, intr, mid, sstep, at, prompt, owed, nrep, viol, stats>>

SetRegs == /\ Is("setregs") /\ Adv /\ Known(Ev.tid) /\ kst[Ev.tid] = "stopped"
           /\ LET t == Ev.tid
                  rewind == mid[t] /\ Ev.pc = Ev.old - 1 IN
              /\ mid' = IF rewind THEN [mid EXCEPT ![t] = FALSE] ELSE mid
              /\ at' = [at EXCEPT ![t] = Ev.pc]
              \* an arrival: the thread executed the INT3 of an enabled user breakpoint (R1); re-trapping on
              \* the same address without having passed it is the same arrival
              /\ owed' = IF rewind /\ Ev.pc \in bps /\ Ev.pc \in code THEN [owed EXCEPT ![t] = TRUE] ELSE owed
              /\ viol' = viol \o (IF ~rewind /\ Ev.pc # Ev.old
                                    THEN <<V("unexpected_pc_write", "setregs", Ev.old, Ev.pc)>> ELSE <<>>)
           /\ UNCHANGED <<sid, main, bps, pass, kst, kstop, unrep, intr, sstep, code, prompt, nrep, stats>>

Resume(single) ==
   /\ Is(IF single THEN "step" ELSE "cont") /\ Adv /\ Known(Ev.tid)
   /\ LET t == Ev.tid IN
      IF Ev.ret # 0
      THEN \* ESRCH: the task is not in a ptrace-stop
           /\ kst[t] # "stopped"
           /\ UNCHANGED <<kst, kstop, unrep, intr, mid, sstep, at, owed, viol>>
      ELSE
        /\ kst[t] = "stopped"                      \* a successful resume needs a ptrace-stop
        /\ viol' = viol \o
             (IF mid[t] THEN <<V("resume_mid_instruction", Ev.ev, "pc rewound to the breakpoint address", [tid |-> t])>> ELSE <<>>) \o
             \* resumed over a lifted breakpoint while its arrival was never reported: the hit is lost
             (IF owed[t] /\ ~mid[t] /\ at[t] \notin code /\ kstop[t] # "event_exit" /\ intr[t] # "yes"
                THEN <<V("missed_arrival", Ev.ev, "reported before the thread passes", [tid |-> t, pc |-> at[t]])>> ELSE <<>>)
        /\ owed' = IF owed[t] /\ ~mid[t] /\ at[t] \notin code /\ kstop[t] # "event_exit" /\ intr[t] # "yes"
                     THEN [owed EXCEPT ![t] = FALSE] ELSE owed
        /\ IF kstop[t] = "event_exit"
             THEN /\ kst' = [kst EXCEPT ![t] = "zombie"] /\ unrep' = [unrep EXCEPT ![t] = TRUE]
                  /\ kstop' = [kstop EXCEPT ![t] = "none"] /\ UNCHANGED <<intr, sstep, mid, at>>
             ELSE IF intr[t] = "yes"   \* a pending trap-stop fires before the task reaches user mode again
             THEN /\ kstop' = [kstop EXCEPT ![t] = "event_stop"] /\ unrep' = [unrep EXCEPT ![t] = TRUE]
                  /\ intr' = [intr EXCEPT ![t] = "no"] /\ UNCHANGED <<kst, sstep, mid, at>>
             ELSE /\ kst' = [kst EXCEPT ![t] = "running"] /\ kstop' = [kstop EXCEPT ![t] = "none"]
                  /\ sstep' = [sstep EXCEPT ![t] = single]
                  /\ mid' = [mid EXCEPT ![t] = FALSE]          \* (a corrupt resume was recorded above)
                  \* "maybe": it is not known whether the trap was requested before or after the task entered
                  \* the stop it is resumed from; if before it is gone, if after it fires at once ("stale")
                  /\ intr' = [intr EXCEPT ![t] = IF @ = "maybe" THEN "stale" ELSE @]
                  /\ UNCHANGED <<unrep, at>>
   /\ UNCHANGED <<sid, main, bps, pass, code, prompt, nrep, stats>>

Interrupt == /\ Is("interrupt") /\ Adv /\ Known(Ev.tid)
             /\ IF Ev.ret = 0 THEN /\ kst[Ev.tid] \in {"running", "stopped"}
                                   \* a request on top of a "stale" one: the task either sits in the unreported
                                   \* event stop already (and keeps this request pending) or takes it now: "both"
                                   /\ intr' = [intr EXCEPT ![Ev.tid] = IF @ \in {"stale", "both"} THEN "both" ELSE "yes"]
                ELSE kst[Ev.tid] \in {"zombie", "exited", "unborn"} /\ UNCHANGED intr
             /\ UNCHANGED <<sid, main, bps, pass, kst, kstop, unrep, mid, sstep, at, code, prompt, owed, nrep, viol, stats>>

Wait == /\ Is("wait") /\ Adv
        /\ IF Ev.tid = -1 THEN UNCHANGED <<kst, unrep, viol>>       \* error / nothing to report (ECHILD)
           ELSE LET t == Ev.tid IN
             /\ Known(t) /\ unrep[t] /\ (Ev.sel = -1 \/ Ev.sel = t)
             /\ IF kst[t] = "zombie" THEN Ev.kind \in {"exited", "signaled"} /\ kst' = [kst EXCEPT ![t] = "exited"]
                ELSE /\ kst[t] = "stopped" /\ UNCHANGED kst
                     /\ Ev.kind = kstop[t]
             /\ unrep' = [unrep EXCEPT ![t] = FALSE]
             /\ viol' = viol
        /\ UNCHANGED <<sid, main, bps, pass, kstop, intr, mid, sstep, at, code, prompt, owed, nrep, stats>>

\* ---- unlogged thread steps, inferred on demand: only what the next `wait` needs --------------------
Need(t, k) == Is("wait") /\ Ev.tid = t /\ Ev.kind = k /\ ~unrep[t]
Stop(t, k) == /\ kst' = [kst EXCEPT ![t] = "stopped"] /\ kstop' = [kstop EXCEPT ![t] = k]
              /\ unrep' = [unrep EXCEPT ![t] = TRUE]
\* "any trap clears a pending STOP trap": if the interrupt was requested before the task entered this
\* stop the pending bit is gone, if it was requested while the task already sat in the stop it survives.
\* Thread steps are inferred lazily, so for a request logged while the model still held the task running
\* the order is unknown: "maybe" (resolved at the next resume / wait, no branching).  A "stale" maybe that
\* did not fire right after the resume was not pending.
MaybeClear(t) == intr' = [intr EXCEPT ![t] = IF @ \in {"yes", "both"} THEN "maybe" ELSE "no"]
Silent == \E t \in Tids :
   /\ UNCHANGED <<l, sid, main, bps, pass, code, prompt, owed, nrep, viol, stats>>
   /\ \/ /\ kst[t] = "running" /\ intr[t] \in {"yes", "stale", "both"} /\ Need(t, "event_stop")
         /\ Stop(t, "event_stop") /\ intr' = [intr EXCEPT ![t] = IF @ = "both" THEN "maybe" ELSE "no"]
         /\ UNCHANGED <<mid, sstep, at>>
      \/ \* a new thread is born in an event stop (its creator's PTRACE_EVENT_CLONE may be seen later)
         /\ kst[t] = "unborn" /\ Need(t, "event_stop")
         /\ Stop(t, "event_stop") /\ UNCHANGED <<intr, mid, sstep, at>>
      \/ /\ kst[t] = "running" /\ sstep[t] /\ Need(t, "trap_step")
         /\ Stop(t, "trap_step") /\ sstep' = [sstep EXCEPT ![t] = FALSE] /\ MaybeClear(t)
         /\ at' = [at EXCEPT ![t] = 0] /\ UNCHANGED mid
      \/ /\ kst[t] = "running" /\ code # {} /\ Need(t, "trap_brkpt")   \* may predate a pending interrupt
         /\ Stop(t, "trap_brkpt") /\ mid' = [mid EXCEPT ![t] = TRUE] /\ sstep' = [sstep EXCEPT ![t] = FALSE]
         /\ MaybeClear(t) /\ at' = [at EXCEPT ![t] = 0]
      \/ /\ kst[t] = "running" /\ Need(t, "event_exit")
         /\ Stop(t, "event_exit") /\ MaybeClear(t) /\ UNCHANGED <<mid, sstep, at>>
      \/ /\ kst[t] = "running" /\ Need(t, "event_exec")
         /\ Stop(t, "event_exec") /\ UNCHANGED <<intr, mid, sstep, at>>
      \/ /\ kst[t] = "running" /\ Need(t, "signal")
         /\ Stop(t, "signal") /\ MaybeClear(t) /\ at' = [at EXCEPT ![t] = 0] /\ UNCHANGED <<mid, sstep>>
      \/ /\ kst[t] = "running" /\ Need(t, "event_clone")
         /\ LET c == Ev.child IN
              /\ c \in Tids
              /\ IF kst[c] = "unborn"
                   THEN /\ kst' = [kst EXCEPT ![t] = "stopped", ![c] = "stopped"]
                        /\ kstop' = [kstop EXCEPT ![t] = "event_clone", ![c] = "event_stop"]
                        /\ unrep' = [unrep EXCEPT ![t] = TRUE, ![c] = TRUE]
                   ELSE Stop(t, "event_clone")
         /\ MaybeClear(t) /\ UNCHANGED <<mid, sstep, at>>
      \/ \* death outside the modelled exit path (fatal signal, exit_group): follow the log
         /\ kst[t] \in {"running", "stopped"} /\ (Need(t, "signaled") \/ (Need(t, "exited") /\ kstop[t] # "event_exit"))
         /\ kst' = [kst EXCEPT ![t] = "zombie"] /\ unrep' = [unrep EXCEPT ![t] = TRUE]
         /\ kstop' = [kstop EXCEPT ![t] = "none"] /\ UNCHANGED <<intr, mid, sstep, at>>

Next == SessHead \/ Cmd \/ Report \/ Patch \/ SetRegs \/ Resume(TRUE) \/ Resume(FALSE) \/ Interrupt \/ Wait \/ Silent
Spec == Init /\ [][Next]_vars

\* ---- acceptance: the whole trace was consumed; verdicts are printed for the checker ----------------
ASSUME TLCSet(1, 0)
Watermark == TLCSet(1, IF TLCGet(1) < l THEN l ELSE TLCGet(1))
Progress == l >= 1 /\ Watermark
TraceDone == (l = N + 1) => PrintT(<<"VERDICT", ToJson([n |-> N, viol |-> viol, stats |-> stats])>>)
Accepted == IF TLCGet(1) = N + 1 THEN TRUE
            ELSE Print(<<"REJECTED", ToJson([prefix |-> TLCGet(1) - 1, of |-> N, next |-> Rec[TLCGet(1)]])>>, FALSE)
=============================================================================

\* C15 / MemRW.tla -- (E) candidate fix (aligned peeks): every property holds
CONSTANTS
    W = 4
    Lo = 4
    Hi = 16
    MaxN = 9
    MaxOps = 2
    OpKinds = {"R", "WB", "WW"}
    DataKinds = {"pat", "inv"}
    ReadVariant = "aligned"
    Emit = "none"
    Regs = {}
    InitMem = "pattern"
    DisVariant = "masked"
SPECIFICATION SpecMem
VIEW View
INVARIANTS MemoryMatchesSpec UnmappedNeverChanges
PROPERTIES WritesMeetSpec NeighboursUntouched FixedReadsMeetSpec ReadsMeetSpec

CONSTANTS
  Lines = {1, 2, 3}
  NoCode = {9}
  Places <- cPlaces
  FirstPlace <- cFirst
  AltFirst <- cAltFirst
  CondLines = {3}
  FnPlaces <- cFnPlaces
  InsnOk = {50}
  InsnBogus = {99}
  Exec <- cExec
  Loc <- cLoc
  HotPos = {6}
  IterAt <- cIterAt
  DataKnown = {"w"}
  DataUnknown = {"nosuch"}
  Sw <- cSw
SPECIFICATION Spec

CONSTANTS
  WritePos = {}
  HwDelivers = FALSE
  MaxReq = 5
  Alphabet = "small"
  Cfgs = {"repaired"}
  Emit = FALSE
  TwoPhase = FALSE
INVARIANTS InstalledEqualsLatest VerifiedIffInstalled StopsExactlyAtLatest OptionsHonouredWheneverSet InSync

------------------------- MODULE TraceKernelSig -------------------------
(* C10, mode (V): the reference for "signals reach the debuggee exactly once", evaluated by TLC on the    *)
(* recorded trace of a REAL session (harness/src/bin/c10.rs: the interposer's syscall-grain trace +        *)
(* `send` / `prompt` / `end` events).  It is a deterministic monitor: kernel signal accounting is          *)
(* reconstructed from the tracer's own syscalls (which stop kinds honour the resume `data`, App. A item 7) *)
(* and the property is judged on observables only:                                                         *)
(*   - the puppet's handler counters (read from its memory at every prompt, printed at exit),              *)
(*   - the stops the API reported (StopReason::SignalStop(tid, sig) / on_signal + focus thread),           *)
(*   - the sends the harness made (with SigPnd/ShdPnd of the target before the send => coalesced or not).  *)
(* Several sessions per run (separated by `reset` events).  Verdict classes are the vocabulary of          *)
(* known_findings.d/C10.json.  Classes prefixed "model_" are NOT statements about the debugger (kernel-    *)
(* model drift): the check turns them into tool errors / MODEL-DRIFT notes, never into violations.         *)
EXTENDS Integers, Sequences, FiniteSets, TLC, Json, IOUtils

CONSTANTS Quiet, Transparent       \* signal names, e.g. {"ALRM", ...} and {"INT"}

Rec == IF "TRACE" \in DOMAIN IOEnv THEN ndJsonDeserialize(IOEnv.TRACE) ELSE <<>>

SigNames == {"USR1", "USR2", "ALRM", "INT"}
NameOf(no) == CASE no = 10 -> "USR1" [] no = 12 -> "USR2" [] no = 14 -> "ALRM" [] no = 2 -> "INT" [] OTHER -> "other"
Honours == {"signal", "trap_brkpt", "trap_step", "trap_other", "trap_hwbkpt", "syscall"}   \* resume `data` is delivered
Zero == [s \in SigNames |-> 0]

VARIABLES l, sid,
          stopk,     \* tid -> <<kind, signame>> of the stop the tracer was told about and has not resumed yet
          owed,      \* <<tid, sig>> -> signals suppressed at a delivery-stop that the tracer still has to inject
          seen,      \* <<tid, sig>> -> delivery-stops of sig reported by wait for tid
          reported,  \* <<tid, sig>> -> stops the API reported for (tid, sig)
          announced, \* <<tid, sig>> -> reported and not yet delivered
          sent, amb, inj, prom, cnt, viol, aborted, shape,
          lastinj,   \* <<tid, sig>> -> request that injected it last ("cont" / "step" / "syscall")
          foundby,   \* <<tid, sig>> -> "wait_any" / "wait_tid" / "wait_after_interrupt": how the tracer met the delivery-stop
          maxout,    \* tid -> largest number of queue-worthy signals outstanding for the thread at a prompt (held + owed)
          lastreq,   \* tid -> last ptrace request / wait selector class seen for the task
          supby      \* <<tid, sig>> -> the request that cancelled the signal of the task's delivery-stop (cont / step / ..)
vars == <<l, sid, stopk, owed, seen, reported, announced, sent, amb, inj, prom, cnt, viol, aborted, shape, lastinj, foundby, maxout, lastreq, supby>>

Get(f, k) == IF k \in DOMAIN f THEN f[k] ELSE 0
Get2(f, k) == IF k \in DOMAIN f THEN f[k] ELSE "none"
RECURSIVE SumOver(_, _)
SumOver(f, K) == IF K = {} THEN 0 ELSE LET x == CHOOSE y \in K : TRUE IN f[x] + SumOver(f, K \ {x})
Put(f, k, v) == [x \in DOMAIN f \cup {k} |-> IF x = k THEN v ELSE f[x]]
Kind(t) == IF t \in DOMAIN stopk THEN stopk[t][1] ELSE "none"
Held(t) == IF t \in DOMAIN stopk THEN stopk[t][2] ELSE "none"
VV(cls, act, sg, exp, actl, via) == [session |-> sid, k |-> l, class |-> cls, action |-> act, sig |-> sg, expected |-> exp, actual |-> actl, via |-> via]
V(cls, act, sg, exp, actl) == VV(cls, act, sg, exp, actl, "")
KindOf(s) == IF s \in Quiet THEN "quiet" ELSE IF s \in Transparent THEN "transparent" ELSE "nonquiet"

Init == /\ l = 1 /\ sid = "" /\ stopk = <<>> /\ owed = <<>> /\ seen = <<>> /\ reported = <<>> /\ announced = <<>>
        /\ sent = Zero /\ amb = {} /\ inj = Zero /\ prom = Zero /\ cnt = Zero /\ viol = <<>> /\ aborted = FALSE /\ shape = <<>>
        /\ lastinj = <<>> /\ foundby = <<>> /\ maxout = <<>> /\ lastreq = <<>> /\ supby = <<>>

\* ---- one resume (PTRACE_CONT / PTRACE_SINGLESTEP / PTRACE_SYSCALL with data) ---------------------------------
Resume(e) ==
  LET t == e.tid
      d == IF "sig" \in DOMAIN e THEN NameOf(e.sig) ELSE "none"
      dz == ("sig" \notin DOMAIN e) \/ e.sig = 0
      k == Kind(t)  h == Held(t)
      passthru == k = "signal" /\ ~dz /\ d = h                       \* the delivery-stop's own signal goes through
      suppress == k = "signal" /\ (dz \/ d # h)                       \* the delivery-stop's signal is cancelled
      injects == ~dz /\ ~passthru                                     \* a remembered signal is re-injected
      honoured == k \in Honours
      owedHere == Get(owed, <<t, d>>) > 0
      owedElse == \E x \in DOMAIN owed : x[2] = d /\ x[1] # t /\ owed[x] > 0
      delivered == ~dz /\ honoured /\ d \in SigNames
      needAnn == delivered /\ d \notin Quiet /\ d \notin Transparent
      owed1 == IF suppress /\ h \notin Transparent /\ h \in SigNames THEN Put(owed, <<t, h>>, Get(owed, <<t, h>>) + 1) ELSE owed
      owed2 == IF injects /\ Get(owed1, <<t, d>>) > 0 THEN Put(owed1, <<t, d>>, Get(owed1, <<t, d>>) - 1) ELSE owed1
  IN
  /\ stopk' = [x \in DOMAIN stopk \ {t} |-> stopk[x]]
  /\ owed' = owed2
  /\ inj' = IF delivered THEN [inj EXCEPT ![d] = @ + 1] ELSE inj
  /\ announced' = IF needAnn /\ Get(announced, <<t, d>>) > 0 THEN Put(announced, <<t, d>>, Get(announced, <<t, d>>) - 1) ELSE announced
  /\ viol' = viol
       \o (IF ~dz /\ ~honoured /\ k # "none"
             THEN <<VV("injected_into_event_stop", e.ev, d, "a signal-delivery/trap/syscall stop", k,
                       \* how the thread had left the delivery-stop of this signal: a `cont` without the signal means the
                       \* tracer let a thread go whose signal it still had parked (it is never the case on the pinned tree)
                       IF Get2(supby, <<t, d>>) = "cont" THEN k \o "_after_cancel_by_cont" ELSE k)>> ELSE <<>>)
       \o (IF injects /\ honoured /\ ~owedHere
             THEN <<VV(IF owedElse THEN "injected_into_wrong_thread" ELSE "injected_twice", e.ev, d, "an entry owed to this thread", "none",
                       Get2(lastinj, <<t, d>>) \o "_then_" \o e.ev)>>
             ELSE <<>>)
       \o (IF suppress /\ h \in Transparent /\ Get(reported, <<t, h>>) < Get(seen, <<t, h>>)
             THEN <<VV("transparent_signal_unreported", e.ev, h, "reported", "cancelled without a report", Get2(foundby, <<t, h>>))>> ELSE <<>>)
       \o (IF ~dz /\ d \in Transparent /\ honoured THEN <<V("transparent_signal_forwarded", e.ev, d, 0, 1)>> ELSE <<>>)
       \o (IF needAnn /\ Get(announced, <<t, d>>) = 0
             THEN <<VV("delivered_unreported", e.ev, d, "reported before delivery", "no report", Get2(foundby, <<t, d>>))>> ELSE <<>>)
  /\ lastinj' = IF delivered THEN Put(lastinj, <<t, d>>, e.ev) ELSE lastinj
  /\ lastreq' = Put(lastreq, t, e.ev)
  /\ supby' = IF suppress /\ h \in SigNames THEN Put(supby, <<t, h>>, e.ev) ELSE supby
  /\ UNCHANGED <<foundby, maxout>>
  /\ UNCHANGED <<sid, seen, reported, sent, amb, prom, cnt, aborted, shape>>

Wait(e) ==
  LET t == e.tid
      s == IF e.kind = "signal" THEN NameOf(e.sig) ELSE "none"
  IN
  /\ stopk' = IF e.kind \in {"exited", "signaled"} THEN [x \in DOMAIN stopk \ {t} |-> stopk[x]] ELSE Put(stopk, t, <<e.kind, s>>)
  /\ seen' = IF s \in SigNames THEN Put(seen, <<t, s>>, Get(seen, <<t, s>>) + 1) ELSE seen
  /\ viol' = viol \o (IF Kind(t) # "none" THEN <<V("model_wait_without_resume", "wait", s, "none", Kind(t))>> ELSE <<>>)
  /\ lastreq' = Put(lastreq, t, IF e.sel = t /\ Get2(lastreq, t) = "interrupt" THEN "wait_after_interrupt" ELSE "wait")
  /\ UNCHANGED <<sid, owed, reported, announced, sent, amb, inj, prom, cnt, aborted, shape, lastinj, maxout, supby>>
  /\ foundby' = IF s \in SigNames THEN Put(foundby, <<t, s>>, IF e.sel # t THEN "wait_any" ELSE IF Get2(lastreq, t) = "interrupt" THEN "wait_after_interrupt" ELSE "wait_tid") ELSE foundby

Send(e) ==
  /\ IF "skipped" \in DOMAIN e THEN UNCHANGED <<sent, amb>>
     ELSE /\ sent' = IF e.coal THEN sent ELSE [sent EXCEPT ![e.sig] = @ + 1]
          /\ amb' = IF e.ambiguous THEN amb \cup {e.sig} ELSE amb
  /\ UNCHANGED <<sid, stopk, owed, seen, reported, announced, inj, prom, cnt, viol, aborted, shape, lastinj, foundby, maxout, lastreq, supby>>

\* a prompt, projected by the check: [cmd, reports : Seq([sig, tid]), has_cnt, cnt : [sig -> n], failed, detail]
\* `reported[<<t, s>>]` counts LEGITIMATE reports only: a report is legitimate while a delivery-stop of (t, s) the tracer
\* has met is still unreported; any further report of a signal the thread holds/owes is a duplicate and changes no count
\* (so that one duplicate cannot make later, legitimate reports look like duplicates)
RECURSIVE Reports(_, _, _, _, _)
Reports(rs, i, rep, ann, acc) ==     \* returns <<reported', announced', viol-suffix>>
  IF i > Len(rs) THEN <<rep, ann, acc>>
  ELSE LET r == rs[i]  s == r.sig  t == r.tid
           holds == (Kind(t) = "signal" /\ Held(t) = s) \/ Get(owed, <<t, s>>) > 0
           other == \E x \in DOMAIN stopk : x # t /\ stopk[x] = <<"signal", s>>
           legit == Get(seen, <<t, s>>) > Get(rep, <<t, s>>)
           v == (IF s \in Quiet THEN <<VV("quiet_signal_reported", "prompt", s, "no stop", t, Get2(foundby, <<t, s>>))>> ELSE <<>>)
                \o (IF s \notin Quiet /\ ~holds /\ ~legit
                      THEN <<V(IF other THEN "report_names_wrong_thread" ELSE "spurious_report", "prompt", s, "the receiving thread", t)>> ELSE <<>>)
                \o (IF s \notin Quiet /\ holds /\ ~legit
                      THEN <<VV("duplicate_report", "prompt", s, Get(seen, <<t, s>>), Get(rep, <<t, s>>) + 1,
                                IF Kind(t) = "signal" /\ Held(t) = s THEN "same_delivery_stop" ELSE "suppressed_entry")>> ELSE <<>>)
       IN Reports(rs, i + 1,
                  IF legit THEN Put(rep, <<t, s>>, Get(rep, <<t, s>>) + 1) ELSE rep,
                  IF legit /\ s \notin Quiet THEN Put(ann, <<t, s>>, Get(ann, <<t, s>>) + 1) ELSE ann, acc \o v)

LegitReports(rep, s) == SumOver(rep, {x \in DOMAIN rep : x[2] = s})

CountOf(rs, s) == Cardinality({i \in 1..Len(rs) : rs[i].sig = s})

Prompt(e) ==
  LET R == Reports(e.reports, 1, reported, announced, <<>>)
      c == IF e.has_cnt THEN e.cnt ELSE cnt
  IN
  /\ reported' = R[1] /\ announced' = R[2]
  /\ prom' = [s \in SigNames |-> LegitReports(R[1], s)]      \* legitimate reports so far
  /\ cnt' = c
  /\ shape' = Append(shape, e.cmd)
  /\ aborted' = (aborted \/ e.failed)
  /\ viol' = viol \o R[3]
       \o (IF e.failed THEN <<V("session_aborted", e.cmd, "none", "ok", e.detail)>> ELSE <<>>)
       \o (LET D == {s \in SigNames \ Transparent : c[s] > sent[s] /\ s \notin amb} IN
           IF D # {} /\ ~(\E s \in D : cnt[s] > sent[s])      \* first prompt at which the excess is visible
             THEN <<V("delivered_more_than_sent", e.cmd, CHOOSE s \in D : TRUE, sent, c)>> ELSE <<>>)
       \o (LET D == {s \in Transparent : c[s] > 0} IN
           IF D # {} /\ ~(\E s \in D : cnt[s] > 0) THEN <<V("transparent_signal_delivered", e.cmd, CHOOSE s \in D : TRUE, 0, c)>> ELSE <<>>)
  /\ maxout' = LET T == DOMAIN stopk \cup {x[1] : x \in DOMAIN owed}
                    Out(t) == SumOver(owed, {x \in DOMAIN owed : x[1] = t})
                              + (IF Kind(t) = "signal" /\ Held(t) \in SigNames \ Transparent THEN 1 ELSE 0)
                IN [t \in T \cup DOMAIN maxout |-> IF t \in T /\ Out(t) > Get(maxout, t) THEN Out(t) ELSE Get(maxout, t)]
  /\ UNCHANGED <<sid, stopk, owed, seen, sent, amb, inj, lastinj, foundby, lastreq, supby>>

\* end of a session: [exited, has_final, final : [sig -> n]]
End(e) ==
  LET f == IF e.has_final THEN e.final ELSE cnt
      judge == e.exited /\ ~aborted
  IN
  /\ viol' = viol
       \o (IF ~e.exited /\ ~aborted THEN <<V("session_aborted", "end", "none", "exit", "no exit")>> ELSE <<>>)
       \o (IF judge THEN
             (LET Lo == {s \in SigNames \ Transparent : f[s] < sent[s] /\ s \notin amb} IN
              IF Lo # {} THEN <<V("signal_lost", "exit", CHOOSE s \in Lo : TRUE, sent, f)>> ELSE <<>>)
          \o (LET Du == {s \in SigNames \ Transparent : f[s] > sent[s] /\ s \notin amb} IN
              IF Du # {} THEN <<V("signal_duplicated", "exit", CHOOSE s \in Du : TRUE, sent, f)>> ELSE <<>>)
          \o (LET T == {s \in Transparent : f[s] > 0} IN
              IF T # {} THEN <<V("transparent_signal_delivered", "exit", CHOOSE s \in T : TRUE, 0, f)>> ELSE <<>>)
          \o (LET N == {s \in SigNames \ Quiet : prom[s] < sent[s] /\ s \notin amb} IN
              IF N # {} THEN <<V("signal_not_reported", "exit", CHOOSE s \in N : TRUE, sent, prom)>> ELSE <<>>)
          \o (LET O == {x \in DOMAIN owed : owed[x] > 0} IN
              IF O # {} THEN LET x == CHOOSE y \in O : TRUE IN
                             <<VV("suppressed_never_injected", "exit", x[2], 0, owed,
                                  \* the exclude rule needs two queue entries of one thread at the same time: visible as two
                                  \* outstanding (held or suppressed-and-remembered) signals of the thread at some prompt
                                  IF Get(maxout, x[1]) >= 2 THEN "thread_had_second_entry" ELSE "only_entry")>> ELSE <<>>)
          \o (LET M == {s \in SigNames : inj[s] # f[s] /\ s \notin Transparent} IN
              IF M # {} THEN <<V("model_accounting_ne_counters", "exit", CHOOSE s \in M : TRUE, inj, f)>> ELSE <<>>)
          ELSE <<>>)
  /\ UNCHANGED <<sid, stopk, owed, seen, reported, announced, sent, amb, inj, prom, cnt, aborted, shape, lastinj, foundby, maxout, lastreq, supby>>

Reset(e) ==
  /\ sid' = e.id /\ stopk' = <<>> /\ owed' = <<>> /\ seen' = <<>> /\ reported' = <<>> /\ announced' = <<>>
  /\ sent' = Zero /\ amb' = {} /\ inj' = Zero /\ prom' = Zero /\ cnt' = Zero /\ aborted' = FALSE /\ shape' = <<>>
  /\ lastinj' = <<>> /\ foundby' = <<>> /\ maxout' = <<>> /\ lastreq' = <<>> /\ supby' = <<>>
  /\ UNCHANGED viol

Consume ==
  /\ l <= Len(Rec)
  /\ l' = l + 1
  /\ LET e == Rec[l] IN
     CASE e.ev = "reset" -> Reset(e)
       [] e.ev \in {"cont", "step", "syscall"} -> IF e.ret = 0 THEN Resume(e) ELSE UNCHANGED <<sid, stopk, owed, seen, reported, announced, sent, amb, inj, prom, cnt, viol, aborted, shape, lastinj, foundby, maxout, lastreq, supby>>
       [] e.ev = "wait" -> IF e.tid > 0 THEN Wait(e) ELSE UNCHANGED <<sid, stopk, owed, seen, reported, announced, sent, amb, inj, prom, cnt, viol, aborted, shape, lastinj, foundby, maxout, lastreq, supby>>
       [] e.ev = "interrupt" -> /\ lastreq' = Put(lastreq, e.tid, "interrupt")
                               /\ UNCHANGED <<sid, stopk, owed, seen, reported, announced, sent, amb, inj, prom, cnt, viol, aborted, shape, lastinj, foundby, maxout, supby>>
       [] e.ev = "send" -> Send(e)
       [] e.ev = "prompt" -> Prompt(e)
       [] e.ev = "end" -> End(e)
       [] OTHER -> UNCHANGED <<sid, stopk, owed, seen, reported, announced, sent, amb, inj, prom, cnt, viol, aborted, shape, lastinj, foundby, maxout, lastreq, supby>>

Finish == /\ l = Len(Rec) + 1
          /\ PrintT(<<"VERDICT", ToJson([n |-> Len(Rec), viol |-> viol])>>)
          /\ l' = l + 1
          /\ UNCHANGED <<sid, stopk, owed, seen, reported, announced, sent, amb, inj, prom, cnt, viol, aborted, shape, lastinj, foundby, maxout, lastreq, supby>>

Next == Consume \/ Finish
TraceSpec == Init /\ [][Next]_vars
TraceDone == l <= Len(Rec) + 2
=============================================================================

\* (G) generation: quick: every edge of the reference graph (slot map not distinguished) is printed once as JSON
\* (src view, command, expected observation, dst view); unbounded command count, one kind per location
SPECIFICATION Spec
CONSTANTS
  Globals = {"G0", "G1", "G2", "G3"}
  Locals = {"LA", "LB"}
  KindTab <- OneTab
  MaxOps = 0
  SlotFirst = TRUE
  Distribute = TRUE
  Gen = TRUE
  ViewSlots = FALSE
VIEW View
INVARIANTS DrEncodesExactly NoStaleEnable ResultAgrees RegistryAgrees NoOrphanCompanion

------------------------------ MODULE Stalk ------------------------------
(* C09: Kernel || Tracer || Threads.                                              *)
(*                                                                                *)
(* Linux ptrace semantics at syscall grain (DESIGN App. A) composed with          *)
(* BugStalker's tracer algorithms (debugee/tracer.rs, tracee.rs, step.rs,         *)
(* mod.rs::continue_execution), one label per tracer syscall, and N debuggee      *)
(* threads that loop through breakpoint sites, may create one child thread and    *)
(* exit.  One atomic step per tracer syscall / per thread instruction.            *)
(*                                                                                *)
(* kst/kstop/unrep/rip/mid/sstep/intr  : the kernel's truth about every task      *)
(* tstate                              : the debugger's belief (threads_state)    *)
(* owed/missed/spurious/corrupt        : ghost monitors (reading rule R1)         *)
(*                                                                                *)
(* The signal machinery of the prototype (pend/ksig/sigq/Env) is kept (C10        *)
(* extends a copy, StalkSig.tla); the C09 configurations use Sigs = {}.           *)
EXTENDS Naturals, Sequences, FiniteSets, TLC, Json

CONSTANTS Threads, Main,
          ChildOf,        \* [Threads -> Threads \cup {0}]: the thread t creates after its loop (0 = none)
          Iters,          \* [Threads -> Nat]: loop iterations of each thread
          L, UserBps, MaxCmd,
          Cmds,           \* subset of {"continue", "stepi"}
          Sigs, Quiet, Transparent, MaxSend,
          FixQuietDup,    \* FALSE = code as written (C10)
          Hist,           \* TRUE: record the schedule skeleton (generation mode only)
          \* ---- model mutants (sensitivity of the invariants; all FALSE = code as written) ----
          MutOneRound,    \* group stop does one round only
          MutNoRewind,    \* no pc rewind after TRAP_BRKPT
          MutForgetNew,   \* PTRACE_EVENT_STOP of an unknown tid is not registered
          MutNoReenable   \* step_over_breakpoint does not re-enable

Addr == 0..(L-1)
None == 0
SigStops == {"signal", "trap_brkpt", "trap_step"}     \* stops in which the resume `data` is honoured
Children == {ChildOf[t] : t \in Threads} \ {0}

ASSUME /\ Main \in Threads /\ Main \notin Children /\ 0 \notin Threads
       /\ \A t \in Threads : ChildOf[t] \in (Threads \cup {0}) \ {t, Main}
       /\ UserBps \subseteq Addr /\ 0 \notin UserBps

(* --algorithm Stalk {
variables
  \* ---------------- kernel ----------------
  code   = [a \in Addr |-> IF a \in UserBps THEN "int3" ELSE "orig"],
  \* initial state = a prompt: every existing thread sits in an (already reported) event stop
  kst    = [t \in Threads |-> IF t \in Children THEN "unborn" ELSE "stopped"],
  kstop  = [t \in Threads |-> IF t \in Children THEN "none" ELSE "event_stop"],
  ksig   = [t \in Threads |-> "none"],
  unrep  = [t \in Threads |-> FALSE],
  rip    = [t \in Threads |-> 0],
  mid    = [t \in Threads |-> FALSE],
  sstep  = [t \in Threads |-> FALSE],
  intr   = [t \in Threads |-> FALSE],
  iter   = [t \in Threads |-> 0],
  pend   = [t \in Threads |-> {}],
  spawned = [t \in Threads |-> FALSE],
  \* ---------------- ghost ----------------
  expect = [t \in Threads |-> 0],
  corrupt = FALSE,
  owed = [t \in Threads |-> (0 \in UserBps) /\ t \notin Children /\ Iters[t] > 0],
  missed = [t \in Threads |-> FALSE],
  spurious = [t \in Threads |-> FALSE],
  sent  = [s \in Sigs |-> 0], deliv = [s \in Sigs |-> 0], nsend = 0,
  lost = FALSE,                 \* a signal was suppressed/ignored while the debugger no longer remembers it
  hist = <<>>, nsys = 0,        \* schedule skeleton (Hist only)
  \* ---------------- debugger ----------------
  tstate = [t \in Threads |-> IF t \in Children THEN "gone" ELSE "stopped"],
  guard  = FALSE,
  focus  = Main,
  bpen   = [a \in Addr |-> a \in UserBps],
  sigq   = <<>>,
  ncmd   = 0,
  atPrompt = TRUE,
  dead = FALSE,
  wst = [pid |-> None, kind |-> "none", sig |-> "none"],
  ret = "none", retpid = None, retsig = "none",
  todo = {}, round = 0;

define {
  Gone(t) == kst[t] \in {"exited", "unborn"}
  \* every entry into a stop / death produces one status; the group leader's death is reported only
  \* after every other thread has been reaped (App. A item 6)
  Reportable(t) == /\ kst[t] \in {"stopped","zombie"} /\ unrep[t]
                   /\ (kst[t] = "zombie" /\ t = Main => \A o \in Threads \ {Main} : Gone(o))
  Queued(t, s) == \E i \in 1..Len(sigq) : sigq[i] = <<t, s>>
  QPids == {sigq[i][1] : i \in 1..Len(sigq)}
  Live == {t \in Threads : kst[t] \in {"running", "stopped"}}
  Believed == {t \in Threads : tstate[t] # "gone"}

  AllStop == atPrompt => \A t \in Threads : kst[t] # "running"
  BeliefSound == atPrompt => \A t \in Threads : (tstate[t] = "stopped" => kst[t] = "stopped")
  ThreadListExact == (atPrompt /\ ret # "exit" /\ ~dead) => Believed = Live
  NoCorruption == ~corrupt
  NoMissed == \A t \in Threads : ~missed[t]
  NoSpurious == \A t \in Threads : ~spurious[t]
  AllReportedAtExit == (ret = "exit") => \A t \in Threads : ~owed[t]
  NoDup == \A s \in Sigs : deliv[s] <= sent[s]
  NoLost == ~lost
  IntNeverDelivered == \A s \in Transparent : deliv[s] = 0
  TypeOK == /\ \A t \in Threads : kst[t] \in {"unborn", "running", "stopped", "zombie", "exited"}
            /\ \A t \in Threads : tstate[t] \in {"gone", "running", "stopped"}
            /\ \A t \in Threads : rip[t] \in Addr
  \* what the tracer's next label does to the kernel (schedule skeleton)
  SysOf(lb) == CASE lb \in {"gsw", "gsw2", "apw", "ss1", "rs2"} -> "wait"
                 [] lb \in {"rs1", "ap1"} -> "cont"
                 [] lb \in {"ss0", "ss4"} -> "step"
                 [] lb = "gsk" -> "interrupt"
                 [] lb = "ap2" -> "setregs"
                 [] lb \in {"sb1", "sb3"} -> "patch"
                 [] OTHER -> "none"
}

macro Sys() { nsys := IF Hist THEN nsys + 1 ELSE 0; }

macro KWait(sel) {
  await \E t \in Threads : (sel = None \/ sel = t) /\ Reportable(t);
  with (t \in {x \in Threads : (sel = None \/ sel = x) /\ Reportable(x)}) {
    wst := [pid |-> t, kind |-> IF kst[t] = "zombie" THEN "exited" ELSE kstop[t], sig |-> ksig[t]];
    unrep[t] := FALSE;
    if (kst[t] = "zombie") { kst[t] := "exited" };
  };
  Sys();
}
\* PTRACE_CONT / PTRACE_SINGLESTEP with an optional signal; ESRCH (no effect) unless in a ptrace-stop
macro KResume(t, single, sg) {
  if (kst[t] = "stopped") {
    if (kstop[t] = "event_exit") { kst[t] := "zombie"; unrep[t] := TRUE; kstop[t] := "none"; }
    else {
      \* what happens to signals
      if (sg # "none" /\ kstop[t] \in SigStops) { deliv[sg] := deliv[sg] + 1; }
      else if (sg # "none") { lost := TRUE; }                       \* data ignored in event stops
      else if (kstop[t] = "signal" /\ ksig[t] \notin Transparent /\ ~Queued(t, ksig[t])) { lost := TRUE; };
      kst[t] := "running"; kstop[t] := "none"; ksig[t] := "none"; sstep[t] := single;
    }
  };
  Sys();
}

\* Tracer::group_stop_interrupt
procedure group_stop(initiator)
variables gtodo = {}, gt = None, gdone = FALSE, gabort = FALSE;
{
gs0: if (guard) { return; };
gs1: guard := TRUE; gabort := FALSE;
gs1b: if (\A t \in Threads : tstate[t] = "gone" \/ t = initiator) { guard := FALSE; return; };
gs2: round := 0;
gsr: while (round < (IF MutOneRound THEN 1 ELSE 2) /\ ~gabort) {
       gtodo := {t \in Threads : tstate[t] # "gone"};            \* snapshot(), hash-map order
gsl:   while (gtodo # {} /\ ~gabort) {
         with (t \in gtodo) { gt := t; gtodo := gtodo \ {t}; };
gsk:     if (tstate[gt] = "running") {
           \* PTRACE_INTERRUPT: sets a pending trap-stop, also when the task already sits in a stop;
           \* ESRCH on a dead task -> believed stopped
           if (kst[gt] \in {"running","stopped"}) { intr[gt] := TRUE; gdone := FALSE; }
           else { tstate[gt] := "stopped"; gdone := TRUE; };
           Sys();
gsj:       if (~gdone) {
gsw:         KWait(gt);
gsc:         while (wst.kind # "event_stop" /\ ~gdone) {
               call apply(wst);
gsd:           if (ret = "brkpt" /\ retpid = gt) { gdone := TRUE; }      \* the hit is dropped here
               else if (ret = "exit") { gdone := TRUE; gabort := TRUE; }
               else if (ret = "signal") { gdone := TRUE; }
               else if (tstate[gt] = "gone") { gdone := TRUE; }
               else if (tstate[gt] = "stopped") { gdone := TRUE; };
gsw2:          if (~gdone) { KWait(gt); };
             };
gse:         if (tstate[gt] = "running") { tstate[gt] := "stopped"; };
           };
         };
       };
gsn:   round := round + 1;
     };
gsx: if (~gabort) { guard := FALSE; };        \* `return Err(ProcessExit)` leaves the latch set
     return;
}

\* Tracer::apply_new_status
procedure apply(st)
{
ap0: ret := "none"; retpid := None; retsig := "none";
ap0b: if (st.kind = "exited") {
       tstate[st.pid] := "gone";
       if (st.pid = Main) { ret := "exit"; };
       return;
     } else if (st.kind = "event_stop") {
       \* known tracee: mark stopped; unknown: add (new_stopped)
       if (~(MutForgetNew /\ tstate[st.pid] = "gone")) { tstate[st.pid] := "stopped"; };
       return;
     } else if (st.kind = "event_clone") {
       tstate[st.pid] := "stopped";
apc:   if (tstate[ChildOf[st.pid]] = "gone") {
         tstate[ChildOf[st.pid]] := "stopped";
apw:     KWait(ChildOf[st.pid]);                 \* wait_one(new tracee): its initial event stop (or exit)
apx:     if (wst.kind = "exited") { tstate[wst.pid] := "gone"; };
       };
apd:   return;
     } else if (st.kind = "event_exit") {
       if (tstate[st.pid] = "gone") { return; }        \* unknown tracee: nothing is resumed
       else { tstate[st.pid] := "gone"; };
ap1:   KResume(st.pid, FALSE, "none");
apr:   return;
     } else if (st.kind = "trap_brkpt") {
ap2:   if (~MutNoRewind) { mid[st.pid] := FALSE; };       \* set_pc(pc - 1)
       Sys();
ap3:   if (mid[st.pid] \/ ~bpen[rip[st.pid]]) { return; };
ap4:   tstate[st.pid] := "stopped";
       call group_stop(st.pid);
ap5:   ret := "brkpt"; retpid := st.pid; return;
     } else if (st.kind = "signal") {
       if (st.sig \notin Transparent) { sigq := Append(sigq, <<st.pid, st.sig>>); };
       tstate[st.pid] := "stopped";
aps:   if (st.sig \notin Quiet) { call group_stop(st.pid); };
apt:   ret := "signal"; retpid := st.pid; retsig := st.sig; return;
     } else {
       return;
     }
}

\* Tracer::single_step
procedure single_step(stid)
{
ss0: KResume(stid, TRUE, "none");
ss1: KWait(stid);
ss2: if (wst.kind \in {"trap_step", "trap_brkpt", "event_stop"}) { ret := "none"; return; }
     else { call apply(wst); };
ss3: if (ret = "signal" /\ retsig \in Quiet) {
ss4:   KResume(stid, TRUE, retsig);
       if (FixQuietDup) { sigq := SubSeq(sigq, 1, Len(sigq) - 1); };
       goto ss1;
     } else if (ret = "signal") { return; }
     else if (ret = "exit") { dead := TRUE; return; }
     else if (tstate[stid] = "gone") { dead := TRUE; return; }
     else { goto ss1; };
}

\* Tracer::resume (+ TraceeCtl::cont_stopped / cont_stopped_ex)
procedure resume()
variables ctodo = {}, inj = <<>>;
{
rs0: while (TRUE) {
       if (sigq # <<>>) {
         inj := Head(sigq); sigq := Tail(sigq);
         ctodo := {t \in Threads : tstate[t] = "stopped"} \ (QPids \ {inj[1]});
       } else {
         inj := <<>>;
         ctodo := {t \in Threads : tstate[t] = "stopped"};
       };
rs1:   while (ctodo # {}) {
         with (t \in ctodo) {                                   \* hash-map iteration order
           ctodo := ctodo \ {t};
           if (kst[t] = "stopped") { tstate[t] := "running"; }; \* status updated only if PTRACE_CONT succeeded
           KResume(t, FALSE, IF inj # <<>> /\ inj[1] = t THEN inj[2] ELSE "none");
         }
       };
rsq:   if (inj # <<>> /\ sigq # <<>>) {
         call group_stop(None);
rsr:     ret := "signal"; retpid := Head(sigq)[1]; retsig := Head(sigq)[2];
         return;
       };
rs2:   KWait(None);
rs3:   call apply(wst);
rs4:   if (ret = "signal" /\ retsig \in Quiet) { skip; }
       else if (ret # "none") { return; };
     }
}

\* Debugger::step_over_breakpoint (focus thread only)
procedure step_over_breakpoint()
{
sb0: ret := "none";
     if (tstate[focus] # "gone" /\ kst[focus] = "stopped" /\ ~mid[focus] /\ bpen[rip[focus]]) {
sb1:   code[rip[focus]] := "orig"; bpen[rip[focus]] := FALSE; Sys();
sb2:   with (a = rip[focus]) { todo := {a} };
       call single_step(focus);
sb3:   if (~MutNoReenable) { with (a \in todo) { code[a] := "int3"; bpen[a] := TRUE; }; Sys(); };
       todo := {};
     };
sb4: return;
}

\* Debugger::continue_execution (user breakpoints only)
procedure continue_execution()
{
ce0: call step_over_breakpoint();
ce1: if (ret = "signal" \/ dead) { return; };
ce4: call resume();
ce5: if (ret = "brkpt") { focus := retpid;
       if (~owed[retpid]) { spurious[retpid] := TRUE }; owed[retpid] := FALSE }
     else if (ret = "signal") { focus := retpid;
       \* reading rule R1: a reported stop at a breakpoint address consumes the arrival
       if (rip[retpid] \in UserBps /\ ~mid[retpid]) { owed[retpid] := FALSE } };
     return;
}

procedure stepi()
{
si0: if (tstate[focus] = "gone" \/ kst[focus] # "stopped") { return; };
si1: if (bpen[rip[focus]] /\ ~mid[focus]) { call step_over_breakpoint(); }
     else { call single_step(focus); };
si2: \* a stop at a user bp address by stepping consumes the arrival (reading rule R1)
     if (kst[focus] = "stopped" /\ rip[focus] \in UserBps) { owed[focus] := FALSE; };
     return;
}

fair process (Dbg = 0)
{
d0: while (ncmd < MaxCmd /\ ret # "exit" /\ ~dead) {
      atPrompt := FALSE; nsys := 0;
      either { await "continue" \in Cmds; call continue_execution(); }
      or     { await "stepi" \in Cmds; call stepi(); };
d1:   ncmd := ncmd + 1; atPrompt := TRUE;
    };
}

process (Env = 100)
{
e0: while (nsend < MaxSend) {
      with (t \in {x \in Threads : kst[x] \in {"running", "stopped"}}, s \in Sigs) {
        nsend := nsend + 1;
        if (s \notin pend[t] /\ ~(kstop[t] = "signal" /\ ksig[t] = s)) { pend[t] := pend[t] \cup {s}; sent[s] := sent[s] + 1; };
      }
    }
}

\* one debuggee thread: loop Iters[self] times over L one-byte instructions, then create ChildOf[self]
\* (if any), then exit.  The main thread exits only after all the others (join).
fair process (Thr \in Threads)
{
t0: while (kst[self] # "exited" /\ kst[self] # "zombie") {
      await kst[self] = "running";
      \* kk = the next thing this thread does if nothing is pending
      with (kk = IF mid[self] THEN "corrupt"
                 ELSE IF iter[self] < Iters[self] THEN (IF code[rip[self]] = "int3" THEN "trap" ELSE "insn")
                 ELSE IF ChildOf[self] # 0 /\ ~spawned[self] THEN "clone"
                 ELSE IF self # Main \/ (\A o \in Threads \ {Main} : kst[o] \in {"exited", "zombie"}) THEN "exit"
                 ELSE "join") {
        either {
          \* a pending trap-stop fires before the task returns to user mode (App. A item 4)
          await intr[self];
          intr[self] := FALSE; kst[self] := "stopped"; kstop[self] := "event_stop"; unrep[self] := TRUE;
        } or {
          \* a deliverable signal: signal-delivery-stop instead of executing
          await ~intr[self] /\ pend[self] # {};
          with (s \in pend[self]) {
            pend[self] := pend[self] \ {s};
            kst[self] := "stopped"; kstop[self] := "signal"; ksig[self] := s; unrep[self] := TRUE;
          }
        } or {
          \* the task's own next action; if it enters a ptrace-stop while a trap-stop is pending, the
          \* pending trap is cleared ("any trap clears pending STOP trap", App. A item 4)
          await pend[self] = {} /\ kk # "join";
          await ~intr[self] \/ kk \in {"trap", "clone", "exit"} \/ (kk = "insn" /\ sstep[self]);
          intr[self] := FALSE;
          if (kk = "corrupt") {
            corrupt := TRUE; kst[self] := "zombie"; unrep[self] := TRUE;
          } else if (kk = "exit") {
            kst[self] := "stopped"; kstop[self] := "event_exit"; unrep[self] := TRUE;
            if (Hist) { hist := Append(hist, [c |-> ncmd, k |-> nsys, lb |-> pc[0], sys |-> SysOf(pc[0]), t |-> self, w |-> "exit"]) };
          } else if (kk = "clone") {
            \* clone: creator enters event_clone stop, child is born in event_stop
            spawned[self] := TRUE;
            kst[self] := "stopped" || kst[ChildOf[self]] := "stopped";
            kstop[self] := "event_clone" || kstop[ChildOf[self]] := "event_stop";
            unrep[self] := TRUE || unrep[ChildOf[self]] := TRUE;
            if (Hist) { hist := Append(hist, [c |-> ncmd, k |-> nsys, lb |-> pc[0], sys |-> SysOf(pc[0]), t |-> self, w |-> "clone"]) };
          } else if (kk = "trap") {
            mid[self] := TRUE; kst[self] := "stopped"; kstop[self] := "trap_brkpt"; unrep[self] := TRUE;
            sstep[self] := FALSE;
            if (Hist) { hist := Append(hist, [c |-> ncmd, k |-> nsys, lb |-> pc[0], sys |-> SysOf(pc[0]), t |-> self, w |-> "trap"]) };
          } else {
            if (rip[self] # expect[self]) { corrupt := TRUE };
            if (owed[self]) { missed[self] := TRUE };
            \* arrival = pc becomes an enabled user breakpoint address by normal control flow (R1);
            \* the wrap-around after the last iteration is not an arrival (the loop is left)
            owed[self] := ((rip[self] + 1) % L) \in UserBps /\ ~(rip[self] = L - 1 /\ iter[self] + 1 = Iters[self]);
            expect[self] := (rip[self] + 1) % L;
            if (rip[self] = L - 1) { iter[self] := iter[self] + 1 };
            rip[self] := (rip[self] + 1) % L;
            if (sstep[self]) { sstep[self] := FALSE; kst[self] := "stopped"; kstop[self] := "trap_step"; unrep[self] := TRUE };
          }
        }
      }
    }
}
} *)
\* BEGIN TRANSLATION (chksum(pcal) = "a2784b24" /\ chksum(tla) = "e2d1829")
CONSTANT defaultInitValue
VARIABLES pc, code, kst, kstop, ksig, unrep, rip, mid, sstep, intr, iter, 
          pend, spawned, expect, corrupt, owed, missed, spurious, sent, deliv, 
          nsend, lost, hist, nsys, tstate, guard, focus, bpen, sigq, ncmd, 
          atPrompt, dead, wst, ret, retpid, retsig, todo, round, stack

(* define statement *)
Gone(t) == kst[t] \in {"exited", "unborn"}


Reportable(t) == /\ kst[t] \in {"stopped","zombie"} /\ unrep[t]
                 /\ (kst[t] = "zombie" /\ t = Main => \A o \in Threads \ {Main} : Gone(o))
Queued(t, s) == \E i \in 1..Len(sigq) : sigq[i] = <<t, s>>
QPids == {sigq[i][1] : i \in 1..Len(sigq)}
Live == {t \in Threads : kst[t] \in {"running", "stopped"}}
Believed == {t \in Threads : tstate[t] # "gone"}

AllStop == atPrompt => \A t \in Threads : kst[t] # "running"
BeliefSound == atPrompt => \A t \in Threads : (tstate[t] = "stopped" => kst[t] = "stopped")
ThreadListExact == (atPrompt /\ ret # "exit" /\ ~dead) => Believed = Live
NoCorruption == ~corrupt
NoMissed == \A t \in Threads : ~missed[t]
NoSpurious == \A t \in Threads : ~spurious[t]
AllReportedAtExit == (ret = "exit") => \A t \in Threads : ~owed[t]
NoDup == \A s \in Sigs : deliv[s] <= sent[s]
NoLost == ~lost
IntNeverDelivered == \A s \in Transparent : deliv[s] = 0
TypeOK == /\ \A t \in Threads : kst[t] \in {"unborn", "running", "stopped", "zombie", "exited"}
          /\ \A t \in Threads : tstate[t] \in {"gone", "running", "stopped"}
          /\ \A t \in Threads : rip[t] \in Addr

SysOf(lb) == CASE lb \in {"gsw", "gsw2", "apw", "ss1", "rs2"} -> "wait"
               [] lb \in {"rs1", "ap1"} -> "cont"
               [] lb \in {"ss0", "ss4"} -> "step"
               [] lb = "gsk" -> "interrupt"
               [] lb = "ap2" -> "setregs"
               [] lb \in {"sb1", "sb3"} -> "patch"
               [] OTHER -> "none"

VARIABLES initiator, gtodo, gt, gdone, gabort, st, stid, ctodo, inj

vars == << pc, code, kst, kstop, ksig, unrep, rip, mid, sstep, intr, iter, 
           pend, spawned, expect, corrupt, owed, missed, spurious, sent, 
           deliv, nsend, lost, hist, nsys, tstate, guard, focus, bpen, sigq, 
           ncmd, atPrompt, dead, wst, ret, retpid, retsig, todo, round, stack, 
           initiator, gtodo, gt, gdone, gabort, st, stid, ctodo, inj >>

ProcSet == {0} \cup {100} \cup (Threads)

Init == (* Global variables *)
        /\ code = [a \in Addr |-> IF a \in UserBps THEN "int3" ELSE "orig"]
        /\ kst = [t \in Threads |-> IF t \in Children THEN "unborn" ELSE "stopped"]
        /\ kstop = [t \in Threads |-> IF t \in Children THEN "none" ELSE "event_stop"]
        /\ ksig = [t \in Threads |-> "none"]
        /\ unrep = [t \in Threads |-> FALSE]
        /\ rip = [t \in Threads |-> 0]
        /\ mid = [t \in Threads |-> FALSE]
        /\ sstep = [t \in Threads |-> FALSE]
        /\ intr = [t \in Threads |-> FALSE]
        /\ iter = [t \in Threads |-> 0]
        /\ pend = [t \in Threads |-> {}]
        /\ spawned = [t \in Threads |-> FALSE]
        /\ expect = [t \in Threads |-> 0]
        /\ corrupt = FALSE
        /\ owed = [t \in Threads |-> (0 \in UserBps) /\ t \notin Children /\ Iters[t] > 0]
        /\ missed = [t \in Threads |-> FALSE]
        /\ spurious = [t \in Threads |-> FALSE]
        /\ sent = [s \in Sigs |-> 0]
        /\ deliv = [s \in Sigs |-> 0]
        /\ nsend = 0
        /\ lost = FALSE
        /\ hist = <<>>
        /\ nsys = 0
        /\ tstate = [t \in Threads |-> IF t \in Children THEN "gone" ELSE "stopped"]
        /\ guard = FALSE
        /\ focus = Main
        /\ bpen = [a \in Addr |-> a \in UserBps]
        /\ sigq = <<>>
        /\ ncmd = 0
        /\ atPrompt = TRUE
        /\ dead = FALSE
        /\ wst = [pid |-> None, kind |-> "none", sig |-> "none"]
        /\ ret = "none"
        /\ retpid = None
        /\ retsig = "none"
        /\ todo = {}
        /\ round = 0
        (* Procedure group_stop *)
        /\ initiator = [ self \in ProcSet |-> defaultInitValue]
        /\ gtodo = [ self \in ProcSet |-> {}]
        /\ gt = [ self \in ProcSet |-> None]
        /\ gdone = [ self \in ProcSet |-> FALSE]
        /\ gabort = [ self \in ProcSet |-> FALSE]
        (* Procedure apply *)
        /\ st = [ self \in ProcSet |-> defaultInitValue]
        (* Procedure single_step *)
        /\ stid = [ self \in ProcSet |-> defaultInitValue]
        (* Procedure resume *)
        /\ ctodo = [ self \in ProcSet |-> {}]
        /\ inj = [ self \in ProcSet |-> <<>>]
        /\ stack = [self \in ProcSet |-> << >>]
        /\ pc = [self \in ProcSet |-> CASE self = 0 -> "d0"
                                        [] self = 100 -> "e0"
                                        [] self \in Threads -> "t0"]

gs0(self) == /\ pc[self] = "gs0"
             /\ IF guard
                   THEN /\ pc' = [pc EXCEPT ![self] = Head(stack[self]).pc]
                        /\ gtodo' = [gtodo EXCEPT ![self] = Head(stack[self]).gtodo]
                        /\ gt' = [gt EXCEPT ![self] = Head(stack[self]).gt]
                        /\ gdone' = [gdone EXCEPT ![self] = Head(stack[self]).gdone]
                        /\ gabort' = [gabort EXCEPT ![self] = Head(stack[self]).gabort]
                        /\ initiator' = [initiator EXCEPT ![self] = Head(stack[self]).initiator]
                        /\ stack' = [stack EXCEPT ![self] = Tail(stack[self])]
                   ELSE /\ pc' = [pc EXCEPT ![self] = "gs1"]
                        /\ UNCHANGED << stack, initiator, gtodo, gt, gdone, 
                                        gabort >>
             /\ UNCHANGED << code, kst, kstop, ksig, unrep, rip, mid, sstep, 
                             intr, iter, pend, spawned, expect, corrupt, owed, 
                             missed, spurious, sent, deliv, nsend, lost, hist, 
                             nsys, tstate, guard, focus, bpen, sigq, ncmd, 
                             atPrompt, dead, wst, ret, retpid, retsig, todo, 
                             round, st, stid, ctodo, inj >>

gs1(self) == /\ pc[self] = "gs1"
             /\ guard' = TRUE
             /\ gabort' = [gabort EXCEPT ![self] = FALSE]
             /\ pc' = [pc EXCEPT ![self] = "gs1b"]
             /\ UNCHANGED << code, kst, kstop, ksig, unrep, rip, mid, sstep, 
                             intr, iter, pend, spawned, expect, corrupt, owed, 
                             missed, spurious, sent, deliv, nsend, lost, hist, 
                             nsys, tstate, focus, bpen, sigq, ncmd, atPrompt, 
                             dead, wst, ret, retpid, retsig, todo, round, 
                             stack, initiator, gtodo, gt, gdone, st, stid, 
                             ctodo, inj >>

gs1b(self) == /\ pc[self] = "gs1b"
              /\ IF \A t \in Threads : tstate[t] = "gone" \/ t = initiator[self]
                    THEN /\ guard' = FALSE
                         /\ pc' = [pc EXCEPT ![self] = Head(stack[self]).pc]
                         /\ gtodo' = [gtodo EXCEPT ![self] = Head(stack[self]).gtodo]
                         /\ gt' = [gt EXCEPT ![self] = Head(stack[self]).gt]
                         /\ gdone' = [gdone EXCEPT ![self] = Head(stack[self]).gdone]
                         /\ gabort' = [gabort EXCEPT ![self] = Head(stack[self]).gabort]
                         /\ initiator' = [initiator EXCEPT ![self] = Head(stack[self]).initiator]
                         /\ stack' = [stack EXCEPT ![self] = Tail(stack[self])]
                    ELSE /\ pc' = [pc EXCEPT ![self] = "gs2"]
                         /\ UNCHANGED << guard, stack, initiator, gtodo, gt, 
                                         gdone, gabort >>
              /\ UNCHANGED << code, kst, kstop, ksig, unrep, rip, mid, sstep, 
                              intr, iter, pend, spawned, expect, corrupt, owed, 
                              missed, spurious, sent, deliv, nsend, lost, hist, 
                              nsys, tstate, focus, bpen, sigq, ncmd, atPrompt, 
                              dead, wst, ret, retpid, retsig, todo, round, st, 
                              stid, ctodo, inj >>

gs2(self) == /\ pc[self] = "gs2"
             /\ round' = 0
             /\ pc' = [pc EXCEPT ![self] = "gsr"]
             /\ UNCHANGED << code, kst, kstop, ksig, unrep, rip, mid, sstep, 
                             intr, iter, pend, spawned, expect, corrupt, owed, 
                             missed, spurious, sent, deliv, nsend, lost, hist, 
                             nsys, tstate, guard, focus, bpen, sigq, ncmd, 
                             atPrompt, dead, wst, ret, retpid, retsig, todo, 
                             stack, initiator, gtodo, gt, gdone, gabort, st, 
                             stid, ctodo, inj >>

gsr(self) == /\ pc[self] = "gsr"
             /\ IF round < (IF MutOneRound THEN 1 ELSE 2) /\ ~gabort[self]
                   THEN /\ gtodo' = [gtodo EXCEPT ![self] = {t \in Threads : tstate[t] # "gone"}]
                        /\ pc' = [pc EXCEPT ![self] = "gsl"]
                   ELSE /\ pc' = [pc EXCEPT ![self] = "gsx"]
                        /\ gtodo' = gtodo
             /\ UNCHANGED << code, kst, kstop, ksig, unrep, rip, mid, sstep, 
                             intr, iter, pend, spawned, expect, corrupt, owed, 
                             missed, spurious, sent, deliv, nsend, lost, hist, 
                             nsys, tstate, guard, focus, bpen, sigq, ncmd, 
                             atPrompt, dead, wst, ret, retpid, retsig, todo, 
                             round, stack, initiator, gt, gdone, gabort, st, 
                             stid, ctodo, inj >>

gsl(self) == /\ pc[self] = "gsl"
             /\ IF gtodo[self] # {} /\ ~gabort[self]
                   THEN /\ \E t \in gtodo[self]:
                             /\ gt' = [gt EXCEPT ![self] = t]
                             /\ gtodo' = [gtodo EXCEPT ![self] = gtodo[self] \ {t}]
                        /\ pc' = [pc EXCEPT ![self] = "gsk"]
                   ELSE /\ pc' = [pc EXCEPT ![self] = "gsn"]
                        /\ UNCHANGED << gtodo, gt >>
             /\ UNCHANGED << code, kst, kstop, ksig, unrep, rip, mid, sstep, 
                             intr, iter, pend, spawned, expect, corrupt, owed, 
                             missed, spurious, sent, deliv, nsend, lost, hist, 
                             nsys, tstate, guard, focus, bpen, sigq, ncmd, 
                             atPrompt, dead, wst, ret, retpid, retsig, todo, 
                             round, stack, initiator, gdone, gabort, st, stid, 
                             ctodo, inj >>

gsk(self) == /\ pc[self] = "gsk"
             /\ IF tstate[gt[self]] = "running"
                   THEN /\ IF kst[gt[self]] \in {"running","stopped"}
                              THEN /\ intr' = [intr EXCEPT ![gt[self]] = TRUE]
                                   /\ gdone' = [gdone EXCEPT ![self] = FALSE]
                                   /\ UNCHANGED tstate
                              ELSE /\ tstate' = [tstate EXCEPT ![gt[self]] = "stopped"]
                                   /\ gdone' = [gdone EXCEPT ![self] = TRUE]
                                   /\ intr' = intr
                        /\ nsys' = IF Hist THEN nsys + 1 ELSE 0
                        /\ pc' = [pc EXCEPT ![self] = "gsj"]
                   ELSE /\ pc' = [pc EXCEPT ![self] = "gsl"]
                        /\ UNCHANGED << intr, nsys, tstate, gdone >>
             /\ UNCHANGED << code, kst, kstop, ksig, unrep, rip, mid, sstep, 
                             iter, pend, spawned, expect, corrupt, owed, 
                             missed, spurious, sent, deliv, nsend, lost, hist, 
                             guard, focus, bpen, sigq, ncmd, atPrompt, dead, 
                             wst, ret, retpid, retsig, todo, round, stack, 
                             initiator, gtodo, gt, gabort, st, stid, ctodo, 
                             inj >>

gsj(self) == /\ pc[self] = "gsj"
             /\ IF ~gdone[self]
                   THEN /\ pc' = [pc EXCEPT ![self] = "gsw"]
                   ELSE /\ pc' = [pc EXCEPT ![self] = "gsl"]
             /\ UNCHANGED << code, kst, kstop, ksig, unrep, rip, mid, sstep, 
                             intr, iter, pend, spawned, expect, corrupt, owed, 
                             missed, spurious, sent, deliv, nsend, lost, hist, 
                             nsys, tstate, guard, focus, bpen, sigq, ncmd, 
                             atPrompt, dead, wst, ret, retpid, retsig, todo, 
                             round, stack, initiator, gtodo, gt, gdone, gabort, 
                             st, stid, ctodo, inj >>

gsw(self) == /\ pc[self] = "gsw"
             /\ \E t \in Threads : (gt[self] = None \/ gt[self] = t) /\ Reportable(t)
             /\ \E t \in {x \in Threads : (gt[self] = None \/ gt[self] = x) /\ Reportable(x)}:
                  /\ wst' = [pid |-> t, kind |-> IF kst[t] = "zombie" THEN "exited" ELSE kstop[t], sig |-> ksig[t]]
                  /\ unrep' = [unrep EXCEPT ![t] = FALSE]
                  /\ IF kst[t] = "zombie"
                        THEN /\ kst' = [kst EXCEPT ![t] = "exited"]
                        ELSE /\ TRUE
                             /\ kst' = kst
             /\ nsys' = IF Hist THEN nsys + 1 ELSE 0
             /\ pc' = [pc EXCEPT ![self] = "gsc"]
             /\ UNCHANGED << code, kstop, ksig, rip, mid, sstep, intr, iter, 
                             pend, spawned, expect, corrupt, owed, missed, 
                             spurious, sent, deliv, nsend, lost, hist, tstate, 
                             guard, focus, bpen, sigq, ncmd, atPrompt, dead, 
                             ret, retpid, retsig, todo, round, stack, 
                             initiator, gtodo, gt, gdone, gabort, st, stid, 
                             ctodo, inj >>

gsc(self) == /\ pc[self] = "gsc"
             /\ IF wst.kind # "event_stop" /\ ~gdone[self]
                   THEN /\ /\ st' = [st EXCEPT ![self] = wst]
                           /\ stack' = [stack EXCEPT ![self] = << [ procedure |->  "apply",
                                                                    pc        |->  "gsd",
                                                                    st        |->  st[self] ] >>
                                                                \o stack[self]]
                        /\ pc' = [pc EXCEPT ![self] = "ap0"]
                   ELSE /\ pc' = [pc EXCEPT ![self] = "gse"]
                        /\ UNCHANGED << stack, st >>
             /\ UNCHANGED << code, kst, kstop, ksig, unrep, rip, mid, sstep, 
                             intr, iter, pend, spawned, expect, corrupt, owed, 
                             missed, spurious, sent, deliv, nsend, lost, hist, 
                             nsys, tstate, guard, focus, bpen, sigq, ncmd, 
                             atPrompt, dead, wst, ret, retpid, retsig, todo, 
                             round, initiator, gtodo, gt, gdone, gabort, stid, 
                             ctodo, inj >>

gsd(self) == /\ pc[self] = "gsd"
             /\ IF ret = "brkpt" /\ retpid = gt[self]
                   THEN /\ gdone' = [gdone EXCEPT ![self] = TRUE]
                        /\ UNCHANGED gabort
                   ELSE /\ IF ret = "exit"
                              THEN /\ gdone' = [gdone EXCEPT ![self] = TRUE]
                                   /\ gabort' = [gabort EXCEPT ![self] = TRUE]
                              ELSE /\ IF ret = "signal"
                                         THEN /\ gdone' = [gdone EXCEPT ![self] = TRUE]
                                         ELSE /\ IF tstate[gt[self]] = "gone"
                                                    THEN /\ gdone' = [gdone EXCEPT ![self] = TRUE]
                                                    ELSE /\ IF tstate[gt[self]] = "stopped"
                                                               THEN /\ gdone' = [gdone EXCEPT ![self] = TRUE]
                                                               ELSE /\ TRUE
                                                                    /\ gdone' = gdone
                                   /\ UNCHANGED gabort
             /\ pc' = [pc EXCEPT ![self] = "gsw2"]
             /\ UNCHANGED << code, kst, kstop, ksig, unrep, rip, mid, sstep, 
                             intr, iter, pend, spawned, expect, corrupt, owed, 
                             missed, spurious, sent, deliv, nsend, lost, hist, 
                             nsys, tstate, guard, focus, bpen, sigq, ncmd, 
                             atPrompt, dead, wst, ret, retpid, retsig, todo, 
                             round, stack, initiator, gtodo, gt, st, stid, 
                             ctodo, inj >>

gsw2(self) == /\ pc[self] = "gsw2"
              /\ IF ~gdone[self]
                    THEN /\ \E t \in Threads : (gt[self] = None \/ gt[self] = t) /\ Reportable(t)
                         /\ \E t \in {x \in Threads : (gt[self] = None \/ gt[self] = x) /\ Reportable(x)}:
                              /\ wst' = [pid |-> t, kind |-> IF kst[t] = "zombie" THEN "exited" ELSE kstop[t], sig |-> ksig[t]]
                              /\ unrep' = [unrep EXCEPT ![t] = FALSE]
                              /\ IF kst[t] = "zombie"
                                    THEN /\ kst' = [kst EXCEPT ![t] = "exited"]
                                    ELSE /\ TRUE
                                         /\ kst' = kst
                         /\ nsys' = IF Hist THEN nsys + 1 ELSE 0
                    ELSE /\ TRUE
                         /\ UNCHANGED << kst, unrep, nsys, wst >>
              /\ pc' = [pc EXCEPT ![self] = "gsc"]
              /\ UNCHANGED << code, kstop, ksig, rip, mid, sstep, intr, iter, 
                              pend, spawned, expect, corrupt, owed, missed, 
                              spurious, sent, deliv, nsend, lost, hist, tstate, 
                              guard, focus, bpen, sigq, ncmd, atPrompt, dead, 
                              ret, retpid, retsig, todo, round, stack, 
                              initiator, gtodo, gt, gdone, gabort, st, stid, 
                              ctodo, inj >>

gse(self) == /\ pc[self] = "gse"
             /\ IF tstate[gt[self]] = "running"
                   THEN /\ tstate' = [tstate EXCEPT ![gt[self]] = "stopped"]
                   ELSE /\ TRUE
                        /\ UNCHANGED tstate
             /\ pc' = [pc EXCEPT ![self] = "gsl"]
             /\ UNCHANGED << code, kst, kstop, ksig, unrep, rip, mid, sstep, 
                             intr, iter, pend, spawned, expect, corrupt, owed, 
                             missed, spurious, sent, deliv, nsend, lost, hist, 
                             nsys, guard, focus, bpen, sigq, ncmd, atPrompt, 
                             dead, wst, ret, retpid, retsig, todo, round, 
                             stack, initiator, gtodo, gt, gdone, gabort, st, 
                             stid, ctodo, inj >>

gsn(self) == /\ pc[self] = "gsn"
             /\ round' = round + 1
             /\ pc' = [pc EXCEPT ![self] = "gsr"]
             /\ UNCHANGED << code, kst, kstop, ksig, unrep, rip, mid, sstep, 
                             intr, iter, pend, spawned, expect, corrupt, owed, 
                             missed, spurious, sent, deliv, nsend, lost, hist, 
                             nsys, tstate, guard, focus, bpen, sigq, ncmd, 
                             atPrompt, dead, wst, ret, retpid, retsig, todo, 
                             stack, initiator, gtodo, gt, gdone, gabort, st, 
                             stid, ctodo, inj >>

gsx(self) == /\ pc[self] = "gsx"
             /\ IF ~gabort[self]
                   THEN /\ guard' = FALSE
                   ELSE /\ TRUE
                        /\ guard' = guard
             /\ pc' = [pc EXCEPT ![self] = Head(stack[self]).pc]
             /\ gtodo' = [gtodo EXCEPT ![self] = Head(stack[self]).gtodo]
             /\ gt' = [gt EXCEPT ![self] = Head(stack[self]).gt]
             /\ gdone' = [gdone EXCEPT ![self] = Head(stack[self]).gdone]
             /\ gabort' = [gabort EXCEPT ![self] = Head(stack[self]).gabort]
             /\ initiator' = [initiator EXCEPT ![self] = Head(stack[self]).initiator]
             /\ stack' = [stack EXCEPT ![self] = Tail(stack[self])]
             /\ UNCHANGED << code, kst, kstop, ksig, unrep, rip, mid, sstep, 
                             intr, iter, pend, spawned, expect, corrupt, owed, 
                             missed, spurious, sent, deliv, nsend, lost, hist, 
                             nsys, tstate, focus, bpen, sigq, ncmd, atPrompt, 
                             dead, wst, ret, retpid, retsig, todo, round, st, 
                             stid, ctodo, inj >>

group_stop(self) == gs0(self) \/ gs1(self) \/ gs1b(self) \/ gs2(self)
                       \/ gsr(self) \/ gsl(self) \/ gsk(self) \/ gsj(self)
                       \/ gsw(self) \/ gsc(self) \/ gsd(self) \/ gsw2(self)
                       \/ gse(self) \/ gsn(self) \/ gsx(self)

ap0(self) == /\ pc[self] = "ap0"
             /\ ret' = "none"
             /\ retpid' = None
             /\ retsig' = "none"
             /\ pc' = [pc EXCEPT ![self] = "ap0b"]
             /\ UNCHANGED << code, kst, kstop, ksig, unrep, rip, mid, sstep, 
                             intr, iter, pend, spawned, expect, corrupt, owed, 
                             missed, spurious, sent, deliv, nsend, lost, hist, 
                             nsys, tstate, guard, focus, bpen, sigq, ncmd, 
                             atPrompt, dead, wst, todo, round, stack, 
                             initiator, gtodo, gt, gdone, gabort, st, stid, 
                             ctodo, inj >>

ap0b(self) == /\ pc[self] = "ap0b"
              /\ IF st[self].kind = "exited"
                    THEN /\ tstate' = [tstate EXCEPT ![st[self].pid] = "gone"]
                         /\ IF st[self].pid = Main
                               THEN /\ ret' = "exit"
                               ELSE /\ TRUE
                                    /\ ret' = ret
                         /\ pc' = [pc EXCEPT ![self] = Head(stack[self]).pc]
                         /\ st' = [st EXCEPT ![self] = Head(stack[self]).st]
                         /\ stack' = [stack EXCEPT ![self] = Tail(stack[self])]
                         /\ sigq' = sigq
                    ELSE /\ IF st[self].kind = "event_stop"
                               THEN /\ IF ~(MutForgetNew /\ tstate[st[self].pid] = "gone")
                                          THEN /\ tstate' = [tstate EXCEPT ![st[self].pid] = "stopped"]
                                          ELSE /\ TRUE
                                               /\ UNCHANGED tstate
                                    /\ pc' = [pc EXCEPT ![self] = Head(stack[self]).pc]
                                    /\ st' = [st EXCEPT ![self] = Head(stack[self]).st]
                                    /\ stack' = [stack EXCEPT ![self] = Tail(stack[self])]
                                    /\ sigq' = sigq
                               ELSE /\ IF st[self].kind = "event_clone"
                                          THEN /\ tstate' = [tstate EXCEPT ![st[self].pid] = "stopped"]
                                               /\ pc' = [pc EXCEPT ![self] = "apc"]
                                               /\ UNCHANGED << sigq, stack, st >>
                                          ELSE /\ IF st[self].kind = "event_exit"
                                                     THEN /\ IF tstate[st[self].pid] = "gone"
                                                                THEN /\ pc' = [pc EXCEPT ![self] = Head(stack[self]).pc]
                                                                     /\ st' = [st EXCEPT ![self] = Head(stack[self]).st]
                                                                     /\ stack' = [stack EXCEPT ![self] = Tail(stack[self])]
                                                                     /\ UNCHANGED tstate
                                                                ELSE /\ tstate' = [tstate EXCEPT ![st[self].pid] = "gone"]
                                                                     /\ pc' = [pc EXCEPT ![self] = "ap1"]
                                                                     /\ UNCHANGED << stack, 
                                                                                     st >>
                                                          /\ sigq' = sigq
                                                     ELSE /\ IF st[self].kind = "trap_brkpt"
                                                                THEN /\ pc' = [pc EXCEPT ![self] = "ap2"]
                                                                     /\ UNCHANGED << tstate, 
                                                                                     sigq, 
                                                                                     stack, 
                                                                                     st >>
                                                                ELSE /\ IF st[self].kind = "signal"
                                                                           THEN /\ IF st[self].sig \notin Transparent
                                                                                      THEN /\ sigq' = Append(sigq, <<st[self].pid, st[self].sig>>)
                                                                                      ELSE /\ TRUE
                                                                                           /\ sigq' = sigq
                                                                                /\ tstate' = [tstate EXCEPT ![st[self].pid] = "stopped"]
                                                                                /\ pc' = [pc EXCEPT ![self] = "aps"]
                                                                                /\ UNCHANGED << stack, 
                                                                                                st >>
                                                                           ELSE /\ pc' = [pc EXCEPT ![self] = Head(stack[self]).pc]
                                                                                /\ st' = [st EXCEPT ![self] = Head(stack[self]).st]
                                                                                /\ stack' = [stack EXCEPT ![self] = Tail(stack[self])]
                                                                                /\ UNCHANGED << tstate, 
                                                                                                sigq >>
                         /\ ret' = ret
              /\ UNCHANGED << code, kst, kstop, ksig, unrep, rip, mid, sstep, 
                              intr, iter, pend, spawned, expect, corrupt, owed, 
                              missed, spurious, sent, deliv, nsend, lost, hist, 
                              nsys, guard, focus, bpen, ncmd, atPrompt, dead, 
                              wst, retpid, retsig, todo, round, initiator, 
                              gtodo, gt, gdone, gabort, stid, ctodo, inj >>

apc(self) == /\ pc[self] = "apc"
             /\ IF tstate[ChildOf[st[self].pid]] = "gone"
                   THEN /\ tstate' = [tstate EXCEPT ![ChildOf[st[self].pid]] = "stopped"]
                        /\ pc' = [pc EXCEPT ![self] = "apw"]
                   ELSE /\ pc' = [pc EXCEPT ![self] = "apd"]
                        /\ UNCHANGED tstate
             /\ UNCHANGED << code, kst, kstop, ksig, unrep, rip, mid, sstep, 
                             intr, iter, pend, spawned, expect, corrupt, owed, 
                             missed, spurious, sent, deliv, nsend, lost, hist, 
                             nsys, guard, focus, bpen, sigq, ncmd, atPrompt, 
                             dead, wst, ret, retpid, retsig, todo, round, 
                             stack, initiator, gtodo, gt, gdone, gabort, st, 
                             stid, ctodo, inj >>

apw(self) == /\ pc[self] = "apw"
             /\ \E t \in Threads : ((ChildOf[st[self].pid]) = None \/ (ChildOf[st[self].pid]) = t) /\ Reportable(t)
             /\ \E t \in {x \in Threads : ((ChildOf[st[self].pid]) = None \/ (ChildOf[st[self].pid]) = x) /\ Reportable(x)}:
                  /\ wst' = [pid |-> t, kind |-> IF kst[t] = "zombie" THEN "exited" ELSE kstop[t], sig |-> ksig[t]]
                  /\ unrep' = [unrep EXCEPT ![t] = FALSE]
                  /\ IF kst[t] = "zombie"
                        THEN /\ kst' = [kst EXCEPT ![t] = "exited"]
                        ELSE /\ TRUE
                             /\ kst' = kst
             /\ nsys' = IF Hist THEN nsys + 1 ELSE 0
             /\ pc' = [pc EXCEPT ![self] = "apx"]
             /\ UNCHANGED << code, kstop, ksig, rip, mid, sstep, intr, iter, 
                             pend, spawned, expect, corrupt, owed, missed, 
                             spurious, sent, deliv, nsend, lost, hist, tstate, 
                             guard, focus, bpen, sigq, ncmd, atPrompt, dead, 
                             ret, retpid, retsig, todo, round, stack, 
                             initiator, gtodo, gt, gdone, gabort, st, stid, 
                             ctodo, inj >>

apx(self) == /\ pc[self] = "apx"
             /\ IF wst.kind = "exited"
                   THEN /\ tstate' = [tstate EXCEPT ![wst.pid] = "gone"]
                   ELSE /\ TRUE
                        /\ UNCHANGED tstate
             /\ pc' = [pc EXCEPT ![self] = "apd"]
             /\ UNCHANGED << code, kst, kstop, ksig, unrep, rip, mid, sstep, 
                             intr, iter, pend, spawned, expect, corrupt, owed, 
                             missed, spurious, sent, deliv, nsend, lost, hist, 
                             nsys, guard, focus, bpen, sigq, ncmd, atPrompt, 
                             dead, wst, ret, retpid, retsig, todo, round, 
                             stack, initiator, gtodo, gt, gdone, gabort, st, 
                             stid, ctodo, inj >>

apd(self) == /\ pc[self] = "apd"
             /\ pc' = [pc EXCEPT ![self] = Head(stack[self]).pc]
             /\ st' = [st EXCEPT ![self] = Head(stack[self]).st]
             /\ stack' = [stack EXCEPT ![self] = Tail(stack[self])]
             /\ UNCHANGED << code, kst, kstop, ksig, unrep, rip, mid, sstep, 
                             intr, iter, pend, spawned, expect, corrupt, owed, 
                             missed, spurious, sent, deliv, nsend, lost, hist, 
                             nsys, tstate, guard, focus, bpen, sigq, ncmd, 
                             atPrompt, dead, wst, ret, retpid, retsig, todo, 
                             round, initiator, gtodo, gt, gdone, gabort, stid, 
                             ctodo, inj >>

ap1(self) == /\ pc[self] = "ap1"
             /\ IF kst[(st[self].pid)] = "stopped"
                   THEN /\ IF kstop[(st[self].pid)] = "event_exit"
                              THEN /\ kst' = [kst EXCEPT ![(st[self].pid)] = "zombie"]
                                   /\ unrep' = [unrep EXCEPT ![(st[self].pid)] = TRUE]
                                   /\ kstop' = [kstop EXCEPT ![(st[self].pid)] = "none"]
                                   /\ UNCHANGED << ksig, sstep, deliv, lost >>
                              ELSE /\ IF "none" # "none" /\ kstop[(st[self].pid)] \in SigStops
                                         THEN /\ deliv' = [deliv EXCEPT !["none"] = deliv["none"] + 1]
                                              /\ lost' = lost
                                         ELSE /\ IF "none" # "none"
                                                    THEN /\ lost' = TRUE
                                                    ELSE /\ IF kstop[(st[self].pid)] = "signal" /\ ksig[(st[self].pid)] \notin Transparent /\ ~Queued((st[self].pid), ksig[(st[self].pid)])
                                                               THEN /\ lost' = TRUE
                                                               ELSE /\ TRUE
                                                                    /\ lost' = lost
                                              /\ deliv' = deliv
                                   /\ kst' = [kst EXCEPT ![(st[self].pid)] = "running"]
                                   /\ kstop' = [kstop EXCEPT ![(st[self].pid)] = "none"]
                                   /\ ksig' = [ksig EXCEPT ![(st[self].pid)] = "none"]
                                   /\ sstep' = [sstep EXCEPT ![(st[self].pid)] = FALSE]
                                   /\ unrep' = unrep
                   ELSE /\ TRUE
                        /\ UNCHANGED << kst, kstop, ksig, unrep, sstep, deliv, 
                                        lost >>
             /\ nsys' = IF Hist THEN nsys + 1 ELSE 0
             /\ pc' = [pc EXCEPT ![self] = "apr"]
             /\ UNCHANGED << code, rip, mid, intr, iter, pend, spawned, expect, 
                             corrupt, owed, missed, spurious, sent, nsend, 
                             hist, tstate, guard, focus, bpen, sigq, ncmd, 
                             atPrompt, dead, wst, ret, retpid, retsig, todo, 
                             round, stack, initiator, gtodo, gt, gdone, gabort, 
                             st, stid, ctodo, inj >>

apr(self) == /\ pc[self] = "apr"
             /\ pc' = [pc EXCEPT ![self] = Head(stack[self]).pc]
             /\ st' = [st EXCEPT ![self] = Head(stack[self]).st]
             /\ stack' = [stack EXCEPT ![self] = Tail(stack[self])]
             /\ UNCHANGED << code, kst, kstop, ksig, unrep, rip, mid, sstep, 
                             intr, iter, pend, spawned, expect, corrupt, owed, 
                             missed, spurious, sent, deliv, nsend, lost, hist, 
                             nsys, tstate, guard, focus, bpen, sigq, ncmd, 
                             atPrompt, dead, wst, ret, retpid, retsig, todo, 
                             round, initiator, gtodo, gt, gdone, gabort, stid, 
                             ctodo, inj >>

ap2(self) == /\ pc[self] = "ap2"
             /\ IF ~MutNoRewind
                   THEN /\ mid' = [mid EXCEPT ![st[self].pid] = FALSE]
                   ELSE /\ TRUE
                        /\ mid' = mid
             /\ nsys' = IF Hist THEN nsys + 1 ELSE 0
             /\ pc' = [pc EXCEPT ![self] = "ap3"]
             /\ UNCHANGED << code, kst, kstop, ksig, unrep, rip, sstep, intr, 
                             iter, pend, spawned, expect, corrupt, owed, 
                             missed, spurious, sent, deliv, nsend, lost, hist, 
                             tstate, guard, focus, bpen, sigq, ncmd, atPrompt, 
                             dead, wst, ret, retpid, retsig, todo, round, 
                             stack, initiator, gtodo, gt, gdone, gabort, st, 
                             stid, ctodo, inj >>

ap3(self) == /\ pc[self] = "ap3"
             /\ IF mid[st[self].pid] \/ ~bpen[rip[st[self].pid]]
                   THEN /\ pc' = [pc EXCEPT ![self] = Head(stack[self]).pc]
                        /\ st' = [st EXCEPT ![self] = Head(stack[self]).st]
                        /\ stack' = [stack EXCEPT ![self] = Tail(stack[self])]
                   ELSE /\ pc' = [pc EXCEPT ![self] = "ap4"]
                        /\ UNCHANGED << stack, st >>
             /\ UNCHANGED << code, kst, kstop, ksig, unrep, rip, mid, sstep, 
                             intr, iter, pend, spawned, expect, corrupt, owed, 
                             missed, spurious, sent, deliv, nsend, lost, hist, 
                             nsys, tstate, guard, focus, bpen, sigq, ncmd, 
                             atPrompt, dead, wst, ret, retpid, retsig, todo, 
                             round, initiator, gtodo, gt, gdone, gabort, stid, 
                             ctodo, inj >>

ap4(self) == /\ pc[self] = "ap4"
             /\ tstate' = [tstate EXCEPT ![st[self].pid] = "stopped"]
             /\ /\ initiator' = [initiator EXCEPT ![self] = st[self].pid]
                /\ stack' = [stack EXCEPT ![self] = << [ procedure |->  "group_stop",
                                                         pc        |->  "ap5",
                                                         gtodo     |->  gtodo[self],
                                                         gt        |->  gt[self],
                                                         gdone     |->  gdone[self],
                                                         gabort    |->  gabort[self],
                                                         initiator |->  initiator[self] ] >>
                                                     \o stack[self]]
             /\ gtodo' = [gtodo EXCEPT ![self] = {}]
             /\ gt' = [gt EXCEPT ![self] = None]
             /\ gdone' = [gdone EXCEPT ![self] = FALSE]
             /\ gabort' = [gabort EXCEPT ![self] = FALSE]
             /\ pc' = [pc EXCEPT ![self] = "gs0"]
             /\ UNCHANGED << code, kst, kstop, ksig, unrep, rip, mid, sstep, 
                             intr, iter, pend, spawned, expect, corrupt, owed, 
                             missed, spurious, sent, deliv, nsend, lost, hist, 
                             nsys, guard, focus, bpen, sigq, ncmd, atPrompt, 
                             dead, wst, ret, retpid, retsig, todo, round, st, 
                             stid, ctodo, inj >>

ap5(self) == /\ pc[self] = "ap5"
             /\ ret' = "brkpt"
             /\ retpid' = st[self].pid
             /\ pc' = [pc EXCEPT ![self] = Head(stack[self]).pc]
             /\ st' = [st EXCEPT ![self] = Head(stack[self]).st]
             /\ stack' = [stack EXCEPT ![self] = Tail(stack[self])]
             /\ UNCHANGED << code, kst, kstop, ksig, unrep, rip, mid, sstep, 
                             intr, iter, pend, spawned, expect, corrupt, owed, 
                             missed, spurious, sent, deliv, nsend, lost, hist, 
                             nsys, tstate, guard, focus, bpen, sigq, ncmd, 
                             atPrompt, dead, wst, retsig, todo, round, 
                             initiator, gtodo, gt, gdone, gabort, stid, ctodo, 
                             inj >>

aps(self) == /\ pc[self] = "aps"
             /\ IF st[self].sig \notin Quiet
                   THEN /\ /\ initiator' = [initiator EXCEPT ![self] = st[self].pid]
                           /\ stack' = [stack EXCEPT ![self] = << [ procedure |->  "group_stop",
                                                                    pc        |->  "apt",
                                                                    gtodo     |->  gtodo[self],
                                                                    gt        |->  gt[self],
                                                                    gdone     |->  gdone[self],
                                                                    gabort    |->  gabort[self],
                                                                    initiator |->  initiator[self] ] >>
                                                                \o stack[self]]
                        /\ gtodo' = [gtodo EXCEPT ![self] = {}]
                        /\ gt' = [gt EXCEPT ![self] = None]
                        /\ gdone' = [gdone EXCEPT ![self] = FALSE]
                        /\ gabort' = [gabort EXCEPT ![self] = FALSE]
                        /\ pc' = [pc EXCEPT ![self] = "gs0"]
                   ELSE /\ pc' = [pc EXCEPT ![self] = "apt"]
                        /\ UNCHANGED << stack, initiator, gtodo, gt, gdone, 
                                        gabort >>
             /\ UNCHANGED << code, kst, kstop, ksig, unrep, rip, mid, sstep, 
                             intr, iter, pend, spawned, expect, corrupt, owed, 
                             missed, spurious, sent, deliv, nsend, lost, hist, 
                             nsys, tstate, guard, focus, bpen, sigq, ncmd, 
                             atPrompt, dead, wst, ret, retpid, retsig, todo, 
                             round, st, stid, ctodo, inj >>

apt(self) == /\ pc[self] = "apt"
             /\ ret' = "signal"
             /\ retpid' = st[self].pid
             /\ retsig' = st[self].sig
             /\ pc' = [pc EXCEPT ![self] = Head(stack[self]).pc]
             /\ st' = [st EXCEPT ![self] = Head(stack[self]).st]
             /\ stack' = [stack EXCEPT ![self] = Tail(stack[self])]
             /\ UNCHANGED << code, kst, kstop, ksig, unrep, rip, mid, sstep, 
                             intr, iter, pend, spawned, expect, corrupt, owed, 
                             missed, spurious, sent, deliv, nsend, lost, hist, 
                             nsys, tstate, guard, focus, bpen, sigq, ncmd, 
                             atPrompt, dead, wst, todo, round, initiator, 
                             gtodo, gt, gdone, gabort, stid, ctodo, inj >>

apply(self) == ap0(self) \/ ap0b(self) \/ apc(self) \/ apw(self)
                  \/ apx(self) \/ apd(self) \/ ap1(self) \/ apr(self)
                  \/ ap2(self) \/ ap3(self) \/ ap4(self) \/ ap5(self)
                  \/ aps(self) \/ apt(self)

ss0(self) == /\ pc[self] = "ss0"
             /\ IF kst[stid[self]] = "stopped"
                   THEN /\ IF kstop[stid[self]] = "event_exit"
                              THEN /\ kst' = [kst EXCEPT ![stid[self]] = "zombie"]
                                   /\ unrep' = [unrep EXCEPT ![stid[self]] = TRUE]
                                   /\ kstop' = [kstop EXCEPT ![stid[self]] = "none"]
                                   /\ UNCHANGED << ksig, sstep, deliv, lost >>
                              ELSE /\ IF "none" # "none" /\ kstop[stid[self]] \in SigStops
                                         THEN /\ deliv' = [deliv EXCEPT !["none"] = deliv["none"] + 1]
                                              /\ lost' = lost
                                         ELSE /\ IF "none" # "none"
                                                    THEN /\ lost' = TRUE
                                                    ELSE /\ IF kstop[stid[self]] = "signal" /\ ksig[stid[self]] \notin Transparent /\ ~Queued(stid[self], ksig[stid[self]])
                                                               THEN /\ lost' = TRUE
                                                               ELSE /\ TRUE
                                                                    /\ lost' = lost
                                              /\ deliv' = deliv
                                   /\ kst' = [kst EXCEPT ![stid[self]] = "running"]
                                   /\ kstop' = [kstop EXCEPT ![stid[self]] = "none"]
                                   /\ ksig' = [ksig EXCEPT ![stid[self]] = "none"]
                                   /\ sstep' = [sstep EXCEPT ![stid[self]] = TRUE]
                                   /\ unrep' = unrep
                   ELSE /\ TRUE
                        /\ UNCHANGED << kst, kstop, ksig, unrep, sstep, deliv, 
                                        lost >>
             /\ nsys' = IF Hist THEN nsys + 1 ELSE 0
             /\ pc' = [pc EXCEPT ![self] = "ss1"]
             /\ UNCHANGED << code, rip, mid, intr, iter, pend, spawned, expect, 
                             corrupt, owed, missed, spurious, sent, nsend, 
                             hist, tstate, guard, focus, bpen, sigq, ncmd, 
                             atPrompt, dead, wst, ret, retpid, retsig, todo, 
                             round, stack, initiator, gtodo, gt, gdone, gabort, 
                             st, stid, ctodo, inj >>

ss1(self) == /\ pc[self] = "ss1"
             /\ \E t \in Threads : (stid[self] = None \/ stid[self] = t) /\ Reportable(t)
             /\ \E t \in {x \in Threads : (stid[self] = None \/ stid[self] = x) /\ Reportable(x)}:
                  /\ wst' = [pid |-> t, kind |-> IF kst[t] = "zombie" THEN "exited" ELSE kstop[t], sig |-> ksig[t]]
                  /\ unrep' = [unrep EXCEPT ![t] = FALSE]
                  /\ IF kst[t] = "zombie"
                        THEN /\ kst' = [kst EXCEPT ![t] = "exited"]
                        ELSE /\ TRUE
                             /\ kst' = kst
             /\ nsys' = IF Hist THEN nsys + 1 ELSE 0
             /\ pc' = [pc EXCEPT ![self] = "ss2"]
             /\ UNCHANGED << code, kstop, ksig, rip, mid, sstep, intr, iter, 
                             pend, spawned, expect, corrupt, owed, missed, 
                             spurious, sent, deliv, nsend, lost, hist, tstate, 
                             guard, focus, bpen, sigq, ncmd, atPrompt, dead, 
                             ret, retpid, retsig, todo, round, stack, 
                             initiator, gtodo, gt, gdone, gabort, st, stid, 
                             ctodo, inj >>

ss2(self) == /\ pc[self] = "ss2"
             /\ IF wst.kind \in {"trap_step", "trap_brkpt", "event_stop"}
                   THEN /\ ret' = "none"
                        /\ pc' = [pc EXCEPT ![self] = Head(stack[self]).pc]
                        /\ stid' = [stid EXCEPT ![self] = Head(stack[self]).stid]
                        /\ stack' = [stack EXCEPT ![self] = Tail(stack[self])]
                        /\ st' = st
                   ELSE /\ /\ st' = [st EXCEPT ![self] = wst]
                           /\ stack' = [stack EXCEPT ![self] = << [ procedure |->  "apply",
                                                                    pc        |->  "ss3",
                                                                    st        |->  st[self] ] >>
                                                                \o stack[self]]
                        /\ pc' = [pc EXCEPT ![self] = "ap0"]
                        /\ UNCHANGED << ret, stid >>
             /\ UNCHANGED << code, kst, kstop, ksig, unrep, rip, mid, sstep, 
                             intr, iter, pend, spawned, expect, corrupt, owed, 
                             missed, spurious, sent, deliv, nsend, lost, hist, 
                             nsys, tstate, guard, focus, bpen, sigq, ncmd, 
                             atPrompt, dead, wst, retpid, retsig, todo, round, 
                             initiator, gtodo, gt, gdone, gabort, ctodo, inj >>

ss3(self) == /\ pc[self] = "ss3"
             /\ IF ret = "signal" /\ retsig \in Quiet
                   THEN /\ pc' = [pc EXCEPT ![self] = "ss4"]
                        /\ UNCHANGED << dead, stack, stid >>
                   ELSE /\ IF ret = "signal"
                              THEN /\ pc' = [pc EXCEPT ![self] = Head(stack[self]).pc]
                                   /\ stid' = [stid EXCEPT ![self] = Head(stack[self]).stid]
                                   /\ stack' = [stack EXCEPT ![self] = Tail(stack[self])]
                                   /\ dead' = dead
                              ELSE /\ IF ret = "exit"
                                         THEN /\ dead' = TRUE
                                              /\ pc' = [pc EXCEPT ![self] = Head(stack[self]).pc]
                                              /\ stid' = [stid EXCEPT ![self] = Head(stack[self]).stid]
                                              /\ stack' = [stack EXCEPT ![self] = Tail(stack[self])]
                                         ELSE /\ IF tstate[stid[self]] = "gone"
                                                    THEN /\ dead' = TRUE
                                                         /\ pc' = [pc EXCEPT ![self] = Head(stack[self]).pc]
                                                         /\ stid' = [stid EXCEPT ![self] = Head(stack[self]).stid]
                                                         /\ stack' = [stack EXCEPT ![self] = Tail(stack[self])]
                                                    ELSE /\ pc' = [pc EXCEPT ![self] = "ss1"]
                                                         /\ UNCHANGED << dead, 
                                                                         stack, 
                                                                         stid >>
             /\ UNCHANGED << code, kst, kstop, ksig, unrep, rip, mid, sstep, 
                             intr, iter, pend, spawned, expect, corrupt, owed, 
                             missed, spurious, sent, deliv, nsend, lost, hist, 
                             nsys, tstate, guard, focus, bpen, sigq, ncmd, 
                             atPrompt, wst, ret, retpid, retsig, todo, round, 
                             initiator, gtodo, gt, gdone, gabort, st, ctodo, 
                             inj >>

ss4(self) == /\ pc[self] = "ss4"
             /\ IF kst[stid[self]] = "stopped"
                   THEN /\ IF kstop[stid[self]] = "event_exit"
                              THEN /\ kst' = [kst EXCEPT ![stid[self]] = "zombie"]
                                   /\ unrep' = [unrep EXCEPT ![stid[self]] = TRUE]
                                   /\ kstop' = [kstop EXCEPT ![stid[self]] = "none"]
                                   /\ UNCHANGED << ksig, sstep, deliv, lost >>
                              ELSE /\ IF retsig # "none" /\ kstop[stid[self]] \in SigStops
                                         THEN /\ deliv' = [deliv EXCEPT ![retsig] = deliv[retsig] + 1]
                                              /\ lost' = lost
                                         ELSE /\ IF retsig # "none"
                                                    THEN /\ lost' = TRUE
                                                    ELSE /\ IF kstop[stid[self]] = "signal" /\ ksig[stid[self]] \notin Transparent /\ ~Queued(stid[self], ksig[stid[self]])
                                                               THEN /\ lost' = TRUE
                                                               ELSE /\ TRUE
                                                                    /\ lost' = lost
                                              /\ deliv' = deliv
                                   /\ kst' = [kst EXCEPT ![stid[self]] = "running"]
                                   /\ kstop' = [kstop EXCEPT ![stid[self]] = "none"]
                                   /\ ksig' = [ksig EXCEPT ![stid[self]] = "none"]
                                   /\ sstep' = [sstep EXCEPT ![stid[self]] = TRUE]
                                   /\ unrep' = unrep
                   ELSE /\ TRUE
                        /\ UNCHANGED << kst, kstop, ksig, unrep, sstep, deliv, 
                                        lost >>
             /\ nsys' = IF Hist THEN nsys + 1 ELSE 0
             /\ IF FixQuietDup
                   THEN /\ sigq' = SubSeq(sigq, 1, Len(sigq) - 1)
                   ELSE /\ TRUE
                        /\ sigq' = sigq
             /\ pc' = [pc EXCEPT ![self] = "ss1"]
             /\ UNCHANGED << code, rip, mid, intr, iter, pend, spawned, expect, 
                             corrupt, owed, missed, spurious, sent, nsend, 
                             hist, tstate, guard, focus, bpen, ncmd, atPrompt, 
                             dead, wst, ret, retpid, retsig, todo, round, 
                             stack, initiator, gtodo, gt, gdone, gabort, st, 
                             stid, ctodo, inj >>

single_step(self) == ss0(self) \/ ss1(self) \/ ss2(self) \/ ss3(self)
                        \/ ss4(self)

rs0(self) == /\ pc[self] = "rs0"
             /\ IF sigq # <<>>
                   THEN /\ inj' = [inj EXCEPT ![self] = Head(sigq)]
                        /\ sigq' = Tail(sigq)
                        /\ ctodo' = [ctodo EXCEPT ![self] = {t \in Threads : tstate[t] = "stopped"} \ (QPids \ {inj'[self][1]})]
                   ELSE /\ inj' = [inj EXCEPT ![self] = <<>>]
                        /\ ctodo' = [ctodo EXCEPT ![self] = {t \in Threads : tstate[t] = "stopped"}]
                        /\ sigq' = sigq
             /\ pc' = [pc EXCEPT ![self] = "rs1"]
             /\ UNCHANGED << code, kst, kstop, ksig, unrep, rip, mid, sstep, 
                             intr, iter, pend, spawned, expect, corrupt, owed, 
                             missed, spurious, sent, deliv, nsend, lost, hist, 
                             nsys, tstate, guard, focus, bpen, ncmd, atPrompt, 
                             dead, wst, ret, retpid, retsig, todo, round, 
                             stack, initiator, gtodo, gt, gdone, gabort, st, 
                             stid >>

rs1(self) == /\ pc[self] = "rs1"
             /\ IF ctodo[self] # {}
                   THEN /\ \E t \in ctodo[self]:
                             /\ ctodo' = [ctodo EXCEPT ![self] = ctodo[self] \ {t}]
                             /\ IF kst[t] = "stopped"
                                   THEN /\ tstate' = [tstate EXCEPT ![t] = "running"]
                                   ELSE /\ TRUE
                                        /\ UNCHANGED tstate
                             /\ IF kst[t] = "stopped"
                                   THEN /\ IF kstop[t] = "event_exit"
                                              THEN /\ kst' = [kst EXCEPT ![t] = "zombie"]
                                                   /\ unrep' = [unrep EXCEPT ![t] = TRUE]
                                                   /\ kstop' = [kstop EXCEPT ![t] = "none"]
                                                   /\ UNCHANGED << ksig, sstep, 
                                                                   deliv, lost >>
                                              ELSE /\ IF (IF inj[self] # <<>> /\ inj[self][1] = t THEN inj[self][2] ELSE "none") # "none" /\ kstop[t] \in SigStops
                                                         THEN /\ deliv' = [deliv EXCEPT ![(IF inj[self] # <<>> /\ inj[self][1] = t THEN inj[self][2] ELSE "none")] = deliv[(IF inj[self] # <<>> /\ inj[self][1] = t THEN inj[self][2] ELSE "none")] + 1]
                                                              /\ lost' = lost
                                                         ELSE /\ IF (IF inj[self] # <<>> /\ inj[self][1] = t THEN inj[self][2] ELSE "none") # "none"
                                                                    THEN /\ lost' = TRUE
                                                                    ELSE /\ IF kstop[t] = "signal" /\ ksig[t] \notin Transparent /\ ~Queued(t, ksig[t])
                                                                               THEN /\ lost' = TRUE
                                                                               ELSE /\ TRUE
                                                                                    /\ lost' = lost
                                                              /\ deliv' = deliv
                                                   /\ kst' = [kst EXCEPT ![t] = "running"]
                                                   /\ kstop' = [kstop EXCEPT ![t] = "none"]
                                                   /\ ksig' = [ksig EXCEPT ![t] = "none"]
                                                   /\ sstep' = [sstep EXCEPT ![t] = FALSE]
                                                   /\ unrep' = unrep
                                   ELSE /\ TRUE
                                        /\ UNCHANGED << kst, kstop, ksig, 
                                                        unrep, sstep, deliv, 
                                                        lost >>
                             /\ nsys' = IF Hist THEN nsys + 1 ELSE 0
                        /\ pc' = [pc EXCEPT ![self] = "rs1"]
                   ELSE /\ pc' = [pc EXCEPT ![self] = "rsq"]
                        /\ UNCHANGED << kst, kstop, ksig, unrep, sstep, deliv, 
                                        lost, nsys, tstate, ctodo >>
             /\ UNCHANGED << code, rip, mid, intr, iter, pend, spawned, expect, 
                             corrupt, owed, missed, spurious, sent, nsend, 
                             hist, guard, focus, bpen, sigq, ncmd, atPrompt, 
                             dead, wst, ret, retpid, retsig, todo, round, 
                             stack, initiator, gtodo, gt, gdone, gabort, st, 
                             stid, inj >>

rsq(self) == /\ pc[self] = "rsq"
             /\ IF inj[self] # <<>> /\ sigq # <<>>
                   THEN /\ /\ initiator' = [initiator EXCEPT ![self] = None]
                           /\ stack' = [stack EXCEPT ![self] = << [ procedure |->  "group_stop",
                                                                    pc        |->  "rsr",
                                                                    gtodo     |->  gtodo[self],
                                                                    gt        |->  gt[self],
                                                                    gdone     |->  gdone[self],
                                                                    gabort    |->  gabort[self],
                                                                    initiator |->  initiator[self] ] >>
                                                                \o stack[self]]
                        /\ gtodo' = [gtodo EXCEPT ![self] = {}]
                        /\ gt' = [gt EXCEPT ![self] = None]
                        /\ gdone' = [gdone EXCEPT ![self] = FALSE]
                        /\ gabort' = [gabort EXCEPT ![self] = FALSE]
                        /\ pc' = [pc EXCEPT ![self] = "gs0"]
                   ELSE /\ pc' = [pc EXCEPT ![self] = "rs2"]
                        /\ UNCHANGED << stack, initiator, gtodo, gt, gdone, 
                                        gabort >>
             /\ UNCHANGED << code, kst, kstop, ksig, unrep, rip, mid, sstep, 
                             intr, iter, pend, spawned, expect, corrupt, owed, 
                             missed, spurious, sent, deliv, nsend, lost, hist, 
                             nsys, tstate, guard, focus, bpen, sigq, ncmd, 
                             atPrompt, dead, wst, ret, retpid, retsig, todo, 
                             round, st, stid, ctodo, inj >>

rsr(self) == /\ pc[self] = "rsr"
             /\ ret' = "signal"
             /\ retpid' = Head(sigq)[1]
             /\ retsig' = Head(sigq)[2]
             /\ pc' = [pc EXCEPT ![self] = Head(stack[self]).pc]
             /\ ctodo' = [ctodo EXCEPT ![self] = Head(stack[self]).ctodo]
             /\ inj' = [inj EXCEPT ![self] = Head(stack[self]).inj]
             /\ stack' = [stack EXCEPT ![self] = Tail(stack[self])]
             /\ UNCHANGED << code, kst, kstop, ksig, unrep, rip, mid, sstep, 
                             intr, iter, pend, spawned, expect, corrupt, owed, 
                             missed, spurious, sent, deliv, nsend, lost, hist, 
                             nsys, tstate, guard, focus, bpen, sigq, ncmd, 
                             atPrompt, dead, wst, todo, round, initiator, 
                             gtodo, gt, gdone, gabort, st, stid >>

rs2(self) == /\ pc[self] = "rs2"
             /\ \E t \in Threads : (None = None \/ None = t) /\ Reportable(t)
             /\ \E t \in {x \in Threads : (None = None \/ None = x) /\ Reportable(x)}:
                  /\ wst' = [pid |-> t, kind |-> IF kst[t] = "zombie" THEN "exited" ELSE kstop[t], sig |-> ksig[t]]
                  /\ unrep' = [unrep EXCEPT ![t] = FALSE]
                  /\ IF kst[t] = "zombie"
                        THEN /\ kst' = [kst EXCEPT ![t] = "exited"]
                        ELSE /\ TRUE
                             /\ kst' = kst
             /\ nsys' = IF Hist THEN nsys + 1 ELSE 0
             /\ pc' = [pc EXCEPT ![self] = "rs3"]
             /\ UNCHANGED << code, kstop, ksig, rip, mid, sstep, intr, iter, 
                             pend, spawned, expect, corrupt, owed, missed, 
                             spurious, sent, deliv, nsend, lost, hist, tstate, 
                             guard, focus, bpen, sigq, ncmd, atPrompt, dead, 
                             ret, retpid, retsig, todo, round, stack, 
                             initiator, gtodo, gt, gdone, gabort, st, stid, 
                             ctodo, inj >>

rs3(self) == /\ pc[self] = "rs3"
             /\ /\ st' = [st EXCEPT ![self] = wst]
                /\ stack' = [stack EXCEPT ![self] = << [ procedure |->  "apply",
                                                         pc        |->  "rs4",
                                                         st        |->  st[self] ] >>
                                                     \o stack[self]]
             /\ pc' = [pc EXCEPT ![self] = "ap0"]
             /\ UNCHANGED << code, kst, kstop, ksig, unrep, rip, mid, sstep, 
                             intr, iter, pend, spawned, expect, corrupt, owed, 
                             missed, spurious, sent, deliv, nsend, lost, hist, 
                             nsys, tstate, guard, focus, bpen, sigq, ncmd, 
                             atPrompt, dead, wst, ret, retpid, retsig, todo, 
                             round, initiator, gtodo, gt, gdone, gabort, stid, 
                             ctodo, inj >>

rs4(self) == /\ pc[self] = "rs4"
             /\ IF ret = "signal" /\ retsig \in Quiet
                   THEN /\ TRUE
                        /\ pc' = [pc EXCEPT ![self] = "rs0"]
                        /\ UNCHANGED << stack, ctodo, inj >>
                   ELSE /\ IF ret # "none"
                              THEN /\ pc' = [pc EXCEPT ![self] = Head(stack[self]).pc]
                                   /\ ctodo' = [ctodo EXCEPT ![self] = Head(stack[self]).ctodo]
                                   /\ inj' = [inj EXCEPT ![self] = Head(stack[self]).inj]
                                   /\ stack' = [stack EXCEPT ![self] = Tail(stack[self])]
                              ELSE /\ pc' = [pc EXCEPT ![self] = "rs0"]
                                   /\ UNCHANGED << stack, ctodo, inj >>
             /\ UNCHANGED << code, kst, kstop, ksig, unrep, rip, mid, sstep, 
                             intr, iter, pend, spawned, expect, corrupt, owed, 
                             missed, spurious, sent, deliv, nsend, lost, hist, 
                             nsys, tstate, guard, focus, bpen, sigq, ncmd, 
                             atPrompt, dead, wst, ret, retpid, retsig, todo, 
                             round, initiator, gtodo, gt, gdone, gabort, st, 
                             stid >>

resume(self) == rs0(self) \/ rs1(self) \/ rsq(self) \/ rsr(self)
                   \/ rs2(self) \/ rs3(self) \/ rs4(self)

sb0(self) == /\ pc[self] = "sb0"
             /\ ret' = "none"
             /\ IF tstate[focus] # "gone" /\ kst[focus] = "stopped" /\ ~mid[focus] /\ bpen[rip[focus]]
                   THEN /\ pc' = [pc EXCEPT ![self] = "sb1"]
                   ELSE /\ pc' = [pc EXCEPT ![self] = "sb4"]
             /\ UNCHANGED << code, kst, kstop, ksig, unrep, rip, mid, sstep, 
                             intr, iter, pend, spawned, expect, corrupt, owed, 
                             missed, spurious, sent, deliv, nsend, lost, hist, 
                             nsys, tstate, guard, focus, bpen, sigq, ncmd, 
                             atPrompt, dead, wst, retpid, retsig, todo, round, 
                             stack, initiator, gtodo, gt, gdone, gabort, st, 
                             stid, ctodo, inj >>

sb1(self) == /\ pc[self] = "sb1"
             /\ code' = [code EXCEPT ![rip[focus]] = "orig"]
             /\ bpen' = [bpen EXCEPT ![rip[focus]] = FALSE]
             /\ nsys' = IF Hist THEN nsys + 1 ELSE 0
             /\ pc' = [pc EXCEPT ![self] = "sb2"]
             /\ UNCHANGED << kst, kstop, ksig, unrep, rip, mid, sstep, intr, 
                             iter, pend, spawned, expect, corrupt, owed, 
                             missed, spurious, sent, deliv, nsend, lost, hist, 
                             tstate, guard, focus, sigq, ncmd, atPrompt, dead, 
                             wst, ret, retpid, retsig, todo, round, stack, 
                             initiator, gtodo, gt, gdone, gabort, st, stid, 
                             ctodo, inj >>

sb2(self) == /\ pc[self] = "sb2"
             /\ LET a == rip[focus] IN
                  todo' = {a}
             /\ /\ stack' = [stack EXCEPT ![self] = << [ procedure |->  "single_step",
                                                         pc        |->  "sb3",
                                                         stid      |->  stid[self] ] >>
                                                     \o stack[self]]
                /\ stid' = [stid EXCEPT ![self] = focus]
             /\ pc' = [pc EXCEPT ![self] = "ss0"]
             /\ UNCHANGED << code, kst, kstop, ksig, unrep, rip, mid, sstep, 
                             intr, iter, pend, spawned, expect, corrupt, owed, 
                             missed, spurious, sent, deliv, nsend, lost, hist, 
                             nsys, tstate, guard, focus, bpen, sigq, ncmd, 
                             atPrompt, dead, wst, ret, retpid, retsig, round, 
                             initiator, gtodo, gt, gdone, gabort, st, ctodo, 
                             inj >>

sb3(self) == /\ pc[self] = "sb3"
             /\ IF ~MutNoReenable
                   THEN /\ \E a \in todo:
                             /\ code' = [code EXCEPT ![a] = "int3"]
                             /\ bpen' = [bpen EXCEPT ![a] = TRUE]
                        /\ nsys' = IF Hist THEN nsys + 1 ELSE 0
                   ELSE /\ TRUE
                        /\ UNCHANGED << code, nsys, bpen >>
             /\ todo' = {}
             /\ pc' = [pc EXCEPT ![self] = "sb4"]
             /\ UNCHANGED << kst, kstop, ksig, unrep, rip, mid, sstep, intr, 
                             iter, pend, spawned, expect, corrupt, owed, 
                             missed, spurious, sent, deliv, nsend, lost, hist, 
                             tstate, guard, focus, sigq, ncmd, atPrompt, dead, 
                             wst, ret, retpid, retsig, round, stack, initiator, 
                             gtodo, gt, gdone, gabort, st, stid, ctodo, inj >>

sb4(self) == /\ pc[self] = "sb4"
             /\ pc' = [pc EXCEPT ![self] = Head(stack[self]).pc]
             /\ stack' = [stack EXCEPT ![self] = Tail(stack[self])]
             /\ UNCHANGED << code, kst, kstop, ksig, unrep, rip, mid, sstep, 
                             intr, iter, pend, spawned, expect, corrupt, owed, 
                             missed, spurious, sent, deliv, nsend, lost, hist, 
                             nsys, tstate, guard, focus, bpen, sigq, ncmd, 
                             atPrompt, dead, wst, ret, retpid, retsig, todo, 
                             round, initiator, gtodo, gt, gdone, gabort, st, 
                             stid, ctodo, inj >>

step_over_breakpoint(self) == sb0(self) \/ sb1(self) \/ sb2(self)
                                 \/ sb3(self) \/ sb4(self)

ce0(self) == /\ pc[self] = "ce0"
             /\ stack' = [stack EXCEPT ![self] = << [ procedure |->  "step_over_breakpoint",
                                                      pc        |->  "ce1" ] >>
                                                  \o stack[self]]
             /\ pc' = [pc EXCEPT ![self] = "sb0"]
             /\ UNCHANGED << code, kst, kstop, ksig, unrep, rip, mid, sstep, 
                             intr, iter, pend, spawned, expect, corrupt, owed, 
                             missed, spurious, sent, deliv, nsend, lost, hist, 
                             nsys, tstate, guard, focus, bpen, sigq, ncmd, 
                             atPrompt, dead, wst, ret, retpid, retsig, todo, 
                             round, initiator, gtodo, gt, gdone, gabort, st, 
                             stid, ctodo, inj >>

ce1(self) == /\ pc[self] = "ce1"
             /\ IF ret = "signal" \/ dead
                   THEN /\ pc' = [pc EXCEPT ![self] = Head(stack[self]).pc]
                        /\ stack' = [stack EXCEPT ![self] = Tail(stack[self])]
                   ELSE /\ pc' = [pc EXCEPT ![self] = "ce4"]
                        /\ stack' = stack
             /\ UNCHANGED << code, kst, kstop, ksig, unrep, rip, mid, sstep, 
                             intr, iter, pend, spawned, expect, corrupt, owed, 
                             missed, spurious, sent, deliv, nsend, lost, hist, 
                             nsys, tstate, guard, focus, bpen, sigq, ncmd, 
                             atPrompt, dead, wst, ret, retpid, retsig, todo, 
                             round, initiator, gtodo, gt, gdone, gabort, st, 
                             stid, ctodo, inj >>

ce4(self) == /\ pc[self] = "ce4"
             /\ stack' = [stack EXCEPT ![self] = << [ procedure |->  "resume",
                                                      pc        |->  "ce5",
                                                      ctodo     |->  ctodo[self],
                                                      inj       |->  inj[self] ] >>
                                                  \o stack[self]]
             /\ ctodo' = [ctodo EXCEPT ![self] = {}]
             /\ inj' = [inj EXCEPT ![self] = <<>>]
             /\ pc' = [pc EXCEPT ![self] = "rs0"]
             /\ UNCHANGED << code, kst, kstop, ksig, unrep, rip, mid, sstep, 
                             intr, iter, pend, spawned, expect, corrupt, owed, 
                             missed, spurious, sent, deliv, nsend, lost, hist, 
                             nsys, tstate, guard, focus, bpen, sigq, ncmd, 
                             atPrompt, dead, wst, ret, retpid, retsig, todo, 
                             round, initiator, gtodo, gt, gdone, gabort, st, 
                             stid >>

ce5(self) == /\ pc[self] = "ce5"
             /\ IF ret = "brkpt"
                   THEN /\ focus' = retpid
                        /\ IF ~owed[retpid]
                              THEN /\ spurious' = [spurious EXCEPT ![retpid] = TRUE]
                              ELSE /\ TRUE
                                   /\ UNCHANGED spurious
                        /\ owed' = [owed EXCEPT ![retpid] = FALSE]
                   ELSE /\ IF ret = "signal"
                              THEN /\ focus' = retpid
                                   /\ IF rip[retpid] \in UserBps /\ ~mid[retpid]
                                         THEN /\ owed' = [owed EXCEPT ![retpid] = FALSE]
                                         ELSE /\ TRUE
                                              /\ owed' = owed
                              ELSE /\ TRUE
                                   /\ UNCHANGED << owed, focus >>
                        /\ UNCHANGED spurious
             /\ pc' = [pc EXCEPT ![self] = Head(stack[self]).pc]
             /\ stack' = [stack EXCEPT ![self] = Tail(stack[self])]
             /\ UNCHANGED << code, kst, kstop, ksig, unrep, rip, mid, sstep, 
                             intr, iter, pend, spawned, expect, corrupt, 
                             missed, sent, deliv, nsend, lost, hist, nsys, 
                             tstate, guard, bpen, sigq, ncmd, atPrompt, dead, 
                             wst, ret, retpid, retsig, todo, round, initiator, 
                             gtodo, gt, gdone, gabort, st, stid, ctodo, inj >>

continue_execution(self) == ce0(self) \/ ce1(self) \/ ce4(self)
                               \/ ce5(self)

si0(self) == /\ pc[self] = "si0"
             /\ IF tstate[focus] = "gone" \/ kst[focus] # "stopped"
                   THEN /\ pc' = [pc EXCEPT ![self] = Head(stack[self]).pc]
                        /\ stack' = [stack EXCEPT ![self] = Tail(stack[self])]
                   ELSE /\ pc' = [pc EXCEPT ![self] = "si1"]
                        /\ stack' = stack
             /\ UNCHANGED << code, kst, kstop, ksig, unrep, rip, mid, sstep, 
                             intr, iter, pend, spawned, expect, corrupt, owed, 
                             missed, spurious, sent, deliv, nsend, lost, hist, 
                             nsys, tstate, guard, focus, bpen, sigq, ncmd, 
                             atPrompt, dead, wst, ret, retpid, retsig, todo, 
                             round, initiator, gtodo, gt, gdone, gabort, st, 
                             stid, ctodo, inj >>

si1(self) == /\ pc[self] = "si1"
             /\ IF bpen[rip[focus]] /\ ~mid[focus]
                   THEN /\ stack' = [stack EXCEPT ![self] = << [ procedure |->  "step_over_breakpoint",
                                                                 pc        |->  "si2" ] >>
                                                             \o stack[self]]
                        /\ pc' = [pc EXCEPT ![self] = "sb0"]
                        /\ stid' = stid
                   ELSE /\ /\ stack' = [stack EXCEPT ![self] = << [ procedure |->  "single_step",
                                                                    pc        |->  "si2",
                                                                    stid      |->  stid[self] ] >>
                                                                \o stack[self]]
                           /\ stid' = [stid EXCEPT ![self] = focus]
                        /\ pc' = [pc EXCEPT ![self] = "ss0"]
             /\ UNCHANGED << code, kst, kstop, ksig, unrep, rip, mid, sstep, 
                             intr, iter, pend, spawned, expect, corrupt, owed, 
                             missed, spurious, sent, deliv, nsend, lost, hist, 
                             nsys, tstate, guard, focus, bpen, sigq, ncmd, 
                             atPrompt, dead, wst, ret, retpid, retsig, todo, 
                             round, initiator, gtodo, gt, gdone, gabort, st, 
                             ctodo, inj >>

si2(self) == /\ pc[self] = "si2"
             /\ IF kst[focus] = "stopped" /\ rip[focus] \in UserBps
                   THEN /\ owed' = [owed EXCEPT ![focus] = FALSE]
                   ELSE /\ TRUE
                        /\ owed' = owed
             /\ pc' = [pc EXCEPT ![self] = Head(stack[self]).pc]
             /\ stack' = [stack EXCEPT ![self] = Tail(stack[self])]
             /\ UNCHANGED << code, kst, kstop, ksig, unrep, rip, mid, sstep, 
                             intr, iter, pend, spawned, expect, corrupt, 
                             missed, spurious, sent, deliv, nsend, lost, hist, 
                             nsys, tstate, guard, focus, bpen, sigq, ncmd, 
                             atPrompt, dead, wst, ret, retpid, retsig, todo, 
                             round, initiator, gtodo, gt, gdone, gabort, st, 
                             stid, ctodo, inj >>

stepi(self) == si0(self) \/ si1(self) \/ si2(self)

d0 == /\ pc[0] = "d0"
      /\ IF ncmd < MaxCmd /\ ret # "exit" /\ ~dead
            THEN /\ atPrompt' = FALSE
                 /\ nsys' = 0
                 /\ \/ /\ "continue" \in Cmds
                       /\ stack' = [stack EXCEPT ![0] = << [ procedure |->  "continue_execution",
                                                             pc        |->  "d1" ] >>
                                                         \o stack[0]]
                       /\ pc' = [pc EXCEPT ![0] = "ce0"]
                    \/ /\ "stepi" \in Cmds
                       /\ stack' = [stack EXCEPT ![0] = << [ procedure |->  "stepi",
                                                             pc        |->  "d1" ] >>
                                                         \o stack[0]]
                       /\ pc' = [pc EXCEPT ![0] = "si0"]
            ELSE /\ pc' = [pc EXCEPT ![0] = "Done"]
                 /\ UNCHANGED << nsys, atPrompt, stack >>
      /\ UNCHANGED << code, kst, kstop, ksig, unrep, rip, mid, sstep, intr, 
                      iter, pend, spawned, expect, corrupt, owed, missed, 
                      spurious, sent, deliv, nsend, lost, hist, tstate, guard, 
                      focus, bpen, sigq, ncmd, dead, wst, ret, retpid, retsig, 
                      todo, round, initiator, gtodo, gt, gdone, gabort, st, 
                      stid, ctodo, inj >>

d1 == /\ pc[0] = "d1"
      /\ ncmd' = ncmd + 1
      /\ atPrompt' = TRUE
      /\ pc' = [pc EXCEPT ![0] = "d0"]
      /\ UNCHANGED << code, kst, kstop, ksig, unrep, rip, mid, sstep, intr, 
                      iter, pend, spawned, expect, corrupt, owed, missed, 
                      spurious, sent, deliv, nsend, lost, hist, nsys, tstate, 
                      guard, focus, bpen, sigq, dead, wst, ret, retpid, retsig, 
                      todo, round, stack, initiator, gtodo, gt, gdone, gabort, 
                      st, stid, ctodo, inj >>

Dbg == d0 \/ d1

e0 == /\ pc[100] = "e0"
      /\ IF nsend < MaxSend
            THEN /\ \E t \in {x \in Threads : kst[x] \in {"running", "stopped"}}:
                      \E s \in Sigs:
                        /\ nsend' = nsend + 1
                        /\ IF s \notin pend[t] /\ ~(kstop[t] = "signal" /\ ksig[t] = s)
                              THEN /\ pend' = [pend EXCEPT ![t] = pend[t] \cup {s}]
                                   /\ sent' = [sent EXCEPT ![s] = sent[s] + 1]
                              ELSE /\ TRUE
                                   /\ UNCHANGED << pend, sent >>
                 /\ pc' = [pc EXCEPT ![100] = "e0"]
            ELSE /\ pc' = [pc EXCEPT ![100] = "Done"]
                 /\ UNCHANGED << pend, sent, nsend >>
      /\ UNCHANGED << code, kst, kstop, ksig, unrep, rip, mid, sstep, intr, 
                      iter, spawned, expect, corrupt, owed, missed, spurious, 
                      deliv, lost, hist, nsys, tstate, guard, focus, bpen, 
                      sigq, ncmd, atPrompt, dead, wst, ret, retpid, retsig, 
                      todo, round, stack, initiator, gtodo, gt, gdone, gabort, 
                      st, stid, ctodo, inj >>

Env == e0

t0(self) == /\ pc[self] = "t0"
            /\ IF kst[self] # "exited" /\ kst[self] # "zombie"
                  THEN /\ kst[self] = "running"
                       /\ LET kk == IF mid[self] THEN "corrupt"
                                    ELSE IF iter[self] < Iters[self] THEN (IF code[rip[self]] = "int3" THEN "trap" ELSE "insn")
                                    ELSE IF ChildOf[self] # 0 /\ ~spawned[self] THEN "clone"
                                    ELSE IF self # Main \/ (\A o \in Threads \ {Main} : kst[o] \in {"exited", "zombie"}) THEN "exit"
                                    ELSE "join" IN
                            \/ /\ intr[self]
                               /\ intr' = [intr EXCEPT ![self] = FALSE]
                               /\ kst' = [kst EXCEPT ![self] = "stopped"]
                               /\ kstop' = [kstop EXCEPT ![self] = "event_stop"]
                               /\ unrep' = [unrep EXCEPT ![self] = TRUE]
                               /\ UNCHANGED <<ksig, rip, mid, sstep, iter, pend, spawned, expect, corrupt, owed, missed, hist>>
                            \/ /\ ~intr[self] /\ pend[self] # {}
                               /\ \E s \in pend[self]:
                                    /\ pend' = [pend EXCEPT ![self] = pend[self] \ {s}]
                                    /\ kst' = [kst EXCEPT ![self] = "stopped"]
                                    /\ kstop' = [kstop EXCEPT ![self] = "signal"]
                                    /\ ksig' = [ksig EXCEPT ![self] = s]
                                    /\ unrep' = [unrep EXCEPT ![self] = TRUE]
                               /\ UNCHANGED <<rip, mid, sstep, intr, iter, spawned, expect, corrupt, owed, missed, hist>>
                            \/ /\ pend[self] = {} /\ kk # "join"
                               /\ ~intr[self] \/ kk \in {"trap", "clone", "exit"} \/ (kk = "insn" /\ sstep[self])
                               /\ intr' = [intr EXCEPT ![self] = FALSE]
                               /\ IF kk = "corrupt"
                                     THEN /\ corrupt' = TRUE
                                          /\ kst' = [kst EXCEPT ![self] = "zombie"]
                                          /\ unrep' = [unrep EXCEPT ![self] = TRUE]
                                          /\ UNCHANGED << kstop, rip, mid, 
                                                          sstep, iter, spawned, 
                                                          expect, owed, missed, 
                                                          hist >>
                                     ELSE /\ IF kk = "exit"
                                                THEN /\ kst' = [kst EXCEPT ![self] = "stopped"]
                                                     /\ kstop' = [kstop EXCEPT ![self] = "event_exit"]
                                                     /\ unrep' = [unrep EXCEPT ![self] = TRUE]
                                                     /\ IF Hist
                                                           THEN /\ hist' = Append(hist, [c |-> ncmd, k |-> nsys, lb |-> pc[0], sys |-> SysOf(pc[0]), t |-> self, w |-> "exit"])
                                                           ELSE /\ TRUE
                                                                /\ hist' = hist
                                                     /\ UNCHANGED << rip, mid, 
                                                                     sstep, 
                                                                     iter, 
                                                                     spawned, 
                                                                     expect, 
                                                                     corrupt, 
                                                                     owed, 
                                                                     missed >>
                                                ELSE /\ IF kk = "clone"
                                                           THEN /\ spawned' = [spawned EXCEPT ![self] = TRUE]
                                                                /\ kst' = [kst EXCEPT ![self] = "stopped",
                                                                                      ![ChildOf[self]] = "stopped"]
                                                                /\ kstop' = [kstop EXCEPT ![self] = "event_clone",
                                                                                          ![ChildOf[self]] = "event_stop"]
                                                                /\ unrep' = [unrep EXCEPT ![self] = TRUE,
                                                                                          ![ChildOf[self]] = TRUE]
                                                                /\ IF Hist
                                                                      THEN /\ hist' = Append(hist, [c |-> ncmd, k |-> nsys, lb |-> pc[0], sys |-> SysOf(pc[0]), t |-> self, w |-> "clone"])
                                                                      ELSE /\ TRUE
                                                                           /\ hist' = hist
                                                                /\ UNCHANGED << rip, 
                                                                                mid, 
                                                                                sstep, 
                                                                                iter, 
                                                                                expect, 
                                                                                corrupt, 
                                                                                owed, 
                                                                                missed >>
                                                           ELSE /\ IF kk = "trap"
                                                                      THEN /\ mid' = [mid EXCEPT ![self] = TRUE]
                                                                           /\ kst' = [kst EXCEPT ![self] = "stopped"]
                                                                           /\ kstop' = [kstop EXCEPT ![self] = "trap_brkpt"]
                                                                           /\ unrep' = [unrep EXCEPT ![self] = TRUE]
                                                                           /\ sstep' = [sstep EXCEPT ![self] = FALSE]
                                                                           /\ IF Hist
                                                                                 THEN /\ hist' = Append(hist, [c |-> ncmd, k |-> nsys, lb |-> pc[0], sys |-> SysOf(pc[0]), t |-> self, w |-> "trap"])
                                                                                 ELSE /\ TRUE
                                                                                      /\ hist' = hist
                                                                           /\ UNCHANGED << rip, 
                                                                                           iter, 
                                                                                           expect, 
                                                                                           corrupt, 
                                                                                           owed, 
                                                                                           missed >>
                                                                      ELSE /\ IF rip[self] # expect[self]
                                                                                 THEN /\ corrupt' = TRUE
                                                                                 ELSE /\ TRUE
                                                                                      /\ UNCHANGED corrupt
                                                                           /\ IF owed[self]
                                                                                 THEN /\ missed' = [missed EXCEPT ![self] = TRUE]
                                                                                 ELSE /\ TRUE
                                                                                      /\ UNCHANGED missed
                                                                           /\ owed' = [owed EXCEPT ![self] = ((rip[self] + 1) % L) \in UserBps /\ ~(rip[self] = L - 1 /\ iter[self] + 1 = Iters[self])]
                                                                           /\ expect' = [expect EXCEPT ![self] = (rip[self] + 1) % L]
                                                                           /\ IF rip[self] = L - 1
                                                                                 THEN /\ iter' = [iter EXCEPT ![self] = iter[self] + 1]
                                                                                 ELSE /\ TRUE
                                                                                      /\ iter' = iter
                                                                           /\ rip' = [rip EXCEPT ![self] = (rip[self] + 1) % L]
                                                                           /\ IF sstep[self]
                                                                                 THEN /\ sstep' = [sstep EXCEPT ![self] = FALSE]
                                                                                      /\ kst' = [kst EXCEPT ![self] = "stopped"]
                                                                                      /\ kstop' = [kstop EXCEPT ![self] = "trap_step"]
                                                                                      /\ unrep' = [unrep EXCEPT ![self] = TRUE]
                                                                                 ELSE /\ TRUE
                                                                                      /\ UNCHANGED << kst, 
                                                                                                      kstop, 
                                                                                                      unrep, 
                                                                                                      sstep >>
                                                                           /\ UNCHANGED << mid, 
                                                                                           hist >>
                                                                /\ UNCHANGED spawned
                               /\ UNCHANGED <<ksig, pend>>
                       /\ pc' = [pc EXCEPT ![self] = "t0"]
                  ELSE /\ pc' = [pc EXCEPT ![self] = "Done"]
                       /\ UNCHANGED << kst, kstop, ksig, unrep, rip, mid, 
                                       sstep, intr, iter, pend, spawned, 
                                       expect, corrupt, owed, missed, hist >>
            /\ UNCHANGED << code, spurious, sent, deliv, nsend, lost, nsys, 
                            tstate, guard, focus, bpen, sigq, ncmd, atPrompt, 
                            dead, wst, ret, retpid, retsig, todo, round, stack, 
                            initiator, gtodo, gt, gdone, gabort, st, stid, 
                            ctodo, inj >>

Thr(self) == t0(self)

(* Allow infinite stuttering to prevent deadlock on termination. *)
Terminating == /\ \A self \in ProcSet: pc[self] = "Done"
               /\ UNCHANGED vars

Next == Dbg \/ Env
           \/ (\E self \in ProcSet:  \/ group_stop(self) \/ apply(self)
                                     \/ single_step(self) \/ resume(self)
                                     \/ step_over_breakpoint(self)
                                     \/ continue_execution(self) \/ stepi(self))
           \/ (\E self \in Threads: Thr(self))
           \/ Terminating

Spec == /\ Init /\ [][Next]_vars
        /\ /\ WF_vars(Dbg)
           /\ WF_vars(continue_execution(0))
           /\ WF_vars(stepi(0))
           /\ WF_vars(group_stop(0))
           /\ WF_vars(apply(0))
           /\ WF_vars(single_step(0))
           /\ WF_vars(resume(0))
           /\ WF_vars(step_over_breakpoint(0))
        /\ \A self \in Threads : WF_vars(Thr(self))

Termination == <>(\A self \in ProcSet: pc[self] = "Done")

\* END TRANSLATION 

(* ---- safety specifications used by the configurations ---------------------------------- *)
\* plain safety (no fairness): what TLC explores
SpecS == Init /\ [][Next]_vars
\* the same with a terminal stutter once the debugger process is finished, so that TLC's deadlock check
\* means "the tracer is blocked in a wait that nothing can satisfy" (a hang of the debugger)
SpecD == Init /\ [][Next \/ (pc[0] = "Done" /\ UNCHANGED vars)]_vars
\* fingerprint without the generation-only history
View == <<code, kst, kstop, ksig, unrep, rip, mid, sstep, intr, iter, pend, spawned, expect, corrupt, owed,
          missed, spurious, sent, deliv, nsend, lost, tstate, guard, focus, bpen, sigq, ncmd, atPrompt, dead,
          wst, ret, retpid, retsig, todo, round, pc, stack, initiator, gtodo, gt, gdone, gabort, st, stid,
          ctodo, inj>>
\* generation: print the schedule skeleton of a finished behaviour
Emit == (pc[0] = "Done" /\ Hist) => PrintT(<<"SCHED", ToJson([h |-> hist, n |-> ncmd, exit |-> (ret = "exit")])>>)
\* generation by cover (ACTION_CONSTRAINT, one worker): every (tracer label, thread event) pair -- refined by
\* the pair before it -- that occurs on ANY transition of the state graph prints the schedule skeleton
\* leading to it, once
ASSUME TLCSet(2, {})
CoverKey(h) == LET n == Len(h) IN
               <<h[n].lb, h[n].w, IF n > 1 THEN h[n-1].lb ELSE "-", IF n > 1 THEN h[n-1].w ELSE "-">>
CoverAC == IF Hist /\ Len(hist') > Len(hist)
             THEN IF CoverKey(hist') \in TLCGet(2) THEN TRUE
                  ELSE /\ TLCSet(2, TLCGet(2) \cup {CoverKey(hist')})
                       /\ PrintT(<<"SCHED", ToJson([h |-> hist', key |-> CoverKey(hist')])>>)
             ELSE TRUE
\* vacuity guards for the invariants' antecedents (checked as "must be violated" by the check script)
NeverPrompt == ~(atPrompt /\ ncmd > 0)
NeverExit == ret # "exit"
NeverAbsorbed == ~(pc[0] = "gsd" /\ ret = "brkpt")
=============================================================================

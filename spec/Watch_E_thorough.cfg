\* (E) exhaustive, thorough: all command sequences of length <= 7 over 6 globals + 2 locals, spread request table
SPECIFICATION SpecE
CONSTANTS
  Globals = {"G0", "G1", "G2", "G3", "G4", "G5"}
  Locals = {"LA", "LB"}
  KindTab <- SpreadTab
  MaxOps = 7
  SlotFirst = TRUE
  Distribute = TRUE
  Gen = FALSE
  ViewSlots = TRUE
INVARIANTS TypeOK DrEncodesExactly NoDoubleSlot AtMostFour NoStaleEnable SlotsReusable ResultAgrees RegistryAgrees NoOrphanCompanion ScopedOnlyInScope
PROPERTIES RefusalHasNoSideEffects

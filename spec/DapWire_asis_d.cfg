\* (E) as written for defect (d) only: `initialized` bypasses the terminated latch; the other candidate fixes applied.
\* TLC's counterexample to NoEventAfterTerminated is the behaviour replayed against the real adapter.
SPECIFICATION Spec
CONSTANTS
  MaxReq = 3
  Universe <- UniverseCore
  QMaxEv = 0
  PreLines = 0
  PostLines = 0
  SeqUnderLock = TRUE
  RespondAfter = TRUE
  FwdHonoursTerm = TRUE
  InitViaQueue = FALSE
  ClearCache = TRUE
  DrainKeepsTerm = FALSE
INVARIANTS TypeOK NoEventAfterTerminated
ALIAS BehAlias

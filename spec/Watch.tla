------------------------------- MODULE Watch -------------------------------
(***************************************************************************)
(* C14 - "Debug registers always encode exactly the active watchpoints".    *)
(*                                                                         *)
(* Two state machines run in lock-step on the same command:                 *)
(*                                                                         *)
(*  REFERENCE (the property, nothing else): `active` is the set of          *)
(*  watchpoints the user owns.  A request for a 5th watchpoint or for an    *)
(*  address already watched is refused and changes nothing; a watchpoint on  *)
(*  a local disappears when execution leaves its scope (or the program is    *)
(*  restarted); one on a global survives a restart.  Every live thread's     *)
(*  debug registers must decode to exactly `active`.                         *)
(*                                                                         *)
(*  IMPLEMENTATION MODEL (follows the order of operations of                 *)
(*  src/debugger/watchpoint.rs, register.rs, tracer.rs, breakpoint.rs):      *)
(*  per-thread register images with DR7 modelled field by field, registry    *)
(*  with the slot each watchpoint owns, `last_seen_state`, the companion     *)
(*  breakpoint with its reference list, distribute-on-clone.                 *)
(*                                                                         *)
(* The program under debug is the puppet puppets/c14_watch.rs; `phase` is    *)
(* its program point (P0..P5, P1e = stopped at the end of scoped_fn's scope,  *)
(* X = exited).  Threads 2 and 3 are created after P2 / P3, thread 2 exits    *)
(* after P4.                                                                 *)
(***************************************************************************)
EXTENDS Naturals, Sequences, FiniteSets, TLC, Json

CONSTANTS Globals,      \* names of global locations (strings)
          Locals,       \* names of the locals of scoped_fn (in scope only at P1)
          KindTab,      \* [location -> set of [size, cond, via]] the requests that may be issued
          MaxOps,       \* bound on the number of commands; 0 = unbounded
          SlotFirst,    \* FALSE: companion breakpoint installed before the slot allocation (as written)
          Distribute,   \* FALSE: a new thread does not get last_seen_state (seeded slip, model level)
          Gen,          \* TRUE: keep the command and the expected observation in `lastCmd`
          ViewSlots     \* TRUE: the generation view distinguishes which slot a watchpoint owns

Threads == {1, 2, 3}
Main    == 1
Slots   == 0 .. 3
NoReg   == 9
Locs    == Globals \cup Locals
Sizes   == {1, 2, 4, 8}
Conds   == {"w", "rw"}

\* x86: LEN 1 -> 00, 2 -> 01, 8 -> 10, 4 -> 11;  RW 01 = write, 11 = read or write
LenBits(sz) == CASE sz = 1 -> 0 [] sz = 2 -> 1 [] sz = 8 -> 2 [] sz = 4 -> 3
RwBits(c)   == IF c = "w" THEN 1 ELSE 3

EmptyDr == [a  |-> [i \in Slots |-> "none"], l   |-> [i \in Slots |-> FALSE],
            rw |-> [i \in Slots |-> 0],      len |-> [i \in Slots |-> 0], le |-> FALSE]

VARIABLES phase,    \* program point of the puppet
          active,   \* REFERENCE: set of [loc, size, cond, via, scoped]
          rres,     \* REFERENCE: outcome of the last command
          wps,      \* IMPL: registry, set of [loc, size, cond, via, scoped, reg, pos]  (pos = index in the Vec)
          dr,       \* IMPL: [thread -> register image]
          live,     \* threads that exist
          last,     \* IMPL: last_seen_state, <<>> or <<image>>
          comp,     \* IMPL: watchpoints listed by the companion breakpoint ({} = no companion breakpoint)
          ires,     \* IMPL: outcome of the last command
          nops,
          lastCmd   \* the command taken and what the reference expects to be observed after it
vars == <<phase, active, rres, wps, dr, live, last, comp, ires, nops, lastCmd>>

Note(c)  == IF Gen THEN c ELSE <<>>
Bounded  == MaxOps = 0 \/ nops < MaxOps
Tick     == nops' = IF MaxOps = 0 THEN 0 ELSE nops + 1
Min(S)   == CHOOSE i \in S : \A j \in S : i <= j
FreeSlots(img) == {i \in Slots : ~img.l[i]}
Observed(loc)  == \E i \in Slots : dr[Main].l[i] /\ dr[Main].a[i] = loc

\* DebugControlRegister::configure_bp + set_dr(.., true)
EnableSlot(img, i, loc, sz, c) ==
  [img EXCEPT !.a[i] = loc, !.rw[i] = RwBits(c), !.len[i] = LenBits(sz), !.l[i] = TRUE, !.le = TRUE]
\* set_dr(.., false): only the enable bit goes; LE is dropped when no slot is enabled
DisableSlot(img, i) ==
  LET m == [img EXCEPT !.l[i] = FALSE] IN [m EXCEPT !.le = \E j \in Slots : m.l[j]]
\* HardwareDebugState::sync to every known tracee
SyncAll(img, lv) == [t \in Threads |-> IF t \in lv THEN img ELSE EmptyDr]

RefRec(w) == [loc |-> w.loc, size |-> w.size, cond |-> w.cond, via |-> w.via, scoped |-> w.scoped]
ActiveLocs == {w.loc : w \in active}
WpOf(loc)  == CHOOSE w \in wps : w.loc = loc
\* Vec::remove(idx): later entries move up
Without(reg, w) == {[x EXCEPT !.pos = IF x.pos > w.pos THEN x.pos - 1 ELSE x.pos] : x \in reg \ {w}}
First(reg) == CHOOSE x \in reg : \A y \in reg : x.pos <= y.pos

Init == /\ phase = "P0" /\ active = {} /\ rres = "ok"
        /\ wps = {} /\ dr = [t \in Threads |-> EmptyDr] /\ live = {Main}
        /\ last = <<>> /\ comp = {} /\ ires = "ok" /\ nops = 0 /\ lastCmd = <<>>

-----------------------------------------------------------------------------
(* add *)
\* Debugger::set_watchpoint_on_expr (Watchpoint::from_dqe) / set_watchpoint_on_memory (from_raw_addr)
Add(loc, k) ==
  /\ Bounded /\ phase # "X"
  /\ loc \in Globals \/ (loc \in Locals /\ phase = "P1" /\ k.via = "expr")
  /\ LET scoped == loc \in Locals
         w      == [loc |-> loc, size |-> k.size, cond |-> k.cond, via |-> k.via, scoped |-> scoped]
         \* ---- reference: refused requests change nothing
         r      == IF loc \in ActiveLocs THEN "dup"
                   ELSE IF Cardinality(active) >= 4 THEN "limit" ELSE "ok"
         \* ---- implementation, in the order of the code
         free   == FreeSlots(dr[Main])           \* HardwareDebugState::current(proc_pid)
         i      == Min(free)
         img    == EnableSlot(dr[Main], i, loc, k.size, k.cond)
     IN
     /\ rres' = r
     /\ active' = IF r = "ok" THEN active \cup {w} ELSE active
     /\ IF Observed(loc)                         \* address_already_observed: before anything else
        THEN /\ ires' = "dup" /\ UNCHANGED <<wps, dr, last, comp>>
        ELSE IF free = {}                        \* Error::WatchpointLimitReached out of hw.enable
        THEN /\ ires' = "limit"
             \* watchpoint.rs:371-396: add_and_enable(companion) runs BEFORE hw_brkpt.enable
             /\ comp' = IF scoped /\ ~SlotFirst THEN comp \cup {"orphan"} ELSE comp
             /\ UNCHANGED <<wps, dr, last>>
        ELSE /\ ires' = "ok"
             /\ dr' = SyncAll(img, live) /\ last' = <<img>>
             /\ wps' = wps \cup {[loc |-> loc, size |-> k.size, cond |-> k.cond, via |-> k.via,
                                  scoped |-> scoped, reg |-> i, pos |-> Cardinality(wps) + 1]}
             /\ comp' = IF scoped THEN comp \cup {loc} ELSE comp
     /\ lastCmd' = Note([op |-> "add", loc |-> loc, size |-> k.size, cond |-> k.cond, via |-> k.via,
                         label |-> IF r = "ok" THEN "add_ok"
                                   ELSE IF scoped THEN "add_refused_" \o r \o "_scoped"
                                   ELSE "add_refused_" \o r,
                         stop |-> "-", ended |-> {}])
  /\ Tick /\ UNCHANGED <<phase, live>>

\* the program is not running: ProcessNotStarted, nothing changes
AddNotStarted(loc, k) ==
  /\ Bounded /\ phase = "X" /\ loc \in Globals
  /\ rres' = "notstarted" /\ ires' = "notstarted"
  /\ lastCmd' = Note([op |-> "add", loc |-> loc, size |-> k.size, cond |-> k.cond, via |-> k.via,
                      label |-> "add_refused_notstarted", stop |-> "-", ended |-> {}])
  /\ Tick /\ UNCHANGED <<phase, active, wps, dr, live, last, comp>>

-----------------------------------------------------------------------------
(* remove *)
\* WatchpointRegistry::remove -> Watchpoint::disable -> HardwareBreakpoint::disable + decrease_companion_rc
ImplRemove(loc) ==
  LET w   == WpOf(loc)
      img == DisableSlot(dr[Main], w.reg)
  IN /\ dr' = SyncAll(img, live) /\ last' = <<img>>
     /\ wps' = Without(wps, w)
     /\ comp' = comp \ {loc}

Remove(how, loc) ==
  /\ Bounded /\ phase # "X"
  /\ LET rfound == \E x \in active : x.loc = loc /\ (how = "rm_expr" => x.via = "expr")
         ifound == \E x \in wps : x.loc = loc /\ (how = "rm_expr" => x.via = "expr")
     IN /\ rres' = IF rfound THEN "ok" ELSE "none"
        /\ active' = IF rfound THEN {x \in active : x.loc # loc} ELSE active
        /\ IF ifound THEN ires' = "ok" /\ ImplRemove(loc)
                     ELSE ires' = "none" /\ UNCHANGED <<wps, dr, last, comp>>
        /\ lastCmd' = Note([op |-> how, loc |-> loc, size |-> 0, cond |-> "-", via |-> "-",
                            label |-> how \o (IF rfound THEN "_found" ELSE "_none"),
                            stop |-> "-", ended |-> {}])
  /\ Tick /\ UNCHANGED <<phase, live>>

RemoveByNum(loc)  == Remove("rm_num", loc)
RemoveByAddr(loc) == Remove("rm_addr", loc)
RemoveByExpr(loc) == Remove("rm_expr", loc)

-----------------------------------------------------------------------------
(* continue *)
ContNote(label, stop, ended) ==
  lastCmd' = Note([op |-> "cont", loc |-> "-", size |-> 0, cond |-> "-", via |-> "-",
                   label |-> label, stop |-> stop, ended |-> ended])

\* plain move to the next breakpoint line, no thread is created or lost
ContPlain ==
  /\ Bounded
  /\ \/ phase = "P0" /\ phase' = "P1"
     \/ phase = "P1" /\ comp = {} /\ (\A w \in active : ~w.scoped) /\ phase' = "P2"
     \/ phase = "P1e" /\ phase' = "P2"
  /\ rres' = "ok" /\ ires' = "ok"
  /\ ContNote("cont_plain", phase', {})
  /\ Tick /\ UNCHANGED <<active, wps, dr, live, last, comp>>

\* execution leaves the scope of la/lb: the companion breakpoint fires, every watchpoint it lists is
\* reported (end of scope) and removed one after another (execute_on_watchpoint_hook, EndOfScope)
RECURSIVE RemoveAll(_, _, _)
RemoveAll(todo, img, acc) ==     \* acc = registry
  IF todo = {} THEN [img |-> img, wps |-> acc]
  ELSE LET loc == CHOOSE x \in todo : TRUE
           w   == CHOOSE x \in acc : x.loc = loc
       IN RemoveAll(todo \ {loc}, DisableSlot(img, w.reg), Without(acc, w))

ContScopeEnd ==
  /\ Bounded /\ phase = "P1"
  /\ (comp # {} \/ \E w \in active : w.scoped)
  /\ LET ended  == {w.loc : w \in {x \in active : x.scoped}}
         listed == {l \in comp : \E w \in wps : w.loc = l}
         fin    == RemoveAll(listed, dr[Main], wps)
     IN /\ active' = {w \in active : ~w.scoped}
        /\ rres' = IF ended # {} THEN "ok" ELSE "spurious"   \* the reference never stops here without a scoped watchpoint
        /\ IF comp # {}
           THEN /\ ires' = "ok" /\ wps' = fin.wps /\ comp' = {}
                /\ IF listed # {} THEN dr' = SyncAll(fin.img, live) /\ last' = <<fin.img>>
                                  ELSE UNCHANGED <<dr, last>>
           ELSE /\ ires' = "missed" /\ UNCHANGED <<wps, dr, last, comp>>
        /\ phase' = "P1e"
        /\ ContNote("cont_scope_end", "scope_end", ended)
  /\ Tick /\ UNCHANGED live

\* PTRACE_EVENT_CLONE: the kernel gives the new thread EMPTY debug registers;
\* tracer.rs:354 distribute_to_tracee copies last_seen_state
CloneThread(t) ==
  /\ live' = live \cup {t}
  /\ dr' = [dr EXCEPT ![t] = IF Distribute /\ last # <<>> THEN last[1] ELSE EmptyDr]

ContClone ==
  /\ Bounded
  /\ \/ phase = "P2" /\ phase' = "P3" /\ CloneThread(2)
     \/ phase = "P3" /\ phase' = "P4" /\ CloneThread(3)
  /\ rres' = "ok" /\ ires' = "ok"
  /\ ContNote("cont_clone", phase', {})
  /\ Tick /\ UNCHANGED <<active, wps, last, comp>>

ContThreadExit ==
  /\ Bounded /\ phase = "P4" /\ phase' = "P5"
  /\ live' = live \ {2} /\ dr' = [dr EXCEPT ![2] = EmptyDr]
  /\ rres' = "ok" /\ ires' = "ok"
  /\ ContNote("cont_thread_exit", "P5", {})
  /\ Tick /\ UNCHANGED <<active, wps, last, comp>>

\* the program exits: clear_local_disable_global - globals stay in the list (they survive a restart),
\* no thread is left
ContExit ==
  /\ Bounded /\ phase = "P5" /\ phase' = "X"
  /\ live' = {} /\ dr' = [t \in Threads |-> EmptyDr] /\ last' = <<>>
  /\ wps' = {[w EXCEPT !.reg = NoReg] : w \in wps}
  /\ rres' = "ok" /\ ires' = "ok"
  /\ ContNote("cont_exit", "exit", {})
  /\ Tick /\ UNCHANGED <<active, comp>>

-----------------------------------------------------------------------------
(* restart *)
\* restart_debugee: clear_local_disable_global, new process (all registers empty, one thread), at the
\* entry point WatchpointRegistry::refresh re-enables every remaining (global) watchpoint
RECURSIVE Refresh(_, _, _)
Refresh(todo, img, acc) ==
  IF todo = {} THEN [img |-> img, wps |-> acc]
  ELSE LET w == First(todo)              \* registry order
           i == Min(FreeSlots(img))
       IN Refresh(todo \ {w}, EnableSlot(img, i, w.loc, w.size, w.cond),
                  acc \cup {[w EXCEPT !.reg = i, !.pos = Cardinality(acc) + 1]})

Restart ==
  /\ Bounded
  /\ LET keep == {w \in wps : ~w.scoped}
         fin  == Refresh(keep, EmptyDr, {})
     IN /\ wps' = fin.wps
        /\ dr' = [t \in Threads |-> IF t = Main THEN fin.img ELSE EmptyDr]
        /\ last' = IF keep = {} THEN <<>> ELSE <<fin.img>>
        /\ comp' = comp \ Locals
  /\ active' = {w \in active : ~w.scoped}
  /\ live' = {Main} /\ phase' = "P0"
  /\ rres' = "ok" /\ ires' = "ok"
  /\ lastCmd' = Note([op |-> "restart", loc |-> "-", size |-> 0, cond |-> "-", via |-> "-",
                      label |-> IF \E w \in active : w.scoped THEN "restart_drops_scoped"
                                ELSE IF phase = "X" THEN "restart_after_exit" ELSE "restart",
                      stop |-> "P0", ended |-> {}])
  /\ Tick

-----------------------------------------------------------------------------
Step == \/ \E loc \in Locs : \E k \in KindTab[loc] : Add(loc, k)
        \/ \E loc \in Globals : \E k \in KindTab[loc] : AddNotStarted(loc, k)
        \/ \E loc \in Locs : RemoveByNum(loc) \/ RemoveByAddr(loc) \/ RemoveByExpr(loc)
        \/ ContPlain \/ ContScopeEnd \/ ContClone \/ ContThreadExit \/ ContExit
        \/ Restart

-----------------------------------------------------------------------------
(* what the reference expects to be observable after a command *)
Obs == [phase     |-> phase,
        active    |-> {[loc |-> w.loc, size |-> w.size, cond |-> w.cond, via |-> w.via] : w \in active},
        nlive     |-> Cardinality(live),
        companion |-> \E w \in active : w.scoped,
        nscoped   |-> Cardinality({w \in active : w.scoped}),
        want      |-> {[loc |-> w.loc, rw |-> RwBits(w.cond), len |-> LenBits(w.size)] : w \in active},
        res       |-> rres]

View == [phase  |-> phase,
         active |-> {[loc |-> w.loc, size |-> w.size, cond |-> w.cond, via |-> w.via] : w \in active},
         slots  |-> IF ViewSlots THEN {[loc |-> w.loc, reg |-> w.reg] : w \in wps} ELSE {},
         orphan |-> "orphan" \in comp]

Emit == Gen => PrintT(<<"EDGE", ToJson([src |-> View, dst |-> View', cmd |-> lastCmd', exp |-> Obs'])>>)

Next == Step /\ Emit
Spec == Init /\ [][Next]_vars
\* exhaustive runs (Gen = FALSE, nothing to print): TLC splits Step into its named actions for -coverage
SpecE == Init /\ [][Step]_vars

-----------------------------------------------------------------------------
(* DR7 as a number, in two 16-bit halves (TLC integers are 32-bit signed; LEN3 = 11 sets bit 31) *)
\* L_n at bit 2n, LE at bit 8 (G_n, GE never used)
Dr7Lo(img) == LET b(i) == IF img.l[i] THEN 2 ^ (2 * i) ELSE 0
              IN b(0) + b(1) + b(2) + b(3) + (IF img.le THEN 256 ELSE 0)
\* RW_n at bit 16+4n, LEN_n at bit 18+4n  -> in the high half: nibble n = LEN_n * 4 + RW_n
Dr7Hi(img) == LET nib(i) == (img.len[i] * 4 + img.rw[i]) * (16 ^ i)
              IN nib(0) + nib(1) + nib(2) + nib(3)

-----------------------------------------------------------------------------
(* properties *)
Decode(img) == {[loc |-> img.a[i], rw |-> img.rw[i], len |-> img.len[i]] : i \in {j \in Slots : img.l[j]}}
Want        == {[loc |-> w.loc, rw |-> RwBits(w.cond), len |-> LenBits(w.size)] : w \in active}

\* every live thread's registers decode to exactly the active set (incl. threads created later)
DrEncodesExactly == \A t \in live : Decode(dr[t]) = Want
\* ... and no two enabled slots watch the same address
NoDoubleSlot == \A t \in live : \A i, j \in Slots : (dr[t].l[i] /\ dr[t].l[j] /\ dr[t].a[i] = dr[t].a[j]) => i = j
AtMostFour == Cardinality(active) <= 4 /\ Cardinality(wps) <= 4
\* no stale enable bits: LE iff some L_n; a thread that does not exist any more holds nothing
NoStaleEnable == /\ \A t \in live : dr[t].le = (\E i \in Slots : dr[t].l[i])
                 /\ \A t \in Threads \ live : dr[t] = EmptyDr
\* freed slots are reusable: whenever fewer than four are active a slot is free, so the next request is accepted
SlotsReusable == phase # "X" => ((Cardinality(active) < 4) = (FreeSlots(dr[Main]) # {}))
\* refusal / acceptance agree with the reference, the registry is the active set
ResultAgrees   == ires = rres
RegistryAgrees == {RefRec(w) : w \in wps} = active
\* a refused request leaves nothing behind: the companion breakpoint lists only living scoped watchpoints
NoOrphanCompanion == comp = {w.loc : w \in {x \in active : x.scoped}}
\* (action property) a refused request changes nothing at all
RefusalHasNoSideEffects ==
  [][rres' \in {"dup", "limit", "notstarted", "none"} => UNCHANGED <<phase, active, wps, dr, live, last, comp>>]_vars
\* locals never outlive their scope
ScopedOnlyInScope == (\E w \in active : w.scoped) => phase = "P1"

TypeOK == /\ phase \in {"P0", "P1", "P1e", "P2", "P3", "P4", "P5", "X"}
          /\ live \subseteq Threads
          /\ \A w \in wps : w.reg \in Slots \cup {NoReg}
=============================================================================

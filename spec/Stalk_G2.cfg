\* (G) cover generation: two workers, two sites per iteration (puppet n=2 k=2 sites=2)
SPECIFICATION SpecS
CONSTANTS
  Threads = {1, 2, 3}
  Main = 1
  ChildOf <- NoChild
  Iters <- MainJoins1
  L = 4
  UserBps = {1, 3}
  MaxCmd = 3
  Cmds = {"continue"}
  Sigs = {}
  Quiet = {}
  Transparent = {}
  MaxSend = 0
  FixQuietDup = FALSE
  Hist = TRUE
  defaultInitValue = defaultInitValue
  MutOneRound = FALSE
  MutNoRewind = FALSE
  MutForgetNew = FALSE
  MutNoReenable = FALSE
INVARIANTS AllStop BeliefSound ThreadListExact NoCorruption NoMissed NoSpurious AllReportedAtExit
CHECK_DEADLOCK FALSE
VIEW View
ACTION_CONSTRAINT CoverAC

\* C15 / MemRW.tla -- (G) the same for the DAP handler model
CONSTANTS
    W = 4
    Lo = 4
    Hi = 16
    MaxN = 9
    MaxOps = 4
    OpKinds = {"R", "WB", "WW"}
    DataKinds = {"pat", "inv"}
    ReadVariant = "tail"
    Emit = "cases"
    Regs = {}
    InitMem = "pattern"
    DisVariant = "raw"
SPECIFICATION SpecDis
VIEW View
INVARIANTS PatchesConsistent

\* (E) exhaustive, quick: all command sequences of length <= 6, 6 candidate locations (4 globals + 2 scoped locals), spread request table
SPECIFICATION SpecE
CONSTANTS
  Globals = {"G0", "G1", "G2", "G3"}
  Locals = {"LA", "LB"}
  KindTab <- SpreadTab
  MaxOps = 6
  SlotFirst = TRUE
  Distribute = TRUE
  Gen = FALSE
  ViewSlots = TRUE
INVARIANTS TypeOK DrEncodesExactly NoDoubleSlot AtMostFour NoStaleEnable SlotsReusable ResultAgrees RegistryAgrees NoOrphanCompanion ScopedOnlyInScope
PROPERTIES RefusalHasNoSideEffects

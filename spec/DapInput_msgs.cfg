SPECIFICATION Spec
INVARIANT Inv
CONSTANTS
  Mode = "msgs"
  Rich = FALSE
  MaxSeq = 0

SPECIFICATION Spec
VIEW View
INVARIANTS Emit DecoderEqualsAbstraction
CONSTANTS
  Mode = "types"
  MaxDepth = 1
  Rot = 5
  LeafSet = "all"
  CtorSet = "all"
  MaxOps = 0
  NKeys = 0
  MaxBulk = 0
  History = FALSE
  Kinds = {"vec"}
  Elems = {"i16"}
  Scripts <- ScriptsNone
  MaxCap = 6
  HbBuckets = {1, 2, 4, 8}
  BtLevels = 3

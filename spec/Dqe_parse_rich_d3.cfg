SPECIFICATION Spec
INVARIANT Inv
CONSTANTS
  Mode = "parse"
  MaxDepth = 3
  Rich = TRUE

\* C15 / MemRW.tla -- (E) register file, 17 registers x values, histories of 3 ops
CONSTANTS
    W = 4
    Lo = 4
    Hi = 16
    MaxN = 9
    MaxOps = 3
    OpKinds = {"R", "WB", "WW"}
    DataKinds = {"pat", "inv"}
    ReadVariant = "tail"
    Emit = "none"
    Regs = {"rax", "rbx", "rcx", "rdx", "rdi", "rsi", "rbp", "rsp", "r8", "r9", "r10", "r11", "r12", "r13", "r14", "r15", "rip"}
    InitMem = "pattern"
    DisVariant = "masked"
SPECIFICATION SpecReg
VIEW View
INVARIANTS RegsMatchSpec ProgramSeesWrites
PROPERTIES RegGetMeetsSpec

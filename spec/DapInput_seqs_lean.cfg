SPECIFICATION Spec
INVARIANT Inv
CONSTANTS
  Mode = "seqs"
  Rich = FALSE
  MaxSeq = 3

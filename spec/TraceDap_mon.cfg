\* (V) reference monitor only (sessions the model cannot follow)
SPECIFICATION TraceSpec
CONSTANTS
  MaxReq = 100000
  Universe = {}
  QMaxEv = 0
  PreLines = 64
  PostLines = 64
  SeqUnderLock = FALSE
  RespondAfter = FALSE
  FwdHonoursTerm = FALSE
  InitViaQueue = FALSE
  ClearCache = FALSE
  DrainKeepsTerm = FALSE
  MonitorOnly = TRUE
CONSTRAINT Progress
POSTCONDITION Accepted
CHECK_DEADLOCK FALSE

\* C15 / MemRW.tla -- (G) simulated register histories
CONSTANTS
    W = 4
    Lo = 4
    Hi = 16
    MaxN = 9
    MaxOps = 4
    OpKinds = {"R", "WB", "WW"}
    DataKinds = {"pat", "inv"}
    ReadVariant = "tail"
    Emit = "hist"
    Regs = {"rax", "rbx", "rcx", "rdx", "rdi", "rsi", "rbp", "rsp", "r8", "r9", "r10", "r11", "r12", "r13", "r14", "r15", "rip"}
    InitMem = "pattern"
    DisVariant = "masked"
SPECIFICATION SpecReg
VIEW View
INVARIANTS RegsMatchSpec ProgramSeesWrites

\* C16 / CallInject.tla -- (E, quick tier: arities 0 and 6, three breakpoint sets) candidate repair: every avoidable exit path meets the reference, no panic anywhere
CONSTANTS
    Variant = "fixed"
    DebugAsserts = TRUE
    FailKinds = {"err", "death", "stop"}
    Arities = {0, 6}
    BpChoice = "some"
    Emit = "none"
SPECIFICATION Spec
INVARIANTS AllPost NoPanic TypeOK

\* C16 / CallInject.tla -- (E, quick tier: arities 0, 3, 6) candidate repair: every avoidable exit path meets the reference, no panic anywhere
CONSTANTS
    Variant = "fixed"
    DebugAsserts = TRUE
    FailKinds = {"err", "death", "stop"}
    Arities = {0, 3, 6}
    Emit = "none"
SPECIFICATION Spec
INVARIANTS AllPost NoPanic TypeOK

\* (G) relaunch histories of the CURRENT code, k <= 2
SPECIFICATION Spec
CONSTANTS
  MaxReq = 7
  Universe <- UniverseRelaunch
  QMaxEv = 1
  PreLines = 0
  PostLines = 0
  SeqUnderLock = TRUE
  RespondAfter = TRUE
  FwdHonoursTerm = FALSE
  InitViaQueue = TRUE
  ClearCache = TRUE
  DrainKeepsTerm = FALSE
CONSTRAINT RelaunchShape2
INVARIANTS TypeOK EmitRelaunch EventsOnceAndCausal NoEventAfterTerminated OneResponsePerRequest

\* (E) thorough: three threads, the main thread loops too, one site, 5 continues (the prototype configuration)
SPECIFICATION SpecD
CONSTANTS
  Threads = {1, 2, 3}
  Main = 1
  ChildOf <- NoChild
  Iters <- Iters2
  L = 3
  UserBps = {1}
  MaxCmd = 5
  Cmds = {"continue"}
  Sigs = {}
  Quiet = {}
  Transparent = {}
  MaxSend = 0
  FixQuietDup = FALSE
  Hist = FALSE
  defaultInitValue = defaultInitValue
  MutOneRound = FALSE
  MutNoRewind = FALSE
  MutForgetNew = FALSE
  MutNoReenable = FALSE
INVARIANTS AllStop BeliefSound ThreadListExact NoCorruption NoMissed NoSpurious AllReportedAtExit
CHECK_DEADLOCK TRUE

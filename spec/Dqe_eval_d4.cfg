SPECIFICATION Spec
INVARIANT Inv
CONSTANTS
  Mode = "eval"
  MaxDepth = 4
  Rich = TRUE

------------------------------ MODULE Session ------------------------------
(* Mode (E/G): every command history over the execution X, within MaxCmd / MaxBps.  See SessionRef. *)
EXTENDS SessionRef

---------------------------------------------------------------------------
(* (E/G) the session as a state machine                                    *)

VARIABLES i,        \* 0 = not started, 1..N = stopped at X[i], Exited
          ubp,      \* addresses of the user's breakpoints
          ncmd,     \* commands issued
          nbk,      \* of which break/remove (bounded by MaxBk so that histories are not all bookkeeping)
          hist      \* commands issued so far (generation only; hidden by VIEW)
vars == <<i, ubp, ncmd, nbk, hist>>
View == <<i, ubp, ncmd, nbk>>

Init == i = 0 /\ ubp = {} /\ ncmd = 0 /\ nbk = 0 /\ hist = <<>>

Log(c) == hist' = Append(hist, c @@ [at |-> i']) /\ ncmd' = ncmd + 1
Break(a)  == /\ a \notin ubp /\ Cardinality(ubp) < MaxBps /\ i # Exited /\ nbk < MaxBk /\ nbk' = nbk + 1
             /\ ubp' = ubp \cup {a} /\ UNCHANGED i /\ Log([cmd |-> "break_addr", addr |-> a])
Remove(a) == /\ a \in ubp /\ i # Exited /\ nbk < MaxBk /\ nbk' = nbk + 1
             /\ ubp' = ubp \ {a} /\ UNCHANGED i /\ Log([cmd |-> "remove_addr", addr |-> a])
Start     == /\ i = 0 /\ i' = RefContinue(0, ubp) /\ Log([cmd |-> "start"]) /\ UNCHANGED <<ubp, nbk>>
Continue  == /\ i \in 1..N /\ i' = RefContinue(i, ubp) /\ Log([cmd |-> "continue"]) /\ UNCHANGED <<ubp, nbk>>
StepCmd(c) == /\ i \in 1..N
              /\ MaxOf(Adm(c, i) \cup {i}) < TailPos      \* stay inside the recorded execution
              /\ (c = "stepi") => ~X[i].ext
              /\ \E j \in Adm(c, i) \cup {RefContinue(i, ubp)} :
                    /\ j <= MaxOf(Adm(c, i))
                    /\ i' = j
              /\ Log([cmd |-> c]) /\ UNCHANGED <<ubp, nbk>>
\* C11: restart re-creates the process with the user's breakpoints intact: they hit again at the same places
Restart   == /\ Lifecycle /\ i # 0 /\ i' = RefContinue(0, ubp) /\ Log([cmd |-> "restart"]) /\ UNCHANGED <<ubp, nbk>>
\* C11: quitting (dropping the debugger) ends the session in any state; nothing may be left behind
Drop      == /\ Lifecycle /\ ncmd > 0 /\ i' = Exited /\ ncmd' = MaxCmd /\ hist' = Append(hist, [cmd |-> "drop", at |-> i])
             /\ UNCHANGED <<ubp, nbk>>
Cmd == \/ \E a \in BpCands : Break(a) \/ Remove(a)
       \/ Start \/ Continue \/ Restart \/ Drop
       \/ \E c \in {"stepi", "step", "next", "finish"} : StepCmd(c)
Next == ncmd < MaxCmd /\ Cmd
Spec == Init /\ [][Next]_vars

\* theorems of the reference (sanity of the specification itself, checked by TLC)
TypeOK == i \in 0..Exited /\ ubp \subseteq BpCands
StopsOnlyInExecution == i \in 0..Exited
\* a position reached by `continue` is an enabled breakpoint (checked as an action property)
ContinueStopsAtBp == [][(hist' # hist /\ hist'[Len(hist')].cmd \in {"start", "continue"} /\ i' # Exited)
                         => Pc(i') \in ubp]_vars
\* design-level prediction: does the address-keyed temporary-breakpoint algorithm meet the reference?
ImplNextMeetsRef   == (i \in 1..N) => ImplNextOk(i, ubp)
ImplFinishMeetsRef == (i \in 1..N /\ D(i) > 0) => ImplFinishOk(i, ubp)

\* emit every complete history once (mode G): used through an invariant that is always TRUE
EmitHist == (ncmd = MaxCmd \/ i = Exited) => PrintT(<<"HIST", ToJson(hist)>>)

=============================================================================

------------------------------ MODULE Session ------------------------------
(* Mode (E/G): every command history over the execution X, within MaxCmd / MaxBps.  See SessionRef. *)
EXTENDS SessionRef

---------------------------------------------------------------------------
(* (E/G) the session as a state machine                                    *)

VARIABLES i,        \* 0 = not started, 1..N = stopped at X[i], Exited
          ubp,      \* addresses of the user's breakpoints
          ncmd,     \* commands issued
          nbk,      \* of which break/remove (bounded by MaxBk so that histories are not all bookkeeping)
          sg,       \* a SIGUSR1 sent by the user's environment: 0 none, 1 pending, 2 reported (not yet delivered)
          hist      \* commands issued so far (generation only; hidden by VIEW)
vars == <<i, ubp, ncmd, nbk, sg, hist>>
View == <<i, ubp, ncmd, nbk, sg>>

Init == i = 0 /\ ubp = {} /\ ncmd = 0 /\ nbk = 0 /\ sg = 0 /\ hist = <<>>

Log(c) == hist' = Append(hist, c @@ [at |-> i']) /\ ncmd' = ncmd + 1
Break(a)  == /\ a \notin ubp /\ Cardinality(ubp) < MaxBps /\ i # Exited /\ nbk < MaxBk /\ nbk' = nbk + 1 /\ UNCHANGED sg
             /\ ubp' = ubp \cup {a} /\ UNCHANGED i /\ Log([cmd |-> "break_addr", addr |-> a])
Remove(a) == /\ a \in ubp /\ i # Exited /\ nbk < MaxBk /\ nbk' = nbk + 1 /\ UNCHANGED sg
             /\ ubp' = ubp \ {a} /\ UNCHANGED i /\ Log([cmd |-> "remove_addr", addr |-> a])
Start     == /\ i = 0 /\ i' = RefContinue(0, ubp) /\ Log([cmd |-> "start"]) /\ UNCHANGED <<ubp, nbk, sg>>
\* a pending signal is reported by the command that resumes the program (the program does not move);
\* the following continue delivers it and runs on
Continue  == /\ i \in 1..N
             /\ IF sg = 1 THEN i' = i /\ sg' = 2 ELSE i' = RefContinue(i, ubp) /\ sg' = 0
             /\ Log([cmd |-> "continue"]) /\ UNCHANGED <<ubp, nbk>>
\* the environment sends SIGUSR1 to the stopped program (handled by the program: counted, otherwise harmless)
SendSig   == /\ Signals /\ i \in 1..N /\ sg = 0 /\ ncmd + 2 < MaxCmd /\ i < TailPos
             /\ sg' = 1 /\ UNCHANGED <<i, ubp, nbk>> /\ Log([cmd |-> "signal"])
StepCmd(c) == /\ i \in 1..N /\ sg # 2               \* after a reported signal only `continue` is generated
              /\ MaxOf(Adm(c, i) \cup {i}) < TailPos      \* stay inside the recorded execution
              /\ (c = "stepi") => ~X[i].ext
              /\ IF sg = 1 THEN i' = i /\ sg' = 2      \* cut short by the signal, and says so
                 ELSE /\ sg' = sg
                      /\ \E j \in Adm(c, i) \cup {RefContinue(i, ubp)} :
                            /\ j <= MaxOf(Adm(c, i))
                            /\ i' = j
              /\ Log([cmd |-> c]) /\ UNCHANGED <<ubp, nbk>>
\* C11: restart re-creates the process with the user's breakpoints intact: they hit again at the same places
\* (restart is also accepted for a process that was never started)
Restart   == /\ Lifecycle /\ sg = 0 /\ i' = RefContinue(0, ubp) /\ Log([cmd |-> "restart"]) /\ UNCHANGED <<ubp, nbk, sg>>
\* C11: quitting (dropping the debugger) ends the session in any state; nothing may be left behind
Drop      == /\ Lifecycle /\ ncmd > 0 /\ i' = Exited /\ ncmd' = MaxCmd /\ hist' = Append(hist, [cmd |-> "drop", at |-> i])
             /\ UNCHANGED <<ubp, nbk, sg>>
\* C02: commands that must not move the program nor leave anything behind: an injected call of a
\* side-effect-free function, arming a (never delivered here) write watchpoint on the program's counter
Extra(c)  == /\ Extras /\ i \in 1..N /\ i < TailPos /\ sg = 0
             /\ UNCHANGED <<i, ubp, nbk, sg>> /\ Log([cmd |-> c])
\* C03/C05: selecting a caller's frame is a matter of presentation: the program does not move, and the
\* commands that follow act on the real position of the thread, not on the selected frame
Frame     == /\ Frames /\ i \in 1..N /\ i < TailPos /\ D(i) > 0 /\ nbk < MaxBk /\ nbk' = nbk + 1
             /\ UNCHANGED <<i, ubp, sg>> /\ Log([cmd |-> "frame", k |-> 1])
Cmd == \/ \E a \in BpCands : Break(a) \/ Remove(a)
       \/ \E c \in {"call", "watch"} : Extra(c)
       \/ Frame
       \/ Start \/ Continue \/ Restart \/ Drop \/ SendSig
       \/ \E c \in {"stepi", "step", "next", "finish"} : StepCmd(c)
Next == ncmd < MaxCmd /\ Cmd
Spec == Init /\ [][Next]_vars

\* theorems of the reference (sanity of the specification itself, checked by TLC)
TypeOK == i \in 0..Exited /\ ubp \subseteq BpCands
StopsOnlyInExecution == i \in 0..Exited
\* a position reached by `continue` is an enabled breakpoint (checked as an action property)
ContinueStopsAtBp == [][(hist' # hist /\ hist'[Len(hist')].cmd \in {"start", "continue"} /\ i' # Exited /\ sg # 1)
                         => Pc(i') \in ubp]_vars
\* design-level prediction: does the address-keyed temporary-breakpoint algorithm meet the reference?
ImplNextMeetsRef   == (i \in 1..N) => ImplNextOk(i, ubp)
ImplFinishMeetsRef == (i \in 1..N /\ D(i) > 0) => ImplFinishOk(i, ubp)

\* emit every complete history once (mode G): used through an invariant that is always TRUE
EmitHist == (ncmd = MaxCmd \/ i = Exited) => PrintT(<<"HIST", ToJson(hist)>>)

=============================================================================

SPECIFICATION Spec
INVARIANT Inv
CONSTANTS
  Mode = "dqe"
  Rich = FALSE
  MaxSeq = 0
  DqeDepth = 1

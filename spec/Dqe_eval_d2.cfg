SPECIFICATION Spec
INVARIANT Inv
CONSTANTS
  Mode = "eval"
  MaxDepth = 2
  Rich = TRUE

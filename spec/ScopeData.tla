---- MODULE ScopeData ----
EXTENDS Integers
(* Sample scope facts matching the sample execution in XData.tla (main at 100..120 calls f at 200..212), so that
   TraceScope / ScopeSession parse stand-alone.  Real checks generate this module from a puppet binary's DWARF
   (tools/c19_dwarf.py: tla_module) into the work directory that also holds the generated XData.tla. *)
Blocks == <<
  [parent |-> 0, fn |-> 1, ranges |-> <<<<100, 120>>>>, kind |-> "fn"],
  [parent |-> 1, fn |-> 1, ranges |-> <<<<108, 120>>>>, kind |-> "block"],
  [parent |-> 0, fn |-> 3, ranges |-> <<<<200, 212>>>>, kind |-> "fn"]
>>
Vars == <<
  [name |-> "s", block |-> 2, decl |-> 2, kind |-> "local", scalar |-> TRUE,
   locs |-> <<[lo |-> 0, hi |-> 1073741824, form |-> "fbreg", a |-> -8, b |-> 0]>>],
  [name |-> "a", block |-> 3, decl |-> 7, kind |-> "param", scalar |-> TRUE,
   locs |-> <<[lo |-> 0, hi |-> 1073741824, form |-> "fbreg", a |-> -16, b |-> 0]>>]
>>
GlobalNames == { }
OptLevel == 0
====

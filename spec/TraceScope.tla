---------------------------- MODULE TraceScope ----------------------------
(***************************************************************************)
(* Mode (V) for C19: judge what the REAL debugger showed (`var locals`,    *)
(* `arg all`, `var <name>` after every stop and every `frame k`) against   *)
(* the scope operators of Scope.tla evaluated over                         *)
(*   - ScopeData: the binary's own DWARF decoded by llvm-dwarfdump         *)
(*     (tools/c19_dwarf.py): Blocks, Vars, GlobalNames, OptLevel;          *)
(*   - XData (as in SessionRef): the recorded native execution X, whose call*)
(*     stack at position j (RefBacktrace) says which activation frame k is;*)
(*   - raw facts recorded by the driver next to each observation: the      *)
(*     frame chain from the saved-rbp walk and, for every frame and every  *)
(*     variable of its function, the bytes / register named by each DWARF  *)
(*     location entry (values are decimal strings: TLC integers are 32 bit)*)
(* Monitor style: every event is consumed, verdicts are collected in viol. *)
(*                                                                         *)
(* Event: [cmd, k, idx, fr, ok, chain, locals, lerr, args, aerr, res, raw] *)
(*   idx   position of the real program in X (pc + TICK), 0 = unknown      *)
(*   fr    the frame the script selected (0 after a stop)                  *)
(*   locals/args  << <<name, value>> .. >>;  res  << [name, vals, err] >>  *)
(*   raw[k+1] = << [v, e, val, alt, up] .. >> value named by entry e of     *)
(*              Vars[v] in frame k ("unk" = not recoverable), alt = the    *)
(*              other registers' values for register entries of frame 0,   *)
(*              up = the same fbreg offset applied to the saved rbp        *)
(***************************************************************************)
EXTENDS Integers, Sequences, FiniteSets, TLC, Json, IOUtils, XData, Scope, ScopeData

\* the reference execution (XData, see SessionRef.tla): X[j] = [pc, d, ln, st, pe, fn, sk, tk, ext], Stacks[sk] = return
\* addresses of the active calls, outermost first.  Same definition as SessionRef!RefBacktrace (SessionRef itself is not
\* extended: its step tables are not needed here and cost seconds of start-up per trace).
N == Len(X)
RefBacktrace(j) == LET s == Stacks[X[j].sk] IN
                   <<X[j].pc>> \o [k \in 1..Len(s) |-> s[Len(s) + 1 - k]]

Rec == IF "TRACE" \in DOMAIN IOEnv THEN ndJsonDeserialize(IOEnv.TRACE) ELSE <<>>

VARIABLES l, viol, stats
svars == <<l, viol, stats>>

Stats0 == [judged |-> 0, skipped |-> 0, outer |-> 0, shadow |-> 0, names |-> 0, values |-> 0, regvals |-> 0, recur |-> 0, sprel |-> 0]
SInit == l = 1 /\ viol = {} /\ stats = Stats0

SeqSet(s) == {s[i] : i \in 1..Len(s)}
MinOf(S) == CHOOSE m \in S : \A n \in S : m <= n
Strs(S) == S                      \* verdict fields are always SETS of strings (uniform shape for TLC)
V(k, cls, act, name, fr, pc, exp, actl) ==
  [k |-> k, class |-> cls, action |-> act, name |-> name, frame |-> fr, pc |-> pc, expected |-> exp, actual |-> actl]

---------------------------------------------------------------------------
(* expected values: the specification chooses the binding, the location    *)
(* entry valid at pc and the frame; the driver only supplied the raw bytes *)

RawSet(e, k, v) == {e.raw[k + 1][i].val : i \in {i \in 1..Len(e.raw[k + 1]) : e.raw[k + 1][i].v = v}}
RawVal(e, k, v, n) ==
  LET m == {i \in 1..Len(e.raw[k + 1]) : e.raw[k + 1][i].v = v /\ e.raw[k + 1][i].e = n}
  IN IF m = {} THEN "unk" ELSE e.raw[k + 1][CHOOSE i \in m : TRUE].val
AltVals(e, k, v, n) ==
  LET m == {i \in 1..Len(e.raw[k + 1]) : e.raw[k + 1][i].v = v /\ e.raw[k + 1][i].e = n}
  IN IF m = {} THEN {} ELSE LET a == e.raw[k + 1][CHOOSE i \in m : TRUE].alt IN {a[i].val : i \in 1..Len(a)}

UpVals(e, k, v, n) ==
  LET m == {i \in 1..Len(e.raw[k + 1]) : e.raw[k + 1][i].v = v /\ e.raw[k + 1][i].e = n}
  IN IF m = {} THEN {} ELSE {e.raw[k + 1][CHOOSE i \in m : TRUE].up} \ {"unk"}

LocAt(v, pc) == LET ls == Vars[v].locs
                    E  == {n \in 1..Len(ls) : ls[n].lo <= pc /\ pc < ls[n].hi}
                IN IF E = {} THEN 0 ELSE MinOf(E)
\* "none": the variable has no value at pc;  "unk": the model cannot tell (opaque expression, non-scalar type,
\* register of an outer frame)
Exp(e, k, v, pc) ==
  IF ~Vars[v].scalar THEN "unk"
  ELSE LET n == LocAt(v, pc) IN
       IF n = 0 THEN "none"
       ELSE IF Vars[v].locs[n].form = "opaque" THEN "unk"
       ELSE RawVal(e, k, v, n)
IsRegAt(v, pc) == LET n == LocAt(v, pc) IN n # 0 /\ Vars[v].locs[n].form = "reg"

\* a value the debugger did not show (R5: at opt-level 1 only shown values are judged)
Shown(x) == OptLevel = 0 \/ x \notin {"none", "other"}

\* frames other than k that run the same function (recursion, or the same function further out)
OtherActs(e, k, pc) == {k2 \in 0..(Len(e.chain) - 1) : k2 # k /\ FnAt(Blocks, e.chain[k2 + 1]) = FnAt(Blocks, pc)}

\* the value named by a location-list entry that ENDS at pc (ranges are half-open: that entry is over)
StaleVals(e, k, v, pc) == {RawVal(e, k, v, n) : n \in {n \in 1..Len(Vars[v].locs) : Vars[v].locs[n].hi = pc}} \ {"unk"}

ValueClass(e, k, pc, cands, x) ==
  IF \E v \in cands : x \in StaleVals(e, k, v, pc) THEN "location_list_end_inclusive" ELSE
  \* frame k > 0 read with the registers of frame k+1: the slot offset applied to the caller's frame base
  IF k > 0 /\ \E v \in cands : LocAt(v, pc) # 0 /\ x \in UpVals(e, k, v, LocAt(v, pc)) THEN "value_from_callers_frame_base"
  ELSE IF \E v \in cands : \E k2 \in OtherActs(e, k, pc) : x \in RawSet(e, k2, v) THEN "wrong_frame_value"
  ELSE IF \E v \in cands : IsRegAt(v, pc) /\ x \in AltVals(e, k, v, LocAt(v, pc)) THEN "wrong_register"
  ELSE "wrong_value"

\* the binding of `name` that was shown although it is not in scope (same function first), 0 if unknown
Culprit(name, kind, pc) ==
  LET out  == {u \in 1..Len(Vars) : Vars[u].name = name /\ Vars[u].kind = kind /\ u \notin InScope(Blocks, Vars, pc)}
      same == {u \in out : Blocks[Vars[u].block].fn = FnAt(Blocks, pc)}
  IN IF same # {} THEN MinOf(same) ELSE IF out # {} THEN MinOf(out) ELSE 0
OutCls(u, pc) == IF u = 0 THEN "out_of_scope_variable_listed" ELSE OutClass(Blocks, Vars, u, pc)

---------------------------------------------------------------------------
(* `var locals` / `arg all`: the listed names are exactly the in-scope     *)
(* bindings (as a multiset: shadowed bindings that are all lexically live  *)
(* may all be listed), each with its own value                             *)

ListVerdicts(e, k, pc, list, kind, act) ==
  LET S     == InScopeKind(Blocks, Vars, pc, kind)
      NamesL == {list[i][1] : i \in 1..Len(list)} \cup {Vars[v].name : v \in S}
      One(n) ==
        LET LI == {i \in 1..Len(list) : list[i][1] = n}
            SV == {v \in S : Vars[v].name = n}
            Xs == {list[i][2] : i \in LI}
            CL(x) == Cardinality({i \in LI : list[i][2] = x})
            CK(x) == Cardinality({v \in SV : Exp(e, k, v, pc) = x})
            U  == Cardinality({v \in SV : Exp(e, k, v, pc) = "unk"})
            extra == {xc \in {x \in Xs : Shown(x)} \X (1..Len(list)) : xc[2] <= CL(xc[1]) - CK(xc[1])}
            expd == {Exp(e, k, v, pc) : v \in SV}
        IN IF Cardinality(LI) > Cardinality(SV)
             THEN {V(e.k, OutCls(Culprit(n, kind, pc), pc), act, n, k, pc, expd, Xs)}
           ELSE IF Cardinality(LI) < Cardinality(SV) /\ OptLevel = 0
             THEN {V(e.k, "in_scope_variable_missing", act, n, k, pc, expd, Xs)}
           ELSE IF Cardinality(extra) > U
             THEN LET x == (CHOOSE xc \in extra : TRUE)[1] IN
                  {V(e.k, ValueClass(e, k, pc, SV, x), act, n, k, pc, expd, Xs)}
           ELSE {}
  IN UNION {One(n) : n \in NamesL}

(* `var <name>`: the innermost live binding and its value *)
ResVerdicts(e, k, pc) ==
  LET One(q) ==
        LET n  == q.name
            r  == Resolve(Blocks, Vars, n, pc)
            SV == {v \in InScopeKind(Blocks, Vars, pc, "local") : Vars[v].name = n}
            got == SeqSet(q.vals)
        IN IF q.err THEN (IF OptLevel = 0 /\ r # 0 THEN {V(e.k, "query_failed", "var name", n, k, pc, {Exp(e, k, r, pc)}, {"error"})} ELSE {})
           ELSE IF r = 0 THEN
                  (IF Len(q.vals) > 0 /\ n \notin GlobalNames
                     THEN {V(e.k, OutCls(Culprit(n, "local", pc), pc), "var name", n, k, pc, {}, got)} ELSE {})
           ELSE IF Len(q.vals) = 0 THEN
                  (IF OptLevel = 0 THEN {V(e.k, "in_scope_variable_missing", "var name", n, k, pc, {Exp(e, k, r, pc)}, {})} ELSE {})
           ELSE LET x == q.vals[1] want == Exp(e, k, r, pc) IN
                IF Len(q.vals) = 1 /\ (~Shown(x) \/ want = "unk" \/ want = x) THEN {}
                ELSE LET cls ==
                           IF \E u \in SV \ {r} : Exp(e, k, u, pc) = x THEN "shadowed_name_resolves_to_outer"
                           ELSE IF k > 0 /\ \E u \in SV : LocAt(u, pc) # 0 /\ x \in UpVals(e, k, u, LocAt(u, pc))
                                  THEN "value_from_callers_frame_base"
                           ELSE IF \E u \in 1..Len(Vars) : /\ Vars[u].name = n /\ Vars[u].kind = "local" /\ u \notin SV
                                                           /\ Blocks[Vars[u].block].fn = FnAt(Blocks, pc) /\ x \in RawSet(e, k, u)
                                  THEN OutCls(Culprit(n, "local", pc), pc)
                           ELSE ValueClass(e, k, pc, {r}, x)
                     IN {V(e.k, cls, "var name", n, k, pc, {want}, got)}
  IN UNION {One(e.res[i]) : i \in 1..Len(e.res)}

Judge(e, k, pc) ==
  (IF e.lerr THEN (IF OptLevel = 0 THEN {V(e.k, "query_failed", "var locals", "", k, pc, {}, {"error"})} ELSE {})
   ELSE ListVerdicts(e, k, pc, e.locals, "local", "var locals"))
  \cup
  (IF e.aerr THEN (IF OptLevel = 0 THEN {V(e.k, "query_failed", "arg all", "", k, pc, {}, {"error"})} ELSE {})
   ELSE ListVerdicts(e, k, pc, e.args, "param", "arg all"))
  \cup ResVerdicts(e, k, pc)

\* FrameOf(k, j): the k-th activation of the reference call stack.  The "current location" of an outer
\* frame is its call site: both the return address and the byte before it are accepted as that location.
FramePc(j, k) == RefBacktrace(j)[k + 1]
Judgeable(e) == /\ e.ok /\ e.idx \in 1..N /\ e.idx < TailPos
                /\ e.chain = RefBacktrace(e.idx)          \* the independent frame walk agrees with the reference stack
                /\ e.fr < Len(e.chain)
                /\ FnAt(Blocks, FramePc(e.idx, e.fr)) # 0
FrameVerdicts(e) ==
  LET pc == FramePc(e.idx, e.fr) IN
  IF e.fr = 0 THEN Judge(e, 0, pc)
  ELSE LET a == Judge(e, e.fr, pc) IN
       IF a = {} THEN {} ELSE IF Judge(e, e.fr, pc - 1) = {} THEN {} ELSE a

Bump(e) ==
  LET pc == FramePc(e.idx, e.fr)
      S  == InScope(Blocks, Vars, pc)
      known == {v \in S : Exp(e, e.fr, v, pc) \notin {"unk", "none"}}
  IN [stats EXCEPT !.judged = @ + 1,
                   !.outer  = @ + (IF e.fr > 0 THEN 1 ELSE 0),
                   !.shadow = @ + (IF \E u, v \in S : u # v /\ Vars[u].name = Vars[v].name /\ Vars[u].kind = "local" /\ Vars[v].kind = "local" THEN 1 ELSE 0),
                   !.names  = @ + Cardinality(S),
                   !.values = @ + Cardinality(known),
                   !.regvals = @ + Cardinality({v \in known : Vars[v].locs[LocAt(v, pc)].form \in {"reg", "regval", "breg", "expr"}}),
                   \* values of an OUTER frame that DWARF addresses off rsp (DW_OP_breg7): expected = [rsp_k + N], rsp_k = CFA of frame k-1
                   !.sprel  = @ + Cardinality({v \in known : e.fr > 0 /\ Vars[v].locs[LocAt(v, pc)].form = "breg" /\ Vars[v].locs[LocAt(v, pc)].a = 7}),
                   !.recur  = @ + (IF OtherActs(e, e.fr, pc) # {} THEN 1 ELSE 0)]

Consume ==
  /\ l <= Len(Rec)
  /\ LET e == Rec[l] IN
     /\ l' = l + 1
     /\ IF e.cmd = "obs" /\ Judgeable(e)
          THEN viol' = viol \cup FrameVerdicts(e) /\ stats' = Bump(e)
          ELSE viol' = viol /\ stats' = [stats EXCEPT !.skipped = @ + (IF e.cmd = "obs" THEN 1 ELSE 0)]

TraceSpec == SInit /\ [][Consume]_svars
TraceDone == (l = Len(Rec) + 1) => PrintT(<<"VERDICT", ToJson([n |-> Len(Rec), viol |-> viol, stats |-> stats])>>)
=============================================================================

CONSTANTS
  L = 4
  MaxBlocks = 3
  MaxVars = 2
  Names = {"x"}
SPECIFICATION Spec
INVARIANT DesignResolveMeetsRef

\* C15 / MemRW.tla -- (E) reads of the code as written vs the specification (a violation is a prediction the binding decides)
CONSTANTS
    W = 4
    Lo = 4
    Hi = 16
    MaxN = 9
    MaxOps = 2
    OpKinds = {"R", "WB"}
    DataKinds = {"pat", "inv"}
    ReadVariant = "tail"
    Emit = "none"
    Regs = {}
    InitMem = "pattern"
    DisVariant = "masked"
SPECIFICATION SpecMem
VIEW View
INVARIANTS MemoryMatchesSpec UnmappedNeverChanges
PROPERTIES ReadsMeetSpec

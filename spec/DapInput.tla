------------------------------ MODULE DapInput ------------------------------
(***************************************************************************)
(* C08 -- no input can crash, hang or corrupt the debugger (DAP side).     *)
(*                                                                         *)
(* Every command the adapter dispatches (session/mod.rs `dispatch`) with   *)
(* its well-formed arguments, and for every argument the SHAPES            *)
(*   valid, missing, wrongtype, huge (i64 max), huger (beyond u64), neg,   *)
(*   null                                                                  *)
(* plus whole-`arguments` shapes, nested mutations, envelope-level garbage *)
(* (R3: explored here, must not crash) and raw frames for transport.rs.    *)
(* For each message in each session state: the CLASS of admissible         *)
(* outcome.  "ok"/"error" = a response with success true/false;            *)
(* "none" = no response is owed (no request_seq to answer).  Crash and     *)
(* hang are not outcomes.  After every message the sentinel `threads`      *)
(* must be answered unless the specification says the session may end.     *)
(*                                                                         *)
(* Mode "msgs": a state is one message (TLC enumerates command x argument  *)
(* x shape).  Mode "seqs": `Submit` sends message classes one after the    *)
(* other, sequences up to MaxSeq.                                          *)
(*                                                                         *)
(* SAFETY (DESIGN 3.4): arguments that name host resources (launch.program,*)
(* attach.pid, terminateThreads.threadIds, runInTerminal.args) are only    *)
(* ever: the puppet, /bin/true, a /nonexistent path, no number at all.     *)
(* Placeholders substituted by the driver from the live session: $tid      *)
(* $frame $vref $iref $var $src $probe $puppet.                            *)
(***************************************************************************)
EXTENDS Integers, Sequences, FiniteSets, TLC, Json

CONSTANTS Mode,    \* "msgs" | "seqs"
          Rich,
          MaxSeq

VARIABLES msg, hist, alive
vars == <<msg, hist, alive>>

BIG    == "99999999999999999999999"
I64MAX == "9223372036854775807"
HEX17  == "0xFFFFFFFFFFFFFFFFF"

(* an argument: name, well-formed value, type, and whether it names a host resource *)
A(k, v, t)  == [k |-> k, v |-> v, t |-> t, host |-> FALSE]
AH(k, v, t) == [k |-> k, v |-> v, t |-> t, host |-> TRUE]
Raw(s) == [raw |-> s]            \* a JSON number given by its digits (TLC integers are 32 bit)
Null   == [null |-> TRUE]

SrcObj == [path |-> "$src"]
(* need: "dbg" = needs a launched debuggee; "none".  res: "ok" | "any".  eff: "q" query, "resume", "end", "start" *)
C(c, args, need, res, eff) == [c |-> c, args |-> args, need |-> need, res |-> res, eff |-> eff]
Commands ==
  << C("initialize", <<A("adapterID", "bugstalker", "str"), A("linesStartAt1", TRUE, "bool")>>, "none", "ok", "q"),
     C("launch", <<AH("program", "$puppet", "str"), A("args", <<"plain">>, "arr"), A("stopOnEntry", FALSE, "bool")>>, "none", "any", "start"),
     C("attach", <<AH("pid", "not-a-pid", "str")>>, "none", "any", "q"),
     C("configurationDone", <<>>, "none", "any", "resume"),
     C("setBreakpoints", <<A("source", SrcObj, "obj"), A("breakpoints", <<[line |-> "$probe"]>>, "arr")>>, "none", "any", "q"),
     C("setFunctionBreakpoints", <<A("breakpoints", <<[name |-> "work"]>>, "arr")>>, "none", "any", "q"),
     C("setInstructionBreakpoints", <<A("breakpoints", <<[instructionReference |-> "$iref"]>>, "arr")>>, "none", "any", "q"),
     C("setExceptionBreakpoints", <<A("filters", <<"signal">>, "arr")>>, "none", "ok", "q"),
     C("dataBreakpointInfo", <<A("name", "i64v", "str"), A("frameId", "$frame", "int")>>, "dbg", "any", "q"),
     C("setDataBreakpoints", <<A("breakpoints", <<>>, "arr")>>, "none", "any", "q"),
     C("breakpointLocations", <<A("source", SrcObj, "obj"), A("line", "$probe", "int"), A("endLine", "$probe", "int")>>, "none", "any", "q"),
     C("exceptionInfo", <<A("threadId", "$tid", "int")>>, "dbg", "any", "q"),
     C("threads", <<>>, "dbg", "ok", "q"),
     C("stackTrace", <<A("threadId", "$tid", "int"), A("startFrame", 0, "int"), A("levels", 20, "int")>>, "dbg", "ok", "q"),
     C("scopes", <<A("frameId", "$frame", "int")>>, "dbg", "ok", "q"),
     C("variables", <<A("variablesReference", "$vref", "int"), A("start", 0, "int"), A("count", 10, "int")>>, "dbg", "ok", "q"),
     C("setVariable", <<A("variablesReference", "$vref", "int"), A("name", "i8v", "str"), A("value", "7", "str")>>, "dbg", "any", "q"),
     C("continue", <<A("threadId", "$tid", "int")>>, "dbg", "any", "resume"),
     C("restart", <<>>, "dbg", "any", "resume"),
     C("restartFrame", <<A("frameId", "$frame", "int")>>, "dbg", "any", "resume"),
     C("next", <<A("threadId", "$tid", "int"), A("granularity", "line", "str")>>, "dbg", "any", "resume"),
     C("stepIn", <<A("threadId", "$tid", "int"), A("targetId", 0, "int")>>, "dbg", "any", "resume"),
     C("stepInTargets", <<A("frameId", "$frame", "int")>>, "dbg", "any", "q"),
     C("stepOut", <<A("threadId", "$tid", "int")>>, "dbg", "any", "resume"),
     C("stepBack", <<A("threadId", "$tid", "int")>>, "none", "any", "q"),
     C("reverseContinue", <<A("threadId", "$tid", "int")>>, "none", "any", "q"),
     C("pause", <<A("threadId", "$tid", "int")>>, "dbg", "any", "resume"),
     C("gotoTargets", <<A("source", SrcObj, "obj"), A("line", "$probe", "int")>>, "dbg", "any", "q"),
     C("goto", <<A("threadId", "$tid", "int"), A("targetId", 1, "int")>>, "dbg", "any", "resume"),
     C("evaluate", <<A("expression", "arr[1]", "str"), A("frameId", "$frame", "int"), A("context", "watch", "str")>>, "dbg", "ok", "q"),
     C("setExpression", <<A("expression", "i8v", "str"), A("value", "3", "str"), A("frameId", "$frame", "int")>>, "dbg", "any", "q"),
     C("completions", <<A("text", "ar", "str"), A("column", 3, "int"), A("frameId", "$frame", "int")>>, "none", "any", "q"),
     C("loadedSources", <<>>, "dbg", "any", "q"),
     C("modules", <<A("startModule", 0, "int"), A("moduleCount", 10, "int")>>, "dbg", "any", "q"),
     C("readMemory", <<A("memoryReference", "$var", "str"), A("offset", 0, "int"), A("count", 8, "int")>>, "dbg", "ok", "q"),
     C("writeMemory", <<A("memoryReference", "$var", "str"), A("offset", 0, "int"), A("data", "AQ==", "str")>>, "dbg", "any", "q"),
     C("disassemble", <<A("memoryReference", "$iref", "str"), A("offset", 0, "int"), A("instructionOffset", 0, "int"),
                        A("instructionCount", 4, "int")>>, "dbg", "any", "q"),
     C("terminateThreads", <<AH("threadIds", <<>>, "arr")>>, "none", "any", "q"),
     C("cancel", <<A("requestId", 1, "int"), A("progressId", "p", "str")>>, "none", "any", "q"),
     C("runInTerminal", <<AH("args", <<"/bin/true">>, "arr"), A("kind", "integrated", "str"), A("cwd", "/", "str")>>, "none", "any", "q"),
     C("source", <<A("source", SrcObj, "obj"), A("sourceReference", 0, "int")>>, "none", "any", "q"),
     C("terminate", <<A("restart", FALSE, "bool")>>, "none", "any", "end"),
     C("disconnect", <<A("terminateDebuggee", TRUE, "bool"), A("restart", FALSE, "bool")>>, "none", "any", "end"),
     C("noSuchCommand", <<>>, "none", "any", "q") >>

Shapes == <<"missing", "wrongtype", "huge", "huger", "neg", "null">>

HugeStr(k) ==
  CASE k = "expression"      -> "arr[" \o BIG \o "]"
    [] k = "memoryReference" -> HEX17
    [] k = "value"           -> BIG
    [] k = "data"            -> "AAAA" \o BIG
    [] OTHER                 -> BIG

(* the mutated value: <<>> = not applicable, <<"drop">> = field removed, <<"set", v>> = replaced *)
MutWrong(a) == CASE a.t = "int"  -> <<"set", "x">>
                 [] a.t = "str"  -> <<"set", 5>>
                 [] a.t = "bool" -> <<"set", "t">>
                 [] a.t = "obj"  -> <<"set", 3>>
                 [] a.t = "arr"  -> <<"set", "b">>
MutHuge(a) == CASE a.t = "int" -> <<"set", Raw(I64MAX)>>
                [] a.t = "str" -> <<"set", HugeStr(a.k)>>
                [] OTHER       -> <<>>
MutNeg(a) == CASE a.t = "int" -> <<"set", -1>>
               [] a.t = "str" -> <<"set", "-1">>
               [] OTHER       -> <<>>
Mut(a, sh) ==
  CASE sh = "missing"   -> <<"drop">>
    [] sh = "null"      -> <<"set", Null>>
    [] sh = "wrongtype" -> (IF a.host THEN <<"set", TRUE>> ELSE MutWrong(a))
    [] sh = "huge"      -> (IF a.host THEN <<>> ELSE MutHuge(a))
    [] sh = "huger"     -> (IF a.host \/ a.t # "int" THEN <<>> ELSE <<"set", Raw(BIG)>>)
    [] sh = "neg"       -> (IF a.host THEN <<>> ELSE MutNeg(a))

(* arguments as a sequence of <<name, value>> pairs (the driver builds the JSON object) *)
Pairs(args) == [i \in DOMAIN args |-> <<args[i].k, args[i].v>>]
MutPairs(args, j, m) ==
  IF m[1] = "drop" THEN [i \in 1..(Len(args) - 1) |-> IF i < j THEN <<args[i].k, args[i].v>> ELSE <<args[i + 1].k, args[i + 1].v>>]
  ELSE [i \in DOMAIN args |-> IF i = j THEN <<args[i].k, m[2]>> ELSE <<args[i].k, args[i].v>>]

(* admissible outcome classes of a request in a session state; st in {"fresh", "stopped"}.  Whether a request
   that needs a debuggee is refused or answered with an empty result before `launch` is C12's business. *)
Outcome(c, shape, st) ==
  IF shape = "valid" /\ c.res = "ok" /\ (c.need = "none" \/ st = "stopped") THEN {"ok"}
  ELSE {"ok", "error"}
(* may the session be gone / the debuggee be somewhere else afterwards? *)
MayEnd(c) == c.eff = "end"
After(c, st) == CASE c.eff = "q"      -> {st}
                  [] c.eff = "resume" -> IF st = "stopped" THEN {"stopped", "exited"} ELSE {st}
                  [] c.eff = "start"  -> {st, "stopped", "exited"}
                  [] c.eff = "end"    -> {st, "ended"}

Msg(c, shape, field, pairs, whole) ==
  [kind |-> "request", command |-> c.c, shape |-> shape, field |-> field, args |-> pairs, whole |-> whole,
   exp |-> [s \in {"fresh", "stopped"} |-> Outcome(c, shape, s)],
   after |-> [s \in {"fresh", "stopped"} |-> After(c, s)], mayend |-> MayEnd(c), eff |-> c.eff]

(* whole-`arguments` shapes: absent, null, a number, a string, an array *)
Wholes == <<"absent", "null", "number", "string", "array">>
(* host-acting commands are not given arbitrary `arguments` values that could be read as resources: all
   of these shapes are non-objects, from which no program, pid or thread id can be taken *)

(* nested mutations, by hand: the fields inside source / breakpoints[] / filters[] *)
N(c, shape, field, pairs) == [c |-> c, shape |-> shape, field |-> field, pairs |-> pairs]
Nested ==
  << N("setBreakpoints", "huge", "breakpoints[0].line", << <<"source", SrcObj>>, <<"breakpoints", <<[line |-> Raw(I64MAX)]>>>> >>),
     N("setBreakpoints", "huger", "breakpoints[0].line", << <<"source", SrcObj>>, <<"breakpoints", <<[line |-> Raw(BIG)]>>>> >>),
     N("setBreakpoints", "neg", "breakpoints[0].line", << <<"source", SrcObj>>, <<"breakpoints", <<[line |-> -1]>>>> >>),
     N("setBreakpoints", "wrongtype", "breakpoints[0].line", << <<"source", SrcObj>>, <<"breakpoints", <<[line |-> "x"]>>>> >>),
     N("setBreakpoints", "missing", "breakpoints[0].line", << <<"source", SrcObj>>, <<"breakpoints", <<[column |-> 1]>>>> >>),
     N("setBreakpoints", "wrongtype", "breakpoints[0]", << <<"source", SrcObj>>, <<"breakpoints", <<5, "x", Null>>>> >>),
     N("setBreakpoints", "wrongtype", "source.path", << <<"source", [path |-> 5]>>, <<"breakpoints", <<[line |-> "$probe"]>>>> >>),
     N("setBreakpoints", "missing", "source.path", << <<"source", [name |-> "x"]>>, <<"breakpoints", <<[line |-> "$probe"]>>>> >>),
     N("setBreakpoints", "huge", "source.sourceReference", << <<"source", [sourceReference |-> Raw(I64MAX)]>>, <<"breakpoints", <<[line |-> 1]>>>> >>),
     N("setBreakpoints", "huge", "breakpoints[0].condition", << <<"source", SrcObj>>, <<"breakpoints", <<[line |-> "$probe", condition |-> "arr[" \o BIG \o "] == 1"]>>>> >>),
     N("setBreakpoints", "huge", "breakpoints[0].hitCondition", << <<"source", SrcObj>>, <<"breakpoints", <<[line |-> "$probe", hitCondition |-> BIG]>>>> >>),
     N("setFunctionBreakpoints", "wrongtype", "breakpoints[0].name", << <<"breakpoints", <<[name |-> 5]>>>> >>),
     N("setFunctionBreakpoints", "huge", "breakpoints[0].name", << <<"breakpoints", <<[name |-> BIG]>>>> >>),
     N("setInstructionBreakpoints", "huge", "breakpoints[0].instructionReference", << <<"breakpoints", <<[instructionReference |-> HEX17]>>>> >>),
     N("setInstructionBreakpoints", "huge", "breakpoints[0].offset", << <<"breakpoints", <<[instructionReference |-> "$iref", offset |-> Raw(I64MAX)]>>>> >>),
     N("setInstructionBreakpoints", "neg", "breakpoints[0].offset", << <<"breakpoints", <<[instructionReference |-> "0x0", offset |-> -1]>>>> >>),
     N("setDataBreakpoints", "wrongtype", "breakpoints[0].dataId", << <<"breakpoints", <<[dataId |-> 5]>>>> >>),
     N("setDataBreakpoints", "huge", "breakpoints[0].dataId", << <<"breakpoints", <<[dataId |-> HEX17 \o ":8", accessType |-> "write"]>>>> >>),
     N("setDataBreakpoints", "huger", "breakpoints[0].dataId", << <<"breakpoints", <<[dataId |-> "0x$var$:" \o BIG]>>>> >>),
     N("setExceptionBreakpoints", "wrongtype", "filters[0]", << <<"filters", <<5>>>> >>),
     N("evaluate", "huge", "expression", << <<"expression", "arr[3..1]">>, <<"frameId", "$frame">> >>),
     N("evaluate", "huge", "expression", << <<"expression", "arr[1.." \o BIG \o "]">>, <<"frameId", "$frame">> >>),
     N("evaluate", "huge", "expression", << <<"expression", "(*const i32)" \o HEX17>>, <<"frameId", "$frame">> >>),
     N("evaluate", "huge", "context", << <<"expression", "b r " \o BIG>>, <<"frameId", "$frame">>, <<"context", "repl">> >>),
     N("evaluate", "huge", "context", << <<"expression", "source " \o BIG>>, <<"frameId", "$frame">>, <<"context", "repl">> >>),
     N("readMemory", "huge", "count", << <<"memoryReference", "$var">>, <<"count", Raw("1099511627776")>> >>),
     N("readMemory", "huge", "offset", << <<"memoryReference", "$var">>, <<"offset", Raw(I64MAX)>>, <<"count", 8>> >>),
     N("readMemory", "neg", "offset", << <<"memoryReference", "0x10">>, <<"offset", -17>>, <<"count", 8>> >>),
     N("disassemble", "huge", "instructionCount", << <<"memoryReference", "$iref">>, <<"instructionCount", Raw("4294967296")>> >>),
     N("disassemble", "neg", "instructionOffset", << <<"memoryReference", "$iref">>, <<"instructionOffset", Raw("-" \o I64MAX)>>, <<"instructionCount", 4>> >>),
     N("stackTrace", "huge", "startFrame", << <<"threadId", "$tid">>, <<"startFrame", Raw(I64MAX)>>, <<"levels", Raw(I64MAX)>> >>),
     N("variables", "huge", "start", << <<"variablesReference", "$vref">>, <<"start", Raw(I64MAX)>>, <<"count", Raw(I64MAX)>> >>),
     N("scopes", "huge", "frameId", << <<"frameId", Raw("4294967296")>> >>),
     N("scopes", "neg", "frameId", << <<"frameId", Raw("-" \o I64MAX)>> >>),
     N("writeMemory", "wrongtype", "data", << <<"memoryReference", "$var">>, <<"data", "!!not base64!!">> >>),
     N("setVariable", "huge", "value", << <<"variablesReference", "$vref">>, <<"name", "i8v">>, <<"value", BIG>> >>),
     N("setExpression", "huge", "value", << <<"expression", "i64v">>, <<"value", "-" \o BIG>>, <<"frameId", "$frame">> >>),
     N("completions", "huge", "column", << <<"text", "ar">>, <<"column", Raw(I64MAX)>> >>),
     N("completions", "neg", "column", << <<"text", "$utf8$$utf8$">>, <<"column", 2>> >>),
     N("goto", "huge", "targetId", << <<"threadId", "$tid">>, <<"targetId", Raw(I64MAX)>> >>),
     N("cancel", "huge", "requestId", << <<"requestId", Raw(I64MAX)>> >>) >>

CmdNamed(n) == Commands[CHOOSE i \in DOMAIN Commands : Commands[i].c = n]

(* envelope-level garbage (R3): there is no request_seq to answer, the session must survive *)
E(name, v) == [kind |-> "envelope", shape |-> name, value |-> v]
Envelopes ==
  << E("empty-object", [x |-> Null]), E("no-seq", [type |-> "request", command |-> "threads"]),
     E("seq-string", [seq |-> "1", type |-> "request", command |-> "threads"]),
     E("seq-huger", [seq |-> Raw(BIG), type |-> "request", command |-> "threads"]),
     E("seq-null", [seq |-> Null, type |-> "request", command |-> "threads"]),
     E("no-type", [seq |-> 900, command |-> "threads"]), E("no-command", [seq |-> 901, type |-> "request"]),
     E("command-number", [seq |-> 902, type |-> "request", command |-> 5]),
     E("type-number", [seq |-> 903, type |-> 5, command |-> "threads"]),
     E("type-response", [seq |-> 904, type |-> "response", command |-> "threads", request_seq |-> 1, success |-> TRUE]),
     E("type-event", [seq |-> 905, type |-> "event", event |-> "stopped"]),
     E("json-array", <<1, 2>>), E("json-string", "threads"), E("json-number", 5), E("json-null", Null),
     E("json-true", TRUE) >>

(* raw frames for transport.rs.  final = the client closes its side afterwards: the session must come to an
   end by itself (no panic, no abort, no hang); otherwise a complete but non-JSON frame. *)
R(name, bytes, final) == [kind |-> "raw", shape |-> name, text |-> bytes, final |-> final]
RawFrames ==
  << R("length-huge", "Content-Length: 1000000000000000\r\n\r\n{}", TRUE),
     R("length-u64max", "Content-Length: 18446744073709551615\r\n\r\n{}", TRUE),
     R("length-huger", "Content-Length: " \o BIG \o "\r\n\r\n{}", TRUE),
     R("length-negative", "Content-Length: -1\r\n\r\n{}", TRUE),
     R("length-text", "Content-Length: abc\r\n\r\n{}", TRUE),
     R("length-missing", "X-Header: 1\r\n\r\n{}", TRUE),
     R("length-short", "Content-Length: 1\r\n\r\n{\"seq\":1,\"type\":\"request\",\"command\":\"threads\"}", TRUE),
     R("body-truncated", "Content-Length: 40\r\n\r\n{\"seq\":1", TRUE),
     R("body-not-json", "Content-Length: 5\r\n\r\nhello", FALSE),
     R("body-not-utf8", "Content-Length: 2\r\n\r\n$ff$$fe$", FALSE),
     R("header-only", "Content-Length: 2", TRUE),
     R("empty", "", TRUE) >>

-----------------------------------------------------------------------------
(* Mode "seqs": message classes in sequence *)
SeqMsgs ==
  LET base == <<"initialize", "launch", "setBreakpoints", "configurationDone", "threads", "continue", "evaluate-huge",
                "disconnect", "envelope-no-seq">>
      more == <<"next", "stackTrace", "restart", "terminate", "readMemory-huge", "pause">>
  IN IF Rich THEN base \o more ELSE base
Enders == {"disconnect", "terminate"}
Breakers == {"envelope-no-seq"}     \* R3: must not crash; whether the session survives is observed

Init == /\ hist = <<>> /\ alive = TRUE
        /\ IF Mode = "seqs" THEN msg = [kind |-> "none"]
           ELSE \/ \E i \in DOMAIN Commands :
                     \/ msg = Msg(Commands[i], "valid", "", Pairs(Commands[i].args), "object")
                     \/ \E j \in DOMAIN Commands[i].args : \E s \in DOMAIN Shapes :
                          LET m == Mut(Commands[i].args[j], Shapes[s]) IN
                          /\ m # <<>>
                          /\ msg = Msg(Commands[i], Shapes[s], Commands[i].args[j].k, MutPairs(Commands[i].args, j, m), "object")
                     \/ \E w \in DOMAIN Wholes : msg = Msg(Commands[i], "whole-" \o Wholes[w], "", <<>>, Wholes[w])
                \/ \E i \in DOMAIN Nested :
                     msg = Msg(CmdNamed(Nested[i].c), Nested[i].shape, Nested[i].field, Nested[i].pairs, "object")
                \/ \E i \in DOMAIN Envelopes : msg = Envelopes[i]
                \/ \E i \in DOMAIN RawFrames : msg = RawFrames[i]

Submit == /\ Mode = "seqs" /\ alive /\ Len(hist) < MaxSeq
          /\ \E i \in DOMAIN SeqMsgs :
                /\ hist' = Append(hist, SeqMsgs[i])
                /\ alive' = (SeqMsgs[i] \notin Enders)
          /\ UNCHANGED msg

Next == Submit
Spec == Init /\ [][Next]_vars

EmitMsg == Mode = "msgs" => PrintT(<<"MSG", ToJson(msg)>>)
EmitSeq == (Mode = "seqs" /\ hist # <<>>) => PrintT(<<"DSEQ", ToJson([seq |-> hist, alive |-> alive])>>)
Inv == EmitMsg /\ EmitSeq
=============================================================================

----------------------------- MODULE LineTable -----------------------------
(***************************************************************************)
(* C04 - address <-> source answers agree with the binary's DWARF.         *)
(*                                                                         *)
(* A CONSTANT module (no variables): it is instantiated                    *)
(*   - by LineTableSmall.tla with *state variables* substituted for Rows   *)
(*     and Funcs (TLC enumerates every small table and compares the        *)
(*     algorithm transcriptions below with the declarative operators), and *)
(*   - by LineTableEval.tla with the line table / function ranges of a     *)
(*     real binary (generated constant module LTData), where TLC evaluates *)
(*     the declarative operators and prints the expected answers.          *)
(*                                                                         *)
(* Part 1 is written from the property text and the DWARF standard only.   *)
(* Part 2 transcribes BugStalker's algorithms (file:line given per         *)
(* operator); nothing in part 1 depends on part 2.                         *)
(***************************************************************************)
EXTENDS Integers, Sequences, FiniteSets, TLC

CONSTANTS
  Rows,   \* sequence of line-table rows IN LINE-PROGRAM ORDER (all decoded compilation units, one after
          \* the other; part 1 has no notion of a unit), records
          \*   [addr, file, line, col, stmt, pe, eb, es, seq]
          \*   file: file id, stmt/pe/eb/es: is_stmt, prologue_end, epilogue_begin,
          \*   end_sequence, seq: id of the sequence the row belongs to.  Every
          \*   sequence is a contiguous run of rows closed by exactly one es row.
  Funcs   \* sequence of subprograms with code, records
          \*   [name, ranges, decl]   ranges: set of <<lo, hi>> (hi exclusive)

\* Aliases: zero-arity constant-level definitions are evaluated once and cached by TLC, whereas a
\* CONSTANT replaced in the .cfg by `Rows <- DataRows` is re-evaluated at every use (measured:
\* 0.3 ms per `Rows[i]` on a 770-row table).  All operators below go through Row / Fn.
Row == Rows
Fn  == Funcs
RowIdx  == DOMAIN Row
FuncIdx == DOMAIN Fn

Min(S) == CHOOSE x \in S : \A y \in S : x <= y
Max(S) == CHOOSE x \in S : \A y \in S : x >= y

(***************************************************************************)
(* PART 1 - what the table MEANS (DWARF 5 sec. 6.2: a row describes the    *)
(* instructions from its address up to the address of the next row of the  *)
(* same sequence; an end_sequence row describes no instruction).           *)
(***************************************************************************)
SeqIds == {Row[i].seq : i \in RowIdx}

\* (TLCEval only forces TLC to tabulate these functions once when Rows is a real constant;
\* it is the identity)
SeqRows == TLCEval([s \in SeqIds |-> {i \in RowIdx : Row[i].seq = s}])
SeqLo   == TLCEval([s \in SeqIds |-> Min({Row[i].addr : i \in SeqRows[s]})])
SeqHi   == TLCEval([s \in SeqIds |-> Max({Row[i].addr : i \in SeqRows[s]})])

\* the next row of the same sequence (rows are in program order, the last row of a
\* sequence is its end_sequence row)
RowEnd(i) == IF Row[i].es THEN Row[i].addr ELSE Row[i + 1].addr

Covers(i, pc) == /\ ~Row[i].es
                 /\ Row[i].addr <= pc
                 /\ pc < RowEnd(i)

\* rows describing the instruction at pc (exactly one in a well-formed table; several
\* only if sequences overlap)
PlaceRows(pc) ==
  UNION {{i \in SeqRows[s] : Covers(i, pc)} : s \in {t \in SeqIds : SeqLo[t] <= pc /\ pc < SeqHi[t]}}

\* the file and line an independent reader shows for pc
PlaceOf(pc) == {<<Row[i].file, Row[i].line>> : i \in PlaceRows(pc)}

\* Weaker reading used for the verdict on real binaries: rows of the covering sequence
\* that carry the same address as the covering row (a zero-length row immediately
\* followed by the covering row).  PlaceOf(pc) \subseteq PlaceCandidates(pc).
PlaceCandRows(pc) ==
  UNION {{j \in SeqRows[Row[i].seq] : ~Row[j].es /\ Row[j].addr = Row[i].addr} : i \in PlaceRows(pc)}
PlaceCandidates(pc) == {<<Row[i].file, Row[i].line>> : i \in PlaceCandRows(pc)}

\* (classification only) end_sequence rows of OTHER sequences that lie between the covering row's
\* address and pc: an address-sorted vector that keeps end_sequence rows may present one of them as
\* "the row before pc".  Never part of an expected answer.
EsRows == TLCEval({k \in RowIdx : Row[k].es})
EndSeqShadowing(pc) ==
  {<<Row[j].file, Row[j].line>> :
     j \in {k \in EsRows : Row[k].addr <= pc /\ \E i \in PlaceRows(pc) : Row[i].addr <= Row[k].addr}}

InRanges(rs, pc) == \E r \in rs : r[1] <= pc /\ pc < r[2]
InFunc(f, pc)    == InRanges(Fn[f].ranges, pc)

\* the function(s) whose ranges contain pc
FuncOf(pc) == {f \in FuncIdx : InFunc(f, pc)}

\* --- file:line -> breakpoint addresses --------------------------------------------
RealRows(file, l) == {i \in RowIdx : ~Row[i].es /\ Row[i].file = file /\ Row[i].line = l}
StmtRows(file, l) == {i \in RealRows(file, l) : Row[i].stmt}
HasCode(file, l)  == RealRows(file, l) # {}

\* "statements of that line, or of the next line only if the line has no code".
\* A line that has code but no statement row is left unspecified ("unspec").
LineTarget(file, l) ==
  IF StmtRows(file, l) # {} THEN <<"line", l>>
  ELSE IF HasCode(file, l) THEN <<"unspec", l>>
  ELSE IF StmtRows(file, l + 1) # {} THEN <<"next", l + 1>>
  ELSE <<"none", l>>

\* addresses a breakpoint for file:l may be put on.  Rows holds the rows of EVERY compilation unit that
\* has code of the file, so "the line has no code" is a statement about the file across all units, not
\* about one unit: the next line is used only if NO unit has code for l.
AddrsOfLine(file, l) ==
  LET t == LineTarget(file, l)
  IN IF t[1] \in {"line", "next"} THEN {Row[i].addr : i \in StmtRows(file, t[2])} ELSE {}

\* "every function or instantiation that contains the line gets its own breakpoint"
FuncsOfLine(file, l) == LET A == AddrsOfLine(file, l) IN {f \in FuncIdx : \E a \in A : InFunc(f, a)}

\* Is the set A of breakpoint addresses a correct answer for file:l ?
LineAnswerOK(file, l, A) ==
  \/ LineTarget(file, l)[1] = "unspec"
  \/ /\ A \subseteq AddrsOfLine(file, l)
     /\ \A f \in FuncsOfLine(file, l) : \E a \in A : InFunc(f, a)
     /\ (AddrsOfLine(file, l) # {}) => (A # {})

\* every breakpoint-capable place of a file: its statement rows (an end_sequence row is not a
\* place: it describes no instruction)
StmtPlacesOfFile(file, lo, hi) ==
  {<<Row[i].addr, Row[i].line, Row[i].col>> :
     i \in {j \in RowIdx : ~Row[j].es /\ Row[j].stmt /\ Row[j].file = file /\ lo <= Row[j].line /\ Row[j].line <= hi}}
EndSeqPlacesOfFile(file) ==
  {<<Row[i].addr, Row[i].line, Row[i].col>> : i \in {j \in RowIdx : Row[j].es /\ Row[j].file = file}}

\* --- function -> breakpoint address -------------------------------------------------
PeRowsOf(f) == {i \in RowIdx : ~Row[i].es /\ Row[i].pe /\ InFunc(f, Row[i].addr)}
HasPe(f)    == PeRowsOf(f) # {}
\* "an instruction of that function, at the end of its prologue when the compiler marks one":
\* the first (lowest-address) prologue_end row of f if there is one ...
FnBreakAddr(f) == Min({Row[i].addr : i \in PeRowsOf(f)})
\* ... otherwise any instruction of f.  `insn` = the set of instruction addresses.
FnAnswerOK(f, a, insn) ==
  IF HasPe(f) THEN a = FnBreakAddr(f) ELSE a \in insn /\ InFunc(f, a)

(***************************************************************************)
(* PART 2 - transcriptions of the implementation (as of /repo fix commits  *)
(* a32cc53, 28a0576, 074d460; the pre-fix transcriptions are in git        *)
(* history, commit 8aa1749).                                               *)
(*   A debug-information object is a sequence of compilation UNITS; unit u *)
(*   has its own `lines` vector Vs[u] = the unit's row indices sorted by   *)
(*   parser.rs:63  sort_by_key(|x| (x.address, !x.end_sequence())) -       *)
(*   stable, end_sequence rows first among equal addresses, then program   *)
(*   order.  urs[u] = the unit's ranges.                                   *)
(*   D : `fn_ranges` = sequence of <<lo, hi, f>> sorted by lo.             *)
(* Indices are 0-based in the code; V[k+1] below is the code's lines[k].   *)
(***************************************************************************)
N(V) == Len(V)
AddrAt(V, k) == Row[V[k + 1]].addr        \* lines[k].address
RowAt(V, k)  == Row[V[k + 1]]

\* the unit's vector for the rows I of the unit (operator with a parameter on purpose: TLC
\* pre-evaluates zero-arity constant definitions)
RECURSIVE Asc(_)
Asc(S) == IF S = {} THEN <<>> ELSE <<Min(S)>> \o Asc(S \ {Min(S)})
RECURSIVE SortFrom(_, _)
SortFrom(I, as) ==
  IF as = {} THEN <<>>
  ELSE LET a == Min(as)
           g == {i \in I : Row[i].addr = a}
       IN Asc({i \in g : Row[i].es}) \o Asc({i \in g : ~Row[i].es}) \o SortFrom(I, as \ {a})
UnitVec(I) == SortFrom(I, {Row[i].addr : i \in I})

\* dwarf/mod.rs:246 find_unit_by_pc: the FIRST unit one of whose ranges contains pc (0 = none)
UnitOfPc(urs, pc) ==
  LET us == {u \in DOMAIN urs : InRanges(urs[u], pc)} IN IF us = {} THEN 0 ELSE Min(us)

\* unit/mod.rs:445 find_place_by_pc: partition_point(address <= pc).saturating_sub(1)
PlacePos(V, pc) ==
  LET n == Cardinality({k \in 0..(N(V) - 1) : AddrAt(V, k) <= pc}) IN IF n = 0 THEN 0 ELSE n - 1

\* dwarf/mod.rs:262 find_place_from_pc -> {} (None) or {<<unit, position>>}
AlgPlace(Vs, urs, pc) ==
  LET u == UnitOfPc(urs, pc)
  IN IF u = 0 \/ N(Vs[u]) = 0 THEN {} ELSE {<<u, PlacePos(Vs[u], pc)>>}
AlgPlaceOf(Vs, urs, pc) ==
  {<<RowAt(Vs[p[1]], p[2]).file, RowAt(Vs[p[1]], p[2]).line, RowAt(Vs[p[1]], p[2]).es>> : p \in AlgPlace(Vs, urs, pc)}

\* dwarf/mod.rs:284 find_function_by_pc over D (sorted by lo): binary search by lo, on a hit
\* extend to the right over equal keys, then scan [..pos) backwards for the first range
\* containing pc.  (D of the unit found by find_unit_by_pc; units do not overlap here.)
RECURSIVE LastContaining(_, _, _)
LastContaining(D, k, pc) ==
  IF k = 0 THEN {}
  ELSE IF D[k][1] <= pc /\ pc < D[k][2] THEN {D[k][3]} ELSE LastContaining(D, k - 1, pc)
AlgFuncOf(D, urs, pc) ==
  IF UnitOfPc(urs, pc) = 0 THEN {}
  ELSE LastContaining(D, Cardinality({k \in DOMAIN D : D[k][1] <= pc}), pc)

\* die_ref.rs:392/399 prolog_start_place + prolog_end_place: start at the place of low_pc, follow
\* place.next() while the next row is no end_sequence row and lies inside the function; no
\* prologue_end row found -> the start place
RECURSIVE PeScan(_, _, _, _)
PeScan(V, k0, k, rs) ==
  IF RowAt(V, k).pe THEN k
  ELSE IF k + 1 < N(V) /\ ~RowAt(V, k + 1).es /\ InRanges(rs, AddrAt(V, k + 1))
       THEN PeScan(V, k0, k + 1, rs) ELSE k0
FuncLo(f) == Min({r[1] : r \in Fn[f].ranges})
\* row chosen for a function breakpoint ({} = error "function not found")
AlgFnBreakRow(Vs, urs, f) ==
  {Vs[p[1]][PeScan(Vs[p[1]], p[2], p[2], Fn[f].ranges) + 1] : p \in AlgPlace(Vs, urs, FuncLo(f))}
AlgFnBreak(Vs, urs, f) == {Row[i].addr : i \in AlgFnBreakRow(Vs, urs, f)}

\* dwarf/mod.rs:349 find_closest_place.
\* FileLines = unit/mod.rs:657 file_path_with_lines_pairs: positions of V with the file, ascending
\* (address order, not line/column order as the field comment says).
FileLines(V, file) ==
  LET RECURSIVE Go(_)
      Go(k) == IF k >= N(V) THEN <<>>
               ELSE (IF Row[V[k + 1]].file = file THEN <<k>> ELSE <<>>) \o Go(k + 1)
  IN Go(0)

IsCand(r, needle) == r.line = needle /\ r.stmt /\ ~r.es
\* the inner look-ahead over one run of rows of the line: <<position chosen, next FL index>>
RECURSIVE RunAhead(_, _, _, _, _)
RunAhead(V, FL, needle, j, cur) ==
  IF j > Len(FL) THEN <<cur, j>>
  ELSE LET r == RowAt(V, FL[j])
       IN IF ~IsCand(r, needle) THEN <<cur, j>>
          ELSE RunAhead(V, FL, needle, j + 1, IF r.pe /\ ~RowAt(V, cur).pe THEN FL[j] ELSE cur)
\* the while loop: one place (as a ROW INDEX) per run of statement rows of the line
RECURSIVE ScanRuns(_, _, _, _)
ScanRuns(V, FL, needle, j) ==
  IF j > Len(FL) THEN <<>>
  ELSE IF ~IsCand(RowAt(V, FL[j]), needle) THEN ScanRuns(V, FL, needle, j + 1)
  ELSE LET res == RunAhead(V, FL, needle, j + 1, FL[j])
       IN <<V[res[1] + 1]>> \o ScanRuns(V, FL, needle, res[2])

\* "only one place for a single unique subprogram" (key: name + ranges), shared by all units
RECURSIVE Dedup(_, _, _, _)
Dedup(D, urs, places, seen) ==
  IF places = <<>> THEN <<>>
  ELSE LET i  == Head(places)
           fs == AlgFuncOf(D, urs, Row[i].addr)
       IN IF fs = {} THEN <<i>> \o Dedup(D, urs, Tail(places), seen)
          ELSE LET f   == CHOOSE x \in fs : TRUE
                   key == <<Fn[f].name, Fn[f].ranges>>
               IN IF key \in seen THEN Dedup(D, urs, Tail(places), seen)
                  ELSE <<i>> \o Dedup(D, urs, Tail(places), seen \cup {key})

RECURSIVE UnitsPlaces(_, _, _, _)
UnitsPlaces(Vs, file, needle, u) ==
  IF u > Len(Vs) THEN <<>>
  ELSE ScanRuns(Vs[u], FileLines(Vs[u], file), needle, 1) \o UnitsPlaces(Vs, file, needle, u + 1)

\* the loop nest of the code: `for needle in [line, line+1] { if !result.is_empty() {break}; for unit ...}`
\* - the line+1 decision is taken ONCE for the file, over all units
AlgLineRowSeq(Vs, D, urs, file, l) ==
  LET p1 == Dedup(D, urs, UnitsPlaces(Vs, file, l, 1), {})
  IN IF p1 # <<>> THEN p1 ELSE Dedup(D, urs, UnitsPlaces(Vs, file, l + 1, 1), {})

\* the SWAPPED loop nest (a slip this check must catch, never the code's behaviour on the unchanged
\* tree): `for unit { for needle in [line, line+1] { if this unit found something {break} ... } }`
RECURSIVE PerUnitPlaces(_, _, _, _)
PerUnitPlaces(Vs, file, l, u) ==
  IF u > Len(Vs) THEN <<>>
  ELSE LET FL == FileLines(Vs[u], file)
           a  == ScanRuns(Vs[u], FL, l, 1)
       IN (IF a # <<>> THEN a ELSE ScanRuns(Vs[u], FL, l + 1, 1)) \o PerUnitPlaces(Vs, file, l, u + 1)
AlgLineRowSeqPerUnit(Vs, D, urs, file, l) == Dedup(D, urs, PerUnitPlaces(Vs, file, l, 1), {})

AlgLineRows(Vs, D, urs, file, l, perUnit) ==
  LET ps == IF perUnit THEN AlgLineRowSeqPerUnit(Vs, D, urs, file, l) ELSE AlgLineRowSeq(Vs, D, urs, file, l)
  IN {ps[k] : k \in DOMAIN ps}
AlgAddrsOfLine(Vs, D, urs, file, l, perUnit) == {Row[i].addr : i \in AlgLineRows(Vs, D, urs, file, l, perUnit)}
=============================================================================

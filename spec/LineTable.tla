----------------------------- MODULE LineTable -----------------------------
(***************************************************************************)
(* C04 - address <-> source answers agree with the binary's DWARF.         *)
(*                                                                         *)
(* A CONSTANT module (no variables): it is instantiated                    *)
(*   - by LineTableSmall.tla with *state variables* substituted for Rows   *)
(*     and Funcs (TLC enumerates every small table and compares the        *)
(*     algorithm transcriptions below with the declarative operators), and *)
(*   - by LineTableEval.tla with the line table / function ranges of a     *)
(*     real binary (generated constant module LTData), where TLC evaluates *)
(*     the declarative operators and prints the expected answers.          *)
(*                                                                         *)
(* Part 1 is written from the property text and the DWARF standard only.   *)
(* Part 2 transcribes BugStalker's algorithms (file:line given per         *)
(* operator); nothing in part 1 depends on part 2.                         *)
(***************************************************************************)
EXTENDS Integers, Sequences, FiniteSets, TLC

CONSTANTS
  Rows,   \* sequence of line-table rows IN LINE-PROGRAM ORDER, records
          \*   [addr, file, line, col, stmt, pe, eb, es, seq]
          \*   file: file id, stmt/pe/eb/es: is_stmt, prologue_end, epilogue_begin,
          \*   end_sequence, seq: id of the sequence the row belongs to.  Every
          \*   sequence is a contiguous run of rows closed by exactly one es row.
  Funcs   \* sequence of subprograms with code, records
          \*   [name, ranges, decl]   ranges: set of <<lo, hi>> (hi exclusive)

\* Aliases: zero-arity constant-level definitions are evaluated once and cached by TLC, whereas a
\* CONSTANT replaced in the .cfg by `Rows <- DataRows` is re-evaluated at every use (measured:
\* 0.3 ms per `Rows[i]` on a 770-row table).  All operators below go through Row / Fn.
Row == Rows
Fn  == Funcs
RowIdx  == DOMAIN Row
FuncIdx == DOMAIN Fn

Min(S) == CHOOSE x \in S : \A y \in S : x <= y
Max(S) == CHOOSE x \in S : \A y \in S : x >= y

(***************************************************************************)
(* PART 1 - what the table MEANS (DWARF 5 sec. 6.2: a row describes the    *)
(* instructions from its address up to the address of the next row of the  *)
(* same sequence; an end_sequence row describes no instruction).           *)
(***************************************************************************)
SeqIds == {Row[i].seq : i \in RowIdx}

\* (TLCEval only forces TLC to tabulate these functions once when Rows is a real constant;
\* it is the identity)
SeqRows == TLCEval([s \in SeqIds |-> {i \in RowIdx : Row[i].seq = s}])
SeqLo   == TLCEval([s \in SeqIds |-> Min({Row[i].addr : i \in SeqRows[s]})])
SeqHi   == TLCEval([s \in SeqIds |-> Max({Row[i].addr : i \in SeqRows[s]})])

\* the next row of the same sequence (rows are in program order, the last row of a
\* sequence is its end_sequence row)
RowEnd(i) == IF Row[i].es THEN Row[i].addr ELSE Row[i + 1].addr

Covers(i, pc) == /\ ~Row[i].es
                 /\ Row[i].addr <= pc
                 /\ pc < RowEnd(i)

\* rows describing the instruction at pc (exactly one in a well-formed table; several
\* only if sequences overlap)
PlaceRows(pc) ==
  UNION {{i \in SeqRows[s] : Covers(i, pc)} : s \in {t \in SeqIds : SeqLo[t] <= pc /\ pc < SeqHi[t]}}

\* the file and line an independent reader shows for pc
PlaceOf(pc) == {<<Row[i].file, Row[i].line>> : i \in PlaceRows(pc)}

\* Weaker reading used for the verdict on real binaries: rows of the covering sequence
\* that carry the same address as the covering row (a zero-length row immediately
\* followed by the covering row).  PlaceOf(pc) \subseteq PlaceCandidates(pc).
PlaceCandRows(pc) ==
  UNION {{j \in SeqRows[Row[i].seq] : ~Row[j].es /\ Row[j].addr = Row[i].addr} : i \in PlaceRows(pc)}
PlaceCandidates(pc) == {<<Row[i].file, Row[i].line>> : i \in PlaceCandRows(pc)}

\* (classification only) end_sequence rows of OTHER sequences that lie between the covering row's
\* address and pc: an address-sorted vector that keeps end_sequence rows may present one of them as
\* "the row before pc".  Never part of an expected answer.
EsRows == TLCEval({k \in RowIdx : Row[k].es})
EndSeqShadowing(pc) ==
  {<<Row[j].file, Row[j].line>> :
     j \in {k \in EsRows : Row[k].addr <= pc /\ \E i \in PlaceRows(pc) : Row[i].addr <= Row[k].addr}}

InRanges(rs, pc) == \E r \in rs : r[1] <= pc /\ pc < r[2]
InFunc(f, pc)    == InRanges(Fn[f].ranges, pc)

\* the function(s) whose ranges contain pc
FuncOf(pc) == {f \in FuncIdx : InFunc(f, pc)}

\* --- file:line -> breakpoint addresses --------------------------------------------
RealRows(file, l) == {i \in RowIdx : ~Row[i].es /\ Row[i].file = file /\ Row[i].line = l}
StmtRows(file, l) == {i \in RealRows(file, l) : Row[i].stmt}
HasCode(file, l)  == RealRows(file, l) # {}

\* "statements of that line, or of the next line only if the line has no code".
\* A line that has code but no statement row is left unspecified ("unspec").
LineTarget(file, l) ==
  IF StmtRows(file, l) # {} THEN <<"line", l>>
  ELSE IF HasCode(file, l) THEN <<"unspec", l>>
  ELSE IF StmtRows(file, l + 1) # {} THEN <<"next", l + 1>>
  ELSE <<"none", l>>

\* addresses a breakpoint for file:l may be put on
AddrsOfLine(file, l) ==
  LET t == LineTarget(file, l)
  IN IF t[1] \in {"line", "next"} THEN {Row[i].addr : i \in StmtRows(file, t[2])} ELSE {}

\* "every function or instantiation that contains the line gets its own breakpoint"
FuncsOfLine(file, l) == LET A == AddrsOfLine(file, l) IN {f \in FuncIdx : \E a \in A : InFunc(f, a)}

\* Is the set A of breakpoint addresses a correct answer for file:l ?
LineAnswerOK(file, l, A) ==
  \/ LineTarget(file, l)[1] = "unspec"
  \/ /\ A \subseteq AddrsOfLine(file, l)
     /\ \A f \in FuncsOfLine(file, l) : \E a \in A : InFunc(f, a)
     /\ (AddrsOfLine(file, l) # {}) => (A # {})

\* every breakpoint-capable place of a file: its statement rows (an end_sequence row is not a
\* place: it describes no instruction)
StmtPlacesOfFile(file, lo, hi) ==
  {<<Row[i].addr, Row[i].line, Row[i].col>> :
     i \in {j \in RowIdx : ~Row[j].es /\ Row[j].stmt /\ Row[j].file = file /\ lo <= Row[j].line /\ Row[j].line <= hi}}
EndSeqPlacesOfFile(file) ==
  {<<Row[i].addr, Row[i].line, Row[i].col>> : i \in {j \in RowIdx : Row[j].es /\ Row[j].file = file}}

\* --- function -> breakpoint address -------------------------------------------------
PeRowsOf(f) == {i \in RowIdx : ~Row[i].es /\ Row[i].pe /\ InFunc(f, Row[i].addr)}
HasPe(f)    == PeRowsOf(f) # {}
\* "an instruction of that function, at the end of its prologue when the compiler marks one":
\* the first (lowest-address) prologue_end row of f if there is one ...
FnBreakAddr(f) == Min({Row[i].addr : i \in PeRowsOf(f)})
\* ... otherwise any instruction of f.  `insn` = the set of instruction addresses.
FnAnswerOK(f, a, insn) ==
  IF HasPe(f) THEN a = FnBreakAddr(f) ELSE a \in insn /\ InFunc(f, a)

(***************************************************************************)
(* PART 2 - transcriptions of the implementation                           *)
(*   V : the unit's `lines` vector = a sequence of row indices sorted by   *)
(*       address (parser.rs:60 sort_unstable_by_key(address) - end_sequence*)
(*       rows stay in, rows of equal address in unspecified order)         *)
(*   D : `fn_ranges` = sequence of <<lo, hi, f>> sorted by lo (parser.rs:292) *)
(* Indices are 0-based in the code; V[k+1] below is the code's lines[k].   *)
(***************************************************************************)
N(V) == Len(V)
AddrAt(V, k) == Row[V[k + 1]].addr        \* lines[k].address

\* all address-sorted arrangements of the rows (what sort_unstable may produce)
RECURSIVE PermSeqs(_)
PermSeqs(S) == IF S = {} THEN {<<>>}
               ELSE UNION {{<<x>> \o t : t \in PermSeqs(S \ {x})} : x \in S}
RECURSIVE SortedFrom(_)
SortedFrom(as) ==
  IF as = {} THEN {<<>>}
  ELSE LET a == Min(as)
           g == {i \in RowIdx : Row[i].addr = a}
       IN UNION {{p \o t : t \in SortedFrom(as \ {a})} : p \in PermSeqs(g)}
\* (operators with a parameter on purpose: TLC pre-evaluates zero-arity constant definitions,
\* which must not happen for a real table of hundreds of rows)
AllSortedVecs(I) == SortedFrom({Row[i].addr : i \in I})

\* the arrangement a STABLE sort produces (what sort_unstable does for <= 20 elements:
\* insertion sort) - rows of equal address keep program order
RECURSIVE StableFrom(_)
StableFrom(as) ==
  IF as = {} THEN <<>>
  ELSE LET a == Min(as)
           g == {i \in RowIdx : Row[i].addr = a}
           RECURSIVE Asc(_)
           Asc(S) == IF S = {} THEN <<>> ELSE <<Min(S)>> \o Asc(S \ {Min(S)})
       IN Asc(g) \o StableFrom(as \ {a})
StableVec(I) == StableFrom({Row[i].addr : i \in I})

\* core::slice::binary_search_by of rustc 1.89 (library/core/src/slice/mod.rs), keyed by
\* address.  Result <<"ok", k>> or <<"err", k>>, k 0-based.
RECURSIVE BsLoop(_, _, _, _)
BsLoop(V, key, base, size) ==
  IF size > 1
  THEN LET half == size \div 2
           mid  == base + half
       IN BsLoop(V, key, IF AddrAt(V, mid) > key THEN base ELSE mid, size - half)
  ELSE base
BinSearchStd(V, key) ==
  IF N(V) = 0 THEN <<"err", 0>>
  ELSE LET base == BsLoop(V, key, 0, N(V))
       IN IF AddrAt(V, base) = key THEN <<"ok", base>>
          ELSE <<"err", base + (IF AddrAt(V, base) < key THEN 1 ELSE 0)>>
\* what the documentation of binary_search promises: any matching index
BinSearchAny(V, key) ==
  LET eq == {k \in 0..(N(V) - 1) : AddrAt(V, k) = key}
  IN IF eq # {} THEN {<<"ok", k>> : k \in eq}
     ELSE {<<"err", Cardinality({k \in 0..(N(V) - 1) : AddrAt(V, k) < key})>>}

\* dwarf/mod.rs:246 find_unit_by_pc - one unit whose ranges are `ur`
InUnit(ur, pc) == InRanges(ur, pc)

\* unit/mod.rs:445 find_place_by_pc: binary search, on a miss saturating_sub(1).
\* Result: set of possible 0-based positions ({} = None).
PlacePosOutcomes(V, pc, any) ==
  IF N(V) = 0 THEN {}
  ELSE LET rs == IF any THEN BinSearchAny(V, pc) ELSE {BinSearchStd(V, pc)}
       IN {IF r[1] = "ok" THEN r[2] ELSE (IF r[2] = 0 THEN 0 ELSE r[2] - 1) : r \in rs}

\* dwarf/mod.rs:262 find_place_from_pc
AlgPlacePos(V, ur, pc, any) == IF InUnit(ur, pc) THEN PlacePosOutcomes(V, pc, any) ELSE {}
AlgPlaceOf(V, ur, pc, any) ==
  {<<Row[V[k + 1]].file, Row[V[k + 1]].line, Row[V[k + 1]].es>> : k \in AlgPlacePos(V, ur, pc, any)}

\* dwarf/mod.rs:284 find_function_by_pc over D (sorted by lo).  Binary search by lo; on a
\* hit extend to the right over equal keys; then scan [..pos) backwards for the first
\* range containing pc.
RECURSIVE LastContaining(_, _, _)
LastContaining(D, k, pc) ==    \* k = number of leading elements considered
  IF k = 0 THEN {}
  ELSE IF D[k][1] <= pc /\ pc < D[k][2] THEN {D[k][3]} ELSE LastContaining(D, k - 1, pc)
AlgFuncOf(D, ur, pc) ==
  IF ~InUnit(ur, pc) THEN {}
  ELSE LET findpos == Cardinality({k \in DOMAIN D : D[k][1] <= pc})
           \* Ok(pos) -> pos+1 extended over equal keys; Err(pos) -> pos: both equal the
           \* number of entries with lo <= pc
       IN LastContaining(D, findpos, pc)

\* die_ref.rs:392/399 prolog_start_place + prolog_end_place: start at the place of low_pc,
\* `while !place.prolog_end { place = place.next() or break }` over the WHOLE vector.
RECURSIVE PeScan(_, _)
PeScan(V, k) ==
  IF Row[V[k + 1]].pe THEN k
  ELSE IF k + 1 >= N(V) THEN k ELSE PeScan(V, k + 1)
FuncLo(f) == Min({r[1] : r \in Fn[f].ranges})
\* set of possible addresses ({} = error "function not found")
AlgFnBreak(V, ur, f, any) ==
  {AddrAt(V, PeScan(V, k)) : k \in AlgPlacePos(V, ur, FuncLo(f), any)}
\* same, together with the es flag of the chosen row
AlgFnBreakRow(V, ur, f, any) ==
  {V[PeScan(V, k) + 1] : k \in AlgPlacePos(V, ur, FuncLo(f), any)}

\* dwarf/mod.rs:349 find_closest_place for ONE unit.
\* FL = unit/mod.rs:657 file_path_with_lines_pairs: positions of V with the file, ascending.
FileLines(V, file) ==
  LET RECURSIVE Go(_)
      Go(k) == IF k >= N(V) THEN <<>>
               ELSE (IF Row[V[k + 1]].file = file THEN <<k>> ELSE <<>>) \o Go(k + 1)
  IN Go(0)
RowAt(V, k) == Row[V[k + 1]]

\* look-ahead (mod.rs:394-411): from FL index j (1-based here) over following rows with the
\* same line and is_stmt; the first prologue_end one wins.  Returns the FL index chosen.
RECURSIVE Ahead(_, _, _, _)
Ahead(V, FL, j0, j) ==
  IF j > Len(FL) THEN j0
  ELSE LET r == RowAt(V, FL[j])
       IN IF r.line # RowAt(V, FL[j0]).line \/ ~r.stmt THEN j0
          ELSE IF r.pe THEN j ELSE Ahead(V, FL, j0, j + 1)

\* the while loop (mod.rs:378-446): returns the sequence of positions pushed to
\* suitable_places_in_unit
RECURSIVE Scan(_, _, _, _, _)
Scan(V, FL, needle, j, acc) ==
  IF j > Len(FL) THEN acc
  ELSE LET r == RowAt(V, FL[j])
       IN IF acc = <<>>
          THEN IF r.line # needle \/ ~r.stmt THEN Scan(V, FL, needle, j + 1, acc)
               ELSE LET c == Ahead(V, FL, j, j + 1)
                    IN Scan(V, FL, needle, c + 1, <<FL[c]>>)
          ELSE LET h == RowAt(V, acc[1])
               IN IF r.line # h.line \/ r.col # h.col \/ r.pe # h.pe \/ r.eb # h.eb
                     \/ r.es # h.es \/ ~r.stmt
                  THEN Scan(V, FL, needle, j + 1, acc)
                  ELSE Scan(V, FL, needle, j + 1, Append(acc, FL[j]))

\* mod.rs:448-464 "only one place for a single unique subprogram" (key: name + ranges)
RECURSIVE Dedup(_, _, _, _, _)
Dedup(V, D, ur, places, seen) ==
  IF places = <<>> THEN <<>>
  ELSE LET k  == Head(places)
           fs == AlgFuncOf(D, ur, AddrAt(V, k))
       IN IF fs = {} THEN <<k>> \o Dedup(V, D, ur, Tail(places), seen)
          ELSE LET f   == CHOOSE x \in fs : TRUE
                   key == <<Fn[f].name, Fn[f].ranges>>
               IN IF key \in seen THEN Dedup(V, D, ur, Tail(places), seen)
                  ELSE <<k>> \o Dedup(V, D, ur, Tail(places), seen \cup {key})

AlgLinePositions(V, D, ur, file, l) ==
  LET FL == FileLines(V, file)
      p1 == Dedup(V, D, ur, Scan(V, FL, l, 1, <<>>), {})
  IN IF p1 # <<>> THEN p1 ELSE Dedup(V, D, ur, Scan(V, FL, l + 1, 1, <<>>), {})
AlgAddrsOfLine(V, D, ur, file, l) ==
  LET ps == AlgLinePositions(V, D, ur, file, l) IN {AddrAt(V, ps[k]) : k \in DOMAIN ps}
AlgLineRows(V, D, ur, file, l) ==
  LET ps == AlgLinePositions(V, D, ur, file, l) IN {V[ps[k] + 1] : k \in DOMAIN ps}
=============================================================================

\* C15 / MemRW.tla -- (E) disassembly masking as written (a violation is a prediction the binding decides)
CONSTANTS
    W = 4
    Lo = 4
    Hi = 16
    MaxN = 9
    MaxOps = 5
    OpKinds = {"R", "WB", "WW"}
    DataKinds = {"pat", "inv"}
    ReadVariant = "tail"
    Emit = "none"
    Regs = {}
    InitMem = "pattern"
    DisVariant = "masked"
SPECIFICATION SpecDis
VIEW View
INVARIANTS PatchesConsistent
PROPERTIES DisasmOriginal

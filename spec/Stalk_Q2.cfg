\* (E) quick: two sites per iteration
SPECIFICATION SpecD
CONSTANTS
  Threads = {1, 2, 3}
  Main = 1
  ChildOf <- NoChild
  Iters <- MainJoins1
  L = 4
  UserBps = {1, 3}
  MaxCmd = 5
  Cmds = {"continue"}
  Sigs = {}
  Quiet = {}
  Transparent = {}
  MaxSend = 0
  FixQuietDup = FALSE
  Hist = FALSE
  defaultInitValue = defaultInitValue
  MutOneRound = FALSE
  MutNoRewind = FALSE
  MutForgetNew = FALSE
  MutNoReenable = FALSE
INVARIANTS AllStop BeliefSound ThreadListExact NoCorruption NoMissed NoSpurious AllReportedAtExit
CHECK_DEADLOCK TRUE

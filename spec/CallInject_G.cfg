\* C16 / CallInject.tla -- (G) every call case printed as JSON with the specification's outcome; fault-free machine
CONSTANTS
    Variant = "aswritten"
    DebugAsserts = TRUE
    FailKinds = {}
    Arities = {0}
    BpChoice = "some"
    Emit = "cases"
SPECIFICATION Spec
INVARIANTS HappyPathOk TypeOK

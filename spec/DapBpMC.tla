---- MODULE DapBpMC ----
(* Model values for DapBp: the C13 puppet (tools/c13_puppet.py).                       *)
(*   P  plain line (addr 10)            G  line inside gen<T>, instantiated twice       *)
(*   L  loop body line, 3 arrivals      F  function `fin` (function breakpoint, 40)     *)
(*   I  first instruction of `ins` (instruction breakpoint, 50)                         *)
(*   A, B  `alpha::c13work` / `beta::c13work`: one function-breakpoint name, two places  *)
EXTENDS DapBp
cPlaces == (1 :> {10}) @@ (2 :> {20, 25}) @@ (3 :> {30})
cFirst == (1 :> 10) @@ (2 :> 20) @@ (3 :> 30)
cAltFirst == (1 :> 10) @@ (2 :> 25) @@ (3 :> 30)
cFnPlaces == [fin |-> {40}, nosuch |-> {}, work |-> {60, 65}]
cExec == <<10, 20, 25, 30, 30, 30, 40, 50, 60, 65>>
cLoc == (10 :> "P") @@ (20 :> "G") @@ (25 :> "G") @@ (30 :> "L") @@ (40 :> "F") @@ (50 :> "I") @@ (60 :> "A") @@ (65 :> "B")
cIterAt == [p \in 0..11 |-> IF p < 4 THEN 0 ELSE IF p <= 6 THEN p - 3 ELSE 3]
Repaired == [kindless |-> TRUE, all |-> TRUE, rfilter |-> TRUE, bareident |-> TRUE, insnchk |-> TRUE, altfirst |-> FALSE]
AsWritten == [kindless |-> FALSE, all |-> FALSE, rfilter |-> FALSE, bareident |-> FALSE, insnchk |-> FALSE, altfirst |-> FALSE]
Only(d) == [Repaired EXCEPT ![d] = FALSE]        \* every repair except d: the single defect d
cSw == [asw |-> AsWritten, repaired |-> Repaired,
        asw_b |-> [AsWritten EXCEPT !.altfirst = TRUE], all_b |-> [Only("all") EXCEPT !.altfirst = TRUE],
        kindless |-> Only("kindless"), all |-> Only("all"), rfilter |-> Only("rfilter"),
        bareident |-> Only("bareident"), insnchk |-> Only("insnchk")]
\* a program in which the watched datum is written, for the delivery sentence (model only, R4)
====

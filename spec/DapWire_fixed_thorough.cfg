\* (E) exhaustive, thorough tier (4 requests over the lifecycle core): the model with all five candidate fixes applied satisfies the reference
SPECIFICATION Spec
CONSTANTS
  MaxReq = 4
  Universe <- UniverseCore
  QMaxEv = 0
  PreLines = 1
  PostLines = 0
  SeqUnderLock = TRUE
  RespondAfter = TRUE
  FwdHonoursTerm = TRUE
  InitViaQueue = TRUE
  ClearCache = TRUE
  DrainKeepsTerm = FALSE
INVARIANTS TypeOK WireSeqOrdered WireSeqOrderedMon OneResponsePerRequest EventsOnceAndCausal
  NoEventAfterTerminated FailureIsErrorResponse NoEventAfterTerminatedW AtMostOneResponseW

SPECIFICATION Spec
INVARIANT Inv
CONSTANTS
  Mode = "lines"
  Rich = TRUE
  MaxSeq = 0
  DqeDepth = 0

\* C16 / CallInject.tla -- (E) the code's step order (debug assertions on, as the harness is built): every terminal state
\* is printed with the post-conditions it breaks (predictions; the binding decides)
CONSTANTS
    Variant = "aswritten"
    DebugAsserts = TRUE
    FailKinds = {"err", "death", "stop"}
    Arities = {0, 1, 2, 3, 4, 5, 6}
    BpChoice = "all"
    Emit = "term"
SPECIFICATION Spec
INVARIANTS HappyPathOk TypeOK

\* C15 / MemRW.tla -- (E) thorough: as MemRW_E with histories of 3 ops (written data = complement of the current bytes only)
CONSTANTS
    W = 4
    Lo = 4
    Hi = 16
    MaxN = 9
    MaxOps = 3
    OpKinds = {"R", "WB", "WW"}
    DataKinds = {"inv"}
    ReadVariant = "tail"
    Emit = "none"
    Regs = {}
    InitMem = "pattern"
    DisVariant = "masked"
SPECIFICATION SpecMem
VIEW View
INVARIANTS MemoryMatchesSpec UnmappedNeverChanges
PROPERTIES WritesMeetSpec NeighboursUntouched FixedReadsMeetSpec

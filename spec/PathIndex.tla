----------------------------- MODULE PathIndex -----------------------------
(***************************************************************************)
(* C17 -- PathSearchIndex (src/debugger/debugee/dwarf/utils.rs).           *)
(*                                                                         *)
(*   reference : SpecGet  -- declarative, from PathMatch (no algorithm)    *)
(*   algorithm : heads / tails / data / next_nonce with Insert and Get,    *)
(*               transcribed from `insert`, `insert_w_head`, `get`         *)
(*   invariant : GetEqualsSpec -- in every reachable index state, for      *)
(*               every needle text, the algorithm returns exactly the      *)
(*               values of the paths the needle denotes (duplicates kept,  *)
(*               none reported twice).                                     *)
(*                                                                         *)
(* A state is reached by an insert sequence; `contents` is the history     *)
(* (what a user of the index knows), the other variables are the           *)
(* implementation's fields.  The string interner is abstracted to          *)
(* identity (it is a bijection string <-> symbol).                         *)
(*                                                                         *)
(* EmitCases prints one JSON line per reachable state: the insert          *)
(* sequence and the EXPECTED answer (SpecGet) for every needle with a      *)
(* non-empty answer.  harness/src/bin/c17.rs replays these into the real   *)
(* PathSearchIndex (binding leg (i)).                                      *)
(***************************************************************************)
EXTENDS PathMatch, TLC, Json, SequencesExt

CONSTANTS
    Names,       \* component names (char sequences), e.g. "a", "b", "ab"
    Delim,       \* delimiter text, <<":",":">> or <<"/">>
    MaxLen,      \* inserted paths have 0..MaxLen components
    MaxInserts,  \* length of insert sequences
    WithRoot,    \* TRUE: paths may start with the root component (= Delim)
    RawChars,    \* alphabet of the raw (possibly malformed) needle texts
    RawLen,      \* ... and their maximal length
    Emit         \* TRUE: print CASE lines

ASSUME Len(Delim) > 0 /\ \A nm \in Names : nm # <<>> /\ nm # Delim

VARIABLES heads,      \* head text -> << sequence of tail indexes, nonce >>
          tails,      \* sequence of tails (each a sequence of component texts)
          data,       \* << nonce, tail index >> -> value
          nextNonce,
          contents    \* history: sequence of << path, value >>

vars == <<heads, tails, data, nextNonce, contents>>

Plain    == SeqsUpTo(Names, 0, MaxLen)
Rooted   == IF WithRoot THEN {<<Delim>> \o p : p \in SeqsUpTo(Names, 1, MaxLen - 1)} ELSE {}
Paths    == Plain \cup Rooted

(* Needle texts: the text of every path of the universe (so every suffix  *)
(* of every path, and every extra-component near miss), plus every raw    *)
(* string over RawChars up to RawLen (dropped letters, partial            *)
(* components, stray / doubled / leading / trailing delimiters, the empty *)
(* string).                                                               *)
Needles  == {PathText(p, Delim) : p \in Paths} \cup SeqsUpTo(RawChars, 0, RawLen)

---------------------------------------------------------------------------
(* reference *)

(* Denotes(needleText, path) is MatchStr, tabulated once over the finite  *)
(* universe (TLC evaluates a constant-level definition once); the ASSUME  *)
(* checks the table against the definition, entry by entry.               *)
DenotedBy      == [p \in Paths |-> SuffixTexts(p, Delim)]
Denotes(needleText, p) == needleText \in DenotedBy[p]
ASSUME \A nd \in Needles : \A p \in Paths : Denotes(nd, p) <=> MatchStr(nd, p, Delim)
ASSUME \A p \in Paths : SuffixTextsFast(p, Delim) = SuffixTexts(p, Delim)

SpecGet(needleText, C) ==
    {C[i][2] : i \in {j \in 1..Len(C) : Denotes(needleText, C[j][1])}}

---------------------------------------------------------------------------
(* algorithm, structured like utils.rs *)

Init == /\ heads = [h \in {} |-> <<>>]
        /\ tails = <<>>
        /\ data = [k \in {} |-> 0]
        /\ nextNonce = 0
        /\ contents = <<>>

(* insert_w_head(path, head, value) *)
InsertWHead(tailPart, head, v) ==
    LET tailIdx == Len(tails) + 1              \* index.tails.push(tail); tails.len() - 1   (1-based here)
        isNew   == head \notin DOMAIN heads    \* heads.entry(head).or_insert_with(..)
        entry0  == IF isNew THEN <<<<>>, nextNonce>> ELSE heads[head]
        entry1  == <<Append(entry0[1], tailIdx), entry0[2]>>   \* head_entry.0.push(tail_idx)
        key     == <<entry1[2], tailIdx>>
    IN  /\ tails' = Append(tails, tailPart)
        /\ nextNonce' = IF isNew THEN nextNonce + 1 ELSE nextNonce
        /\ heads' = [h \in DOMAIN heads \cup {head} |-> IF h = head THEN entry1 ELSE heads[h]]
        /\ data' = [k \in DOMAIN data \cup {key} |-> IF k = key THEN v ELSE data[k]]

(* insert(path, value): `let Some(head) = path.last() else { return }` *)
Insert(path, v) ==
    IF path = <<>>
    THEN UNCHANGED <<heads, tails, data, nextNonce>>
    ELSE InsertWHead(SubSeq(path, 1, Len(path) - 1), path[Len(path)], v)

(* get(needle) -> sequence of values.  First statement: the split. *)
SplitNeedle(needle) ==
    IF StartsWithP(Delim, needle)                       \* needle.starts_with(delimiter)
    THEN <<Delim>> \o Tail(Split(needle, Delim))     \* once(delim).chain(split.skip(1))
    ELSE Split(needle, Delim)

GetBySplit(split) ==
    LET expectedHead == split[Len(split)]                         \* split.pop()  (split is never empty)
        expectedTail == SubSeq(split, 1, Len(split) - 1)
    IN  IF expectedHead \notin DOMAIN heads THEN <<>>
        ELSE LET e    == heads[expectedHead]
                 idxs == SelectSeq(e[1], LAMBDA i : EndsWithP(expectedTail, tails[i]))  \* tail.ends_with(&expected_tail)
                 hit  == SelectSeq(idxs, LAMBDA i : <<e[2], i>> \in DOMAIN data)       \* filter_map(data.get)
             IN  [j \in 1..Len(hit) |-> data[<<e[2], hit[j]>>]]

NeedleSplit == [nd \in Needles |-> SplitNeedle(nd)]    \* state-independent, evaluated once
Get(needle) == GetBySplit(NeedleSplit[needle])

Next == /\ Len(contents) < MaxInserts
        /\ \E p \in Paths :
              LET v == Len(contents) + 1 IN
              /\ Insert(p, v)
              /\ contents' = Append(contents, <<p, v>>)

Spec == Init /\ [][Next]_vars

---------------------------------------------------------------------------
(* properties *)

GetEqualsSpec ==
    \A nd \in Needles :
        LET g == Get(nd) s == SpecGet(nd, contents) IN
        /\ Range(g) = s                    \* no miss, no partial-component / foreign match
        /\ Len(g) = Cardinality(s)         \* nothing reported twice

(* The same statement, arranged for speed (integer-indexed tables instead *)
(* of lookups keyed by strings).  GetEqualsSpecFast is what the big       *)
(* configurations check; the small ones check both, and that they agree.  *)
NeedleSeq    == SetToSeq(Needles)                      \* SequencesExt: some enumeration of the set
NeedleSplitQ == [i \in DOMAIN NeedleSeq |-> SplitNeedle(NeedleSeq[i])]
DenotedQ     == [i \in DOMAIN NeedleSeq |-> {p \in Paths : MatchStr(NeedleSeq[i], p, Delim)}]
GetEqualsSpecFast ==
    \A i \in DOMAIN NeedleSeq :
        LET g == GetBySplit(NeedleSplitQ[i])
            s == {contents[j][2] : j \in {k \in 1..Len(contents) : contents[k][1] \in DenotedQ[i]}}
        IN  Range(g) = s /\ Len(g) = Cardinality(s)

(* structural sanity of the algorithm state (model-internal) *)
StructureOK ==
    /\ \A h \in DOMAIN heads : \A j \in 1..Len(heads[h][1]) : heads[h][1][j] \in 1..Len(tails)
    /\ \A h1, h2 \in DOMAIN heads : h1 # h2 => heads[h1][2] # heads[h2][2]
    /\ Cardinality(DOMAIN data) = Cardinality({i \in 1..Len(contents) : contents[i][1] # <<>>})

(* the two declarative formulations agree on well-formed needles:          *)
(* component-level Match  <=>  text-level MatchStr of the needle's text    *)
MatchAgree ==
    \A nc \in Paths \ {<<>>} : \A p \in Paths :
        (nc[1] = Delim => Len(nc) > 1) /\ (p # <<>> /\ p[1] = Delim => Len(p) > 1)
        => (Match(nc, p) <=> MatchStr(PathText(nc, Delim), p, Delim))
ASSUME MatchAgree

(* splitting is the inverse of joining on well-formed component sequences *)
ASSUME \A p \in Plain \ {<<>>} : Split(Join(p, Delim), Delim) = p

(* constant values for the .cfg files (cfg syntax has no tuples) *)
NamesAB     == {<<"a">>, <<"b">>, <<"a", "b">>}     \* "ab" ends with "b" and starts with "a"
DelimColons == <<":", ":">>
DelimSlash  == <<"/">>
CharsColons == {"a", "b", ":"}
CharsSlash  == {"a", "b", "/"}

(* emission (always TRUE) *)
EmitCases ==
    Emit => PrintT(<<"CASE", ToJson(
        [ins |-> [i \in 1..Len(contents) |-> contents[i][1]],
         \* only a suffix text of an inserted path can have a non-empty answer (definition of Denotes)
         exp |-> LET cand == UNION {DenotedBy[contents[i][1]] : i \in 1..Len(contents)}
                 IN  {<<nd, SpecGet(nd, contents)>> : nd \in cand \cap Needles}])>>)

(* the needle list, once *)
ASSUME Emit => PrintT(<<"NEEDLES", ToJson(Needles)>>)
ASSUME PrintT(<<"UNIVERSE", ToJson([paths |-> Cardinality(Paths), needles |-> Cardinality(Needles)])>>)
=============================================================================

------------------------------ MODULE Console ------------------------------
(***************************************************************************)
(* C08 -- no input can crash, hang or corrupt the debugger (console side). *)
(*                                                                         *)
(* The console command language as a TOKEN-LEVEL GENERATOR, and the        *)
(* session state machine {notstarted, stopped, exited} with the CLASS of   *)
(* admissible outcome of every command line in every state.                *)
(*                                                                         *)
(*   Outcome classes are "ok" and "error".  There is no action whose       *)
(*   outcome is a crash or a hang: a worker that panics, aborts or         *)
(*   exceeds the watchdog produces an observation that no behaviour of     *)
(*   this specification explains.                                          *)
(*                                                                         *)
(* Mode "lines": TLC builds token strings.  A state is a line under        *)
(*   construction: (template, tokens so far).  `Token` appends one token   *)
(*   taken from the slot of the template (grammar pruning: a slot holds    *)
(*   the tokens of its syntactic category, the malformed ones included:    *)
(*   over-long numerals, 17-digit hex, empty hex, reversed slices ...).    *)
(*   Every prefix is a line, every complete line is also extended by one   *)
(*   junk token.  Mutants: every valid command form with one token         *)
(*   replaced by every token of the mutation alphabet, deleted, doubled.   *)
(* Mode "seqs": `Submit` applies command classes to the abstract session;  *)
(*   TLC enumerates all command sequences up to MaxSeq with the outcome    *)
(*   class set and the session state after each command.                   *)
(* Mode "dqe": data query expressions over the locals of the puppet        *)
(*   (puppets/c08_puppet.rs) for the poison leg: the operator alphabet and *)
(*   the text are those of spec/Dqe.tla (instantiated, not re-invented),   *)
(*   plus suffixes no well-typed AST can carry (numerals beyond u64).      *)
(*                                                                         *)
(* Every state is printed as JSON; tools/checks/c08.py feeds the lines to  *)
(* the real console (harness/src/bin/c08.rs) and compares classes.         *)
(* Placeholders substituted by the driver: $probe$ (line of the probe      *)
(* statement), $pc$ (hex digits of the stop address), $var$ (hex digits of *)
(* the address of the local i64v), $utf8$ (a two-byte character).          *)
(***************************************************************************)
EXTENDS Integers, Sequences, FiniteSets, TLC, Json

CONSTANTS Mode,      \* "lines" | "seqs" | "dqe"
          Rich,      \* TRUE: full alphabets (thorough), FALSE: lean (quick)
          MaxSeq,    \* "seqs": number of commands per sequence
          DqeDepth   \* "dqe": operators over a variable

VARIABLES tmpl, line, sess, from, hist, de, dout, dd
vars == <<tmpl, line, sess, from, hist, de, dout, dd>>

D == INSTANCE Dqe WITH Mode <- "eval", MaxDepth <- DqeDepth, Rich <- FALSE, e <- de, out <- dout, d <- dd

-----------------------------------------------------------------------------
(* Token categories.  The first members are well-formed, the rest are the malformed neighbours. *)
BIG    == "99999999999999999999999"      \* 23 digits: beyond u64
U64MAX == "18446744073709551615"
U64P1  == "18446744073709551616"
U32P1  == "4294967296"
I64P1  == "9223372036854775808"
HEX16  == "0xFFFFFFFFFFFFFFFF"
HEX17  == "0xFFFFFFFFFFFFFFFFF"

Seq2Set(s) == {s[i] : i \in DOMAIN s}

Nums   == IF Rich THEN <<"1", "0", "7", "007", U32P1, I64P1, U64MAX, U64P1, BIG, "-1", "-" \o BIG>>
          ELSE <<"1", U32P1, U64MAX, BIG, "-1">>
Hexes  == IF Rich THEN <<"0x$pc$", "0x0", "0X1f", HEX16, HEX17, "0x", "0xZZ", "0x" \o BIG>>
          ELSE <<"0x$pc$", HEX16, HEX17, "0x">>
Idents == IF Rich THEN <<"work", "sum2", "noarg", "c08_puppet::work", "nope", "rip", "::", "_">>
          ELSE <<"work", "nope", "rip">>
Paths  == IF Rich THEN <<"c08_puppet.rs:$probe$", "c08_puppet.rs:" \o BIG, "c08_puppet.rs:" \o U64MAX, "c08_puppet.rs:0",
                         "nofile.rs:1", "c08_puppet.rs:", ":5", "c08_puppet.rs:-1">>
          ELSE <<"c08_puppet.rs:$probe$", "c08_puppet.rs:" \o BIG, "c08_puppet.rs:0", "c08_puppet.rs:">>
Regs   == <<"rip", "nope">>
Sizes  == IF Rich THEN <<"0x$var$:8", "0x$var$:3", "0x$var$:" \o BIG, HEX17 \o ":8", "0x$var$:">>
          ELSE <<"0x$var$:8", "0x$var$:3", HEX17 \o ":8">>
Junk   == IF Rich THEN <<"%", "((", "\"", "$utf8$", "..", "[", "-">> ELSE <<"%", "$utf8$">>

(* literals of `call` *)
Lits   == IF Rich THEN <<"1", "-1", "1.5", "true", "\"s\"", "{1, 2}", BIG, "-" \o BIG, I64P1, "1." \o BIG, HEX17, "{1, " \o BIG \o "}">>
          ELSE <<"1", "true", BIG, I64P1, HEX17>>

(* data query fragments of the console alphabet: a few well-formed ones, then out-of-range indices,
   reversed and over-long slice bounds, numeric fields beyond any range, casts of wild addresses *)
DqeToks == IF Rich
           THEN <<"arr", "arr[1]", "*rx", "&arr", "~v", "v[1..3]", "tup.0", "holder.pt.x", "hm[3]", "(*const i32)0x$var$",
                  "zst", "vz[1]", "zarr[1..2]", "node.next", "*node.next",
                  "arr[5]", "arr[-1]", "arr[" \o U64MAX \o "]", "arr[" \o BIG \o "]", "arr[-" \o BIG \o "]", "arr[3..1]",
                  "arr[6..]", "arr[..0]", "arr[1.." \o BIG \o "]", "arr[" \o BIG \o "..]", "arr[" \o U64MAX \o ".." \o U64MAX \o "]",
                  "v[4..4]", "v[5..]", "v[3..1]", "vd[7..2]", "px[3..1]", "px[0.." \o U32P1 \o "]", "rx[1.." \o U64MAX \o "]",
                  "tup." \o BIG, "arr[1." \o BIG \o "]", "hm[" \o HEX17 \o "]", "(*const i32)" \o HEX17, "(*const i32)0x0",
                  "*(*const i32)0x0", "(*const Nope)0x$var$", "*px[0..0]", "**********rx", "((((arr))))", "arr[", "arr[]",
                  "arr[..]", "vz[0..3]", "vz[1.." \o U64MAX \o "]", "zarr[" \o BIG \o "]", "strs[1..3]", "string[7..2]", "slice[2..9]">>
           ELSE <<"arr", "arr[1]", "*rx", "v[1..3]", "(*const i32)0x$var$", "vz[1]",
                  "arr[5]", "arr[" \o BIG \o "]", "arr[3..1]", "arr[6..]", "arr[1.." \o BIG \o "]", "v[5..]", "px[3..1]",
                  "tup." \o BIG, "hm[" \o HEX17 \o "]", "(*const i32)" \o HEX17, "*(*const i32)0x0", "vz[1.." \o U64MAX \o "]", "arr[">>

(* slots of the templates *)
Slot(s) ==
  CASE s = "num"    -> Nums
    [] s = "hex"    -> Hexes
    [] s = "ident"  -> Idents
    [] s = "bploc"  -> Hexes \o Paths \o Idents \o Nums          \* `break` takes any of them
    [] s = "dqe"    -> DqeToks
    [] s = "wsubj"  -> Sizes \o <<"i64v", "arr[1]", "nope", "arr[" \o BIG \o "]">>
    [] s = "reg"    -> Regs
    [] s = "lit"    -> Lits
    [] s = "junk"   -> Junk
    [] s = "text"   -> <<"main", "wor.*", "((", "$utf8$">>
    [] OTHER        -> <<s>>                                       \* a keyword stands for itself

(* Templates: the command language of src/ui/command/parser/mod.rs, one per syntactic form; alternatives of
   a keyword (short and long names) are separate templates only where the parser has separate rules. *)
Templates ==
  << <<"var", "locals">>, <<"var", "dqe">>, <<"vard", "dqe">>, <<"arg", "all">>, <<"arg", "dqe">>, <<"argd", "dqe">>,
     <<"bt">>, <<"backtrace", "all">>, <<"c">>, <<"continue">>,
     <<"frame", "info">>, <<"frame", "switch", "num">>, <<"f", "switch", "num">>,
     <<"run">>, <<"r">>, <<"stepi">>, <<"step">>, <<"stepinto">>, <<"next">>, <<"stepover">>, <<"finish">>, <<"stepout">>,
     <<"symbol", "text">>,
     <<"b", "bploc">>, <<"break", "bploc">>, <<"b", "info">>, <<"b", "remove", "bploc">>, <<"b", "r", "bploc">>,
     <<"watch", "wsubj">>, <<"w", "+rw", "wsubj">>, <<"w", "+w", "wsubj">>, <<"watch", "info">>,
     <<"watch", "remove", "num">>, <<"w", "r", "wsubj">>,
     <<"mem", "read", "hex">>, <<"memory", "write", "hex", "hex">>,
     <<"reg", "info">>, <<"reg", "read", "reg">>, <<"register", "write", "reg", "hex">>,
     <<"thread", "info">>, <<"thread", "current">>, <<"thread", "switch", "num">>,
     <<"sharedlib", "info">>, <<"source", "asm">>, <<"source", "fn">>, <<"source", "num">>,
     <<"async", "bt">>, <<"async", "backtrace", "all">>, <<"async", "task">>, <<"async", "task", "text">>,
     <<"async", "next">>, <<"async", "stepover">>, <<"async", "finish">>, <<"async", "stepout">>,
     <<"trigger">>, <<"trigger", "any">>, <<"trigger", "info">>, <<"trigger", "b", "num">>, <<"trigger", "w", "num">>,
     <<"call", "ident">>, <<"call", "ident", "lit">>, <<"call", "ident", "lit", "lit">>,
     <<"oracle", "ident">>, <<"oracle", "ident", "ident">>, <<"help">>, <<"h">>, <<"help", "ident">>,
     <<"junk">>, <<"ident">> >>

-----------------------------------------------------------------------------
(* Valid command forms with what the user documentation promises for them.
   need: "proc" = needs a live, stopped debuggee (refused otherwise); "image" = guaranteed with a stopped
         debuggee, unspecified otherwise (the loaded-but-not-started process has registers and memory too);
         "none" = works in every state.
   res : "ok" = must succeed when the need is met; "any" = may legitimately be refused.
   cls : effect class on the session (see Effect). *)
F(t, need, res, cls) == [t |-> t, need |-> need, res |-> res, cls |-> cls]
PROBE == "c08_puppet.rs:$probe$"
Forms ==
  << F(<<"help">>, "none", "ok", "q"), F(<<"h">>, "none", "ok", "q"), F(<<"help", "var">>, "none", "ok", "q"),
     F(<<"var", "locals">>, "proc", "ok", "q"), F(<<"var", "arr">>, "proc", "ok", "q"), F(<<"vard", "arr">>, "proc", "ok", "q"),
     F(<<"var", "arr[1]">>, "proc", "ok", "q"), F(<<"var", "*rx">>, "proc", "ok", "q"), F(<<"var", "v[1..3]">>, "proc", "ok", "q"),
     F(<<"var", "vz[1]">>, "proc", "any", "q"), F(<<"var", "nope">>, "proc", "any", "q"),
     F(<<"arg", "all">>, "proc", "ok", "q"), F(<<"arg", "n">>, "proc", "ok", "q"), F(<<"argd", "n">>, "proc", "ok", "q"),
     F(<<"bt">>, "proc", "ok", "q"), F(<<"backtrace">>, "proc", "ok", "q"), F(<<"bt", "all">>, "proc", "ok", "q"),
     F(<<"c">>, "proc", "ok", "cont"), F(<<"continue">>, "proc", "ok", "cont"),
     F(<<"frame", "info">>, "proc", "ok", "q"), F(<<"frame", "switch", "0">>, "proc", "ok", "q"),
     F(<<"f", "switch", "1">>, "proc", "ok", "q"), F(<<"frame", "switch", "7">>, "proc", "any", "q"),
     F(<<"run">>, "none", "ok", "run"), F(<<"r">>, "none", "ok", "run"),
     F(<<"stepi">>, "proc", "ok", "step"), F(<<"step">>, "proc", "ok", "step"), F(<<"stepinto">>, "proc", "ok", "step"),
     F(<<"next">>, "proc", "ok", "step"), F(<<"stepover">>, "proc", "ok", "step"),
     F(<<"finish">>, "proc", "ok", "step"), F(<<"stepout">>, "proc", "ok", "step"),
     F(<<"symbol", "main">>, "none", "ok", "q"), F(<<"symbol", "nope">>, "none", "any", "q"),
     F(<<"b", "work">>, "none", "ok", "bp"), F(<<"break", PROBE>>, "none", "ok", "bpprobe"), F(<<"b", PROBE>>, "none", "ok", "bpprobe"),
     F(<<"b", "0x$pc$">>, "none", "any", "bp"), F(<<"b", "nope">>, "none", "any", "bp"),
     F(<<"b", "info">>, "none", "ok", "q"), F(<<"break", "info">>, "none", "ok", "q"),
     F(<<"b", "remove", "work">>, "none", "any", "bprm"), F(<<"b", "r", "1">>, "none", "any", "bprm"),
     F(<<"b", "r", PROBE>>, "none", "any", "bprmprobe"), F(<<"break", "remove", "0x$pc$">>, "none", "any", "bprm"),
     F(<<"watch", "i64v">>, "proc", "any", "q"), F(<<"w", "+rw", "i64v">>, "proc", "any", "q"),
     F(<<"watch", "0x$var$:8">>, "proc", "any", "q"), F(<<"watch", "info">>, "none", "ok", "q"),
     F(<<"w", "r", "1">>, "none", "any", "q"), F(<<"watch", "remove", "i64v">>, "none", "any", "q"),
     F(<<"mem", "read", "0x$var$">>, "image", "ok", "q"), F(<<"memory", "write", "0x$var$", "0x1">>, "image", "ok", "q"),
     F(<<"reg", "info">>, "image", "ok", "q"), F(<<"reg", "read", "rip">>, "image", "ok", "q"),
     F(<<"register", "read", "nope">>, "image", "any", "q"), F(<<"reg", "write", "rip", "0x$pc$">>, "image", "ok", "q"),
     F(<<"thread", "info">>, "image", "ok", "q"), F(<<"thread", "current">>, "image", "ok", "q"),
     F(<<"thread", "switch", "1">>, "image", "ok", "q"), F(<<"thread", "switch", "2">>, "image", "any", "q"),
     F(<<"sharedlib", "info">>, "none", "ok", "q"),
     F(<<"source", "asm">>, "proc", "ok", "q"), F(<<"source", "fn">>, "proc", "ok", "q"), F(<<"source", "3">>, "proc", "ok", "q"),
     F(<<"async", "bt">>, "proc", "any", "q"), F(<<"async", "backtrace", "all">>, "proc", "any", "q"),
     F(<<"async", "task">>, "proc", "any", "q"), F(<<"async", "next">>, "proc", "any", "step"),
     F(<<"async", "finish">>, "proc", "any", "step"),
     F(<<"trigger">>, "none", "any", "q"), F(<<"trigger", "any">>, "none", "ok", "q"), F(<<"trigger", "info">>, "none", "ok", "q"),
     F(<<"trigger", "b", "1">>, "none", "ok", "q"), F(<<"trigger", "w", "1">>, "none", "ok", "q"),
     F(<<"call", "noarg">>, "proc", "any", "call"), F(<<"call", "sum2", "1", "2">>, "proc", "any", "call"),
     F(<<"oracle", "tokio">>, "none", "ok", "q"), F(<<"oracle", "tokio", "all">>, "none", "ok", "q") >>

Keywords == {"var", "vard", "arg", "argd", "bt", "backtrace", "c", "continue", "frame", "f", "run", "r", "stepi", "step",
             "stepinto", "next", "stepover", "finish", "stepout", "symbol", "b", "break", "watch", "w", "mem", "memory",
             "reg", "register", "thread", "sharedlib", "source", "async", "trigger", "call", "oracle", "help", "h"}
(* first tokens whose command may resume the debuggee *)
ResumeKw == {"c", "continue", "run", "r", "stepi", "step", "stepinto", "next", "stepover", "finish", "stepout", "async", "call"}

RECURSIVE Join(_, _)
Join(ss, sep) == IF ss = <<>> THEN "" ELSE IF Len(ss) = 1 THEN ss[1] ELSE ss[1] \o sep \o Join(Tail(ss), sep)
Text(toks) == Join(toks, " ")

(* blanks separate tokens: an empty token (a doubled blank) is no token *)
Norm(toks) == SelectSeq(toks, LAMBDA x : x # "")
IsForm(toks) == \E i \in DOMAIN Forms : Forms[i].t = toks
FormOf(toks) == Forms[CHOOSE i \in DOMAIN Forms : Forms[i].t = toks]

States == {"notstarted", "stopped", "exited"}

(* The class of admissible outcome of a token string in a session state. *)
Outcome(toks, st) ==
  IF toks = <<>> THEN {"ok"}                                        \* an empty line is skipped
  ELSE IF IsForm(toks)
       THEN LET f == FormOf(toks) IN
            IF f.need = "proc" /\ st # "stopped" THEN {"error"}
            ELSE IF f.need = "image" /\ st # "stopped" THEN {"ok", "error"}
            ELSE IF f.res = "ok" THEN {"ok"} ELSE {"ok", "error"}
  ELSE IF toks[1] \notin Keywords THEN {"error"}                    \* not a command at all
  ELSE {"ok", "error"}                                              \* the grammar of the arguments is the parser's business

(* Session states admissible after the line (the driver re-establishes the state it needs). *)
After(toks, st) ==
  IF toks = <<>> THEN {st}
  ELSE IF IsForm(toks)
       THEN LET c == FormOf(toks).cls IN
            CASE c \in {"cont"}         -> IF st = "stopped" THEN {"stopped", "exited"} ELSE {st}
              [] c \in {"step", "call"} -> IF st = "stopped" THEN {"stopped", "exited"} ELSE {st}
              [] c = "run"              -> {"stopped", "exited"} \cup (IF st = "notstarted" THEN {} ELSE {st})
              [] OTHER                  -> {st}
  ELSE IF toks[1] \in {"run", "r"} THEN States                      \* whatever the parser makes of the rest
  ELSE IF toks[1] \in ResumeKw THEN (IF st = "stopped" THEN {"stopped", "exited"} ELSE {st})
  ELSE {st}

(* What the line may do to the list of breakpoints shown by the sentinel `break info`. *)
BpDelta(toks) ==
  IF toks = <<>> THEN "same"
  ELSE IF toks[1] \in {"b", "break"}
       THEN (IF Len(toks) >= 3 /\ toks[2] \in {"remove", "r"} THEN "down"
             ELSE IF Len(toks) = 2 /\ toks[2] \in {"remove", "r"} THEN "any"      \* a function of that name, or nothing
             ELSE IF toks = <<toks[1], "info">> THEN "same" ELSE "up")
  ELSE IF toks[1] \in ResumeKw \cup {"watch", "w"} THEN "any"      \* restarts, temporary and companion breakpoints
  ELSE "same"

Rec(kind, raw) ==
  LET toks == Norm(raw) IN
  [kind |-> kind, toks |-> toks, text |-> Text(raw), form |-> IsForm(toks),
   exp |-> [s \in States |-> Outcome(toks, s)], after |-> [s \in States |-> After(toks, s)],
   bp |-> BpDelta(toks), resume |-> (toks # <<>> /\ toks[1] \in ResumeKw)]

-----------------------------------------------------------------------------
(* Mutants of the valid forms: one token replaced / removed / doubled / glued to its neighbour. *)
MutAlphabet == Seq2Set(Nums) \cup Seq2Set(Hexes) \cup Seq2Set(Junk) \cup Seq2Set(Paths)
               \cup (IF Rich THEN Seq2Set(Idents) \cup Seq2Set(DqeToks) \cup Keywords \cup {"info", "remove", "switch", "all", "+rw", ""}
                     ELSE {"info", "all", "b", "", "arr[" \o BIG \o "]", "arr[3..1]"})
Replace(t, i, x) == [t EXCEPT ![i] = x]
Remove(t, i) == SubSeq(t, 1, i - 1) \o SubSeq(t, i + 1, Len(t))
Double(t, i) == SubSeq(t, 1, i) \o SubSeq(t, i, Len(t))
Glue(t, i) == SubSeq(t, 1, i - 1) \o <<t[i] \o t[i + 1]>> \o SubSeq(t, i + 2, Len(t))
MutantsOf(t) == {Replace(t, i, x) : i \in DOMAIN t, x \in MutAlphabet}
                \cup {Remove(t, i) : i \in DOMAIN t} \cup {Double(t, i) : i \in DOMAIN t}
                \cup {Glue(t, i) : i \in 1..(Len(t) - 1)}
Mutants == UNION {MutantsOf(Forms[i].t) : i \in DOMAIN Forms}

-----------------------------------------------------------------------------
(* Mode "seqs": the abstract session.  bp = a breakpoint at the probe line exists; hit = the probe line was
   already reached in this run (the probe statement executes once per run). *)
SeqCmd(name, toks, yes) == [name |-> name, toks |-> toks, yes |-> yes]
SeqCmds ==
  LET base == << SeqCmd("bpprobe", <<"b", PROBE>>, FALSE), SeqCmd("run", <<"run">>, TRUE), SeqCmd("runno", <<"run">>, FALSE),
                 SeqCmd("cont", <<"c">>, FALSE), SeqCmd("next", <<"next">>, FALSE), SeqCmd("query", <<"var", "arr">>, FALSE),
                 SeqCmd("badnum", <<"b", "r", BIG>>, FALSE), SeqCmd("badslice", <<"var", "arr[3..1]">>, FALSE) >>
      more == << SeqCmd("bprmprobe", <<"b", "r", PROBE>>, FALSE), SeqCmd("finish", <<"finish">>, FALSE),
                 SeqCmd("stepi", <<"stepi">>, FALSE), SeqCmd("call", <<"call", "noarg">>, FALSE),
                 SeqCmd("watch", <<"watch", "i64v">>, FALSE), SeqCmd("regpc", <<"reg", "write", "rip", "0x0">>, FALSE),
                 SeqCmd("bt", <<"bt", "all">>, FALSE), SeqCmd("junk", <<"%">>, FALSE) >>
  IN IF Rich THEN base \o more ELSE base

S0 == [st |-> "notstarted", bp |-> FALSE, hit |-> FALSE, wild |-> FALSE]
(* Sequences are enumerated from EVERY consistent abstract session state, not only from S0: the driver
   chains them into long walks through one real session (a fresh session costs seconds), starting each
   sequence in the state the previous one ended in. *)
AbsStates == {s \in [st : States, bp : BOOLEAN, hit : BOOLEAN, wild : BOOLEAN] :
                /\ s.st = "notstarted" => (~s.hit /\ ~s.wild)
                /\ s.st = "stopped" => (s.hit \/ s.wild)      \* a stop happens at the probe line only
                /\ s.hit => s.bp \/ s.st # "notstarted"}

(* Set of <<outcome set, next abstract state>> of a command class in an abstract state.
   wild = the program counter was overwritten by the user: the program may do anything from then on. *)
Start(s) == IF s.bp THEN [s EXCEPT !.st = "stopped", !.hit = TRUE, !.wild = FALSE]
            ELSE [s EXCEPT !.st = "exited", !.hit = FALSE, !.wild = FALSE]
Apply(c, s) ==
  LET live == s.st = "stopped" IN
  CASE c.name = "bpprobe"   -> {<<{"ok"}, [s EXCEPT !.bp = TRUE]>>}
    [] c.name = "bprmprobe" -> {<<IF s.bp THEN {"ok"} ELSE {"ok", "error"}, [s EXCEPT !.bp = FALSE]>>}
    [] c.name = "run"       -> {<<{"ok"}, Start(s)>>}                    \* start, or restart (answer yes)
    [] c.name = "runno"     -> IF s.st = "notstarted" THEN {<<{"ok"}, Start(s)>>} ELSE {<<{"ok"}, s>>}
    [] c.name = "cont"      -> IF ~live THEN {<<{"error"}, s>>}
                               ELSE IF s.wild THEN {<<{"ok", "error"}, [s EXCEPT !.st = x]>> : x \in {"stopped", "exited"}}
                               ELSE IF s.bp /\ ~s.hit THEN {<<{"ok"}, [s EXCEPT !.hit = TRUE]>>}
                               ELSE {<<{"ok"}, [s EXCEPT !.st = "exited"]>>}
    [] c.name \in {"next", "stepi", "finish"} ->
                               IF ~live THEN {<<{"error"}, s>>}
                               ELSE IF s.wild THEN {<<{"ok", "error"}, [s EXCEPT !.st = x]>> : x \in {"stopped", "exited"}}
                               ELSE {<<{"ok"}, s>>}                       \* at most MaxSeq steps: still inside the program
    [] c.name \in {"query", "bt"} -> {<<IF live /\ ~s.wild THEN {"ok"} ELSE IF live THEN {"ok", "error"} ELSE {"error"}, s>>}
    [] c.name = "badslice"  -> {<<IF live THEN {"ok", "error"} ELSE {"error"}, s>>}
    [] c.name = "badnum"    -> {<<{"ok", "error"}, s>>}       \* an over-long numeral is not a number: the grammar may read it
                                                              \* as a function template that selects nothing (C08 only asks
                                                              \* for "succeeds or yields an error"); nothing is removed
    [] c.name = "junk"      -> {<<{"error"}, s>>}
    [] c.name \in {"call", "watch"} -> {<<IF live THEN {"ok", "error"} ELSE {"error"}, s>>}
    [] c.name = "regpc"     -> {<<IF live THEN {"ok"} ELSE {"error"}, IF live THEN [s EXCEPT !.wild = TRUE] ELSE s>>}

-----------------------------------------------------------------------------
(* Mode "dqe": expressions over the locals of the puppet, operator alphabet and text of Dqe.tla *)
XVars == <<"i8v", "u8v", "i64v", "u64v", "i128v", "f32v", "chr", "unit", "zst", "zarr", "vz", "strs", "string", "slice",
           "arr", "v", "vs", "vd", "hm", "hms", "hs", "bm", "bs", "pt", "tup", "color", "shape", "opt", "optb", "res",
           "rx", "px", "bx", "rc", "arc", "cell", "rcell", "holder", "node", "fptr">>
(* suffixes that no AST of Dqe.tla can carry (TLC integers are 32 bit; these are beyond u64 / reversed / huge) *)
XSuffix == <<"[" \o BIG \o "]", "[" \o U64MAX \o "]", "[1.." \o BIG \o "]", "[1.." \o U64MAX \o "]", "[" \o U64MAX \o "..]",
             "[7..2]", "[0..0]", "[0.." \o U32P1 \o "]", "." \o BIG, "[" \o HEX17 \o "]", "[-" \o I64P1 \o "]">>
XPrefix == <<"**", "*&", "~*", "&~">>

-----------------------------------------------------------------------------
Init ==
  /\ hist = <<>> /\ dout = {} /\ dd = 0
  /\ IF Mode = "seqs" THEN sess \in AbsStates ELSE sess = S0
  /\ from = sess
  /\ CASE Mode = "lines" -> /\ de = D!Var("x")
                            /\ \/ /\ tmpl \in DOMAIN Templates /\ line = <<>>
                               \/ /\ tmpl = 0 /\ line \in Mutants
       [] Mode = "seqs"  -> tmpl = 0 /\ line = <<>> /\ de = D!Var("x")
       [] Mode = "dqe"   -> /\ tmpl = 0 /\ line = <<>>
                            /\ \E i \in DOMAIN XVars : de = D!Var(XVars[i])

(* append one token of the next slot of the template; a complete line gets one junk token *)
Token ==
  /\ Mode = "lines" /\ tmpl > 0
  /\ LET T == Templates[tmpl] IN
     \/ /\ Len(line) < Len(T)
        /\ \E k \in DOMAIN Slot(T[Len(line) + 1]) : line' = Append(line, Slot(T[Len(line) + 1])[k])
     \/ /\ Len(line) = Len(T)
        /\ \E k \in DOMAIN Junk : line' = Append(line, Junk[k])
  /\ UNCHANGED <<tmpl, sess, from, hist, de, dout, dd>>

(* submit one command of the sequence alphabet to the abstract session *)
Submit ==
  /\ Mode = "seqs" /\ Len(hist) < MaxSeq
  /\ \E i \in DOMAIN SeqCmds : \E r \in Apply(SeqCmds[i], sess) :
        /\ sess' = r[2]
        /\ hist' = Append(hist, [name |-> SeqCmds[i].name, text |-> Text(SeqCmds[i].toks), yes |-> SeqCmds[i].yes,
                                 exp |-> r[1], st |-> r[2].st, abs |-> r[2]])
  /\ UNCHANGED <<tmpl, line, from, de, dout, dd>>

(* one more operator of Dqe.tla's alphabet over the expression *)
Extend ==
  /\ Mode = "dqe" /\ dd < DqeDepth
  /\ \E i \in DOMAIN D!Ops : de' = D!Apply(D!Ops[i], de)
  /\ dd' = dd + 1
  /\ UNCHANGED <<tmpl, line, sess, from, hist, dout>>

Next == Token \/ Submit \/ Extend
Spec == Init /\ [][Next]_vars

-----------------------------------------------------------------------------
(* Printed once per distinct state. *)
EmitLine == (Mode = "lines" /\ (line # <<>> \/ tmpl = 0)) =>
              PrintT(<<"LINE", ToJson(Rec(IF tmpl = 0 THEN "mutant" ELSE "template", line))>>)
EmitSeq  == (Mode = "seqs" /\ hist # <<>>) => PrintT(<<"SEQ", ToJson([from |-> from, steps |-> hist])>>)
RECURSIVE RootOf(_)
RootOf(x) == IF x.op = "var" THEN x.name ELSE RootOf(x.e)
EmitDqe  == Mode = "dqe" =>
              PrintT(<<"DQE", ToJson([d |-> dd, root |-> RootOf(de), text |-> D!Show(de),
                                      sfx |-> (IF dd = 0 THEN XSuffix ELSE <<>>), pfx |-> (IF dd = 0 THEN XPrefix ELSE <<>>)])>>)

(* sanity of the specification itself *)
OutcomesNonEmpty == Mode = "lines" => \A s \in States : Outcome(line, s) # {} /\ After(line, s) # {}
SeqStatesOk == Mode = "seqs" => sess.st \in States

Inv == EmitLine /\ EmitSeq /\ EmitDqe /\ OutcomesNonEmpty /\ SeqStatesOk

ASSUME PrintT(<<"POISONS", ToJson(<<"zero", "ones", "high", "self", "max63">>)>>)
=============================================================================

SPECIFICATION Spec
VIEW View
CONSTANTS
  defaultInitValue = defaultInitValue
  Threads = {1}
  Main = 1
  L = 3
  Iters = 2
  Bp = 1
  LineStarts = {0, 2}
  MaxCmd = 3
  Cmds = {"continue","stepi","step"}
  RunOut = TRUE
  Sigs = {"USR1","ALRM","INT"}
  Quiet = {"ALRM"}
  Transparent = {"INT"}
  MaxSend = 2
  ProcTarget = FALSE
  FixQuietDup = FALSE
  FixQuietFront = FALSE
  FixStepIntr = FALSE
  FixSwallow = FALSE
  Gen = FALSE
INVARIANTS
  AllStop
  NoDup
  NoLost
  NoLostAtExit
  IntNeverDelivered
  IntReportedAtExit
  QuietNeverPrompts
  PromptAtMostOnce
  PromptBeforeDelivery
  PromptedAtExit
  ReceiverNamed

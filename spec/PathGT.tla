------------------------------- MODULE PathGT -------------------------------
(***************************************************************************)
(* C17, end-to-end leg: the declarative specification (PathMatch)          *)
(* evaluated over the GROUND TRUTH of real binaries.                       *)
(*                                                                         *)
(* C17Data is a generated constant module (tools/c17_gt.py; found through  *)
(* -DTLA-Library=<work dir>): the function instances, source files and ELF *)
(* symbols of every loaded object as decoded by llvm-dwarfdump / readelf / *)
(* c++filt, and the needle texts / patterns to be tried.  TLC computes,    *)
(* for every needle, which entities it MUST select and which it MAY        *)
(* select, and writes them as ndjson to the file named by env OUT.         *)
(*                                                                         *)
(* An entity has a SET of readings (component sequences).  Plain functions *)
(* and files have one.  Where the property text leaves the components of a *)
(* name open (`::` inside `<...>`, see design/C17.md) both readings are    *)
(* listed:  must = denoted under every reading, may = under some reading.  *)
(*                                                                         *)
(* Texts are TLA+ strings here.  A string IS a sequence of characters, and *)
(* TLC implements Len, \o, SubSeq and = on strings, so the operators of    *)
(* PathMatch apply unchanged.                                              *)
(*                                                                         *)
(*   Fns, Files   : sequences of sets of readings                          *)
(*   FnDelim, FileDelim                                                    *)
(*   FnNeedles, FileNeedles : sequences of texts                           *)
(*   Syms         : sequence of sets of names (demangled forms, texts)     *)
(*   Pats         : sequence of [s |-> BOOLEAN, lit |-> text, e |-> BOOLEAN]*)
(*                  meaning the regex  (s ? "^" : "") escape(lit) (e ? "$")*)
(***************************************************************************)
EXTENDS PathMatch, TLC, Json, IOUtils, C17Data

(* texts denoting entity i under every / some reading *)
TextsOf(rs, d)  == [r \in rs |-> SuffixTextsFast(r, d)]     \* = SuffixTexts(r, d)
TextsAny(rs, d) == LET S == TextsOf(rs, d) IN UNION {S[r] : r \in rs}
TextsAll(rs, d) == LET S == TextsOf(rs, d) IN {t \in UNION {S[r] : r \in rs} : \A r \in rs : t \in S[r]}

(* (LET-bound copies: TLC re-evaluates a large literal of another module on every reference otherwise) *)
FnAll   == LET F == Fns   IN [i \in DOMAIN F |-> TextsAll(F[i], FnDelim)]
FnAny   == LET F == Fns   IN [i \in DOMAIN F |-> TextsAny(F[i], FnDelim)]
FileAll == LET F == Files IN [i \in DOMAIN F |-> TextsAll(F[i], FileDelim)]
FileAny == LET F == Files IN [i \in DOMAIN F |-> TextsAny(F[i], FileDelim)]

FnAnswer(k) ==
    [q |-> "fn", k |-> k,
     must |-> {i \in DOMAIN Fns : FnNeedles[k] \in FnAll[i]},
     may  |-> {i \in DOMAIN Fns : FnNeedles[k] \in FnAny[i]}]

FileAnswer(k) ==
    [q |-> "file", k |-> k,
     must |-> {i \in DOMAIN Files : FileNeedles[k] \in FileAll[i]},
     may  |-> {i \in DOMAIN Files : FileNeedles[k] \in FileAny[i]}]

(* `symbol <regex>` for the family of literal patterns: what it means for  *)
(* a name to match (Rust `Regex::find` semantics: unanchored search).      *)
Contains(s, l) == \E i \in 1..(Len(s) - Len(l) + 1) : SubSeq(s, i, i + Len(l) - 1) = l
ReMatch(p, s) ==
    CASE p.s /\ p.e -> s = p.lit
      [] p.s        -> StartsWithP(p.lit, s)
      [] p.e        -> EndsWithP(p.lit, s)
      [] OTHER      -> Contains(s, p.lit)

SymAnswer(k) ==
    [q |-> "sym", k |-> k,
     must |-> {i \in DOMAIN Syms : \A nm \in Syms[i] : ReMatch(Pats[k], nm)},
     may  |-> {i \in DOMAIN Syms : \E nm \in Syms[i] : ReMatch(Pats[k], nm)}]

Answers ==
    [k \in DOMAIN FnNeedles |-> FnAnswer(k)]
    \o [k \in DOMAIN FileNeedles |-> FileAnswer(k)]
    \o [k \in DOMAIN Pats |-> SymAnswer(k)]

ASSUME ndJsonSerialize(IOEnv.OUT, Answers)
ASSUME PrintT(<<"GT", ToJson([fns |-> Len(Fns), files |-> Len(Files), syms |-> Len(Syms),
                              answers |-> Len(Answers)])>>)

VARIABLE dummy
Init == dummy = 0
Next == UNCHANGED dummy
=============================================================================

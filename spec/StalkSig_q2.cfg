\* generated by tools/checks/c10.py
SPECIFICATION Spec
VIEW View
CONSTANTS
  defaultInitValue = defaultInitValue
  Threads = {1,2}
  Main = 1
  L = 3
  Iters = 1
  Bp = 1
  LineStarts = {0, 2}
  MaxCmd = 2
  Cmds = {"continue","stepi"}
  RunOut = FALSE
  Sigs = {"USR1","ALRM"}
  Quiet = {"ALRM"}
  Transparent = {"INT"}
  MaxSend = 1
  ProcTarget = FALSE
  FixQuietDup = TRUE
  FixQuietFront = FALSE
  FixStepIntr = FALSE
  FixSwallow = FALSE
  FixExclude = FALSE
  Gen = TRUE

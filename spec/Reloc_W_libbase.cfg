\* C18 / Reloc.tla -- (E) PREDICTION: seeded slip: the link base is subtracted for the main executable only (shared objects "are linked at 0"), the other rules repaired.
\* TLC is expected to report a violated invariant here; the binding decides on the real debugger.
CONSTANTS
    ExeModes = {"pie", "nopie"}
    LibModes = {"startup", "dlopen"}
    SessModes = {"launch", "attach_pre", "attach_mid"}
    LibBiases = {300, 400}
    LibBases = {0, 60}
    Kinds = {"fn", "line", "addr"}
    MaxReq = 2
    OffsetRule = "main_only"
    ReloadRule = "rearm"
    EarlyAddrRule = "defer"
    AttachRule = "rbrk"
    ReqPlan = "free"
    Emit = "none"
SPECIFICATION Spec
INVARIANTS RefSane InstalledAtTrueAddress ActiveWhenMapped SharedLibsAreMapped StopsWhereRequested NeverLost

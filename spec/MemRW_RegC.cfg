\* C15 / MemRW.tla -- (G) the probe  set(r,v); get(r); resume  for every register x value (no VIEW: hist is state)
CONSTANTS
    W = 4
    Lo = 4
    Hi = 16
    MaxN = 9
    MaxOps = 3
    OpKinds = {"R", "WB", "WW"}
    DataKinds = {"pat", "inv"}
    ReadVariant = "tail"
    Emit = "cover"
    Regs = {"rax", "rbx", "rcx", "rdx", "rdi", "rsi", "rbp", "rsp", "r8", "r9", "r10", "r11", "r12", "r13", "r14", "r15", "rip"}
    InitMem = "pattern"
    DisVariant = "masked"
SPECIFICATION SpecReg
INVARIANTS RegsMatchSpec ProgramSeesWrites

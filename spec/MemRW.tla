------------------------------- MODULE MemRW -------------------------------
(***************************************************************************)
(* C15 -- "Memory and register access is exact".                           *)
(*                                                                         *)
(* Three small machines share this module (one cfg selects one of them):   *)
(*                                                                         *)
(*  MEM  byte memory [addr -> byte] with a mapped set.  Declarative        *)
(*       SpecRead / SpecWrite ("changes exactly [a, a+n)") against         *)
(*       transcriptions of                                                 *)
(*         read_memory_by_pid        src/debugger/mod.rs:1316              *)
(*         write_bytes (DAP)         src/dap/yadap/session/data.rs:457     *)
(*         Debugger::write_memory    src/debugger/mod.rs:1004              *)
(*       over the kernel primitives PEEK / POKE of one word at any         *)
(*       address.  Histories of up to MaxOps operations.                   *)
(*  REG  register file: set_register_value = GETREGS; update; SETREGS,     *)
(*       get_register_value, and what the program sees when resumed.       *)
(*  DIS  text bytes with INT3 patches; disassembly of a function must      *)
(*       show the original bytes (debugee/disasm.rs masking vs the DAP     *)
(*       `disassemble` handler that reads raw memory).                     *)
(*                                                                         *)
(* The Spec* operators are the reference.  The Alg* operators are models   *)
(* of the code: a disagreement Alg vs Spec found by TLC is a *prediction*  *)
(* that the binding (tools/checks/c15.py + harness/src/bin/c15.rs) decides *)
(* on the real debugger; the verdict always compares the real outcome with *)
(* the Spec* value printed here.                                           *)
(***************************************************************************)
EXTENDS Integers, Sequences, FiniteSets, TLC, Json

CONSTANTS
    W,            \* word size (4 in the exhaustive model, 8 = reality for emitted cases)
    Lo, Hi,       \* mapped bytes are Lo..Hi-1, both multiples of W (page-like); rest unmapped
    MaxN,         \* longest single access (2W+1)
    MaxOps,       \* history length
    OpKinds,      \* subset of {"R", "WB", "WW"}
    DataKinds,    \* subset of {"pat", "inv"}
    ReadVariant,  \* "tail": code as written;  "aligned": candidate fix
    Emit,         \* "none" | "cases" (print every transition) | "hist" (print complete histories)
                  \* | "cover" (REG: print the probe set/get/resume of every (register, value))
    Regs,         \* register names
    InitMem,      \* "pattern" | "pack" (the puppet's struct, for the variable cases)
    DisVariant    \* "masked" (disasm.rs as written) | "masked_excl" (candidate fix) | "raw" (DAP)

ASSUME /\ W > 0 /\ Lo % W = 0 /\ Hi % W = 0 /\ Lo >= W /\ Hi > Lo

Min(x, y) == IF x < y THEN x ELSE y
Max(x, y) == IF x > y THEN x ELSE y

(*************************** MEM: the reference ***************************)
Space     == (Lo - W)..(Hi + W - 1)
Mapped(a) == Lo <= a /\ a < Hi
Mem0      == TLCEval([a \in Space |-> (a * 7 + 3) % 251])          \* distinguishable content
Range(a, n) == a..(a + n - 1)

\* A read returns the bytes the process holds; it can only be refused if a requested byte
\* is not there.
SpecRead(mem, a, n) ==
    IF \A x \in Range(a, n) : Mapped(x)
    THEN <<"ok", TLCEval([i \in 1..n |-> mem[a + i - 1]])>>
    ELSE <<"err">>

\* A write of n bytes at a changes exactly [a, a+n).  If a requested byte is unmapped the write
\* is refused.  (What a refused write leaves *inside* [a, a+n) is not specified; outside is.)
SpecWrite(mem, a, bytes) ==
    IF \A x \in Range(a, Len(bytes)) : Mapped(x)
    THEN <<"ok", TLCEval([x \in Space |-> IF x \in Range(a, Len(bytes)) THEN bytes[x - a + 1] ELSE mem[x]])>>
    ELSE <<"err", mem>>

Untouched(before, after, a, n) == \A x \in Space \ Range(a, n) : after[x] = before[x]

(**************** MEM: kernel primitives (ptrace word access) ****************)
PeekOk(a)    == \A i \in 0..(W - 1) : Mapped(a + i)
Peek(mem, a) == TLCEval([i \in 1..W |-> mem[a + i - 1]])
\* POKE of a word that runs into a hole fails with EIO; the kernel copies page by page, so the
\* mapped *prefix* has already been written by then (access_process_vm).
Poke(mem, a, word) ==
    IF PeekOk(a)
    THEN <<"ok", TLCEval([x \in Space |-> IF x \in Range(a, W) THEN word[x - a + 1] ELSE mem[x]])>>
    ELSE <<"err", TLCEval([x \in Space |-> IF x \in Range(a, W) /\ Mapped(a) /\ Mapped(x) /\ x >= a
                                           THEN word[x - a + 1] ELSE mem[x]])>>

(************ MEM: read_memory_by_pid, as written (mod.rs:1316) ************)
\*   while read_reminder > 0 { value = PEEK(addr)?; result.extend(value.bytes().take(read_reminder));
\*                             read_reminder -= 8; addr += 8 }
RECURSIVE AlgReadTail(_, _, _)
AlgReadTail(mem, a, rem) ==
    IF rem <= 0 THEN <<"ok", <<>> >>
    ELSE IF ~PeekOk(a) THEN <<"err">>
    ELSE LET w    == Peek(mem, a)
             take == Min(rem, W)
             rest == AlgReadTail(mem, a + W, rem - W)
         IN  IF rest[1] = "err" THEN <<"err">> ELSE <<"ok", SubSeq(w, 1, take) \o rest[2]>>

\* candidate fix: peek the *aligned* words covering [a, a+n) and slice (an aligned word never
\* straddles a page, so it is readable iff the requested bytes inside it are).
RECURSIVE AlgReadAlignedFrom(_, _, _, _)
AlgReadAlignedFrom(mem, cur, a, n) ==
    IF cur >= a + n THEN <<"ok", <<>> >>
    ELSE IF ~PeekOk(cur) THEN <<"err">>
    ELSE LET w    == Peek(mem, cur)
             from == Max(cur, a)
             to   == Min(cur + W, a + n)
             rest == AlgReadAlignedFrom(mem, cur + W, a, n)
         IN  IF rest[1] = "err" THEN <<"err">>
             ELSE <<"ok", SubSeq(w, from - cur + 1, to - cur) \o rest[2]>>

AlgReadV(variant, mem, a, n) ==
    IF n = 0 THEN <<"ok", <<>> >>
    ELSE IF variant = "tail" THEN AlgReadTail(mem, a, n)
    ELSE AlgReadAlignedFrom(mem, (a \div W) * W, a, n)
AlgRead(mem, a, n) == AlgReadV(ReadVariant, mem, a, n)

(******* MEM: DAP write_bytes (data.rs:457): RMW of aligned words *******)
\*   while cur < end { word_start = cur/8*8; existing = read_memory(word_start, 8)?;
\*                     existing[dst..] = bytes[src..]; write_memory(word_start, existing)?; cur = word_end }
RECURSIVE AlgWriteBytesFrom(_, _, _, _)
AlgWriteBytesFrom(mem, cur, a, bytes) ==       \* <<"ok"|"err", mem'>>: partial effects stay
    LET end == a + Len(bytes) IN
    IF cur >= end THEN <<"ok", mem>>
    ELSE LET ws == (cur \div W) * W
             rd == AlgRead(mem, ws, W)
         IN  IF rd[1] = "err" THEN <<"err", mem>>
             ELSE LET from   == Max(cur, ws)
                      to     == Min(end, ws + W)
                      merged == TLCEval([i \in 1..W |-> IF from <= ws + i - 1 /\ ws + i - 1 < to
                                                        THEN bytes[ws + i - 1 - a + 1] ELSE rd[2][i]])
                      pk     == Poke(mem, ws, merged)
                  IN  IF pk[1] = "err" THEN pk ELSE AlgWriteBytesFrom(pk[2], ws + W, a, bytes)
AlgWriteBytes(mem, a, bytes) == IF Len(bytes) = 0 THEN <<"ok", mem>> ELSE AlgWriteBytesFrom(mem, a, a, bytes)

(******* MEM: Debugger::write_memory (mod.rs:1004): one POKE at addr *******)
AlgWriteWord(mem, a, word) == Poke(mem, a, word)

(***************************** MEM: histories *****************************)
VARIABLES smem,      \* memory according to the specification
          amem,      \* memory according to the algorithms
          nops,      \* operations so far (shared by the three machines)
          last,      \* the operation just performed with both outcomes (not in the VIEW)
          hist       \* all of them, for emission (not in the VIEW)

Img(mem) == TLCEval([i \in 1..(Hi - Lo) |-> mem[Lo + i - 1]])         \* image of the mapped arena
DataFor(kind, mem, a, n) ==
    TLCEval([i \in 1..n |-> IF kind = "pat" THEN (199 + nops * 17 + i) % 256 ELSE 255 - mem[a + i - 1]])

ResJson(r) == IF r[1] = "ok" THEN [ok |-> TRUE, bytes |-> r[2]] ELSE [ok |-> FALSE, bytes |-> <<>>]
\* what goes to the driver: addresses relative to Lo; the *specification's* outcome is "spec";
\* "alg" / "algfix" are the models' predictions (used only for model-drift diagnostics).
CaseJson(l) ==
    [op |-> l.k, a |-> l.a - Lo, n |-> l.n, data |-> l.data, len |-> Hi - Lo, w |-> W,
     before |-> Img(l.pre), spec_ok |-> l.spec[1] = "ok",
     spec_bytes |-> IF l.k = "R" /\ l.spec[1] = "ok" THEN l.spec[2] ELSE <<>>,
     spec_after |-> Img(l.safter),
     alg_ok |-> l.alg[1] = "ok", algfix_ok |-> l.algfix[1] = "ok",
     alg_after |-> Img(l.aafter)]

Record(l) ==
    /\ last' = l
    /\ hist' = IF Emit = "hist" THEN Append(hist, CaseJson(l)) ELSE hist
    /\ nops' = nops + 1
    /\ (Emit = "cases") => PrintT(<<"CASE", ToJson(CaseJson(l))>>)
    /\ (Emit = "hist" /\ nops + 1 = MaxOps) => PrintT(<<"HIST", ToJson(Append(hist, CaseJson(l)))>>)

Accesses == {an \in Space \X (1..MaxN) : an[1] + an[2] - 1 \in Space}

\* On a refused write the specification leaves the content of [a, a+n) open; the history continues
\* with the implementation's choice there (the driver re-synchronises the same way).
SpecAfter(sp, al, a, n) ==
    IF sp[1] = "ok" THEN sp[2]
    ELSE TLCEval([x \in Space |-> IF x \in Range(a, n) THEN al[2][x] ELSE sp[2][x]])

Read(a, n) ==
    /\ "R" \in OpKinds
    /\ UNCHANGED <<smem, amem>>
    /\ Record([k |-> "R", a |-> a, n |-> n, data |-> <<>>, pre |-> amem,
               spec |-> SpecRead(smem, a, n), alg |-> AlgRead(amem, a, n),
               algfix |-> AlgReadV("aligned", amem, a, n), safter |-> smem, aafter |-> amem])

WriteBytes(a, n, dk) ==
    /\ "WB" \in OpKinds
    /\ LET data == DataFor(dk, smem, a, n)
           sp   == SpecWrite(smem, a, data)
           al   == AlgWriteBytes(amem, a, data)
       IN  /\ amem' = al[2]
           /\ smem' = SpecAfter(sp, al, a, n)
           /\ Record([k |-> "WB", a |-> a, n |-> n, data |-> data, pre |-> amem, spec |-> sp, alg |-> al,
                      algfix |-> al, safter |-> SpecAfter(sp, al, a, n), aafter |-> al[2]])

WriteWord(a, dk) ==
    /\ "WW" \in OpKinds
    /\ a + W - 1 \in Space
    /\ LET data == DataFor(dk, smem, a, W)
           sp   == SpecWrite(smem, a, data)
           al   == AlgWriteWord(amem, a, data)
       IN  /\ amem' = al[2]
           /\ smem' = SpecAfter(sp, al, a, W)
           /\ Record([k |-> "WW", a |-> a, n |-> W, data |-> data, pre |-> amem, spec |-> sp, alg |-> al,
                      algfix |-> al, safter |-> SpecAfter(sp, al, a, W), aafter |-> al[2]])


(************ MEM: variables of the puppet (DAP setVariable / setExpression) ************)
\* Program <-> model correspondence (tools/c15_puppet.py): the puppet's #[repr(C, packed)] struct `pack`
\* is the mapped arena of the "V" configurations.  <<offset, size, class>> of its scalar members:
Fields == {<<8, 1, "int">>, <<9, 2, "int">>, <<11, 4, "int">>, <<15, 8, "int">>, <<23, 1, "int">>, <<24, 2, "int">>, <<26, 4, "int">>, <<30, 8, "int">>, <<38, 1, "bool">>, <<39, 4, "char">>, <<43, 4, "float">>, <<47, 8, "float">>, <<55, 8, "int">>, <<63, 8, "int">>}
\* its initial image (guards 0xA5 / 0x5A around the members); the driver checks the real one is equal
PackImage0 == <<165, 165, 165, 165, 165, 165, 165, 165, 17, 34, 34, 51, 51, 51, 51, 68, 68, 68, 68, 68, 68, 68, 68, 251, 250, 255, 249, 255, 255, 255, 248, 255, 255, 255, 255, 255, 255, 255, 1, 113, 0, 0, 0, 0, 0, 192, 63, 0, 0, 0, 0, 0, 0, 2, 192, 77, 0, 0, 0, 0, 0, 0, 0, 178, 255, 255, 255, 255, 255, 255, 255, 90, 90, 90, 90, 90, 90, 90, 90, 238>>
MemPack == TLCEval([a \in Space |-> IF Mapped(a) /\ a - Lo + 1 <= Len(PackImage0) THEN PackImage0[a - Lo + 1] ELSE 0])
\* byte strings a value of that class can take: the driver turns them into the value's literal
KindsFor(class) == CASE class = "int"   -> {"pat", "inv", "zero", "ones", "min", "max", "one"}
                     [] class = "bool"  -> {"zero", "one"}
                     [] class = "char"  -> {"zero", "one", "asc"}
                     [] class = "float" -> {"zero", "one", "fl"}
VarData(kind, mem, a, n) ==
    IF kind \in {"pat", "inv"} THEN DataFor(kind, mem, a, n)
    ELSE TLCEval([i \in 1..n |->
           CASE kind = "zero" -> 0
             [] kind = "ones" -> 255
             [] kind = "min"  -> IF i = n THEN 128 ELSE 0
             [] kind = "max"  -> IF i = n THEN 127 ELSE 255
             [] kind = "one"  -> IF i = 1 THEN 1 ELSE 0
             [] kind = "asc"  -> IF i = 1 THEN 65 + nops ELSE 0
             [] kind = "fl"   -> IF i = n THEN 63 ELSE IF i = n - 1 THEN (IF n = 4 THEN 192 ELSE 248) ELSE 0])

\* setVariable / setExpression: parse_set_value (typed little-endian serialisation) then write_bytes
WriteVar(f, dk) ==
    /\ "WV" \in OpKinds
    /\ LET a    == Lo + f[1]
           n    == f[2]
           data == VarData(dk, smem, a, n)
           sp   == SpecWrite(smem, a, data)
           al   == AlgWriteBytes(amem, a, data)
       IN  /\ amem' = al[2]
           /\ smem' = SpecAfter(sp, al, a, n)
           /\ Record([k |-> "WV", a |-> a, n |-> n, data |-> data, pre |-> amem, spec |-> sp, alg |-> al,
                      algfix |-> al, safter |-> SpecAfter(sp, al, a, n), aafter |-> al[2]])

(************************* REG: the register file *************************)
VARIABLES regs,      \* what the kernel holds for the stopped thread, after the algorithms
          sregs,     \* the same according to the specification
          seen,      \* what the program observed when it was last resumed (algorithms)
          sseen      \*                                                    (specification)

\* abstract values: the driver maps "2^63" etc. to the real 64-bit numbers and "alt" to the address
\* of the puppet's alternative entry point
Vals      == {<<"v", "0">>, <<"v", "1">>, <<"v", "2^63">>, <<"v", "2^64-1">>}
RipVals   == Vals \cup {<<"a", "alt">>}
IVal(r)   == <<"i", r>>              \* "the value r had when this stop began" (observed independently)
RegFile0  == TLCEval([r \in Regs |-> IVal(r)])
ValsOf(r) == IF r = "rip" THEN RipVals ELSE Vals
\* the match tables of RegisterMap::update / RegisterMap::value (register.rs:233, :272)
Field(r)  == r
AlgSetReg(rf, r, v) == LET map == rf IN [map EXCEPT ![Field(r)] = v]     \* GETREGS; update; SETREGS
AlgGetReg(rf, r)    == rf[Field(r)]
SpecSetReg(rf, r, v) == [rf EXCEPT ![r] = v]

RegJson(l) == [op |-> l.k, reg |-> l.r, val |-> l.v, spec_regs |-> l.sregs, spec_get |-> l.sget,
               alg_get |-> l.aget, spec_seen |-> l.sseen]
RecordReg(l) ==
    /\ last' = l
    /\ hist' = IF Emit \in {"hist", "cover"} THEN Append(hist, RegJson(l)) ELSE hist
    /\ nops' = nops + 1
    /\ (Emit = "cases") => PrintT(<<"CASE", ToJson(RegJson(l))>>)
    /\ (Emit = "hist" /\ nops + 1 = MaxOps) => PrintT(<<"HIST", ToJson(Append(hist, RegJson(l)))>>)
    /\ (Emit = "cover" /\ l.k # "set") => PrintT(<<"HIST", ToJson(Append(hist, RegJson(l)))>>)

RSet(r, v) ==
    /\ regs' = AlgSetReg(regs, r, v)
    /\ sregs' = SpecSetReg(sregs, r, v)
    /\ UNCHANGED <<seen, sseen>>
    /\ RecordReg([k |-> "set", r |-> r, v |-> v, sregs |-> SpecSetReg(sregs, r, v), sget |-> <<>>, aget |-> <<>>,
                  sseen |-> <<>>])
RGet(r) ==
    /\ UNCHANGED <<regs, sregs, seen, sseen>>
    /\ RecordReg([k |-> "get", r |-> r, v |-> <<>>, sregs |-> sregs, sget |-> sregs[r], aget |-> AlgGetReg(regs, r),
                  sseen |-> <<>>])
\* Resuming is only done with a program counter that points at code (the stop address or the
\* alternative entry of the puppet) and a canonical stack pointer: x86-64 Linux kills a task that
\* is resumed with rsp = 2^63 before it executes anything (measured with a bare ptrace tracer), so
\* "visible to the program" has no observer there.  A new stop begins afterwards with fresh values.
RResume ==
    /\ ("rip" \in Regs) => sregs["rip"] \in {IVal("rip"), <<"a", "alt">>}
    /\ ("rsp" \in Regs) => sregs["rsp"] # <<"v", "2^63">>
    /\ seen' = regs /\ sseen' = sregs
    /\ regs' = RegFile0 /\ sregs' = RegFile0
    /\ RecordReg([k |-> "resume", r |-> "", v |-> <<>>, sregs |-> RegFile0, sget |-> <<>>, aget |-> <<>>,
                  sseen |-> sregs])

(************************ DIS: patched text bytes ************************)
VARIABLES tmem,      \* live text bytes (0xCC where a breakpoint is enabled)
          bps        \* enabled breakpoints: set of <<addr, saved byte>>

TextSpace == 0..10
F0 == 2   F1 == 8                       \* the function in focus is [F0, F1); [F1, ..) is the next function
Sites == {0, 2, 4, 6, 8}                \* instruction starts where a breakpoint can be put
SiteName(a) == CASE a = 0 -> "other" [] a = 2 -> "first" [] a = 4 -> "inner" [] a = 6 -> "last" [] a = 8 -> "end"
Text0 == TLCEval([a \in TextSpace |-> 16 + a])
INT3  == 204
SpecDisasm == TLCEval([i \in 1..(F1 - F0) |-> Text0[F0 + i - 1]])    \* the original instruction bytes

\* debugee/disasm.rs:66-82: read the live bytes, then put saved bytes back for every breakpoint
\* with fn_start <= addr <= fn_end (sic) at index addr - fn_start.
AlgDisasm(variant, mem, bp) ==
    LET len  == F1 - F0
        text == TLCEval([i \in 1..len |-> mem[F0 + i - 1]])
        inr  == IF variant = "masked" THEN {p \in bp : F0 <= p[1] /\ p[1] <= F1}
                ELSE IF variant = "masked_excl" THEN {p \in bp : F0 <= p[1] /\ p[1] < F1}
                ELSE {}
    IN  IF \E p \in inr : p[1] - F0 + 1 > len THEN <<"panic">>        \* text[byte_idx] out of bounds
        ELSE <<"ok", TLCEval([i \in 1..len |-> IF \E p \in inr : p[1] - F0 + 1 = i
                                               THEN (CHOOSE p \in inr : p[1] - F0 + 1 = i)[2] ELSE text[i]])>>

DisJson(l) == [op |-> l.k, site |-> l.site, bps |-> l.bps, spec |-> "original",
               alg |-> l.alg, algfix |-> l.algfix, algmasked |-> l.algmasked, algraw |-> l.algraw]
RecordDis(l) ==
    /\ last' = l
    /\ hist' = hist
    /\ nops' = nops + 1
    /\ (Emit = "cases" /\ l.k = "disasm") => PrintT(<<"CASE", ToJson(DisJson(l))>>)

Outcome(r) == IF r[1] = "panic" THEN "panic" ELSE IF r[2] = SpecDisasm THEN "original" ELSE "patched"

DSetBp(a) ==
    /\ Cardinality(bps) < 3
    /\ ~\E p \in bps : p[1] = a
    /\ bps' = bps \cup {<<a, tmem[a]>>}
    /\ tmem' = [tmem EXCEPT ![a] = INT3]
    /\ RecordDis([k |-> "setbp", site |-> SiteName(a), bps |-> <<>>, alg |-> "", algfix |-> "", algmasked |-> "", algraw |-> ""])
DRemoveBp(a) ==
    /\ \E p \in bps : p[1] = a /\ tmem' = [tmem EXCEPT ![a] = p[2]] /\ bps' = bps \ {p}
    /\ RecordDis([k |-> "rmbp", site |-> SiteName(a), bps |-> <<>>, alg |-> "", algfix |-> "", algmasked |-> "", algraw |-> ""])
DDisasm ==
    /\ UNCHANGED <<tmem, bps>>
    /\ RecordDis([k |-> "disasm", site |-> "", bps |-> {SiteName(p[1]) : p \in bps},
                  alg |-> Outcome(AlgDisasm(DisVariant, tmem, bps)),
                  algfix |-> Outcome(AlgDisasm("masked_excl", tmem, bps)),
                  algmasked |-> Outcome(AlgDisasm("masked", tmem, bps)),       \* Debugger::disasm as written
                  algraw |-> Outcome(AlgDisasm("raw", tmem, bps))])           \* DAP disassemble as written

MemInit == IF InitMem = "pack" THEN MemPack ELSE Mem0
NoOp == [k |-> "init", a |-> Lo, n |-> 0, data |-> <<>>, pre |-> MemInit, spec |-> <<"ok", <<>> >>,
         alg |-> <<"ok", <<>> >>, algfix |-> <<"ok", <<>> >>, safter |-> MemInit, aafter |-> MemInit]

(****************************** the machines ******************************)
memvars == <<smem, amem>>
regvars == <<regs, sregs, seen, sseen>>
disvars == <<tmem, bps>>
vars    == <<smem, amem, regs, sregs, seen, sseen, tmem, bps, nops, last, hist>>

Init ==
    /\ smem = MemInit /\ amem = MemInit
    /\ regs = RegFile0 /\ sregs = RegFile0 /\ seen = <<>> /\ sseen = <<>>
    /\ tmem = Text0 /\ bps = {}
    /\ nops = 0 /\ last = NoOp /\ hist = <<>>

More == nops < MaxOps
DoRead       == \E an \in Accesses : More /\ Read(an[1], an[2]) /\ UNCHANGED <<regvars, disvars>>
DoWriteBytes == \E an \in Accesses, dk \in DataKinds : More /\ WriteBytes(an[1], an[2], dk) /\ UNCHANGED <<regvars, disvars>>
DoWriteVar   == \E f \in Fields : \E dk \in KindsFor(f[3]) : More /\ WriteVar(f, dk) /\ UNCHANGED <<regvars, disvars>>
DoWriteWord  == \E a \in Space, dk \in DataKinds : More /\ WriteWord(a, dk) /\ UNCHANGED <<regvars, disvars>>
\* Emit = "cover": only the probes  set(r, v); get(r); resume  for every (r, v), printed as they grow
DoSetReg     == \E r \in Regs : \E v \in ValsOf(r) : More /\ (Emit = "cover" => nops = 0) /\ RSet(r, v) /\ UNCHANGED <<memvars, disvars>>
DoGetReg     == \E r \in Regs : More /\ (Emit = "cover" => nops = 1 /\ r = last.r) /\ RGet(r) /\ UNCHANGED <<memvars, disvars>>
DoResume     == More /\ (Emit = "cover" => nops = 2) /\ RResume /\ UNCHANGED <<memvars, disvars>>
DoSetBp      == \E a \in Sites : More /\ DSetBp(a) /\ UNCHANGED <<memvars, regvars>>
DoRemoveBp   == \E a \in Sites : More /\ DRemoveBp(a) /\ UNCHANGED <<memvars, regvars>>
DoDisasm     == More /\ DDisasm /\ UNCHANGED <<memvars, regvars>>
NextMem == DoRead \/ DoWriteBytes \/ DoWriteWord \/ DoWriteVar
NextReg == DoSetReg \/ DoGetReg \/ DoResume
NextDis == DoSetBp \/ DoRemoveBp \/ DoDisasm

SpecMem == Init /\ [][NextMem]_vars
SpecReg == Init /\ [][NextReg]_vars
SpecDis == Init /\ [][NextDis]_vars

\* `last` and `hist` are observations, not state
View == <<smem, amem, regs, sregs, seen, sseen, tmem, bps, nops>>

(****************************** properties ******************************)
\* -- state invariants
MemoryMatchesSpec   == amem = smem                         \* "memory = spec memory" along every history
UnmappedNeverChanges == \A x \in Space : ~Mapped(x) => amem[x] = MemInit[x] /\ smem[x] = MemInit[x]
RegsMatchSpec       == regs = sregs
ProgramSeesWrites   == seen = sseen
PatchesConsistent   == /\ \A p \in bps : tmem[p[1]] = INT3 /\ p[2] = Text0[p[1]]
                       /\ \A a \in TextSpace : (~\E p \in bps : p[1] = a) => tmem[a] = Text0[a]

\* -- step properties ([][...]_vars: TLC evaluates them on *every* generated transition, also into
\*    states that were already seen, so `last` can stay out of the VIEW)
IsW(l) == l.k \in {"WB", "WW", "WV"}
AlgorithmMeetsSpecW == IsW(last') => /\ last'.alg[1] = last'.spec[1]
                                     /\ last'.alg[1] = "ok" => last'.alg[2] = last'.spec[2]
AlgorithmMeetsSpecR == (last'.k = "R") => last'.alg = last'.spec
FixedReadMeetsSpec  == (last'.k = "R") => last'.algfix = last'.spec
NeighboursUntouchedStep == IsW(last') => Untouched(last'.pre, last'.aafter, last'.a, last'.n)
GetMeetsSpec        == (last'.k = "get") => last'.aget = last'.sget
DisasmShowsOriginal == (last'.k = "disasm") => last'.alg = "original"

WritesMeetSpec      == [][AlgorithmMeetsSpecW]_vars
ReadsMeetSpec       == [][AlgorithmMeetsSpecR]_vars
FixedReadsMeetSpec  == [][FixedReadMeetsSpec]_vars
NeighboursUntouched == [][NeighboursUntouchedStep]_vars
RegGetMeetsSpec     == [][GetMeetsSpec]_vars
DisasmOriginal      == [][DisasmShowsOriginal]_vars
=============================================================================

------------------------------ MODULE ScopeMC ------------------------------
(***************************************************************************)
(* Mode (E) for C19: the scope operators of Scope.tla are exercised over   *)
(* ALL well-nested block trees with at most MaxBlocks blocks (single pc    *)
(* range each, inside [0, L) for the first function and [L, L+2) for an    *)
(* optional second one) and at most MaxVars variables drawn from Names,    *)
(* each tree at every pc.  TLC constructs the trees by adding one block or *)
(* one variable per step, so every intermediate tree is a state as well.   *)
(* Invariants = theorems of the reference; DesignResolveMeetsRef is the    *)
(* design-level prediction for die_ref.rs:328 (first valid DIE wins) and   *)
(* is EXPECTED to be violated by a shadowing tree.                         *)
(***************************************************************************)
EXTENDS Scope, TLC

CONSTANTS L, MaxBlocks, MaxVars, Names

VARIABLES blocks, vars
mvars == <<blocks, vars>>

PCs == 0..(L + 2)
Root(lo, hi) == [parent |-> 0, fn |-> 0, ranges |-> <<<<lo, hi>>>>, kind |-> "fn"]

Init == blocks = <<[Root(0, L) EXCEPT !.fn = 1]>> /\ vars = <<>>

Lo(b) == blocks[b].ranges[1][1]
Hi(b) == blocks[b].ranges[1][2]
Children(p) == {c \in 1..Len(blocks) : blocks[c].parent = p}

AddBlock(p, lo, hi) ==
  /\ Len(blocks) < MaxBlocks
  /\ Lo(p) <= lo /\ lo < hi /\ hi <= Hi(p)
  /\ \A c \in Children(p) : hi <= Lo(c) \/ Hi(c) <= lo            \* siblings are disjoint
  /\ blocks' = Append(blocks, [parent |-> p, fn |-> blocks[p].fn, ranges |-> <<<<lo, hi>>>>, kind |-> "block"])
  /\ UNCHANGED vars
AddFn ==
  /\ Len(blocks) < MaxBlocks
  /\ \A b \in 1..Len(blocks) : blocks[b].parent = 0 => b = 1
  /\ blocks' = Append(blocks, [Root(L, L + 2) EXCEPT !.fn = Len(blocks) + 1])
  /\ UNCHANGED vars
AddVar(b, n, k) ==
  /\ Len(vars) < MaxVars
  /\ k = "param" => blocks[b].parent = 0
  /\ vars' = Append(vars, [name |-> n, block |-> b, decl |-> Len(vars) + 1, kind |-> k])
  /\ UNCHANGED blocks

Next == \/ \E p \in 1..Len(blocks), lo \in PCs, hi \in PCs : AddBlock(p, lo, hi)
        \/ AddFn
        \/ \E b \in 1..Len(blocks), n \in Names, k \in {"local", "param"} : AddVar(b, n, k)
Spec == Init /\ [][Next]_mvars

---------------------------------------------------------------------------
Related(a, b) == a \in Anc(blocks, b) \/ b \in Anc(blocks, a)
Locals(pc) == InScopeKind(blocks, vars, pc, "local")
SameName(S, n) == {v \in S : vars[v].name = n}

\* Resolve(name, pc) is one of the in-scope bindings of the name, and exists iff there is one
ResolveInScope ==
  \A pc \in PCs, n \in Names :
    LET r == Resolve(blocks, vars, n, pc) IN
    /\ (r = 0) <=> (SameName(Locals(pc), n) = {})
    /\ r # 0 => r \in InScope(blocks, vars, pc) /\ vars[r].name = n /\ vars[r].kind = "local"
\* ... the innermost one: no in-scope binding of the name sits in a deeper block, none of the same block is declared later
ResolveInnermost ==
  \A pc \in PCs, n \in Names :
    LET r == Resolve(blocks, vars, n, pc) IN
    r # 0 => \A u \in SameName(Locals(pc), n) :
               /\ Depth(blocks, vars[r].block) >= Depth(blocks, vars[u].block)
               /\ (vars[u].block = vars[r].block => vars[u].decl <= vars[r].decl)
\* sibling exclusion: bindings of unrelated blocks are never in scope together; what is in scope forms a chain
SiblingExcluded ==
  \A pc \in PCs : \A u, v \in InScope(blocks, vars, pc) : Related(vars[u].block, vars[v].block)
\* nothing is in scope outside its own function, parameters are in scope in the whole function
FunctionLocal ==
  \A pc \in PCs : \A v \in 1..Len(vars) :
     /\ v \in InScope(blocks, vars, pc) => FnAt(blocks, pc) = blocks[vars[v].block].fn
     /\ (vars[v].kind = "param" /\ FnAt(blocks, pc) = blocks[vars[v].block].fn) => v \in InScope(blocks, vars, pc)
\* a variable whose block has not begun is not in scope, and the class says so
DeclaredLaterExcluded ==
  \A pc \in PCs : \A u \in 1..Len(vars) :
     (u \notin InScope(blocks, vars, pc)) =>
        /\ OutClass(blocks, vars, u, pc) \in {"out_of_scope_variable_listed", "declared_later_listed", "sibling_block_variable_listed"}
        /\ (OutClass(blocks, vars, u, pc) = "declared_later_listed" => pc < Lo(vars[u].block))
\* design-level: consulting only the nearest enclosing block (die_ref.rs:231) is equivalent on well-nested trees
DesignValidAtMeetsRef ==
  \A pc \in PCs : \A f \in {b \in 1..Len(blocks) : blocks[b].parent = 0} :
     FnAt(blocks, pc) = f => ImplListed(blocks, vars, pc, f) = Locals(pc)
\* design-level prediction: "first valid DIE wins" (die_ref.rs:328) vs. innermost binding - expected to FAIL
DesignResolveMeetsRef ==
  \A pc \in PCs, n \in Names :
     FnAt(blocks, pc) # 0 => ImplResolve(blocks, vars, n, pc, FnAt(blocks, pc)) = Resolve(blocks, vars, n, pc)

\* vacuity guards (checked as "never" properties by the runner through coverage of these state predicates)
HasShadow == \E pc \in PCs, n \in Names : Cardinality(SameName(Locals(pc), n)) >= 2
=============================================================================

---------------------------- MODULE TracePatch ----------------------------
(* C02 for programs without a recorded execution (multi-threaded puppets): at every prompt the bytes  *)
(* of the program's code that differ from the ELF file must be exactly the user's current breakpoints *)
(* (plus the debugger's own entry-point breakpoint); a breakpoint command on a live process must not   *)
(* fail; after the last removal nothing may be left.  The events are the same as TraceSession's:       *)
(* [cmd, ok, err, addrs, patched, said].  Monitor style: verdicts are collected in `viol`.              *)
EXTENDS Integers, Sequences, FiniteSets, TLC, Json, IOUtils

CONSTANT Entry          \* addresses the debugger may keep patched for itself

Rec == IF "TRACE" \in DOMAIN IOEnv THEN ndJsonDeserialize(IOEnv.TRACE) ELSE <<>>
VARIABLES l, tbp, live, viol
vars == <<l, tbp, live, viol>>
Init == l = 1 /\ tbp = {} /\ live = FALSE /\ viol = <<>>
SeqToSet(s) == {s[k] : k \in 1..Len(s)}
V(k, cls, act, exp, actl) == [k |-> k, class |-> cls, action |-> act, expected |-> exp, actual |-> actl]
PatchChecks(k, e, bps) ==
  IF e.patched = <<-1>> THEN <<>>
  ELSE LET p == SeqToSet(e.patched) IN
       (IF (p \ Entry) \ bps # {} THEN <<V(k, "residual_patch", e.cmd, bps, (p \ Entry) \ bps)>> ELSE <<>>) \o
       (IF bps \ p # {} THEN <<V(k, "breakpoint_not_patched", e.cmd, bps, bps \ p)>> ELSE <<>>)
Consume ==
  /\ l <= Len(Rec)
  /\ LET e == Rec[l] k == l IN
     /\ l' = l + 1
     /\ CASE e.cmd = "reset" -> tbp' = {} /\ live' = FALSE /\ viol' = viol
          [] e.cmd = "break" ->
               /\ tbp' = IF e.ok THEN tbp \cup SeqToSet(e.addrs) ELSE tbp
               /\ live' = live
               /\ viol' = viol \o (IF ~e.ok THEN <<V(k, "command_failed", e.cmd, "ok", e.err)>> ELSE <<>>)
                               \o (IF live THEN PatchChecks(k, e, tbp') ELSE <<>>)
          [] e.cmd = "remove" ->
               /\ tbp' = tbp \ SeqToSet(e.addrs)
               /\ live' = live
               /\ viol' = viol \o (IF ~e.ok THEN <<V(k, "command_failed", e.cmd, "ok", e.err)>> ELSE <<>>)
                               \o (IF live THEN PatchChecks(k, e, tbp') ELSE <<>>)
          [] e.cmd \in {"start", "continue", "stepi", "step", "next", "finish"} ->
               /\ tbp' = tbp
               /\ live' = (e.said # "exit")
               /\ viol' = viol \o (IF e.said # "exit" THEN PatchChecks(k, e, tbp) ELSE <<>>)
          [] OTHER -> UNCHANGED <<tbp, live>> /\ viol' = viol
Spec == Init /\ [][Consume]_vars
Done == (l = Len(Rec) + 1) => PrintT(<<"VERDICT", ToJson([n |-> Len(Rec), viol |-> viol])>>)
=============================================================================

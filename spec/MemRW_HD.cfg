\* C15 / MemRW.tla -- (G) simulated histories (DAP operations) at word size 8
CONSTANTS
    W = 8
    Lo = 8
    Hi = 32
    MaxN = 17
    MaxOps = 3
    OpKinds = {"R", "WB"}
    DataKinds = {"pat", "inv"}
    ReadVariant = "tail"
    Emit = "hist"
    Regs = {}
    InitMem = "pattern"
    DisVariant = "masked"
SPECIFICATION SpecMem
VIEW View
INVARIANTS MemoryMatchesSpec UnmappedNeverChanges

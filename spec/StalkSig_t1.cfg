\* generated by tools/checks/c10.py
SPECIFICATION Spec
VIEW View
CONSTANTS
  defaultInitValue = defaultInitValue
  Threads = {1}
  Main = 1
  L = 3
  Iters = 2
  Bp = 1
  LineStarts = {0, 2}
  MaxCmd = 4
  Cmds = {"continue","stepi","step"}
  RunOut = TRUE
  Sigs = {"USR1","USR2","ALRM","INT"}
  Quiet = {"ALRM"}
  Transparent = {"INT"}
  MaxSend = 3
  ProcTarget = TRUE
  FixQuietDup = TRUE
  FixQuietFront = FALSE
  FixStepIntr = FALSE
  FixSwallow = FALSE
  FixExclude = FALSE
  Gen = TRUE

\* (E) exhaustive: the model with all five candidate fixes applied satisfies the reference
SPECIFICATION Spec
CONSTANTS
  MaxReq = 3
  Universe <- UniverseFull
  QMaxEv = 0
  PreLines = 1
  PostLines = 1
  SeqUnderLock = TRUE
  RespondAfter = TRUE
  FwdHonoursTerm = TRUE
  InitViaQueue = TRUE
  ClearCache = TRUE
  DrainKeepsTerm = FALSE
INVARIANTS TypeOK WireSeqOrdered WireSeqOrderedMon OneResponsePerRequest EventsOnceAndCausal
  NoEventAfterTerminated FailureIsErrorResponse NoEventAfterTerminatedW AtMostOneResponseW

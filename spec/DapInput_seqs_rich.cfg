SPECIFICATION Spec
INVARIANT Inv
CONSTANTS
  Mode = "seqs"
  Rich = TRUE
  MaxSeq = 3

------------------------------- MODULE Values -------------------------------
(***************************************************************************)
(* C06 -- "Values shown are the values the program holds".                  *)
(*                                                                          *)
(* One module, five modes (constant Mode):                                  *)
(*                                                                          *)
(*  "types"  the recursive TYPE GRAMMAR of the statement with nesting bound *)
(*           MaxDepth.  A state is a type; Next wraps it into one more      *)
(*           constructor.  For every type the module defines its Rust type  *)
(*           name Name(T), and for every variant number m a Rust            *)
(*           initialiser text and the ABSTRACT VALUE V(T, m) (boundary      *)
(*           values of the scalar leaves rotated through every position).   *)
(*           Emit prints one JSON descriptor per (type, variant).           *)
(*  "colls"  the std collections as abstract sequence / set / map STATE     *)
(*           MACHINES driven by operations (push/pop/insert/remove/clear +  *)
(*           bulk phases); for VecDeque a ring model rides along so that    *)
(*           wrap-around is a reachable, distinct state.  Emit prints       *)
(*           (operation sequence, abstract content) for every distinct      *)
(*           reachable state; scripted sequences (Scripts) are evaluated by *)
(*           the same Apply.                                                *)
(*  "vdq"    transcription of parse_vec_dequeue_inner (ring split)          *)
(*  "hb"     transcription of hashbrown BucketIterator::next (group scan)   *)
(*  "bt"     transcription of btree KVIterator::next (leaf-edge walk)       *)
(*           each checked against the abstraction: DecoderEqualsAbstraction *)
(*                                                                          *)
(* Integers wider than TLC's are carried as decimal TEXT, floats as their   *)
(* IEEE bit pattern in hex, chars as code points, strings JSON-escaped.     *)
(***************************************************************************)
EXTENDS Integers, Sequences, FiniteSets, TLC, Json
SeqX == INSTANCE SequencesExt

CONSTANTS
  Mode,       \* "types" | "colls" | "vdq" | "hb" | "bt"
  MaxDepth,   \* types: number of constructors above a leaf
  Rot,        \* types: rotations of the boundary values per (type, shape)
  LeafSet,    \* types: "all" | "lean" (inner alphabet used for depth >= 2 runs)
  CtorSet,    \* types: "all" | "lean"
  MaxOps,     \* colls: length bound of operation sequences
  NKeys,      \* colls: small keys 1..NKeys
  MaxBulk,    \* colls: bulk operations allowed per sequence
  History,    \* colls: TRUE = every operation sequence is a state (no state merging)
  Kinds,      \* colls: subset of {"vec","vdq","hset","hmap","bset","bmap"}
  Elems,      \* colls: element types, subset of {"i16","u64","String"}
  Scripts,    \* colls: sequence of [kind, elem, ops] evaluated in addition (may be <<>>)
  MaxCap,     \* vdq: capacities 0..MaxCap
  HbBuckets,  \* hb: set of bucket counts (powers of two), group width is HbW
  BtLevels    \* bt: trees with 1..BtLevels levels

VARIABLES st, hist
vars == <<st, hist>>

Min(a, b) == IF a < b THEN a ELSE b
Max(a, b) == IF a > b THEN a ELSE b

SelectIdx(s, I) ==      \* subsequence of s at the indices in I
  LET F[i \in 0..Len(s)] == IF i = 0 THEN <<>> ELSE IF i \in I THEN Append(F[i-1], s[i]) ELSE F[i-1]
  IN F[Len(s)]

-----------------------------------------------------------------------------
(* Abstract values                                                          *)
IntV(s)         == [k |-> "int", v |-> s]
TupleV(items)   == [k |-> "tuple", items |-> items]
StructV(n, fs)  == [k |-> "struct", name |-> n, fields |-> fs]
EnumV(v, fs)    == [k |-> "enum", variant |-> v, fields |-> fs]
SeqV(items)     == [k |-> "seq", items |-> items]
SetV(items)     == [k |-> "set", items |-> items]
MapV(kv)        == [k |-> "map", kv |-> kv]
PtrV(v)         == [k |-> "ptr", to |-> v]
NullV           == [k |-> "ptr", null |-> TRUE]
CellV(v)        == [k |-> "cell", inner |-> v]

-----------------------------------------------------------------------------
(* LEAVES and their boundary sets: sequences of [lit, val]                  *)
IntB(ty, s) == [lit |-> "(" \o s \o ty \o ")", val |-> IntV(s)]
SInt(ty, mn, mx) == <<IntB(ty, mn), IntB(ty, mx), IntB(ty, "0"), IntB(ty, "1"), IntB(ty, "-1")>>
UInt(ty, mx, mid) == <<IntB(ty, "0"), IntB(ty, mx), IntB(ty, "1"), IntB(ty, mid)>>
Flt(ty, bits, nm) == [lit |-> ty \o "::from_bits(0x" \o bits \o ")", val |-> [k |-> "float", bits |-> bits, nm |-> nm]]
Chr(n) == [lit |-> "char::from_u32(" \o ToString(n) \o ").unwrap()", val |-> [k |-> "char", v |-> n]]
\* strings: Rust literal text and the JSON-escaped text of the same string (kept side by side; the
\* program's own echo is compared with `j`, so a slip between the two is a tool error)
StrTab == << [r |-> "\"\"",                          j |-> ""],
             [r |-> "\"a\"",                         j |-> "a"],
             [r |-> "\"h\\u{e9}llo w\\u{f6}rld\"",   j |-> "h\\u00e9llo w\\u00f6rld"],
             [r |-> "\"\\u{20ac}\\u{1f600}\"",       j |-> "\\u20ac\\ud83d\\ude00"],
             [r |-> "\"q\\\"b\\\\n\\n\\t\\0z\"",     j |-> "q\\\"b\\\\n\\n\\t\\u0000z"],
             [r |-> "\"0123456789012345678901234567890123456789\"", j |-> "0123456789012345678901234567890123456789"] >>
StrV(j) == [k |-> "str", j |-> j]
Cen(ty, v) == [lit |-> ty \o "::" \o v, val |-> [k |-> "cenum", v |-> v]]
Nz(ty, s) == [lit |-> "NonZero::<" \o ty \o ">::new(" \o s \o ").unwrap()", val |-> [k |-> "nz", v |-> s]]

B(l) ==
  CASE l = "i8"    -> SInt("i8", "-128", "127")
    [] l = "i16"   -> SInt("i16", "-32768", "32767")
    [] l = "i32"   -> SInt("i32", "-2147483648", "2147483647")
    [] l = "i64"   -> SInt("i64", "-9223372036854775808", "9223372036854775807")
    [] l = "i128"  -> SInt("i128", "-170141183460469231731687303715884105728", "170141183460469231731687303715884105727")
    [] l = "isize" -> SInt("isize", "-9223372036854775808", "9223372036854775807")
    [] l = "u8"    -> UInt("u8", "255", "128")
    [] l = "u16"   -> UInt("u16", "65535", "32768")
    [] l = "u32"   -> UInt("u32", "4294967295", "2147483648")
    [] l = "u64"   -> UInt("u64", "18446744073709551615", "9223372036854775808")
    [] l = "u128"  -> UInt("u128", "340282366920938463463374607431768211455", "170141183460469231731687303715884105728")
    [] l = "usize" -> UInt("usize", "18446744073709551615", "9223372036854775808")
    [] l = "f32"   -> << Flt("f32", "00000000", "0"), Flt("f32", "80000000", "-0"), Flt("f32", "3f800000", "1"),
                         Flt("f32", "bf800000", "-1"), Flt("f32", "ff7fffff", "MIN"), Flt("f32", "7f7fffff", "MAX"),
                         Flt("f32", "7fc00000", "NaN"), Flt("f32", "7f800000", "inf"), Flt("f32", "ff800000", "-inf"),
                         Flt("f32", "00000001", "denormal") >>
    [] l = "f64"   -> << Flt("f64", "0000000000000000", "0"), Flt("f64", "8000000000000000", "-0"),
                         Flt("f64", "3ff0000000000000", "1"), Flt("f64", "bff0000000000000", "-1"),
                         Flt("f64", "ffefffffffffffff", "MIN"), Flt("f64", "7fefffffffffffff", "MAX"),
                         Flt("f64", "7ff8000000000000", "NaN"), Flt("f64", "7ff0000000000000", "inf"),
                         Flt("f64", "fff0000000000000", "-inf"), Flt("f64", "0000000000000001", "denormal") >>
    [] l = "bool"  -> << [lit |-> "true", val |-> [k |-> "bool", v |-> TRUE]], [lit |-> "false", val |-> [k |-> "bool", v |-> FALSE]] >>
    [] l = "char"  -> << Chr(97), Chr(0), Chr(223), Chr(8364), Chr(128512), Chr(1114111), Chr(55295) >>
    [] l = "unit"  -> << [lit |-> "()", val |-> [k |-> "unit"]] >>
    [] l = "str"   -> [i \in 1..Len(StrTab) |-> [lit |-> StrTab[i].r, val |-> StrV(StrTab[i].j)]]
    [] l = "String" -> [i \in 1..Len(StrTab) |-> [lit |-> "String::from(" \o StrTab[i].r \o ")", val |-> StrV(StrTab[i].j)]]
    [] l = "Ce"    -> << Cen("Ce", "A"), Cen("Ce", "B"), Cen("Ce", "C") >>
    [] l = "CeI8"  -> << Cen("CeI8", "Lo"), Cen("CeI8", "M1"), Cen("CeI8", "Z"), Cen("CeI8", "Hi") >>
    [] l = "CeU64" -> << Cen("CeU64", "Z"), Cen("CeU64", "Top") >>
    [] l = "nz_u8"  -> << Nz("u8", "1"), Nz("u8", "255") >>
    [] l = "nz_i32" -> << Nz("i32", "1"), Nz("i32", "-1"), Nz("i32", "-2147483648"), Nz("i32", "2147483647") >>
    [] l = "nz_u64" -> << Nz("u64", "1"), Nz("u64", "18446744073709551615") >>

AllLeaves == << "i8", "i16", "i32", "i64", "i128", "isize", "u8", "u16", "u32", "u64", "u128", "usize",
                "f32", "f64", "bool", "char", "unit", "str", "String", "Ce", "CeI8", "CeU64",
                "nz_u8", "nz_i32", "nz_u64" >>
LeanLeaves == << "i8", "u64", "i128", "f32", "char", "unit", "String", "CeI8", "nz_i32" >>
LeafSeq == IF LeafSet = "all" THEN AllLeaves ELSE LeanLeaves

LeafName(l) ==
  CASE l = "unit" -> "()" [] l = "str" -> "&str"
    [] l = "nz_u8" -> "NonZero<u8>" [] l = "nz_i32" -> "NonZero<i32>" [] l = "nz_u64" -> "NonZero<u64>"
    [] OTHER -> l

-----------------------------------------------------------------------------
(* TYPES: [c |-> constructor or leaf name, a |-> <<argument types>>]        *)
Leaf(l)   == [c |-> l, a |-> <<>>]
Mk(c, T)  == [c |-> c, a |-> <<T>>]
IsLeaf(T) == Len(T.a) = 0
Arg(T)    == T.a[1]

AllCtors == << "tup1", "tup2", "tup3", "sn", "ts", "opt", "res", "en", "optref", "optbox", "optopt",
               "arr0", "arr3", "slice", "vec", "vdq", "hset", "bset", "hmapk", "hmapv", "bmapk", "bmapv",
               "box", "rc", "arc", "cell", "refcell", "ref", "rawc", "rawm" >>
LeanCtors == << "tup3", "sn", "opt", "en", "optbox", "arr3", "slice", "vec", "vdq", "hset", "hmapv", "bmapk",
                "box", "rc", "refcell", "ref" >>
CtorSeq == IF CtorSet = "all" THEN AllCtors ELSE LeanCtors
CtorIdx(c) == CHOOSE i \in 1..Len(AllCtors) : AllCtors[i] = c

Shapes(c) ==
  CASE c \in {"opt", "optref", "optbox"} -> <<"none", "some">>
    [] c = "res"    -> <<"ok", "err">>
    [] c = "en"     -> <<"u", "t", "s">>
    [] c = "optopt" -> <<"none", "somenone", "somesome">>
    [] c = "vec"    -> <<"empty", "one", "three">>
    [] c \in {"slice", "vdq", "hset", "bset", "hmapk", "hmapv", "bmapk", "bmapv"} -> <<"empty", "three">>
    [] c = "rawc"   -> <<"valid", "null">>
    [] OTHER        -> <<"v">>

RECURSIVE Name(_)
Name(T) ==
  IF IsLeaf(T) THEN LeafName(T.c)
  ELSE LET n == Name(Arg(T)) c == T.c IN
    CASE c = "tup1" -> "(" \o n \o ",)"
      [] c = "tup2" -> "(" \o n \o ", " \o n \o ")"
      [] c = "tup3" -> "(u8, " \o n \o ", i64)"
      [] c = "sn"   -> "Sn<" \o n \o ">"
      [] c = "ts"   -> "Ts<" \o n \o ">"
      [] c = "opt"  -> "Option<" \o n \o ">"
      [] c = "res"  -> "Result<" \o n \o ", u8>"
      [] c = "en"   -> "En<" \o n \o ">"
      [] c = "optref" -> "Option<&" \o n \o ">"
      [] c = "optbox" -> "Option<Box<" \o n \o ">>"
      [] c = "optopt" -> "Option<Option<" \o n \o ">>"
      [] c = "arr0" -> "[" \o n \o "; 0]"
      [] c = "arr3" -> "[" \o n \o "; 3]"
      [] c = "slice" -> "&[" \o n \o "]"
      [] c = "vec"  -> "Vec<" \o n \o ">"
      [] c = "vdq"  -> "VecDeque<" \o n \o ">"
      [] c = "hset" -> "HashSet<" \o n \o ">"
      [] c = "bset" -> "BTreeSet<" \o n \o ">"
      [] c = "hmapk" -> "HashMap<" \o n \o ", u8>"
      [] c = "hmapv" -> "HashMap<u8, " \o n \o ">"
      [] c = "bmapk" -> "BTreeMap<" \o n \o ", u8>"
      [] c = "bmapv" -> "BTreeMap<u8, " \o n \o ">"
      [] c = "box"  -> "Box<" \o n \o ">"
      [] c = "rc"   -> "Rc<" \o n \o ">"
      [] c = "arc"  -> "Arc<" \o n \o ">"
      [] c = "cell" -> "Cell<" \o n \o ">"
      [] c = "refcell" -> "RefCell<" \o n \o ">"
      [] c = "ref"  -> "&" \o n
      [] c = "rawc" -> "*const " \o n
      [] c = "rawm" -> "*mut " \o n

TypeName(T) == Name(T)     \* the Rust type name IS the source spelling with std names imported

RECURSIVE Depth(_)
Depth(T) == IF IsLeaf(T) THEN 0 ELSE 1 + Depth(Arg(T))

\* may be a set element / map key (Eq + Hash + Ord, no float inside)
RECURSIVE Keyable(_)
Keyable(T) ==
  IF IsLeaf(T) THEN T.c \notin {"f32", "f64"}
  ELSE T.c \in {"tup1", "tup2", "tup3", "sn", "ts", "opt", "res", "en", "optbox", "optopt", "arr0", "arr3",
                "vec", "vdq", "bset", "bmapk", "bmapv", "box", "rc", "arc"} /\ Keyable(Arg(T))

\* has a constant initialiser (may be a `static`)
RECURSIVE ConstOk(_)
ConstOk(T) ==
  IF IsLeaf(T) THEN T.c # "String"
  ELSE T.c \in {"tup1", "tup2", "tup3", "sn", "ts", "opt", "res", "en", "optopt", "arr0", "arr3"} /\ ConstOk(Arg(T))

Applicable(c, T) == (c \in {"hset", "bset", "hmapk", "bmapk"}) => Keyable(T)

\* last-wins removal of equal abstract keys (what inserting them one after the other leaves behind)
KeepLast(vals) == {i \in 1..Len(vals) : \A j \in (i+1)..Len(vals) : vals[j] # vals[i]}

NVar(T) == IF IsLeaf(T) THEN Len(B(T.c)) ELSE Len(Shapes(T.c)) * Rot

Join(ss, sep) ==
  LET F[i \in 0..Len(ss)] == IF i = 0 THEN "" ELSE IF i = 1 THEN ss[1] ELSE F[i-1] \o sep \o ss[i]
  IN F[Len(ss)]

(* V(T, m): variant m of type T as [lit |-> Rust initialiser, val |-> abstract value].           *)
(* shape = m mod |Shapes|; the inner elements take the variants r + i + CtorIdx of the argument   *)
(* type (r = m div |Shapes|), so boundary values rotate through positions and constructors.      *)
(* every abstract value node carries `c`, the constructor (or leaf) of the type it belongs to, so that a  *)
(* difference can be attributed to the exact constructor it sits at                                          *)
RECURSIVE V(_, _), V0(_, _)
V(T, m) == LET x == V0(T, m) IN [lit |-> x.lit, val |-> [c |-> T.c] @@ x.val]
V0(T, m) ==
  IF IsLeaf(T) THEN LET b == B(T.c) IN b[(m % Len(b)) + 1]
  ELSE
    LET c  == T.c
        A  == Arg(T)
        n  == Name(A)
        sh == Shapes(c)[(m % Len(Shapes(c))) + 1]
        r  == m \div Len(Shapes(c))
        e(i) == V(A, r + i + CtorIdx(c))
        leak(x) == "&*Box::leak(Box::new(" \o x \o "))"
        three == <<e(0), e(1), e(2)>>
        lits3 == Join([i \in 1..3 |-> three[i].lit], ", ")
        vals3 == [i \in 1..3 |-> three[i].val]
        keep  == KeepLast(vals3)
        kvlit(kfirst) == Join([i \in 1..3 |-> IF kfirst THEN "(" \o three[i].lit \o ", " \o ToString(i) \o "u8)"
                                                         ELSE "(" \o ToString(i) \o "u8, " \o three[i].lit \o ")"], ", ")
        u8v(i) == IntV(ToString(i))
    IN
    CASE c = "tup1" -> [lit |-> "(" \o e(0).lit \o ",)", val |-> TupleV(<<e(0).val>>)]
      [] c = "tup2" -> [lit |-> "(" \o e(0).lit \o ", " \o e(1).lit \o ")", val |-> TupleV(<<e(0).val, e(1).val>>)]
      [] c = "tup3" -> [lit |-> "(7u8, " \o e(0).lit \o ", -9i64)", val |-> TupleV(<<IntV("7"), e(0).val, IntV("-9")>>)]
      [] c = "sn"   -> [lit |-> "Sn { a: " \o e(0).lit \o ", b: 513u16 }",
                        val |-> StructV("Sn", << <<"a", e(0).val>>, <<"b", IntV("513")>> >>)]
      [] c = "ts"   -> [lit |-> "Ts(" \o e(0).lit \o ", true)",
                        val |-> StructV("Ts", << <<"__0", e(0).val>>, <<"__1", [k |-> "bool", v |-> TRUE]>> >>)]
      [] c = "opt"  -> IF sh = "none" THEN [lit |-> "None", val |-> EnumV("None", <<>>)]
                       ELSE [lit |-> "Some(" \o e(0).lit \o ")", val |-> EnumV("Some", << <<"__0", e(0).val>> >>)]
      [] c = "res"  -> IF sh = "ok" THEN [lit |-> "Ok(" \o e(0).lit \o ")", val |-> EnumV("Ok", << <<"__0", e(0).val>> >>)]
                       ELSE [lit |-> "Err(255u8)", val |-> EnumV("Err", << <<"__0", IntV("255")>> >>)]
      [] c = "en"   -> (CASE sh = "u" -> [lit |-> "En::U", val |-> EnumV("U", <<>>)]
                         [] sh = "t" -> [lit |-> "En::T(" \o e(0).lit \o ", 7u8)",
                                         val |-> EnumV("T", << <<"__0", e(0).val>>, <<"__1", IntV("7")>> >>)]
                         [] sh = "s" -> [lit |-> "En::S { x: " \o e(0).lit \o " }", val |-> EnumV("S", << <<"x", e(0).val>> >>)])
      [] c = "optref" -> IF sh = "none" THEN [lit |-> "None", val |-> EnumV("None", <<>>)]
                         ELSE [lit |-> "Some(" \o leak(e(0).lit) \o ")", val |-> EnumV("Some", << <<"__0", PtrV(e(0).val)>> >>)]
      [] c = "optbox" -> IF sh = "none" THEN [lit |-> "None", val |-> EnumV("None", <<>>)]
                         ELSE [lit |-> "Some(Box::new(" \o e(0).lit \o "))", val |-> EnumV("Some", << <<"__0", PtrV(e(0).val)>> >>)]
      [] c = "optopt" -> (CASE sh = "none" -> [lit |-> "None", val |-> EnumV("None", <<>>)]
                           [] sh = "somenone" -> [lit |-> "Some(None)", val |-> EnumV("Some", << <<"__0", EnumV("None", <<>>)>> >>)]
                           [] sh = "somesome" -> [lit |-> "Some(Some(" \o e(0).lit \o "))",
                                val |-> EnumV("Some", << <<"__0", EnumV("Some", << <<"__0", e(0).val>> >>)>> >>)])
      [] c = "arr0" -> [lit |-> "[]", val |-> SeqV(<<>>)]
      [] c = "arr3" -> [lit |-> "[" \o lits3 \o "]", val |-> SeqV(vals3)]
      [] c = "slice" -> IF sh = "empty" THEN [lit |-> "(&[] as &[" \o n \o "])", val |-> SeqV(<<>>)]
                        ELSE [lit |-> "&*Box::leak(vec![" \o lits3 \o "].into_boxed_slice())", val |-> SeqV(vals3)]
      [] c = "vec"  -> (CASE sh = "empty" -> [lit |-> "Vec::new()", val |-> SeqV(<<>>)]
                         [] sh = "one"   -> [lit |-> "vec![" \o e(0).lit \o "]", val |-> SeqV(<<e(0).val>>)]
                         [] sh = "three" -> [lit |-> "vec![" \o lits3 \o "]", val |-> SeqV(vals3)])
      [] c = "vdq"  -> IF sh = "empty" THEN [lit |-> "VecDeque::new()", val |-> SeqV(<<>>)]
                       ELSE [lit |-> "VecDeque::from(vec![" \o lits3 \o "])", val |-> SeqV(vals3)]
      [] c \in {"hset", "bset"} ->
           LET ctor == IF c = "hset" THEN "HashSet" ELSE "BTreeSet" IN
           IF sh = "empty" THEN [lit |-> ctor \o "::new()", val |-> SetV(<<>>)]
           ELSE [lit |-> ctor \o "::from([" \o lits3 \o "])", val |-> SetV(SelectIdx(vals3, keep))]
      [] c \in {"hmapk", "bmapk"} ->
           LET ctor == IF c = "hmapk" THEN "HashMap" ELSE "BTreeMap" IN
           IF sh = "empty" THEN [lit |-> ctor \o "::new()", val |-> MapV(<<>>)]
           ELSE [lit |-> ctor \o "::from([" \o kvlit(TRUE) \o "])",
                 val |-> MapV(SelectIdx([i \in 1..3 |-> <<vals3[i], u8v(i)>>], keep))]
      [] c \in {"hmapv", "bmapv"} ->
           LET ctor == IF c = "hmapv" THEN "HashMap" ELSE "BTreeMap" IN
           IF sh = "empty" THEN [lit |-> ctor \o "::new()", val |-> MapV(<<>>)]
           ELSE [lit |-> ctor \o "::from([" \o kvlit(FALSE) \o "])", val |-> MapV([i \in 1..3 |-> <<u8v(i), vals3[i]>>])]
      [] c = "box"  -> [lit |-> "Box::new(" \o e(0).lit \o ")", val |-> PtrV(e(0).val)]
      [] c = "rc"   -> [lit |-> "Rc::new(" \o e(0).lit \o ")", val |-> PtrV(e(0).val)]
      [] c = "arc"  -> [lit |-> "Arc::new(" \o e(0).lit \o ")", val |-> PtrV(e(0).val)]
      [] c = "cell" -> [lit |-> "Cell::new(" \o e(0).lit \o ")", val |-> CellV(e(0).val)]
      [] c = "refcell" -> [lit |-> "RefCell::new(" \o e(0).lit \o ")", val |-> CellV(e(0).val)]
      [] c = "ref"  -> [lit |-> leak(e(0).lit), val |-> PtrV(e(0).val)]
      [] c = "rawc" -> IF sh = "null" THEN [lit |-> "std::ptr::null::<" \o n \o ">()", val |-> NullV]
                       ELSE [lit |-> "Box::into_raw(Box::new(" \o e(0).lit \o ")) as *const " \o n, val |-> PtrV(e(0).val)]
      [] c = "rawm" -> [lit |-> "Box::into_raw(Box::new(" \o e(0).lit \o "))", val |-> PtrV(e(0).val)]

Descriptor(T, m) ==
  LET x == V(T, m) IN
  [ty |-> T, rust |-> Name(T), tyname |-> TypeName(T), init |-> x.lit, val |-> x.val, m |-> m,
   depth |-> Depth(T), constok |-> ConstOk(T)]

TypesInit == st \in {[ty |-> Leaf(LeafSeq[i]), d |-> 0] : i \in 1..Len(LeafSeq)}
Wrap(c) == /\ st.d < MaxDepth
           /\ Applicable(c, st.ty)
           /\ st' = [ty |-> Mk(c, st.ty), d |-> st.d + 1]
TypesNext == \E i \in 1..Len(CtorSeq) : Wrap(CtorSeq[i])
TypesEmit == \A m \in 0..(NVar(st.ty) - 1) : PrintT(<<"CASE", ToJson(Descriptor(st.ty, m))>>)

-----------------------------------------------------------------------------
(* COLLECTIONS as abstract state machines                                    *)
RingCap == 4
SeqKinds == {"vec", "vdq"}
KeyKinds == {"hset", "hmap", "bset", "bmap"}
MapKinds == {"hmap", "bmap"}
BulkBase == 10        \* bulk keys are BulkBase+1 .. BulkBase+n

Pad6(n) == (IF n < 10 THEN "00000" ELSE IF n < 100 THEN "0000" ELSE IF n < 1000 THEN "000"
            ELSE IF n < 10000 THEN "00" ELSE IF n < 100000 THEN "0" ELSE "") \o ToString(n)
\* the element a key id stands for, per element type (mirrored by key_<elem>() in the puppet prelude;
\* the program's echo is compared with this)
KeyVal(elem, id) ==
  CASE elem = "i16"    -> IntV("-" \o ToString(id))
    [] elem = "u64"    -> IntV("18446744073709" \o Pad6(id))        \* 18446744073709000000 + id
    [] elem = "String" -> StrV("key" \o ToString(id))
ElemName(elem) == elem
ValV(n) == IntV(ToString(n))       \* map values are u32

CollName(kind, elem) ==
  CASE kind = "vec" -> "Vec<" \o elem \o ">" [] kind = "vdq" -> "VecDeque<" \o elem \o ">"
    [] kind = "hset" -> "HashSet<" \o elem \o ">" [] kind = "bset" -> "BTreeSet<" \o elem \o ">"
    [] kind = "hmap" -> "HashMap<" \o elem \o ", u32>" [] kind = "bmap" -> "BTreeMap<" \o elem \o ", u32>"

NoRing == [buf |-> [i \in 0..(RingCap-1) |-> 0], head |-> 0, len |-> 0, ok |-> FALSE]
Ring0  == [buf |-> [i \in 0..(RingCap-1) |-> 0], head |-> 0, len |-> 0, ok |-> TRUE]

Coll0(kind, elem) ==
  [kind |-> kind, elem |-> elem, seq |-> <<>>, map |-> <<>>, dels |-> 0, nb |-> 0, n |-> 0,
   ring |-> IF kind = "vdq" THEN Ring0 ELSE NoRing]
   \* seq: key ids (vec, vdq);  map: function key id -> value (sets: value 0);  <<>> is the empty function

Op(o, k) == [op |-> o, k |-> k]
Range(a, b) == [i \in 1..(b - a + 1) |-> a + i - 1]
EvenIdx(s) == SelectIdx(s, {i \in 1..Len(s) : i % 2 = 1})

RingPushBack(r, x) == IF ~r.ok \/ r.len = RingCap THEN [r EXCEPT !.ok = FALSE]
                      ELSE [r EXCEPT !.buf[(r.head + r.len) % RingCap] = x, !.len = r.len + 1]
RingPushFront(r, x) == IF ~r.ok \/ r.len = RingCap THEN [r EXCEPT !.ok = FALSE]
                       ELSE LET h == (r.head + RingCap - 1) % RingCap IN [r EXCEPT !.buf[h] = x, !.head = h, !.len = r.len + 1]
RingPopFront(r) == IF ~r.ok \/ r.len = 0 THEN r ELSE [r EXCEPT !.head = (r.head + 1) % RingCap, !.len = r.len - 1]
RingPopBack(r)  == IF ~r.ok \/ r.len = 0 THEN r ELSE [r EXCEPT !.len = r.len - 1]
RingClear(r)    == IF ~r.ok THEN r ELSE [r EXCEPT !.head = 0, !.len = 0]
RingAbs(r)      == [i \in 1..r.len |-> r.buf[(r.head + i - 1) % RingCap]]

MapSet(m, k, v) == [x \in (DOMAIN m) \cup {k} |-> IF x = k THEN v ELSE m[x]]
MapDel(m, k)    == [x \in (DOMAIN m) \ {k} |-> m[x]]

SortedKeys(m) == SeqX!SetToSortSeq(DOMAIN m, LAMBDA a, b : a < b)

(* Apply(s, o): the abstract effect of one operation (guards are in Enabled) *)
Apply(s, o) ==
  LET step == s.n + 1
      s1 == [s EXCEPT !.n = step]
      isMap == s.kind \in MapKinds
  IN
  CASE o.op = "push_back"  -> [s1 EXCEPT !.seq = Append(s.seq, o.k), !.ring = RingPushBack(s.ring, o.k)]
    [] o.op = "push_front" -> [s1 EXCEPT !.seq = <<o.k>> \o s.seq, !.ring = RingPushFront(s.ring, o.k)]
    [] o.op = "pop_back"   -> [s1 EXCEPT !.seq = IF s.seq = <<>> THEN <<>> ELSE SubSeq(s.seq, 1, Len(s.seq) - 1),
                                         !.ring = RingPopBack(s.ring)]
    [] o.op = "pop_front"  -> [s1 EXCEPT !.seq = IF s.seq = <<>> THEN <<>> ELSE Tail(s.seq), !.ring = RingPopFront(s.ring)]
    [] o.op = "truncate"   -> [s1 EXCEPT !.seq = SubSeq(s.seq, 1, Min(o.k, Len(s.seq)))]
    [] o.op = "clear"      -> [s1 EXCEPT !.seq = <<>>, !.map = <<>>, !.dels = 0, !.ring = RingClear(s.ring)]
    [] o.op = "insert"     -> [s1 EXCEPT !.map = MapSet(s.map, o.k, IF isMap THEN step ELSE 0)]
    [] o.op = "remove"     -> [s1 EXCEPT !.map = MapDel(s.map, o.k),
                                         !.dels = IF o.k \in DOMAIN s.map THEN s.dels + 1 ELSE s.dels]
    \* bulk phases
    [] o.op = "fill"       -> IF s.kind \in SeqKinds
                              THEN [s1 EXCEPT !.seq = s.seq \o Range(BulkBase + 1, BulkBase + o.k), !.nb = s.nb + 1,
                                              !.ring = [s.ring EXCEPT !.ok = FALSE]]
                              ELSE [s1 EXCEPT !.map = [x \in (DOMAIN s.map) \cup ((BulkBase+1)..(BulkBase+o.k)) |->
                                                         IF x > BulkBase THEN (IF isMap THEN x ELSE 0) ELSE s.map[x]],
                                              !.nb = s.nb + 1]
    [] o.op = "drop_front" -> [s1 EXCEPT !.seq = SubSeq(s.seq, Min(o.k, Len(s.seq)) + 1, Len(s.seq)), !.nb = s.nb + 1,
                                         !.ring = [s.ring EXCEPT !.ok = FALSE]]
    [] o.op = "del_other"  -> \* delete every other present key (in ascending key order: 1st, 3rd, ...)
                              LET sk == SortedKeys(s.map)
                                  ks == {sk[i] : i \in {j \in 1..Len(sk) : j % 2 = 1}}
                              IN [s1 EXCEPT !.map = [x \in (DOMAIN s.map) \ ks |-> s.map[x]],
                                            !.dels = s.dels + Cardinality(ks), !.nb = s.nb + 1]

SmallOps(kind) ==
  CASE kind = "vec" -> {Op("push_back", k) : k \in 1..NKeys} \cup {Op("pop_back", 0), Op("truncate", 1), Op("clear", 0)}
    [] kind = "vdq" -> {Op("push_back", k) : k \in 1..NKeys} \cup {Op("push_front", k) : k \in 1..NKeys}
                         \cup {Op("pop_front", 0), Op("pop_back", 0), Op("clear", 0)}
    [] OTHER        -> {Op("insert", k) : k \in 1..NKeys} \cup {Op("remove", k) : k \in 1..NKeys} \cup {Op("clear", 0)}
BulkOps(kind) ==
  IF kind \in SeqKinds THEN {Op("fill", 40), Op("fill", 200), Op("drop_front", 20), Op("drop_front", 150)}
  ELSE {Op("fill", 40), Op("fill", 200), Op("del_other", 0)}

Enabled(s, o) ==
  /\ s.n < MaxOps
  /\ o \in BulkOps(s.kind) => s.nb < MaxBulk
  /\ o.op \in {"pop_back", "pop_front", "truncate"} => s.seq # <<>>      \* popping an empty one changes nothing
  /\ o.op = "clear" => (s.seq # <<>> \/ DOMAIN s.map # {})
  /\ o.op = "fill" /\ s.kind \in KeyKinds => \A x \in DOMAIN s.map : x <= BulkBase   \* one fill per table
  /\ o.op = "fill" /\ s.kind \in SeqKinds => Len(s.seq) + o.k <= 300
  /\ o.op = "del_other" => \E x \in DOMAIN s.map : x > BulkBase
  /\ o.op = "drop_front" => Len(s.seq) > o.k
  \* VecDeque: the ring model follows std only while no reallocation happens
  /\ (s.kind = "vdq" /\ s.ring.ok /\ o.op \in {"push_back", "push_front"}) => s.ring.len < RingCap

CollAbs(s) ==
  LET sorted == SortedKeys(s.map) IN
  CASE s.kind \in SeqKinds -> SeqV([i \in 1..Len(s.seq) |-> KeyVal(s.elem, s.seq[i])])
    [] s.kind \in {"hset", "bset"} -> SetV([i \in 1..Len(sorted) |-> KeyVal(s.elem, sorted[i])])
    [] s.kind \in MapKinds -> MapV([i \in 1..Len(sorted) |-> <<KeyVal(s.elem, sorted[i]), ValV(s.map[sorted[i]])>>])

CollDescriptor(s, ops, src) ==
  [kind |-> s.kind, elem |-> s.elem, rust |-> CollName(s.kind, s.elem), tyname |-> CollName(s.kind, s.elem),
   ops |-> ops, val |-> CollAbs(s), src |-> src,
   model |-> [ring_ok |-> s.ring.ok, head |-> s.ring.head, len |-> s.ring.len,
              wrapped |-> s.ring.ok /\ s.ring.head + s.ring.len > RingCap,
              dels |-> s.dels, nb |-> s.nb, size |-> IF s.kind \in SeqKinds THEN Len(s.seq) ELSE Cardinality(DOMAIN s.map)]]

\* scripted sequences (cfg: Scripts <- ScriptsNone | ScriptsShapes | ScriptsR6)
Sc(kind, elem, ops) == [kind |-> kind, elem |-> elem, ops |-> ops]
ScriptsNone == <<>>
\* wrap-around after growth, head near the end, drained tables, deep trees
ScriptsShapes ==
  << Sc("vdq", "i16", <<Op("fill", 40), Op("drop_front", 20), Op("fill", 40)>>),
     Sc("vdq", "String", <<Op("fill", 40), Op("drop_front", 20), Op("fill", 40), Op("push_front", 1), Op("pop_back", 0)>>),
     Sc("vdq", "u64", <<Op("fill", 200), Op("drop_front", 150), Op("fill", 200), Op("drop_front", 150), Op("fill", 40)>>),
     Sc("vec", "String", <<Op("fill", 200), Op("truncate", 1), Op("fill", 40)>>),
     Sc("hmap", "u64", <<Op("fill", 200), Op("del_other", 0), Op("del_other", 0), Op("insert", 1)>>),
     Sc("hset", "String", <<Op("fill", 200), Op("del_other", 0), Op("del_other", 0), Op("del_other", 0)>>),
     Sc("hset", "i16", <<Op("fill", 40), Op("clear", 0), Op("insert", 2)>>),
     Sc("bmap", "i16", <<Op("fill", 200), Op("del_other", 0), Op("del_other", 0), Op("del_other", 0), Op("del_other", 0)>>),
     Sc("bset", "u64", <<Op("fill", 200), Op("del_other", 0), Op("insert", 3), Op("remove", 11)>>),
     Sc("bmap", "String", <<Op("fill", 200), Op("clear", 0), Op("insert", 1)>>) >>
\* R6: lengths / capacities beyond the display guard (LEN_GUARD = CAP_GUARD = 10 000), explored once
ScriptsR6 ==
  << Sc("vec", "u64", <<Op("fill", 10050)>>),
     Sc("vdq", "u64", <<Op("fill", 10050)>>),
     Sc("vdq", "i16", <<Op("fill", 12000), Op("drop_front", 11995)>>),
     Sc("hset", "u64", <<Op("fill", 10050)>>),
     Sc("bmap", "u64", <<Op("fill", 10050)>>) >>

RECURSIVE RunOps(_, _, _)
RunOps(s, ops, i) == IF i > Len(ops) THEN s ELSE RunOps(Apply(s, ops[i]), ops, i + 1)

CollsInit == /\ st \in {Coll0(kd, el) : kd \in Kinds, el \in Elems}
             /\ hist = <<>>
CollsNext == \E o \in SmallOps(st.kind) \cup BulkOps(st.kind) :
               /\ Enabled(st, o)
               /\ st' = Apply(st, o)
               /\ hist' = Append(hist, o)
CollsEmit == PrintT(<<"COLL", ToJson(CollDescriptor(st, hist, "reach"))>>)
\* scripted sequences: evaluated once (ASSUME-like, printed from the initial states' invariant evaluation)
ScriptsEmit == \A i \in 1..Len(Scripts) :
                 LET sc == Scripts[i] IN
                 PrintT(<<"COLL", ToJson(CollDescriptor(RunOps([Coll0(sc.kind, sc.elem) EXCEPT !.ring.ok = FALSE], sc.ops, 1), sc.ops, "script"))>>)

-----------------------------------------------------------------------------
(* DECODER 1: VecDeque ring split, specialization/mod.rs parse_vec_dequeue_inner *)
(*   wrapped_start = if cap == 0 {0} else {head % cap}; head_len = cap - wrapped_start;            *)
(*   ranges = if head_len >= len {(ws..ws+len, 0..0)} else {(ws..cap, 0..len-head_len)};           *)
(*   data = read(cap * el_size); for real_idx in ranges: &data[real_idx*sz .. (real_idx+1)*sz]     *)
VdqRanges(head, len, cap) ==
  LET ws == IF cap = 0 THEN 0 ELSE head % cap
      head_len == cap - ws
  IN IF head_len >= len THEN Range(ws, ws + len - 1)
     ELSE Range(ws, cap - 1) \o Range(0, (len - head_len) - 1)
\* the decoder applied to a ring model: element = buffer content at the real index
DecodeRing(r) == LET idx == VdqRanges(r.head, r.len, RingCap) IN [i \in 1..Len(idx) |-> r.buf[idx[i]]]

VdqConsistent(s) == s.len <= s.cap /\ (s.head < s.cap \/ (s.cap = 0 /\ s.head = 0))
VdqInit == /\ st \in {[head |-> h, len |-> l, cap |-> c, i |-> 0, out |-> <<>>, oob |-> FALSE, done |-> FALSE] :
                        c \in 0..MaxCap, h \in 0..(MaxCap + 1), l \in 0..(MaxCap + 2)}
           /\ hist = <<>>
VdqStep == /\ ~st.done /\ ~st.oob
           /\ LET idx == VdqRanges(st.head, st.len, st.cap) IN
              IF st.i >= Len(idx) THEN st' = [st EXCEPT !.done = TRUE]
              ELSE LET real == idx[st.i + 1] IN
                   IF real + 1 > st.cap             \* slice end beyond the fetched cap*size bytes: panic
                   THEN st' = [st EXCEPT !.oob = TRUE]
                   ELSE st' = [st EXCEPT !.i = st.i + 1, !.out = Append(st.out, real)]
           /\ UNCHANGED hist
\* the abstraction: a ring buffer holds buf[(head+i) mod cap], i < len
VdqAbs(s) == [i \in 1..s.len |-> (s.head + i - 1) % s.cap]
VdqDecoderEqualsAbstraction == (st.done /\ VdqConsistent(st)) => st.out = VdqAbs(st)
VdqConsistentNeverOob == VdqConsistent(st) => ~st.oob
VdqNoOutOfBounds == ~st.oob          \* expected to FAIL for inconsistent (garbage) headers: the C08 clause

-----------------------------------------------------------------------------
(* DECODER 2: hashbrown control-byte scan, specialization/hashbrown.rs BucketIterator::next     *)
(* Group width abstracted to HbW = 4.  Control bytes: "E" (0xFF), "D" (0x80), "F" (top bit 0).  *)
(* Element i lives at data_end - (i+1)*size: addresses are negative offsets in units of size.   *)
HbW == 4
\* the n + HbW control bytes hashbrown keeps for n buckets (trailing bytes mirror the first group;
\* for tables smaller than a group the gap is EMPTY)
HbFull(ctrl, n) ==
  [p \in 0..(n + HbW - 1) |->
     IF p < n THEN ctrl[p]
     ELSE IF n < HbW THEN (IF p < HbW THEN "E" ELSE ctrl[p - HbW])
     ELSE ctrl[p - n]]
\* GroupReflection::load(ptr).match_empty_or_deleted().invert(): bit j set iff byte j is FULL
HbFullBits(full, p) == {j \in 0..(HbW - 1) : full[p + j] = "F"}
HbElemAddr(i) == 0 - (i + 1)
HbInit == /\ st \in UNION {{[n |-> n, ctrl |-> c, data |-> 0, cur |-> HbFullBits(HbFull(c, n), 0), nextctrl |-> HbW,
                             out |-> <<>>, done |-> FALSE] : c \in [0..(n-1) -> {"E", "D", "F"}]} : n \in HbBuckets}
          /\ hist = <<>>
\* one pass of the `loop` in next(): yield / finish / advance to the next group
HbYield == /\ ~st.done /\ st.cur # {}
           /\ LET index == CHOOSE j \in st.cur : \A x \in st.cur : j <= x        \* lowest_set_bit
                  bucket == st.data - index                                      \* data.next_n(index): ptr.sub(index*size)
                  loc    == bucket - 1                                           \* location(): ptr.sub(size)
              IN st' = [st EXCEPT !.cur = st.cur \ {index}, !.out = Append(st.out, loc)]
           /\ UNCHANGED hist
HbFinish == /\ ~st.done /\ st.cur = {} /\ st.nextctrl >= st.n                    \* next_ctrl >= end
            /\ st' = [st EXCEPT !.done = TRUE] /\ UNCHANGED hist
HbAdvance == /\ ~st.done /\ st.cur = {} /\ st.nextctrl < st.n
             /\ st' = [st EXCEPT !.cur = HbFullBits(HbFull(st.ctrl, st.n), st.nextctrl),
                                 !.data = st.data - HbW,                         \* data.next_n(Group::WIDTH)
                                 !.nextctrl = st.nextctrl + HbW]
             /\ UNCHANGED hist
HbNext == HbYield \/ HbFinish \/ HbAdvance
HbAbs(s) == {HbElemAddr(i) : i \in {x \in 0..(s.n - 1) : s.ctrl[x] = "F"}}
HbOutSet(s) == {s.out[i] : i \in 1..Len(s.out)}
HbDecoderEqualsAbstraction ==
  /\ HbOutSet(st) \subseteq HbAbs(st)                                            \* nothing invented (never a tombstone)
  /\ Cardinality(HbOutSet(st)) = Len(st.out)                                     \* nothing duplicated
  /\ st.done => HbOutSet(st) = HbAbs(st)                                         \* nothing missing
HbReadsInsideAllocation == st.nextctrl <= st.n + HbW

-----------------------------------------------------------------------------
(* DECODER 3: B-tree leaf-edge walk, specialization/btree.rs KVIterator::next                   *)
(* A node is [n |-> number of keys, ch |-> <<children>>] (leaf: ch = <<>>); a node is addressed *)
(* by its path from the root (1-based edge numbers); parent/parent_idx are what std maintains. *)
RECURSIVE BtTrees(_)
BtTrees(h) ==     \* all subtrees of height h with 1..2 keys per node (fan-out <= 3)
  IF h = 0 THEN {[n |-> k, ch |-> <<>>] : k \in 1..2}
  ELSE UNION {{[n |-> m - 1, ch |-> cs] : cs \in [1..m -> BtTrees(h - 1)]} : m \in 2..3}
BtRoots == {[n |-> 0, ch |-> <<>>]} \cup UNION {BtTrees(h) : h \in 0..(BtLevels - 1)}
RECURSIVE BtHeight(_)
BtHeight(t) == IF t.ch = <<>> THEN 0 ELSE 1 + BtHeight(t.ch[1])
RECURSIVE BtNode(_, _)
BtNode(t, path) == IF path = <<>> THEN t ELSE BtNode(t.ch[Head(path)], Tail(path))
RECURSIVE BtLeftmost(_, _)
BtLeftmost(t, path) == IF BtNode(t, path).ch = <<>> THEN path ELSE BtLeftmost(t, Append(path, 1))   \* edges[0] down to a leaf
\* the abstraction: in-order traversal, keys identified by (path of node, index in node)
RECURSIVE BtInOrder(_, _)
BtInOrder(t, path) ==
  LET nd == BtNode(t, path) IN
  IF nd.ch = <<>> THEN [i \in 1..nd.n |-> <<path, i - 1>>]
  ELSE LET F[i \in 0..nd.n] == IF i = 0 THEN BtInOrder(t, Append(path, 1))
                               ELSE F[i-1] \o << <<path, i - 1>> >> \o BtInOrder(t, Append(path, i + 1))
       IN F[nd.n]
BtInit == /\ st \in {[tree |-> t, path |-> <<>>, idx |-> 0, started |-> FALSE, out |-> <<>>, done |-> FALSE] : t \in BtRoots}
          /\ hist = <<>>
\* first call: handle = root.first_leaf_edge()
BtStart == /\ ~st.started
           /\ st' = [st EXCEPT !.started = TRUE, !.path = BtLeftmost(st.tree, <<>>), !.idx = 0]
           /\ UNCHANGED hist
\* !is_right_kv(): try_ascend -> (parent, parent_idx) or end
BtAscend == /\ st.started /\ ~st.done /\ st.idx >= BtNode(st.tree, st.path).n
            /\ IF st.path = <<>> THEN st' = [st EXCEPT !.done = TRUE]
               ELSE st' = [st EXCEPT !.path = SubSeq(st.path, 1, Len(st.path) - 1), !.idx = st.path[Len(st.path)] - 1]
            /\ UNCHANGED hist
\* is_right_kv(): yield data(), then next_leaf_edge()
BtYield == /\ st.started /\ ~st.done /\ st.idx < BtNode(st.tree, st.path).n
           /\ LET nd == BtNode(st.tree, st.path)
                  out2 == Append(st.out, <<st.path, st.idx>>)
              IN IF nd.ch = <<>>
                 THEN st' = [st EXCEPT !.out = out2, !.idx = st.idx + 1]
                 ELSE st' = [st EXCEPT !.out = out2, !.idx = 0,
                                       !.path = BtLeftmost(st.tree, Append(st.path, (st.idx + 1) + 1))]  \* edges[idx+1], then edges[0]...
           /\ UNCHANGED hist
BtNext == BtStart \/ BtAscend \/ BtYield
BtIsPrefix(a, b) == Len(a) <= Len(b) /\ a = SubSeq(b, 1, Len(a))
BtDecoderEqualsAbstraction ==
  LET want == BtInOrder(st.tree, <<>>) IN
  /\ BtIsPrefix(st.out, want)                 \* order kept, nothing invented or duplicated
  /\ st.done => st.out = want                 \* nothing missing

-----------------------------------------------------------------------------
Init == CASE Mode = "types" -> TypesInit /\ hist = <<>>
          [] Mode = "colls" -> CollsInit
          [] Mode = "vdq"   -> VdqInit
          [] Mode = "hb"    -> HbInit
          [] Mode = "bt"    -> BtInit
Next == CASE Mode = "types" -> TypesNext /\ UNCHANGED hist
          [] Mode = "colls" -> CollsNext
          [] Mode = "vdq"   -> VdqStep
          [] Mode = "hb"    -> HbNext
          [] Mode = "bt"    -> BtNext
Spec == Init /\ [][Next]_vars

View == IF Mode = "colls" /\ History THEN <<st, hist>> ELSE st

Emit == CASE Mode = "types" -> TypesEmit
          [] Mode = "colls" -> CollsEmit /\ (hist = <<>> /\ st.kind = (CHOOSE kd \in Kinds : TRUE) /\ st.elem = (CHOOSE el \in Elems : TRUE) => ScriptsEmit)
          [] OTHER -> TRUE

\* reachable VecDeque rings: the decoder transcription agrees with the abstract sequence, and the
\* ring model itself refines the sequence
CollsDecoderEqualsAbstraction ==
  (Mode = "colls" /\ st.kind = "vdq" /\ st.ring.ok) =>
     /\ RingAbs(st.ring) = st.seq
     /\ DecodeRing(st.ring) = st.seq

DecoderEqualsAbstraction ==
  CASE Mode = "vdq" -> VdqDecoderEqualsAbstraction /\ VdqConsistentNeverOob
    [] Mode = "hb"  -> HbDecoderEqualsAbstraction /\ HbReadsInsideAllocation
    [] Mode = "bt"  -> BtDecoderEqualsAbstraction
    [] Mode = "colls" -> CollsDecoderEqualsAbstraction
    [] OTHER -> TRUE
NoOutOfBounds == Mode = "vdq" => VdqNoOutOfBounds
=============================================================================

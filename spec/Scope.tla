------------------------------- MODULE Scope -------------------------------
(***************************************************************************)
(* C19 - lexical scope and name resolution, written down declaratively     *)
(* from the property text.  Pure operators over a block tree B and a       *)
(* variable table V (both passed explicitly, so that the same operators    *)
(* are model-checked over all small synthetic trees in ScopeMC.tla and     *)
(* evaluated over the independently decoded DWARF of a real puppet binary  *)
(* in TraceScope.tla).                                                     *)
(*                                                                         *)
(*   B[b] = [parent, fn, ranges, kind]   parent = 0: the subprogram itself *)
(*          ranges = << <<lo, hi>>, .. >> half-open pc ranges              *)
(*   V[v] = [name, block, decl, kind, ..] kind \in {"param", "local"}      *)
(*                                                                         *)
(* "list the variables and parameters that are in lexical scope at the     *)
(*  current location ... and none that are declared later or in sibling    *)
(*  blocks":  a binding is in scope at pc iff EVERY block that encloses    *)
(*  its declaration, up to and including the subprogram, contains pc.      *)
(*  (rustc opens a new DW_TAG_lexical_block after each `let`, beginning    *)
(*  after the initialiser: a variable declared later sits in a block that  *)
(*  has not begun, a sibling's variable in a block that does not contain   *)
(*  pc.)                                                                   *)
(* "a name that has been shadowed resolves to its innermost live binding": *)
(*  among the in-scope bindings of the name the one in the deepest block;  *)
(*  among bindings of the same block the one declared last.                *)
(***************************************************************************)
EXTENDS Integers, Sequences, FiniteSets

InRanges(pc, rs) == \E r \in 1..Len(rs) : rs[r][1] <= pc /\ pc < rs[r][2]

RECURSIVE Anc(_, _), Depth(_, _)
\* the block and all blocks enclosing it
Anc(B, b)   == IF b = 0 THEN {} ELSE {b} \cup Anc(B, B[b].parent)
Depth(B, b) == IF b = 0 THEN 0 ELSE 1 + Depth(B, B[b].parent)

\* every enclosing block contains pc
Live(B, b, pc) == \A a \in Anc(B, b) : InRanges(pc, B[a].ranges)

\* the bindings (indices into V) in lexical scope at pc
InScope(B, V, pc) == {v \in 1..Len(V) : Live(B, V[v].block, pc)}
InScopeKind(B, V, pc, kind) == {v \in InScope(B, V, pc) : V[v].kind = kind}

\* v is at least as "inner" as u
Inner(B, V, v, u) ==
  \/ Depth(B, V[v].block) > Depth(B, V[u].block)
  \/ Depth(B, V[v].block) = Depth(B, V[u].block) /\ (V[v].decl > V[u].decl \/ (V[v].decl = V[u].decl /\ v >= u))

\* the innermost live local binding of a name, 0 if the name is not in scope
Resolve(B, V, name, pc) ==
  LET c == {v \in InScopeKind(B, V, pc, "local") : V[v].name = name}
  IN IF c = {} THEN 0 ELSE CHOOSE v \in c : \A u \in c : Inner(B, V, v, u)

\* the subprogram (root block) whose code contains pc, 0 if none
FnAt(B, pc) ==
  LET c == {b \in 1..Len(B) : B[b].parent = 0 /\ InRanges(pc, B[b].ranges)}
  IN IF c = {} THEN 0 ELSE CHOOSE b \in c : TRUE

\* why a binding u is NOT in scope at pc (class vocabulary of the property)
StartOf(rs) == IF Len(rs) = 0 THEN 0 ELSE
               LET S == {rs[r][1] : r \in 1..Len(rs)} IN CHOOSE m \in S : \A n \in S : m <= n
OutClass(B, V, u, pc) ==
  LET b == V[u].block
      p == B[b].parent
  IN IF FnAt(B, pc) # B[b].fn THEN "out_of_scope_variable_listed"             \* another function's binding
     ELSE IF (p = 0 \/ Live(B, p, pc)) /\ pc < StartOf(B[b].ranges) THEN "declared_later_listed"
     ELSE "sibling_block_variable_listed"                                     \* a block that is not open at pc

---------------------------------------------------------------------------
(* Design-level models of die_ref.rs, compared with the reference by TLC    *)
(* in ScopeMC (informational; the verdict about the code comes from traces) *)

\* die_ref.rs:231 valid_at: only the NEAREST enclosing block's ranges are consulted
ImplValid(B, V, v, pc) == InRanges(pc, B[V[v].block].ranges)
ImplListed(B, V, pc, f) == {v \in 1..Len(V) : V[v].kind = "local" /\ B[V[v].block].fn = f /\ ImplValid(B, V, v, pc)}
\* die_ref.rs:328 local_variable: walk of the function's DIE subtree, the FIRST valid DIE with the name wins;
\* outer DIEs come before the DIEs nested in them (table order = DIE order)
ImplResolve(B, V, name, pc, f) ==
  LET c == {v \in ImplListed(B, V, pc, f) : V[v].name = name}
  IN IF c = {} THEN 0 ELSE CHOOSE v \in c : \A u \in c : v <= u

=============================================================================

\* C18 / Reloc.tla -- (E) PREDICTION: rule "early" as written in the code, the other rules repaired.
\* TLC is expected to report a violated invariant here; the binding decides on the real debugger.
CONSTANTS
    ExeModes = {"pie", "nopie"}
    LibModes = {"startup", "dlopen"}
    SessModes = {"launch", "attach_pre", "attach_mid"}
    LibBiases = {300, 400}
    LibBases = {0, 60}
    Kinds = {"fn", "line", "addr"}
    MaxReq = 2
    OffsetRule = "bias"
    ReloadRule = "rearm"
    EarlyAddrRule = "drop"
    AttachRule = "rbrk"
    ReqPlan = "free"
    Emit = "none"
SPECIFICATION Spec
INVARIANTS RefSane InstalledAtTrueAddress ActiveWhenMapped SharedLibsAreMapped StopsWhereRequested NeverLost

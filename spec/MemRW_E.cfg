\* C15 / MemRW.tla -- (E) quick: word 4, arena 3 words + unmapped neighbours, all (a,n,data) n<=9, histories of 2 ops; everything that must hold
CONSTANTS
    W = 4
    Lo = 4
    Hi = 16
    MaxN = 9
    MaxOps = 2
    OpKinds = {"R", "WB", "WW"}
    DataKinds = {"pat", "inv"}
    ReadVariant = "tail"
    Emit = "none"
    Regs = {}
    InitMem = "pattern"
    DisVariant = "masked"
SPECIFICATION SpecMem
VIEW View
INVARIANTS MemoryMatchesSpec UnmappedNeverChanges
PROPERTIES WritesMeetSpec NeighboursUntouched FixedReadsMeetSpec

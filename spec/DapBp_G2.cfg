CONSTANTS
  Lines = {1, 2, 3}
  NoCode = {9}
  Places <- cPlaces
  FirstPlace <- cFirst
  AltFirst <- cAltFirst
  CondLines = {3}
  FnPlaces <- cFnPlaces
  InsnOk = {50}
  InsnBogus = {99}
  Exec <- cExec
  Loc <- cLoc
  HotPos = {6}
  IterAt <- cIterAt
  DataKnown = {"w"}
  DataUnknown = {"nosuch"}
  Sw <- cSw
SPECIFICATION SpecG

CONSTANTS
  WritePos = {}
  HwDelivers = FALSE
  MaxReq = 6
  Alphabet = "focus"
  Cfgs = {"asw", "asw_b", "kindless", "all", "all_b", "rfilter", "bareident", "insnchk"}
  Emit = TRUE
  TwoPhase = TRUE

---------------------------- MODULE ScopeSession ----------------------------
(* Mode (G) for C19: the command histories of Session.tla (break / continue / step / next / finish /
   stepi over the recorded execution X) extended with `frame k` for every k over the live call depth of
   the current position.  The driver observes `var locals`, `arg all` and `var <name>` after every stop
   and after every `frame k`; TraceScope.tla judges the observations. *)
EXTENDS Session

VARIABLE fsel          \* the frame in focus (0 after every stop)
svars == <<vars, fsel>>
SView == <<View, fsel>>

SInit == Init /\ fsel = 0
MaxDepth == MaxOf({X[j].d : j \in 1..N})
\* frames 0..D(i) are the activations of user code at position i (main has depth 0)
FrameCmd(k) == /\ i \in 1..N /\ i < TailPos
               /\ k \in 0..D(i) /\ k # fsel
               /\ fsel' = k
               /\ hist' = Append(hist, [cmd |-> "frame", k |-> k, at |-> i]) /\ ncmd' = ncmd + 1
               /\ UNCHANGED <<i, ubp, nbk, sg>>
SNext == \/ Next /\ fsel' = 0
         \/ ncmd < MaxCmd /\ \E k \in 0..MaxDepth : FrameCmd(k)
SSpec == SInit /\ [][SNext]_svars

STypeOK == TypeOK /\ fsel \in 0..MaxDepth /\ (i \in 1..N => fsel <= D(i))
=============================================================================

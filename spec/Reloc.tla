-------------------------------- MODULE Reloc --------------------------------
(***************************************************************************)
(* C18 -- "Code is found wherever it is loaded".                           *)
(*                                                                         *)
(* GROUND TRUTH (loader + program).  Objects exe, lib, libc have link-time *)
(* addresses; the loader picks a load bias for each (PIE executable: non   *)
(* zero; non-PIE executable: 0, its lowest PT_LOAD vaddr is LB, standing   *)
(* for 0x400000; libraries: any of LibBiases, chosen again at every        *)
(* dlopen).  EVERY object has a link base (lowest PT_LOAD vaddr): 0 for    *)
(* PIE and ordinary shared objects, LB for the non-PIE executable, and     *)
(* cfg.lbase in LibBases for the library (a shared object may be linked at *)
(* a non-zero base).  bias = mapping start - link base; true run-time      *)
(* address of a location = link address + bias.                            *)
(* The program is one of two straight-line puppets (Prog): lib linked at   *)
(* start-up, or dlopen / call / dlclose / dlopen / call / dlclose.         *)
(*                                                                         *)
(* REFERENCE (what the property demands, written without looking at the    *)
(* code).  A request {fn, line} names a location of an object; a request   *)
(* {addr} names an absolute address.  At every prompt after start a        *)
(* request is ACTIVE iff its location is mapped, at link + TRUE bias        *)
(* (RefActive, RefAddr).  Resuming stops at the first executed location    *)
(* that some request denotes (Demanded).  SharedLibs = mapped objects.     *)
(*                                                                         *)
(* IMPLEMENTATION MODEL (transcribed from the code; variable impl):             *)
(*   registry refresh          debugee/mod.rs:288-361, registry.rs:73-131  *)
(*   mapping offset            registry.rs:115  (start of the first mapping)*)
(*   Global <-> Relocated      address.rs:18,79 ; breakpoint.rs:874-914    *)
(*   requests                  breakpoint.rs:73-103, 129-207, 277-354      *)
(*   deferred retry at r_brk   mod.rs:628-633, breakpoint.rs:453-478       *)
(*   entry: enable_all         mod.rs:591-627, breakpoint.rs:1123-1140     *)
(* Four rules select "as written" or a candidate repair:                   *)
(*   OffsetRule    "first_mapping_start" | "main_only" (link base subtracted *)
(*                 for the executable only) | "bias" (start - link base)   *)
(*   ReloadRule    "forget" (a request satisfied once is never re-armed    *)
(*                 after its library was unmapped) | "rearm"               *)
(*   EarlyAddrRule "drop" (an address request made before start whose      *)
(*                 address is unmapped at entry is dropped) | "defer"      *)
(*   AttachRule    "no_rbrk" (an attached session never installs the r_brk *)
(*                 breakpoint) | "rbrk"                                    *)
(* With all four repaired the implementation model satisfies every         *)
(* invariant (cfg Reloc_F).  With the rules as written TLC produces the    *)
(* counterexamples (cfgs Reloc_W_xx): these are PREDICTIONS; the verdict of  *)
(* the check always compares the real debugger with the REFERENCE values   *)
(* printed by the generation run (cfg Reloc_G, _GA).                           *)
(***************************************************************************)
EXTENDS Integers, Sequences, FiniteSets, TLC, Json

CONSTANTS
    ExeModes,       \* subset of {"pie", "nopie"}
    LibModes,       \* subset of {"startup", "dlopen"}
    SessModes,      \* subset of {"launch", "attach_pre", "attach_mid"}
    LibBiases,      \* biases the loader may pick for lib (each load picks again)
    LibBases,       \* link bases of lib: 0 (ordinary shared object) and/or LBlib = 60 (linked at a non-zero base)
    Kinds,          \* subset of {"fn", "line", "addr"}
    MaxReq,         \* number of breakpoint requests per session
    OffsetRule, ReloadRule, EarlyAddrRule, AttachRule,
    ReqPlan,        \* "free": any request at any prompt | "anchor" (generation only): the first request is a line
                    \* request on the executable (it creates the prompt), later ones go to the library or stage_reopened
    Emit            \* "none" | "scn": print every complete session with the reference's expectations

NONE == -1
Objs == {"exe", "lib", "libc"}
Size == 20                  \* every object occupies [start, start + Size)
LB   == 40                  \* lowest PT_LOAD vaddr of the non-PIE executable
ExeBias(em)  == IF em = "pie" THEN 100 ELSE 0
LibcBias     == 500


ExeFns == <<"stage_pre", "stage_mid", "stage_closed", "stage_reopened">>
LibFns == <<"lib_add", "lib_inner">>
FnsOf(o) == IF o = "exe" THEN ExeFns ELSE IF o = "lib" THEN LibFns ELSE <<>>
Targets == {<<"exe", ExeFns[i]>> : i \in 1..4} \cup {<<"lib", LibFns[i]>> : i \in 1..2}
FnIdx(o, f) == CHOOSE i \in 1..Len(FnsOf(o)) : FnsOf(o)[i] = f

\* a location: <<object, function, "fn" (where a function breakpoint lands) | "ln" (the marked body line)>>
\* offset 1 of the executable is its entry point
LinkOff(loc) == 2 * FnIdx(loc[1], loc[2]) + (IF loc[3] = "ln" THEN 1 ELSE 0)

(***************************************************************************)
(* The puppets (puppets/c18/c18s.rs, c18d.rs + lib1.rs), statement by      *)
(* statement.  call = which of the two calls of lib_add is running.        *)
(***************************************************************************)
V(o, f, call) == << [t |-> "visit", loc |-> <<o, f, "fn">>, call |-> call],
                    [t |-> "visit", loc |-> <<o, f, "ln">>, call |-> call] >>
LibCall(n) == << [t |-> "visit", loc |-> <<"lib", "lib_add", "fn">>, call |-> n],
                 [t |-> "visit", loc |-> <<"lib", "lib_add", "ln">>, call |-> n] >>
              \o V("lib", "lib_inner", n)
Stmt(t) == << [t |-> t, loc |-> <<>>, call |-> 0] >>

Prog(lm) ==
    IF lm = "dlopen"
    THEN Stmt("gate_pre") \o V("exe", "stage_pre", 0) \o Stmt("open") \o Stmt("gate_mid") \o V("exe", "stage_mid", 0)
         \o LibCall(1) \o Stmt("close") \o V("exe", "stage_closed", 0) \o Stmt("open")
         \o V("exe", "stage_reopened", 0) \o LibCall(2) \o Stmt("close") \o Stmt("exit")
    ELSE Stmt("gate_pre") \o V("exe", "stage_pre", 0) \o Stmt("gate_mid") \o V("exe", "stage_mid", 0)
         \o LibCall(1) \o V("exe", "stage_closed", 0) \o V("exe", "stage_reopened", 0) \o LibCall(2) \o Stmt("exit")

\* call stack (innermost first) and the arguments the library functions hold
StackOf(loc) == IF loc[2] = "lib_inner" THEN <<"lib_inner", "lib_add", "main">> ELSE <<loc[2], "main">>
ArgsOf(loc, call) ==
    IF loc[2] = "lib_add" THEN (IF call = 1 THEN <<<<"a", 20>>, <<"b", 22>>>> ELSE <<<<"a", 31>>, <<"b", 12>>>>)
    ELSE IF loc[2] = "lib_inner" THEN (IF call = 1 THEN <<<<"x", 42>>>> ELSE <<<<"x", 43>>>>)
    ELSE <<>>

VARIABLES
    cfg,        \* [exe, lib, sess]
    bias,       \* ground truth: [Objs -> bias or NONE (not mapped)]
    ip,         \* next statement of Prog (0: not yet exec'ed)
    phase,      \* "prompt" | "run" | "done" | "lost"
    started,    \* the process has passed its entry point under the debugger (or was attached)
    reqs,       \* the user's requests, in order
    impl,       \* implementation model: [files, moff, rstart, uninit, active, deferred, patched, rbrk]
    flags,      \* divergences of the implementation model from the reference noticed so far
    hist        \* the session so far with the reference's expectations (emitted)

vars == <<cfg, bias, ip, phase, started, reqs, impl, flags, hist>>

EM == cfg.exe

\* link base (lowest PT_LOAD vaddr) of EVERY object: PIE executable 0, non-PIE executable LB; the library is an
\* ordinary shared object linked at 0 or one linked at a non-zero base cfg.lbase (-Ttext-segment / prelink)
FirstVaddr(o) == IF o = "exe" THEN (IF cfg.exe = "nopie" THEN LB ELSE 0) ELSE IF o = "lib" THEN cfg.lbase ELSE 0
Link(loc) == FirstVaddr(loc[1]) + LinkOff(loc)
EntryLink == FirstVaddr("exe") + 1

\* -------------------------------------------------------------------------------------------
\* ground truth helpers
\* -------------------------------------------------------------------------------------------
Mapped(b, o) == b[o] # NONE
StartOf(b, o) == b[o] + FirstVaddr(o)                     \* start of the first mapping of o
InObj(b, o, a) == Mapped(b, o) /\ a >= StartOf(b, o) /\ a < StartOf(b, o) + Size
IsMappedAddr(b, a) == \E o \in Objs : InObj(b, o, a)
MappedObjs(b) == {o \in Objs : Mapped(b, o)}
LocsOf(o) == {<<o, FnsOf(o)[i], v>> : i \in 1..Len(FnsOf(o)), v \in {"fn", "ln"}}
AllLocs == UNION {LocsOf(o) : o \in Objs}
TrueAddr(b, loc) == Link(loc) + b[loc[1]]

\* -------------------------------------------------------------------------------------------
\* REFERENCE
\* -------------------------------------------------------------------------------------------
ReqLoc(r) == <<r.obj, r.fn, IF r.kind = "fn" THEN "fn" ELSE "ln">>
\* the location a request denotes under the present biases (<<>> if none)
Denoted(b, r) ==
    IF r.kind # "addr"
    THEN (IF Mapped(b, r.obj) THEN ReqLoc(r) ELSE <<>>)
    ELSE LET c == {l \in AllLocs : Mapped(b, l[1]) /\ TrueAddr(b, l) = r.abs}
         IN IF c = {} THEN <<>> ELSE CHOOSE l \in c : TRUE
RefActive(b, r) == started /\ Denoted(b, r) # <<>>
RefAddr(b, r)   == IF r.kind = "addr" THEN r.abs ELSE TrueAddr(b, ReqLoc(r))
Demanded(b, loc) == \E i \in 1..Len(reqs) : Denoted(b, reqs[i]) = loc
RefViews(b) == {[rid |-> i, loc |-> Denoted(b, reqs[i])] : i \in {j \in 1..Len(reqs) : RefActive(b, reqs[j])}}

\* -------------------------------------------------------------------------------------------
\* IMPLEMENTATION MODEL
\* -------------------------------------------------------------------------------------------
MOff(b, o) == IF OffsetRule = "first_mapping_start" THEN StartOf(b, o)
              ELSE IF OffsetRule = "main_only" THEN (IF o = "exe" THEN b[o] ELSE StartOf(b, o))
              ELSE b[o]

\* registry.rs update_mappings for the objects in fs (only those that have a mapping get an offset)
Remap(I, b, fs) ==
    [I EXCEPT !.files = fs,
              !.moff = [o \in Objs |-> IF o \in fs /\ Mapped(b, o) THEN MOff(b, o) ELSE NONE],
              !.rstart = [o \in Objs |-> IF o \in fs /\ Mapped(b, o) THEN StartOf(b, o) ELSE NONE]]

FindRange(I, a) == {o \in I.files : I.rstart[o] # NONE /\ a >= I.rstart[o] /\ a <= I.rstart[o] + Size}

\* address where the implementation would put request r now (NONE: refused)
PlaceFor(I, b, r) ==
    IF r.kind # "addr"
    THEN (IF r.obj \in I.files /\ I.moff[r.obj] # NONE THEN Link(ReqLoc(r)) + I.moff[r.obj] ELSE NONE)
    ELSE LET os == FindRange(I, r.abs)
         IN IF os = {} THEN NONE
            ELSE LET o == CHOOSE x \in os : TRUE
                     g == r.abs - I.moff[o]
                 IN IF g >= FirstVaddr(o) /\ g < FirstVaddr(o) + Size THEN g + I.moff[o] ELSE NONE

\* add_and_enable: POKE the INT3 (EIO if the address is not mapped)
CanSet(I, b, r) == PlaceFor(I, b, r) # NONE /\ IsMappedAddr(b, PlaceFor(I, b, r))
Enable(I, rid, a, o) ==
    \* (the code replaces an entry at the same address, breakpoint.rs:1016; the model keeps every request's
    \*  entry: which number survives is not observable through the address-based comparison)
    [I EXCEPT !.active = I.active \cup {[rid |-> rid, addr |-> a, obj |-> o]},
              !.patched = I.patched \cup {a}]
ObjAt(b, a) == IF IsMappedAddr(b, a) THEN CHOOSE o \in Objs : InObj(b, o, a) ELSE "none"

RECURSIVE SetAll(_, _, _)
\* try to set each request of the set rs (in any order: they are independent); returns the new I
SetAll(I, b, rs) ==
    IF rs = {} THEN I
    ELSE LET i == CHOOSE x \in rs : TRUE
             r == reqs[i]
             a == PlaceFor(I, b, r)
         IN SetAll(IF CanSet(I, b, r) THEN Enable([I EXCEPT !.deferred = @ \ {i}], i, a, ObjAt(b, a)) ELSE I, b, rs \ {i})

\* the r_brk breakpoint fired with the link map consistent: update_debug_info_registry + refresh_deferred
RbrkRefresh(I, b) ==
    LET fs == MappedObjs(b)
        I1 == Remap(I, b, fs)
        gone == {v \in I1.active : v.obj \notin fs}
        I2 == IF ReloadRule = "rearm"
              THEN [I1 EXCEPT !.active = @ \ gone, !.deferred = @ \cup {v.rid : v \in gone}]
              ELSE I1
    IN SetAll(I2, b, I2.deferred)

\* a request made at a prompt (set_breakpoint_at_*; refused -> add_deferred_at_*)
ImplRequest(I, b, i, r) ==
    IF ~started
    THEN IF r.kind = "addr"
         THEN [I EXCEPT !.uninit = @ \cup {[rid |-> i, g |-> FALSE, a |-> r.abs, obj |-> "none"]}]
         ELSE IF r.obj \in I.files
              THEN [I EXCEPT !.uninit = @ \cup {[rid |-> i, g |-> TRUE, a |-> Link(ReqLoc(r)), obj |-> r.obj]}]
              ELSE [I EXCEPT !.deferred = @ \cup {i}]
    ELSE IF CanSet(I, b, r) THEN Enable(I, i, PlaceFor(I, b, r), ObjAt(b, PlaceFor(I, b, r)))
         ELSE [I EXCEPT !.deferred = @ \cup {i}]

\* entry point reached: rendezvous, registry refresh, enable_all_breakpoints, r_brk breakpoint
RECURSIVE EnableUninit(_, _, _)
EnableUninit(I, b, us) ==
    IF us = {} THEN I
    ELSE LET u == CHOOSE x \in us : TRUE
             r == reqs[u.rid]
             a == PlaceFor(I, b, r)
             ok == CanSet(I, b, r)
             I1 == IF ok THEN Enable(I, u.rid, a, ObjAt(b, a))
                   ELSE IF ~u.g /\ EarlyAddrRule = "defer" THEN [I EXCEPT !.deferred = @ \cup {u.rid}]
                   ELSE I                                     \* error printed, request gone
         IN EnableUninit(I1, b, us \ {u})

AtEntry(I, b) ==
    LET I1 == Remap(I, b, MappedObjs(b))
        I2 == EnableUninit([I1 EXCEPT !.uninit = {}], b, I1.uninit)
    IN [I2 EXCEPT !.rbrk = TRUE]

\* DebugeeStart: update_mappings(only_main) and the entry-point breakpoint (EIO => the session is lost)
EntryBpOk(b) == IsMappedAddr(b, EntryLink + MOff(b, "exe"))

\* -------------------------------------------------------------------------------------------
\* the session
\* -------------------------------------------------------------------------------------------
I0 == [files |-> {}, moff |-> [o \in Objs |-> NONE], rstart |-> [o \in Objs |-> NONE], uninit |-> {},
       active |-> {}, deferred |-> {}, patched |-> {}, rbrk |-> FALSE]
NoBias == [o \in Objs |-> NONE]
GateIdx(lm, g) == CHOOSE k \in 1..Len(Prog(lm)) : Prog(lm)[k].t = g

Init ==
    /\ cfg \in [exe : ExeModes, lib : LibModes, sess : SessModes, lbase : LibBases]
    /\ reqs = <<>>
    /\ flags = {}
    /\ hist = <<>>
    /\ phase = "prompt"
    /\ IF cfg.sess = "launch"
       THEN /\ bias = NoBias
            /\ ip = 0
            /\ started = FALSE
            \* ldd: the executable and its DT_NEEDED closure are known before start
            /\ impl = [I0 EXCEPT !.files = {"exe", "libc"} \cup (IF cfg.lib = "startup" THEN {"lib"} ELSE {})]
       ELSE \E lb \in LibBiases :
            LET mid == cfg.sess = "attach_mid"
                b == [o \in Objs |-> IF o = "exe" THEN ExeBias(cfg.exe) ELSE IF o = "libc" THEN LibcBias
                                     ELSE IF cfg.lib = "startup" \/ mid THEN lb ELSE NONE]
                fs == {o \in Objs : b[o] # NONE}
            IN /\ bias = b
               /\ ip = GateIdx(cfg.lib, IF mid THEN "gate_mid" ELSE "gate_pre") + 1
               /\ started = TRUE
               /\ impl = [I0 EXCEPT !.files = fs,
                                    !.moff = [o \in Objs |-> IF o \in fs THEN MOff(b, o) ELSE NONE],
                                    !.rstart = [o \in Objs |-> IF o \in fs THEN b[o] + FirstVaddr(o) ELSE NONE],
                                    !.rbrk = (AttachRule = "rbrk")]

\* what the reference expects the user to see at a prompt
ViewJson(b) == {[rid |-> v.rid, obj |-> v.loc[1], fn |-> v.loc[2], v |-> v.loc[3]] : v \in RefViews(b)}
LibsJson(b) == IF started THEN MappedObjs(b) ELSE {}

\* the user's knowledge of a load address: read from the maps if the object is mapped, else guessed
Guesses(o) == IF Mapped(bias, o) THEN {bias[o]}
              ELSE IF o = "exe" THEN {ExeBias(EM)} ELSE IF o = "libc" THEN {LibcBias} ELSE LibBiases

\* the history is only kept in the generation runs (it is a function of the behaviour, not state the
\* invariants need; without it the exhaustive runs merge behaviours that differ only in their past)
Rec(h, e) == IF Emit = "none" THEN h ELSE Append(h, e)

UserReq ==
    /\ phase = "prompt"
    /\ Len(reqs) < MaxReq
    /\ \E k \in Kinds, t \in Targets : \E g \in Guesses(t[1]) :
         /\ (k # "addr") => g = CHOOSE x \in Guesses(t[1]) : TRUE
         /\ (ReqPlan = "anchor") => IF Len(reqs) = 0 THEN k = "line" /\ t[1] = "exe"
                                    ELSE t[1] = "lib" \/ t = <<"exe", "stage_reopened">>
         /\ LET r == [kind |-> k, obj |-> t[1], fn |-> t[2], m |-> Mapped(bias, t[1]),
                      abs |-> IF k = "addr" THEN Link(<<t[1], t[2], "ln">>) + g ELSE 0]
                i == Len(reqs) + 1
            IN /\ reqs' = Append(reqs, r)
               /\ impl' = ImplRequest(impl, bias, i, r)
               /\ hist' = Rec(hist, [op |-> "req", rid |-> i, kind |-> k, obj |-> t[1], fn |-> t[2],
                                        mapped |-> Mapped(bias, t[1]), started |-> started,
                                        stop |-> <<>>, views |-> {}, libs |-> {}])
    /\ UNCHANGED <<cfg, bias, ip, phase, started, flags>>

UserCont ==
    /\ phase = "prompt"
    /\ phase' = "run"
    /\ hist' = Rec(hist, [op |-> IF started THEN "cont" ELSE "start", rid |-> 0, kind |-> "", obj |-> "", fn |-> "",
                             mapped |-> FALSE, started |-> started, stop |-> <<>>, views |-> {}, libs |-> {}])
    /\ UNCHANGED <<cfg, bias, ip, started, reqs, impl, flags>>

\* the reference's expectations at the prompt that ends the running command
Close(h, stop, b) ==
    IF Emit = "none" THEN h ELSE
    [h EXCEPT ![Len(h)].stop = stop, ![Len(h)].views = ViewJson(b), ![Len(h)].libs = MappedObjs(b)]

\* exec + loader + entry point
Exec ==
    /\ phase = "run" /\ ip = 0
    /\ \E lb \in LibBiases :
         LET b == [o \in Objs |-> IF o = "exe" THEN ExeBias(EM) ELSE IF o = "libc" THEN LibcBias
                                  ELSE IF cfg.lib = "startup" THEN lb ELSE NONE]
         IN /\ bias' = b
            /\ ip' = 1
            /\ IF EntryBpOk(b)
               THEN /\ impl' = AtEntry(impl, b) /\ started' = TRUE /\ phase' = "run" /\ flags' = flags
               ELSE /\ impl' = impl /\ started' = TRUE /\ phase' = "lost" /\ flags' = flags \cup {"lost_at_start"}
    /\ UNCHANGED <<cfg, reqs, hist>>

Cur == Prog(cfg.lib)[ip]

Visit ==
    /\ phase = "run" /\ ip >= 1 /\ Cur.t = "visit"
    /\ LET a == TrueAddr(bias, Cur.loc)
           hit == a \in impl.patched /\ \E v \in impl.active : v.addr = a
           dem == Demanded(bias, Cur.loc)
           stop == <<[obj |-> Cur.loc[1], fn |-> Cur.loc[2], v |-> Cur.loc[3], call |-> Cur.call,
                      stack |-> StackOf(Cur.loc), args |-> ArgsOf(Cur.loc, Cur.call)]>>
       IN /\ ip' = ip + 1
          /\ flags' = flags \cup (IF dem /\ ~hit THEN {"missed_stop"} ELSE {}) \cup (IF hit /\ ~dem THEN {"spurious_stop"} ELSE {})
          \* the run follows the REFERENCE (the demanded stops); a missed stop is flagged and the
          \* session continues from the prompt the reference demands
          /\ IF dem THEN phase' = "prompt" /\ hist' = Close(hist, stop, bias)
                    ELSE phase' = "run" /\ hist' = hist
    /\ UNCHANGED <<cfg, bias, started, reqs, impl>>

Gate ==
    /\ phase = "run" /\ ip >= 1 /\ Cur.t \in {"gate_pre", "gate_mid"}
    /\ ip' = ip + 1
    /\ UNCHANGED <<cfg, bias, phase, started, reqs, impl, flags, hist>>

Open ==
    /\ phase = "run" /\ ip >= 1 /\ Cur.t = "open"
    /\ \E lb \in LibBiases :
         LET b == [bias EXCEPT !["lib"] = lb]
         IN /\ bias' = b
            /\ impl' = IF impl.rbrk THEN RbrkRefresh(impl, b) ELSE impl
    /\ ip' = ip + 1
    /\ UNCHANGED <<cfg, phase, started, reqs, flags, hist>>

CloseLib ==
    /\ phase = "run" /\ ip >= 1 /\ Cur.t = "close"
    /\ LET b == [bias EXCEPT !["lib"] = NONE]
           \* the text pages are gone, and the INT3 bytes with them
           I1 == [impl EXCEPT !.patched = {a \in @ : ~InObj(bias, "lib", a)}]
       IN /\ bias' = b
          /\ impl' = IF impl.rbrk THEN RbrkRefresh(I1, b) ELSE I1
    /\ ip' = ip + 1
    /\ UNCHANGED <<cfg, phase, started, reqs, flags, hist>>

Exit ==
    /\ phase = "run" /\ ip >= 1 /\ Cur.t = "exit"
    /\ phase' = "done"
    /\ hist' = Close(hist, <<"exit">>, NoBias)
    /\ (Emit = "scn") => PrintT(<<"SCN", ToJson([cfg |-> cfg, steps |-> hist'])>>)
    /\ UNCHANGED <<cfg, bias, ip, started, reqs, impl, flags>>

Next == UserReq \/ UserCont \/ Exec \/ Visit \/ Gate \/ Open \/ CloseLib \/ Exit
Spec == Init /\ [][Next]_vars

\* -------------------------------------------------------------------------------------------
\* invariants: implementation model vs reference
\* -------------------------------------------------------------------------------------------
AtPrompt == phase = "prompt" /\ started

\* every installed breakpoint sits at link address + TRUE bias of its object
InstalledAtTrueAddress ==
    \A v \in impl.active : (v.addr \in impl.patched) =>
        \E i \in 1..Len(reqs) : Denoted(bias, reqs[i]) # <<>> /\ RefAddr(bias, reqs[i]) = v.addr

\* a request whose location is mapped is active at the prompt (deferred ones: at the first prompt after the load)
ActiveWhenMapped ==
    AtPrompt => \A i \in 1..Len(reqs) : RefActive(bias, reqs[i]) =>
        \E v \in impl.active : v.addr = RefAddr(bias, reqs[i]) /\ v.addr \in impl.patched

SharedLibsAreMapped == AtPrompt => impl.files = MappedObjs(bias)

StopsWhereRequested == flags \cap {"missed_stop", "spurious_stop"} = {}
NeverLost == phase # "lost"

\* sanity of the reference itself (must hold in every configuration)
RefSane ==
    /\ \A o \in Objs : Mapped(bias, o) => \A p \in Objs \ {o} : Mapped(bias, p) => ~InObj(bias, p, StartOf(bias, o))
    /\ (Emit # "none" /\ phase = "prompt" /\ Len(hist) > 0 /\ hist[Len(hist)].op \in {"start", "cont"}) =>
           hist[Len(hist)].stop # <<>>

=============================================================================

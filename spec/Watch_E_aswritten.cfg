\* (E) exhaustive, as written: companion breakpoint before the slot allocation (watchpoint.rs:371-396)
SPECIFICATION SpecE
CONSTANTS
  Globals = {"G0", "G1", "G2", "G3"}
  Locals = {"LA", "LB"}
  KindTab <- SpreadTab
  MaxOps = 6
  SlotFirst = FALSE
  Distribute = TRUE
  Gen = FALSE
  ViewSlots = TRUE
INVARIANTS TypeOK DrEncodesExactly NoDoubleSlot AtMostFour NoStaleEnable SlotsReusable ResultAgrees RegistryAgrees NoOrphanCompanion ScopedOnlyInScope
PROPERTIES RefusalHasNoSideEffects

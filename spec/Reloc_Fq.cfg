\* C18 / Reloc.tla -- (E) exhaustive, quick tier (launched sessions only): every rule repaired; the implementation model must meet the reference
CONSTANTS
    ExeModes = {"pie", "nopie"}
    LibModes = {"startup", "dlopen"}
    SessModes = {"launch"}
    LibBiases = {300, 400}
    LibBases = {0, 60}
    Kinds = {"fn", "line", "addr"}
    MaxReq = 2
    OffsetRule = "bias"
    ReloadRule = "rearm"
    EarlyAddrRule = "defer"
    AttachRule = "rbrk"
    ReqPlan = "free"
    Emit = "none"
SPECIFICATION Spec
INVARIANTS RefSane InstalledAtTrueAddress ActiveWhenMapped SharedLibsAreMapped StopsWhereRequested NeverLost

SPECIFICATION Spec
VIEW View
INVARIANTS Emit DecoderEqualsAbstraction
CONSTANTS
  Mode = "colls"
  MaxDepth = 0
  Rot = 1
  LeafSet = "all"
  CtorSet = "all"
  MaxOps = 3
  NKeys = 2
  MaxBulk = 1
  History = TRUE
  Kinds = {"vec","vdq","hset","hmap","bset","bmap"}
  Elems = {"u64"}
  Scripts <- ScriptsNone
  MaxCap = 6
  HbBuckets = {1, 2, 4, 8}
  BtLevels = 3

\* C15 / MemRW.tla -- (E) DAP disassemble as written: raw bytes (a violation is a prediction the binding decides)
CONSTANTS
    W = 4
    Lo = 4
    Hi = 16
    MaxN = 9
    MaxOps = 5
    OpKinds = {"R", "WB", "WW"}
    DataKinds = {"pat", "inv"}
    ReadVariant = "tail"
    Emit = "none"
    Regs = {}
    InitMem = "pattern"
    DisVariant = "raw"
SPECIFICATION SpecDis
VIEW View
INVARIANTS PatchesConsistent
PROPERTIES DisasmOriginal

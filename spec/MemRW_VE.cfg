\* C15 / MemRW.tla -- (E) variable writes, histories of 2 ops
CONSTANTS
    W = 8
    Lo = 8
    Hi = 88
    MaxN = 1
    MaxOps = 2
    OpKinds = {"WV"}
    DataKinds = {"pat", "inv"}
    ReadVariant = "tail"
    Emit = "none"
    Regs = {}
    InitMem = "pack"
    DisVariant = "masked"
SPECIFICATION SpecMem
VIEW View
INVARIANTS MemoryMatchesSpec UnmappedNeverChanges
PROPERTIES WritesMeetSpec NeighboursUntouched

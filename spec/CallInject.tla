----------------------------- MODULE CallInject -----------------------------
(***************************************************************************)
(* C16 -- Injected calls run once and leave no trace.                      *)
(*                                                                         *)
(* Part 1 (ARGUMENTS): the reference for `call f a1..an`: which calls must *)
(*   succeed / must be refused, and what the callee must see for every     *)
(*   (parameter type, literal): 64-bit values are 8-byte little-endian     *)
(*   sequences (TLC integers are 32 bit), two's complement, truncation and *)
(*   sign/zero extension are computed here.  `AlgArg` transcribes          *)
(*   liter_to_arg_bin_repr (src/debugger/call/mod.rs:62) for drift         *)
(*   monitoring only.  Emit = "cases" prints every case as JSON.           *)
(*                                                                         *)
(* Part 2 (MACHINE): the debuggee as far as a call touches it (registers,  *)
(*   text word at pc, trampoline page, mappings, INT3 patches, red zone,   *)
(*   callee log) and call_fn_raw / with_ccx / with_disabled_brkpts as the  *)
(*   sequence of ptrace operations the code issues, each of which may fail *)
(*   (transient error, debuggee death, unexpected stop).  The post-        *)
(*   conditions (the reference) are evaluated in every terminal state.     *)
(*   Variant = "aswritten" is the step order of the code; "fixed" is the   *)
(*   candidate repair (call below the red zone on an aligned stack, unmap  *)
(*   and re-enable on every exit path, errors instead of panics).          *)
(***************************************************************************)
EXTENDS Integers, Sequences, FiniteSets, TLC, Json

CONSTANTS Variant,        \* "aswritten" | "fixed"
          DebugAsserts,   \* debug_assert! compiled in (the harness build: TRUE)
          FailKinds,      \* subset of {"err", "death", "stop"}
          Arities,        \* numbers of parameters explored by the machine (subset of 0..6)
          BpChoice,       \* "all": every subset of the breakpoint sites; "some": {}, {pc}, {pc, callee, later}
          Emit            \* "none" | "term" | "cases"

------------------------------------------------------------------------------
(* Part 1: arguments *)

IntTypes == {"i8", "u8", "i16", "u16", "i32", "u32", "i64", "u64", "isize", "usize"}
Size(t) == CASE t \in {"i8", "u8", "bool"} -> 1 [] t \in {"i16", "u16"} -> 2
             [] t \in {"i32", "u32", "char"} -> 4 [] OTHER -> 8
Signed(t) == t \in {"i8", "i16", "i32", "i64", "isize"}

\* the puppet's callees (tools/c16_puppet.py FNS is the same table; the check compares them)
Fns == <<
    <<"f0", <<>> >>,
    <<"f1_i8", <<"i8">> >>, <<"f1_u8", <<"u8">> >>, <<"f1_i16", <<"i16">> >>, <<"f1_u16", <<"u16">> >>,
    <<"f1_i32", <<"i32">> >>, <<"f1_u32", <<"u32">> >>, <<"f1_i64", <<"i64">> >>, <<"f1_u64", <<"u64">> >>,
    <<"f1_isize", <<"isize">> >>, <<"f1_usize", <<"usize">> >>,
    <<"f1_bool", <<"bool">> >>, <<"f1_ptr", <<"ptr">> >>, <<"f1_ref", <<"ref">> >>, <<"f1_char", <<"char">> >>,
    <<"f1_f64", <<"f64">> >>,
    <<"f2", <<"i8", "u64">> >>,
    <<"f3", <<"u16", "bool", "i32">> >>,
    <<"f4", <<"i64", "u8", "ptr", "i16">> >>,
    <<"f5", <<"u32", "i32", "bool", "u64", "i8">> >>,
    <<"f6", <<"i64", "u64", "i32", "u8", "bool", "ptr">> >>,
    <<"f6u", <<"u64", "u64", "u64", "u64", "u64", "u64">> >>,
    <<"f6i", <<"i64", "i64", "i64", "i64", "i64", "i64">> >>,
    <<"f7", <<"u64", "u64", "u64", "u64", "u64", "u64", "u64">> >>,
    <<"f_sse", <<"u64">> >>,
    <<"f_deep", <<"u64">> >>,
    <<"f_fp", <<"u64">> >>,
    <<"f_sig", <<"u64">> >>
>>
FnId(i) == i - 1
Plain == {i \in 1..Len(Fns) : Fns[i][1] \notin {"f_sse", "f_deep", "f_fp", "f_sig"}}

Z8 == <<0, 0, 0, 0, 0, 0, 0, 0>>
IntLits == <<
    [k |-> "int", txt |-> "0", neg |-> FALSE, mag |-> <<0,0,0,0,0,0,0,0>>],
    [k |-> "int", txt |-> "1", neg |-> FALSE, mag |-> <<1,0,0,0,0,0,0,0>>],
    [k |-> "int", txt |-> "-1", neg |-> TRUE, mag |-> <<1,0,0,0,0,0,0,0>>],
    [k |-> "int", txt |-> "127", neg |-> FALSE, mag |-> <<127,0,0,0,0,0,0,0>>],
    [k |-> "int", txt |-> "128", neg |-> FALSE, mag |-> <<128,0,0,0,0,0,0,0>>],
    [k |-> "int", txt |-> "-128", neg |-> TRUE, mag |-> <<128,0,0,0,0,0,0,0>>],
    [k |-> "int", txt |-> "-129", neg |-> TRUE, mag |-> <<129,0,0,0,0,0,0,0>>],
    [k |-> "int", txt |-> "255", neg |-> FALSE, mag |-> <<255,0,0,0,0,0,0,0>>],
    [k |-> "int", txt |-> "256", neg |-> FALSE, mag |-> <<0,1,0,0,0,0,0,0>>],
    [k |-> "int", txt |-> "32767", neg |-> FALSE, mag |-> <<255,127,0,0,0,0,0,0>>],
    [k |-> "int", txt |-> "32768", neg |-> FALSE, mag |-> <<0,128,0,0,0,0,0,0>>],
    [k |-> "int", txt |-> "-32768", neg |-> TRUE, mag |-> <<0,128,0,0,0,0,0,0>>],
    [k |-> "int", txt |-> "-32769", neg |-> TRUE, mag |-> <<1,128,0,0,0,0,0,0>>],
    [k |-> "int", txt |-> "65535", neg |-> FALSE, mag |-> <<255,255,0,0,0,0,0,0>>],
    [k |-> "int", txt |-> "65536", neg |-> FALSE, mag |-> <<0,0,1,0,0,0,0,0>>],
    [k |-> "int", txt |-> "2147483647", neg |-> FALSE, mag |-> <<255,255,255,127,0,0,0,0>>],
    [k |-> "int", txt |-> "2147483648", neg |-> FALSE, mag |-> <<0,0,0,128,0,0,0,0>>],
    [k |-> "int", txt |-> "-2147483648", neg |-> TRUE, mag |-> <<0,0,0,128,0,0,0,0>>],
    [k |-> "int", txt |-> "-2147483649", neg |-> TRUE, mag |-> <<1,0,0,128,0,0,0,0>>],
    [k |-> "int", txt |-> "4294967295", neg |-> FALSE, mag |-> <<255,255,255,255,0,0,0,0>>],
    [k |-> "int", txt |-> "4294967296", neg |-> FALSE, mag |-> <<0,0,0,0,1,0,0,0>>],
    [k |-> "int", txt |-> "9223372036854775807", neg |-> FALSE, mag |-> <<255,255,255,255,255,255,255,127>>],
    [k |-> "int", txt |-> "-9223372036854775808", neg |-> TRUE, mag |-> <<0,0,0,0,0,0,0,128>>],
    [k |-> "int", txt |-> "9223372036854775808", neg |-> FALSE, mag |-> <<0,0,0,0,0,0,0,128>>],
    [k |-> "int", txt |-> "18446744073709551615", neg |-> FALSE, mag |-> <<255,255,255,255,255,255,255,255>>]
>>
OtherLits == <<
    [k |-> "bool", txt |-> "true", neg |-> FALSE, mag |-> <<1,0,0,0,0,0,0,0>>],
    [k |-> "bool", txt |-> "false", neg |-> FALSE, mag |-> Z8],
    [k |-> "addr", txt |-> "KNOWN", neg |-> FALSE, mag |-> Z8],          \* address of the static C16_KNOWN
    [k |-> "addr", txt |-> "0x0", neg |-> FALSE, mag |-> Z8],
    [k |-> "float", txt |-> "1.5", neg |-> FALSE, mag |-> Z8],
    [k |-> "str", txt |-> "\"abc\"", neg |-> FALSE, mag |-> Z8]
>>
AllLits == IntLits \o OtherLits
Small(i) == [k |-> "int", txt |-> ToString(i), neg |-> FALSE, mag |-> <<i,0,0,0,0,0,0,0>>]

\* -- 64-bit arithmetic on byte sequences
Inv(m) == [i \in 1..8 |-> 255 - m[i]]
RECURSIVE AddOneAt(_, _)
AddOneAt(m, i) == IF i > 8 THEN m
                  ELSE IF m[i] = 255 THEN AddOneAt([m EXCEPT ![i] = 0], i + 1)
                  ELSE [m EXCEPT ![i] = m[i] + 1]
Bits64(l) == IF l.neg THEN AddOneAt(Inv(l.mag), 1) ELSE l.mag     \* two's complement image of the literal
Trunc(b, n) == [i \in 1..8 |-> IF i <= n THEN b[i] ELSE 0]        \* low n bytes, zero extended
SignExt(b, n) == [i \in 1..8 |-> IF i <= n THEN b[i] ELSE IF b[n] >= 128 THEN 255 ELSE 0]
HighZero(m, n) == \A i \in (n + 1)..8 : m[i] = 0
\* the mathematical value of the literal is representable in type t
InRange(t, l) ==
    LET n == Size(t) IN
    IF Signed(t)
    THEN IF l.neg
         THEN \/ HighZero(l.mag, n) /\ l.mag[n] < 128
              \/ HighZero(l.mag, n) /\ l.mag[n] = 128 /\ \A i \in 1..(n - 1) : l.mag[i] = 0
         ELSE HighZero(l.mag, n) /\ l.mag[n] < 128
    ELSE (~l.neg \/ l.mag = Z8) /\ HighZero(l.mag, n)
\* what a callee that widens its parameter to 64 bit (sign/zero extension per type) reports for register image r
LogOf(t, r) == IF Signed(t) THEN SignExt(r, Size(t)) ELSE Trunc(r, Size(t))

\* REFERENCE: class and value of one argument.
\*   "ok"   the call must be made and the callee must see exactly `bits` (as widened by LogOf)
\*   "fail" the call cannot be made: an error must be reported
\*   "open" the property does not say (literal not representable in the parameter type, literal of another
\*          kind than the parameter): either an error, or a call; the state must be restored either way
Expect(t, l) ==
    IF l.k \in {"float", "str"} \/ t \in {"char", "f64"} THEN [cls |-> "fail", bits |-> Z8, sym |-> ""]
    ELSE IF l.k = "int" /\ t \in IntTypes
         THEN IF InRange(t, l) THEN [cls |-> "ok", bits |-> LogOf(t, Bits64(l)), sym |-> ""]
              ELSE [cls |-> "open", bits |-> Z8, sym |-> ""]
    ELSE IF l.k = "bool" /\ t = "bool" THEN [cls |-> "ok", bits |-> l.mag, sym |-> ""]
    ELSE IF l.k = "addr" /\ t \in {"ptr", "ref"}
         THEN [cls |-> "ok", bits |-> Z8, sym |-> IF l.txt = "KNOWN" THEN "KNOWN" ELSE ""]
    ELSE [cls |-> "open", bits |-> Z8, sym |-> ""]

\* TRANSCRIPTION of liter_to_arg_bin_repr + what the callee then reports (drift monitoring only)
AlgArg(t, l) ==
    IF l.k \in {"float", "str"} THEN [ok |-> FALSE, bits |-> Z8, sym |-> ""]
    ELSE IF l.k = "int"
         THEN IF t \in IntTypes THEN [ok |-> TRUE, bits |-> LogOf(t, Trunc(Bits64(l), Size(t))), sym |-> ""]
              ELSE [ok |-> FALSE, bits |-> Z8, sym |-> ""]
    ELSE IF l.k = "addr"
         THEN IF t \in {"ptr", "ref"} THEN [ok |-> TRUE, bits |-> Z8, sym |-> IF l.txt = "KNOWN" THEN "KNOWN" ELSE ""]
              ELSE [ok |-> FALSE, bits |-> Z8, sym |-> ""]
    ELSE IF t = "bool" THEN [ok |-> TRUE, bits |-> l.mag, sym |-> ""] ELSE [ok |-> FALSE, bits |-> Z8, sym |-> ""]

Default(t, i) == IF t = "bool" THEN OtherLits[1]
                 ELSE IF t \in {"ptr", "ref"} THEN OtherLits[3]
                 ELSE Small(i)

CallClass(tys, args) ==
    IF Len(tys) # Len(args) \/ Len(args) > 6 THEN "fail"
    ELSE IF \E i \in 1..Len(args) : Expect(tys[i], args[i]).cls = "fail" THEN "fail"
    ELSE IF \E i \in 1..Len(args) : Expect(tys[i], args[i]).cls = "open" THEN "open"
    ELSE "ok"
AlgOk(tys, args) == Len(tys) = Len(args) /\ Len(args) <= 6 /\ \A i \in 1..Len(args) : AlgArg(tys[i], args[i]).ok

CaseJson(kind, f, args) ==
    LET tys == Fns[f][2]
        n == IF Len(tys) < Len(args) THEN Len(tys) ELSE Len(args) IN
    [kind |-> kind, fn |-> Fns[f][1], fid |-> FnId(f), types |-> tys,
     args |-> [i \in 1..Len(args) |-> [k |-> args[i].k, txt |-> args[i].txt, bits |-> Bits64(args[i])]],
     cls |-> CallClass(tys, args),
     expect |-> [i \in 1..n |-> Expect(tys[i], args[i])],
     alg_ok |-> AlgOk(tys, args),
     alg |-> [i \in 1..n |-> AlgArg(tys[i], args[i])]]

Defaults(f, n) == [i \in 1..n |-> IF i <= Len(Fns[f][2]) THEN Default(Fns[f][2][i], i) ELSE Small(i)]

Cases ==
    \* every (type, literal) on the one-parameter callees
    {CaseJson("single", f, <<AllLits[j]>>) : f \in {g \in Plain : Len(Fns[g][2]) = 1}, j \in 1..Len(AllLits)}
    \* one position at a time on the multi-parameter callees, every literal the position must accept
    \cup {CaseJson("sweep", f, [Defaults(f, Len(Fns[f][2])) EXCEPT ![p] = AllLits[j]]) :
            <<f, p, j>> \in {<<g, q, h>> \in Plain \X (1..6) \X (1..Len(AllLits)) :
                    /\ Len(Fns[g][2]) \in 2..6 /\ q <= Len(Fns[g][2])
                    /\ Expect(Fns[g][2][q], AllLits[h]).cls = "ok"}}
    \* distinct values per position (register order), wrong arity, too many parameters
    \cup {CaseJson("distinct", f, Defaults(f, Len(Fns[f][2]))) : f \in {g \in Plain : Len(Fns[g][2]) <= 6}}
    \cup {CaseJson("arity", f, Defaults(f, Len(Fns[f][2]) - 1)) : f \in {g \in Plain : Len(Fns[g][2]) \in 1..6}}
    \cup {CaseJson("arity", f, Defaults(f, Len(Fns[f][2]) + 1)) : f \in {g \in Plain : Len(Fns[g][2]) <= 6}}
    \cup {CaseJson("toomany", f, Defaults(f, 7)) : f \in {g \in Plain : Len(Fns[g][2]) = 7}}

ASSUME Emit = "cases" =>
    /\ PrintT(<<"FNS", ToJson([i \in 1..Len(Fns) |-> [name |-> Fns[i][1], id |-> FnId(i), types |-> Fns[i][2]]])>>)
    /\ \A c \in Cases : PrintT(<<"CASE", ToJson(c)>>)

\* sanity of the arithmetic (evaluated by TLC at start-up)
ASSUME /\ Bits64(IntLits[3]) = <<255,255,255,255,255,255,255,255>>                 \* -1
       /\ Bits64(IntLits[23]) = <<0,0,0,0,0,0,0,128>>                               \* i64::MIN
       /\ Expect("i8", IntLits[6]).bits = <<128,255,255,255,255,255,255,255>>       \* -128 as i8, widened
       /\ Expect("u8", IntLits[8]).bits = <<255,0,0,0,0,0,0,0>>
       /\ Expect("u8", IntLits[9]).cls = "open" /\ Expect("i8", IntLits[5]).cls = "open"
       /\ Expect("i64", IntLits[24]).cls = "open" /\ Expect("u64", IntLits[25]).cls = "ok"
       /\ Expect("u64", IntLits[3]).cls = "open" /\ Expect("i32", IntLits[18]).cls = "ok"
       /\ Expect("i32", IntLits[19]).cls = "open"

------------------------------------------------------------------------------
(* Part 2: the machine *)

VARIABLES c,         \* the case: stop position, breakpoints, arity, fault  (chosen in Init, then constant)
          ctl,       \* next step of the implementation
          regs,      \* register file of the stopped thread
          word,      \* the 8 bytes at pc without the INT3 patch: "orig" | "syscall" | "jmp"
          tramp,     \* first word of the trampoline page: "none" | "zero" | "call"
          maps,      \* mappings beyond the original ones
          patched,   \* breakpoint sites that currently hold INT3
          bpsaved,   \* per site: the byte the breakpoint believes it replaced ("orig" | "other")
          rz,        \* [ret, deep]: the 8 bytes under rsp / the rest of the red zone: "frame" | "clobbered"
          log,       \* callee log: sequence of [args, aligned]
          alive,     \* the debuggee exists
          sv,        \* CallContext: [has, regs, text]
          alloc,     \* what mmap() is believed to have returned
          res,       \* result carried through the clean-up: "ok" | "err"
          outcome    \* "running" | "ok" | "err" | "panic"
vars == <<c, ctl, regs, word, tramp, maps, patched, bpsaved, rz, log, alive, sv, alloc, res, outcome>>

\* "callee": stopped inside the very function that is then called; "at a user breakpoint" = "pc" \in c.bps
Positions == {"entry", "mid", "leaf", "callee"}
BpSites == {"pc", "callee", "later"}
BpSets == IF BpChoice = "all" THEN SUBSET BpSites ELSE {{}, {"pc"}, BpSites}
ArgRegs == <<"rdi", "rsi", "rdx", "rcx", "r8", "r9">>
RegNames == {"rip", "rsp", "rax", "rdi", "rsi", "rdx", "rcx", "r8", "r9", "r10", "r11", "rbx", "flags"}
Regs0 == [r \in RegNames |-> IF r = "rip" THEN "pc" ELSE IF r = "rsp" THEN "sp0" ELSE "i"]

\* the ptrace operations of one call, in program order
Forward == <<"D", "L", "S1", "S2",
             "M1", "M2", "M3", "M4", "M5",
             "J1", "J2", "J3", "J4", "J5",
             "C1", "C2", "C3", "C4",
             "R1",
             "U1", "U2", "U3", "U4", "U5", "U6">>
Cleanup == <<"X1", "X2", "E">>
WaitSteps == {"M4", "J4", "C4", "U4"}
NextOf(s) == LET i == CHOOSE j \in 1..Len(Forward) : Forward[j] = s IN
             IF i = Len(Forward) THEN "X1" ELSE Forward[i + 1]
Faults == {<<"none", "none">>}
          \cup {<<p, k>> \in ({Forward[i] : i \in 1..Len(Forward)} \cup {"X1", "X2", "E"}) \X FailKinds :
                    /\ (k = "stop") => p \in WaitSteps
                    /\ p # "L"                                       \* L touches nothing outside the debugger
                    /\ (p \in WaitSteps /\ k = "err") => FALSE}      \* waitpid itself does not fail transiently

Strikes(p) == c.fp = p
LiveRZ == c.pos = "leaf"                 \* the stopped frame keeps data under rsp
AlignedAtStop == c.pos \notin {"entry", "leaf"}     \* rsp = 0 mod 16 (entry/leaf: a return address was pushed)

Init ==
    /\ \E pos \in Positions, bps \in BpSets, n \in Arities, mk \in BOOLEAN, f \in Faults :
          c = [pos |-> pos, bps |-> bps, n |-> n, makeable |-> mk, fp |-> f[1], fk |-> f[2]]
    /\ ctl = "D" /\ regs = Regs0 /\ word = "orig" /\ tramp = "none" /\ maps = {}
    /\ patched = c.bps /\ bpsaved = [s \in BpSites |-> "orig"]
    /\ rz = [ret |-> "frame", deep |-> "frame"] /\ log = <<>> /\ alive = TRUE
    /\ sv = [has |-> FALSE, regs |-> Regs0, text |-> [w |-> "orig", cc |-> FALSE]]
    /\ alloc = "none" /\ res = "ok" /\ outcome = "running"

\* ---- the kernel side ---------------------------------------------------------------------------
Peek == [w |-> word, cc |-> "pc" \in patched]
PokePc(t) == /\ word' = t.w
             /\ patched' = IF t.cc THEN patched \cup {"pc"} ELSE patched \ {"pc"}

WithArgs(r) == [x \in RegNames |->
                  IF \E i \in 1..c.n : ArgRegs[i] = x
                  THEN "arg" \o ToString(CHOOSE i \in 1..c.n : ArgRegs[i] = x) ELSE r[x]]

\* one instruction at pc (PTRACE_SINGLESTEP); `hit` = a signal stop arrives instead of the instruction
StepAtPc(hit) ==
    IF hit \/ regs.rip # "pc" \/ "pc" \in patched THEN UNCHANGED <<regs, maps, tramp>>
    ELSE IF word = "syscall" /\ regs.rax = "mmap"
         THEN /\ maps' = maps \cup {"tramp"} /\ tramp' = "zero"
              /\ regs' = [regs EXCEPT !.rax = "tramp", !.rcx = "k", !.r11 = "k", !.rip = "pc+2"]
    ELSE IF word = "syscall" /\ regs.rax = "munmap"
         THEN /\ maps' = IF regs.rdi = "tramp" THEN maps \ {"tramp"} ELSE maps
              /\ tramp' = IF regs.rdi = "tramp" THEN "none" ELSE tramp
              /\ regs' = [regs EXCEPT !.rax = IF regs.rdi = "tramp" THEN "0" ELSE "-errno", !.rcx = "k", !.r11 = "k", !.rip = "pc+2"]
    ELSE IF word = "jmp" THEN /\ regs' = [regs EXCEPT !.rip = regs.rax] /\ UNCHANGED <<maps, tramp>>
    ELSE UNCHANGED <<regs, maps, tramp>>

\* PTRACE_CONT at the trampoline: `call *%rax; int3`
CalleeEntry == [args |-> [i \in 1..c.n |-> regs[ArgRegs[i]]],
                aligned |-> IF regs.rsp = "low" THEN TRUE ELSE AlignedAtStop]
RunCall(hit) ==
    IF regs.rip = "tramp" /\ tramp = "call" /\ regs.rax = "fn" /\ c.pos = "callee" /\ word # "orig"
    THEN \* the callee's own code contains pc, which still holds the trampoline's `jmp *%rax`: it never returns
         /\ regs' = [regs EXCEPT !.rip = "loop", !.rsp = "cl"] /\ UNCHANGED <<rz, log>>
    ELSE IF regs.rip = "tramp" /\ tramp = "call" /\ regs.rax = "fn"
    THEN /\ rz' = IF regs.rsp = "sp0" THEN [ret |-> "clobbered", deep |-> "clobbered"] ELSE rz
         /\ IF "callee" \in patched \/ hit
            THEN \* a breakpoint in the callee / a signal: the callee does not get to its end
                 /\ log' = log
                 /\ regs' = [regs EXCEPT !.rip = "callee", !.rax = "cl", !.rcx = "cl", !.r11 = "cl", !.flags = "cl"]
            ELSE /\ log' = Append(log, CalleeEntry)
                 /\ regs' = [r \in RegNames |-> IF r \in {"rbx", "rsp"} THEN regs[r] ELSE IF r = "rip" THEN "tramp+3" ELSE "cl"]
    ELSE UNCHANGED <<rz, log, regs>>

\* ---- the debugger side --------------------------------------------------------------------------
Finish(o) == /\ outcome' = o /\ ctl' = "done"

\* where a failed forward step continues
ErrTo(p) == IF Variant = "aswritten"
            THEN IF p = "D" THEN "ret" ELSE IF p \in {"L", "S1", "S2"} THEN "E" ELSE "X1"
            ELSE IF p \in {"D", "L", "S1", "S2"} THEN "E" ELSE "XU"

\* a ptrace request at step p: dead debuggee or a striking fault make it fail
ReqFails(p) == ~alive \/ (Strikes(p) /\ c.fk \in {"err", "death"})
Dies(p) == alive /\ Strikes(p) /\ c.fk = "death"

Panic == /\ Finish("panic")
         /\ UNCHANGED <<c, regs, word, tramp, maps, patched, bpsaved, rz, log, sv, alloc, res>>

FailForward(p) ==
    /\ alive' = (alive /\ ~Dies(p))
    /\ res' = "err" /\ ctl' = ErrTo(p)
    /\ UNCHANGED <<c, regs, word, tramp, maps, bpsaved, rz, log, sv, alloc, outcome>>

\* D: disable every active breakpoint (first site restored before the fault can strike at the second)
StepD ==
    /\ ctl = "D"
    /\ IF ReqFails("D")
       THEN /\ patched' = IF Cardinality(patched) >= 2 THEN patched \ {CHOOSE s \in patched : TRUE} ELSE patched
            /\ alive' = (alive /\ ~Dies("D")) /\ res' = "err" /\ ctl' = ErrTo("D")
            /\ UNCHANGED <<c, regs, word, tramp, maps, bpsaved, rz, log, sv, alloc, outcome>>
       ELSE /\ patched' = {} /\ ctl' = "L"
            /\ UNCHANGED <<c, regs, word, tramp, maps, bpsaved, rz, log, alive, sv, alloc, res, outcome>>

\* L: look the function up, convert the literals (no ptrace involved)
StepL ==
    /\ ctl = "L"
    /\ IF c.makeable THEN ctl' = "S1" /\ res' = res ELSE ctl' = "E" /\ res' = "err"
    /\ UNCHANGED <<c, regs, word, tramp, maps, patched, bpsaved, rz, log, alive, sv, alloc, outcome>>

Simple(p, eff) ==      \* a forward step whose effect is `eff` (a predicate on the primed debuggee variables)
    /\ ctl = p
    /\ IF ReqFails(p) THEN FailForward(p) /\ UNCHANGED patched
       ELSE eff /\ ctl' = NextOf(p) /\ UNCHANGED <<c, alive, res, outcome>>

StepS1 == Simple("S1", /\ sv' = [sv EXCEPT !.text = Peek]
                       /\ UNCHANGED <<regs, word, tramp, maps, patched, bpsaved, rz, log, alloc>>)
StepS2 == Simple("S2", /\ sv' = [sv EXCEPT !.has = TRUE, !.regs = regs]
                       /\ UNCHANGED <<regs, word, tramp, maps, patched, bpsaved, rz, log, alloc>>)
SetRegs(p, r) == Simple(p, /\ regs' = r /\ UNCHANGED <<word, tramp, maps, patched, bpsaved, rz, log, sv, alloc>>)
PokeText(p, w) == Simple(p, /\ PokePc([w |-> w, cc |-> IF w = "orig" THEN sv.text.cc ELSE FALSE])
                            /\ UNCHANGED <<regs, tramp, maps, bpsaved, rz, log, sv, alloc>>)
\* PTRACE_SINGLESTEP request; the instruction runs now, the matching wait step only reports
StepReq(p, w) == Simple(p, /\ StepAtPc(c.fp = w /\ c.fk = "stop")
                           /\ UNCHANGED <<word, patched, bpsaved, rz, log, sv, alloc>>)
Wait(p) ==
    /\ ctl = p
    /\ IF ~alive \/ (Strikes(p) /\ c.fk = "death") THEN FailForward(p) /\ UNCHANGED patched
       ELSE /\ ctl' = NextOf(p)
            /\ UNCHANGED <<c, regs, word, tramp, maps, patched, bpsaved, rz, log, alive, sv, alloc, res, outcome>>

StepM1 == SetRegs("M1", [sv.regs EXCEPT !.rax = "mmap", !.rdi = "0", !.rsi = "page", !.rdx = "rwx",
                                         !.r10 = "anon", !.r8 = "-1", !.r9 = "0"])
StepM2 == PokeText("M2", "syscall")
StepM3 == StepReq("M3", "M4")
StepM4 == Wait("M4")
StepM5 ==      \* GETREGS; rax == -1 ? ; debug_assert!(region_exist)
    /\ ctl = "M5"
    /\ IF ReqFails("M5") THEN FailForward("M5") /\ UNCHANGED patched
       ELSE IF regs.rax = "-1" THEN FailForward("M5") /\ UNCHANGED patched
       ELSE IF DebugAsserts /\ Variant = "aswritten" /\ regs.rax \notin maps THEN Panic /\ UNCHANGED alive
       ELSE IF Variant = "fixed" /\ regs.rax \notin maps THEN FailForward("M5") /\ UNCHANGED patched
       ELSE /\ alloc' = regs.rax /\ ctl' = "J1"
            /\ UNCHANGED <<c, regs, word, tramp, maps, patched, bpsaved, rz, log, alive, sv, res, outcome>>

StepJ1 == SetRegs("J1", [sv.regs EXCEPT !.rax = alloc])
StepJ2 == PokeText("J2", "jmp")
StepJ3 == StepReq("J3", "J4")
StepJ4 == Wait("J4")
StepJ5 ==
    /\ ctl = "J5"
    /\ IF ReqFails("J5") \/ regs.rip # alloc THEN FailForward("J5") /\ UNCHANGED patched
       ELSE /\ ctl' = "C1"
            /\ UNCHANGED <<c, regs, word, tramp, maps, patched, bpsaved, rz, log, alive, sv, alloc, res, outcome>>

StepC1 ==      \* POKE the trampoline
    /\ ctl = "C1"
    /\ IF ReqFails("C1") \/ alloc \notin maps THEN FailForward("C1") /\ UNCHANGED patched
       ELSE /\ tramp' = "call" /\ ctl' = "C2"
            /\ IF Variant = "fixed" THEN PokePc(sv.text) ELSE UNCHANGED <<word, patched>>   \* repair: original text back before the callee runs
            /\ UNCHANGED <<c, regs, maps, bpsaved, rz, log, alive, sv, alloc, res, outcome>>
StepC2 == SetRegs("C2", [WithArgs(sv.regs) EXCEPT !.rax = "fn", !.rip = alloc,
                                                   !.rsp = IF Variant = "fixed" THEN "low" ELSE sv.regs.rsp])
StepC3 == Simple("C3", /\ RunCall(c.fp = "C4" /\ c.fk = "stop")
                       /\ UNCHANGED <<word, tramp, maps, patched, bpsaved, sv, alloc>>)
StepC4 ==      \* waitpid; debug_assert!(res == Stopped(pid, SIGTRAP))
    /\ ctl = "C4"
    /\ IF alive /\ regs.rip = "loop"
       THEN /\ Finish("hang")           \* waitpid never returns
            /\ UNCHANGED <<c, regs, word, tramp, maps, patched, bpsaved, rz, log, alive, sv, alloc, res>>
       ELSE IF ~alive \/ (Strikes("C4") /\ c.fk = "death") THEN FailForward("C4") /\ UNCHANGED patched
       ELSE IF Strikes("C4") /\ c.fk = "stop"
            THEN IF Variant = "fixed" THEN FailForward("C4") /\ UNCHANGED patched
                 ELSE IF DebugAsserts THEN Panic /\ UNCHANGED alive
                 ELSE /\ ctl' = "R1"
                      /\ UNCHANGED <<c, regs, word, tramp, maps, patched, bpsaved, rz, log, alive, sv, alloc, res, outcome>>
       ELSE IF Variant = "fixed" /\ regs.rip # "tramp+3" THEN FailForward("C4") /\ UNCHANGED patched
       ELSE /\ ctl' = "R1"
            /\ UNCHANGED <<c, regs, word, tramp, maps, patched, bpsaved, rz, log, alive, sv, alloc, res, outcome>>

StepR1 == SetRegs("R1", sv.regs)

StepU1 == PokeText("U1", "syscall")
StepU2 == SetRegs("U2", [sv.regs EXCEPT !.rax = "munmap", !.rdi = alloc, !.rsi = "page"])
StepU3 == StepReq("U3", "U4")
StepU4 == Wait("U4")
StepU5 ==
    /\ ctl = "U5"
    /\ IF ReqFails("U5") \/ regs.rax # "0" THEN FailForward("U5") /\ UNCHANGED patched
       ELSE /\ ctl' = "U6"
            /\ UNCHANGED <<c, regs, word, tramp, maps, patched, bpsaved, rz, log, alive, sv, alloc, res, outcome>>
StepU6 == PokeText("U6", "orig")

\* candidate repair only: best-effort munmap on the error path (restores registers for the syscall itself)
StepXU ==
    /\ ctl = "XU"
    /\ IF alive /\ "tramp" \in maps /\ sv.has
       THEN maps' = maps \ {"tramp"} /\ tramp' = "none"
       ELSE UNCHANGED <<maps, tramp>>
    /\ ctl' = "X1"
    /\ UNCHANGED <<c, regs, word, patched, bpsaved, rz, log, alive, sv, alloc, res, outcome>>

\* with_ccx: retrieve_original_state().expect(..)
CleanupFails(p) == ~alive \/ (Strikes(p) /\ c.fk \in {"err", "death"})
StepX1 ==
    /\ ctl = "X1"
    /\ IF CleanupFails("X1")
       THEN IF Variant = "aswritten" THEN Panic /\ alive' = (alive /\ ~Dies("X1"))
            ELSE /\ alive' = (alive /\ ~Dies("X1")) /\ res' = "err" /\ ctl' = "X2"
                 /\ UNCHANGED <<c, regs, word, tramp, maps, patched, bpsaved, rz, log, sv, alloc, outcome>>
       ELSE /\ regs' = sv.regs /\ ctl' = "X2"
            /\ UNCHANGED <<c, word, tramp, maps, patched, bpsaved, rz, log, alive, sv, alloc, res, outcome>>
StepX2 ==
    /\ ctl = "X2"
    /\ IF CleanupFails("X2")
       THEN IF Variant = "aswritten" THEN Panic /\ alive' = (alive /\ ~Dies("X2"))
            ELSE /\ alive' = (alive /\ ~Dies("X2")) /\ res' = "err" /\ ctl' = "E"
                 /\ UNCHANGED <<c, regs, word, tramp, maps, patched, bpsaved, rz, log, sv, alloc, outcome>>
       ELSE /\ PokePc(sv.text) /\ ctl' = "E"
            /\ UNCHANGED <<c, regs, tramp, maps, bpsaved, rz, log, alive, sv, alloc, res, outcome>>

\* enable every registered breakpoint again (PEEK the byte under it, POKE INT3)
StepE ==
    /\ ctl = "E"
    /\ IF CleanupFails("E")
       THEN IF Variant = "aswritten" THEN Panic /\ alive' = (alive /\ ~Dies("E"))
            ELSE /\ alive' = (alive /\ ~Dies("E")) /\ Finish("err")
                 /\ UNCHANGED <<c, regs, word, tramp, maps, patched, bpsaved, rz, log, sv, alloc, res>>
       ELSE /\ patched' = c.bps
            /\ bpsaved' = [s \in BpSites |-> IF s = "pc" /\ "pc" \in c.bps /\ word # "orig" THEN "other" ELSE bpsaved[s]]
            /\ Finish(res)
            /\ UNCHANGED <<c, regs, word, tramp, maps, rz, log, alive, sv, alloc, res>>

\* as written: `brkpt.disable()?` returns at once
StepRet ==
    /\ ctl = "ret" /\ Finish("err")
    /\ UNCHANGED <<c, regs, word, tramp, maps, patched, bpsaved, rz, log, alive, sv, alloc, res>>

\* ---- the reference: post-conditions of every exit path -----------------------------------------------
Done == outcome # "running"
Avoidable == c.fp \notin {"X1", "X2", "E"}        \* a fault inside the restoration itself cannot be undone by anyone
PostRegs == regs = Regs0
PostText == word = "orig"
PostMaps == maps = {}
PostBps == patched = c.bps /\ \A s \in c.bps : bpsaved[s] = "orig"
PostStack == LiveRZ => (rz.ret = "frame" /\ rz.deep = "frame")
PostLog == /\ Len(log) <= 1
           /\ outcome = "ok" => /\ Len(log) = 1
                                /\ log[1].args = [i \in 1..c.n |-> "arg" \o ToString(i)]
                                /\ log[1].aligned
PostReport == /\ outcome \notin {"panic", "hang"}
              /\ ~c.makeable => outcome = "err"                     \* a call that cannot be made reports an error
              /\ (c.makeable /\ c.fp = "none") => outcome = "ok"
PostNames == <<"regs", "text", "maps", "bps", "stack", "log", "report">>
PostVals == <<(alive => PostRegs), (alive => PostText), (alive => PostMaps), (alive => PostBps),
              (alive => PostStack), PostLog, PostReport>>
Violated == {PostNames[i] : i \in {j \in 1..Len(PostNames) : ~PostVals[j]}}

TermJson == [pos |-> c.pos, bps |-> c.bps, n |-> c.n, makeable |-> c.makeable, fp |-> c.fp, fk |-> c.fk,
             outcome |-> outcome, alive |-> alive, loglen |-> Len(log), violated |-> Violated]

Terminal ==
    /\ ctl = "done" /\ ctl' = "end"
    /\ (Emit = "term") => PrintT(<<"TERM", ToJson(TermJson)>>)
    /\ UNCHANGED <<c, regs, word, tramp, maps, patched, bpsaved, rz, log, alive, sv, alloc, res, outcome>>

Next == \/ StepD \/ StepL \/ StepS1 \/ StepS2
        \/ StepM1 \/ StepM2 \/ StepM3 \/ StepM4 \/ StepM5
        \/ StepJ1 \/ StepJ2 \/ StepJ3 \/ StepJ4 \/ StepJ5
        \/ StepC1 \/ StepC2 \/ StepC3 \/ StepC4
        \/ StepR1
        \/ StepU1 \/ StepU2 \/ StepU3 \/ StepU4 \/ StepU5 \/ StepU6
        \/ StepXU \/ StepX1 \/ StepX2 \/ StepE \/ StepRet \/ Terminal

Spec == Init /\ [][Next]_vars

\* invariants for Variant = "fixed": every avoidable exit path meets the reference
AllPost == (Done /\ Avoidable) => Violated = {}
NoPanic == outcome \notin {"panic", "hang"}
\* as written, without faults, away from a red zone and on an aligned stack: the reference is met
HappyPathOk == (Done /\ c.fp = "none" /\ c.pos = "mid") => Violated = {}
TypeOK == /\ outcome \in {"running", "ok", "err", "panic", "hang"} /\ maps \subseteq {"tramp"} /\ patched \subseteq BpSites
=============================================================================

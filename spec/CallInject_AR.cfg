\* C16 / CallInject.tla -- as _A, debug assertions compiled out (release build)
CONSTANTS
    Variant = "aswritten"
    DebugAsserts = FALSE
    FailKinds = {"err", "death", "stop"}
    Arities = {0, 1, 2, 3, 4, 5, 6}
    BpChoice = "all"
    Emit = "term"
SPECIFICATION Spec
INVARIANTS HappyPathOk TypeOK

\* C15 / MemRW.tla -- (G) every breakpoint placement (<= 3 of 5 sites) printed with the specification's answer; algmasked = disasm.rs as written, algraw = the DAP handler
CONSTANTS
    W = 4
    Lo = 4
    Hi = 16
    MaxN = 9
    MaxOps = 4
    OpKinds = {"R", "WB", "WW"}
    DataKinds = {"pat", "inv"}
    ReadVariant = "tail"
    Emit = "cases"
    Regs = {}
    InitMem = "pattern"
    DisVariant = "masked"
SPECIFICATION SpecDis
VIEW View
INVARIANTS PatchesConsistent

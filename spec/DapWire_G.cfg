\* (G) simulation of the model AS WRITTEN; every finished behaviour is printed (EmitBeh) for replay.
SPECIFICATION Spec
CONSTANTS
  MaxReq = 5
  Universe <- UniverseFull
  QMaxEv = 1
  PreLines = 1
  PostLines = 1
  SeqUnderLock = FALSE
  RespondAfter = FALSE
  FwdHonoursTerm = FALSE
  InitViaQueue = FALSE
  ClearCache = FALSE
INVARIANTS TypeOK EmitBeh

\* (G) simulation of the model of the CURRENT code (repairs a,b,d,e committed in /repo; forwarders as written); every finished behaviour is printed (EmitBeh) for replay.
SPECIFICATION Spec
CONSTANTS
  MaxReq = 5
  Universe <- UniverseFull
  QMaxEv = 1
  PreLines = 1
  PostLines = 1
  SeqUnderLock = TRUE
  RespondAfter = TRUE
  FwdHonoursTerm = FALSE
  InitViaQueue = TRUE
  ClearCache = TRUE
  DrainKeepsTerm = FALSE
INVARIANTS TypeOK EmitBeh

CONSTANTS
  Rows <- DataRows
  Funcs <- DataFuncs
INIT Init
NEXT Next

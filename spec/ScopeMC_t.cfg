CONSTANTS
  L = 4
  MaxBlocks = 4
  MaxVars = 3
  Names = {"x"}
SPECIFICATION Spec
INVARIANTS ResolveInScope ResolveInnermost SiblingExcluded FunctionLocal DeclaredLaterExcluded DesignValidAtMeetsRef

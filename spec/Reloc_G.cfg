\* C18 / Reloc.tla -- (G) every complete session (one load bias per object: the loader's choice is not
\* controllable in the replay) printed as JSON with the REFERENCE's expectations at every prompt
CONSTANTS
    ExeModes = {"pie", "nopie"}
    LibModes = {"startup", "dlopen"}
    SessModes = {"launch"}
    LibBiases = {300}
    LibBases = {0, 60}
    Kinds = {"fn", "line", "addr"}
    MaxReq = 2
    OffsetRule = "bias"
    ReloadRule = "rearm"
    EarlyAddrRule = "defer"
    AttachRule = "rbrk"
    ReqPlan = "free"
    Emit = "scn"
SPECIFICATION Spec
INVARIANTS RefSane InstalledAtTrueAddress ActiveWhenMapped SharedLibsAreMapped StopsWhereRequested NeverLost

\* pure DR7 encoding table (evaluated through ASSUME-like invariant on the single initial state)
SPECIFICATION Spec
CONSTANTS
  Globals = {"G0"}
  Locals = {}
  KindTab <- OneTab
  MaxOps = 1
  SlotFirst = TRUE
  Distribute = TRUE
  Gen = FALSE
  ViewSlots = FALSE
CONSTRAINT Dr7Stop
INVARIANTS Dr7Anchor

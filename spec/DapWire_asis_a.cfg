\* (E) as written for defect (a) only: sequence number taken before the transport lock; the other candidate fixes applied.
\* TLC's counterexample to WireSeqOrdered is the behaviour replayed against the real adapter.
SPECIFICATION Spec
CONSTANTS
  MaxReq = 2
  Universe <- UniverseCore
  QMaxEv = 0
  PreLines = 1
  PostLines = 1
  SeqUnderLock = FALSE
  RespondAfter = TRUE
  FwdHonoursTerm = TRUE
  InitViaQueue = TRUE
  ClearCache = TRUE
  DrainKeepsTerm = FALSE
INVARIANTS TypeOK WireSeqOrdered
ALIAS BehAlias

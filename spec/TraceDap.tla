------------------------------- MODULE TraceDap -------------------------------
(* Mode (V): validate recorded sessions of the REAL adapter (harness/src/bin/c12.rs) against    *)
(* DapWire.  The trace file (IOEnv.TRACE, ndjson) is a batch of sessions, each                 *)
(*   session_start{id, seqs}  (read_begin | request | sched | release | wire | client_close |   *)
(*   read_eof | session_end | eof)*                                                            *)
(* in the global order in which the harness observed them (wire = position in the byte stream). *)
(*                                                                                             *)
(* MonitorOnly = FALSE: every event must be consumed by the matching DapWire action with its   *)
(*   fields bound (the implementation model is bound); unlogged steps (plan bookkeeping,     *)
(*   fetch_add, lock acquisition, a forwarder picking up a line) are inferred.  A trace the     *)
(*   model cannot follow is MODEL DRIFT, reported with the longest matched prefix.              *)
(* MonitorOnly = TRUE: only the REFERENCE monitor of DapWire runs over the observations; this  *)
(*   decides the property for sessions the model cannot follow.                                *)
(* In both modes the reference is evaluated at every step of the real run; what it finds is     *)
(* accumulated in `vlog` (with the trace line) instead of stopping at the first hit, so that a  *)
(* batch reports every violation.  TraceDap_inv.cfg switches the same predicates on as TLC      *)
(* invariants for single-trace replays.                                                        *)
EXTENDS DapWire, Json, IOUtils

CONSTANT MonitorOnly

Rec == ndJsonDeserialize(IOEnv.TRACE)
N == Len(Rec)

VARIABLES l,      \* index of the next event to consume
          nw,     \* messages written so far per thread (this session)
          shdr,   \* the current session's header event
          vlog    \* reference violations so far: [l |-> trace line, v |-> record]
tvars == <<l, nw, shdr, vlog>>

Get(e, k, d) == IF k \in DOMAIN e THEN e[k] ELSE d
E == Rec[l]
Is(n) == l <= N /\ E.ev = n
Adv == l' = l + 1

Lifecycle == {"initialized", "stopped", "continued", "thread", "exited", "terminated"}
\* the message as the independent client parsed it from the byte stream
WireRec(e) ==
  [seq |-> e.seq, type |-> e.type, name |-> e.name, rseq |-> e.request_seq, ok |-> e.success,
   reason |-> IF e.type = "event" /\ e.name = "thread" THEN Get(e, "reason", "") ELSE "",
   tid |-> IF e.type = "event" /\ e.name = "thread" THEN Get(e, "threadId", 0) ELSE 0,
   by |-> e.by]
ModelName(x) == IF x.type = "response" THEN x.name
                ELSE IF x.name = "output" /\ x.by \in Fwd THEN "output"
                ELSE IF x.name \in Lifecycle THEN x.name ELSE "neutral"
Matches(p, x) ==
  LET m == pending[p] IN
  /\ m.type = x.type /\ m.name = ModelName(x) /\ m.rseq = x.rseq /\ m.ok = x.ok /\ m.reason = x.reason
  /\ held[p] = x.seq
ReqRec(e) == [rseq |-> e.seq, cmd |-> e.command, cls |-> e.cls, shape |-> e.shape]

InitWire ==
  /\ seq' = 1 /\ lock' = "free" /\ wire' = <<>>
  /\ ppc' = [p \in Procs |-> IF p = "sess" THEN "top" ELSE "idle"]
  /\ held' = [p \in Procs |-> 0]
  /\ pending' = [p \in Procs |-> Neutral]
  /\ reqlog' = <<>> /\ closed' = FALSE
  /\ todo' = <<>> /\ phs' = "top" /\ queue' = <<>> /\ termd' = FALSE
  /\ dbg' = "none" /\ mode' = "none" /\ bpset' = FALSE /\ phase' = "pre" /\ gen' = 0 /\ cache' = 0
  /\ minfo' = FALSE
  /\ left' = [pre |-> 0, post |-> 0] /\ avail' = [f \in Fwd |-> 0]
  /\ mon' = MonInit /\ viol' = {}

TInit == Init /\ l = 1 /\ nw = [p \in Procs |-> 0] /\ shdr = [seqs |-> [p \in Procs |-> <<>>]] /\ vlog = <<>>

SessStart == Is("session_start") /\ InitWire /\ Adv /\ nw' = [p \in Procs |-> 0] /\ shdr' = E
Skip == l <= N /\ E.ev \in {"sched", "release", "eof", "hang", "bad_stream", "teardown_hang"} /\ Adv /\ UNCHANGED <<vars, nw, shdr>>

\* ---- MonitorOnly = FALSE: events bound to the model's actions ------------------------------------
T_ReadBegin   == Is("read_begin") /\ ReadBegin /\ Adv /\ UNCHANGED <<nw, shdr>>
T_Request     == Is("request") /\ ReadEnd(ReqRec(E)) /\ Adv /\ UNCHANGED <<nw, shdr>>
T_ClientClose == Is("client_close") /\ ClientClose /\ Adv /\ UNCHANGED <<nw, shdr>>
T_ReadEof     == Is("read_eof") /\ ReadEof /\ Adv /\ UNCHANGED <<nw, shdr>>
T_SessionEnd  == Is("session_end") /\ ppc["sess"] = "done" /\ Adv /\ UNCHANGED <<vars, nw, shdr>>
T_Wire        == /\ Is("wire") /\ E.by \in Procs
                 /\ Matches(E.by, WireRec(E))
                 /\ WriteMsg(E.by, WireRec(E))
                 /\ nw' = [nw EXCEPT ![E.by] = nw[E.by] + 1]
                 /\ Adv /\ UNCHANGED shdr

\* unlogged steps, inferred only when the rest of the trace needs them
MoreBy(p)   == nw[p] < Len(shdr.seqs[p])
NextSeqBy(p) == shdr.seqs[p][nw[p] + 1]
S_TakeSeq(p) == MoreBy(p) /\ NextSeqBy(p) = seq /\ TakeSeq(p)
S_Acquire(p) == Is("wire") /\ E.by = p /\ Acquire(p)
S_FwdLine(f) == MoreBy(f) /\ FwdLine(f)
\* the shape of a query-like handler's plan is read off the session's own messages (hints qa/qb/qok)
S_Dispatch == LET r == Rec[l - 1] IN
              /\ l > 1 /\ r.ev = "request"
              /\ Dispatch(IF r.cls \in QueryLike THEN Get(r, "qa", 0) ELSE 0,
                          IF r.cls \in QueryLike THEN Get(r, "qb", 0) ELSE 0,
                          IF r.cls \in {"query", "goto", "step"} THEN Get(r, "qok", TRUE)
                          ELSE IF r.cls = "continue" THEN Get(r, "qlast", TRUE) ELSE TRUE)
Silent == /\ l <= N
          /\ \/ \E p \in Procs : S_TakeSeq(p) \/ S_Acquire(p)
             \/ \E f \in Fwd : S_FwdLine(f)
             \/ S_Dispatch \/ SessLocal \/ Runs
          /\ UNCHANGED <<l, nw, shdr>>

TNext == SessStart \/ Skip \/ T_ReadBegin \/ T_Request \/ T_ClientClose \/ T_ReadEof \/ T_SessionEnd
         \/ T_Wire \/ Silent

\* ---- MonitorOnly = TRUE: only the reference runs ---------------------------------------------------
Frame == UNCHANGED <<seq, lock, ppc, held, pending, todo, phs, queue, termd, dbg, mode, bpset, phase, gen,
                     cache, minfo, left, avail>>
M_ReadBegin == /\ Is("read_begin") /\ viol' = viol \cup MonQuietViol(mon) /\ mon' = MonQuiet(mon)
               /\ UNCHANGED <<wire, reqlog, closed>>
M_Request   == /\ Is("request") /\ reqlog' = Append(reqlog, ReqRec(E)) /\ mon' = MonReq(mon, ReqRec(E))
               /\ UNCHANGED <<wire, closed, viol>>
M_Wire      == /\ Is("wire") /\ wire' = Append(wire, WireRec(E))
               /\ viol' = viol \cup MonMsgViol(mon, WireRec(E)) /\ mon' = MonMsg(mon, WireRec(E))
               /\ UNCHANGED <<reqlog, closed>>
M_Close     == Is("client_close") /\ closed' = TRUE /\ UNCHANGED <<wire, reqlog, mon, viol>>
M_ReadEof   == /\ Is("read_eof") /\ viol' = viol \cup MonEndViol(mon, TRUE)
               /\ mon' = [MonQuiet(mon) EXCEPT !.ended = TRUE] /\ UNCHANGED <<wire, reqlog, closed>>
M_End       == /\ Is("session_end")
               /\ IF mon.ended THEN UNCHANGED <<mon, viol>>
                  ELSE /\ viol' = viol \cup MonEndViol(mon, FALSE)
                       /\ mon' = [MonQuiet(mon) EXCEPT !.ended = TRUE]
               /\ UNCHANGED <<wire, reqlog, closed>>
MNext == SessStart \/ Skip
         \/ ((M_ReadBegin \/ M_Request \/ M_Wire \/ M_Close \/ M_ReadEof \/ M_End) /\ Frame /\ Adv /\ UNCHANGED <<nw, shdr>>)

\* new reference violations of this step, one log entry each
RECURSIVE SetToSeq(_)
SetToSeq(S) == IF S = {} THEN <<>> ELSE LET x == CHOOSE y \in S : TRUE IN <<x>> \o SetToSeq(S \ {x})
Log2 == LET new == SetToSeq(viol' \ viol) IN
        vlog' = vlog \o [i \in 1..Len(new) |-> [l |-> l, v |-> new[i]]]

TraceNext == (IF MonitorOnly THEN MNext ELSE TNext) /\ Log2
TraceSpec == TInit /\ [][TraceNext]_<<vars, tvars>>

\* ---- acceptance ------------------------------------------------------------------------------------
ASSUME TLCSet(1, 0) /\ TLCSet(2, <<>>)
Watermark == IF TLCGet(1) < l THEN TLCSet(1, l) /\ TLCSet(2, vlog) ELSE TRUE
Progress == l >= 1 /\ Watermark
Accepted ==
  /\ PrintT(<<"RESULT", ToJson([consumed |-> TLCGet(1) - 1, total |-> N, viol |-> TLCGet(2)])>>)
  /\ IF TLCGet(1) = N + 1 THEN TRUE
     ELSE PrintT(<<"REJECTED: longest matched prefix", TLCGet(1) - 1, "of", N, "first unmatched event",
                   Rec[TLCGet(1)]>>)   \* the verdict is read from RESULT (consumed < total = rejected)
=============================================================================

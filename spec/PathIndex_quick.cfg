SPECIFICATION Spec
CONSTANTS
  Names <- NamesAB
  Delim <- DelimColons
  RawChars <- CharsColons
  MaxLen = 3
  MaxInserts = 3
  WithRoot = FALSE
  RawLen = 3
  Emit = TRUE
INVARIANTS GetEqualsSpecFast StructureOK EmitCases

CONSTANTS
  L = 3
  MaxBlocks = 4
  MaxVars = 2
  Names = {"x"}
SPECIFICATION Spec
INVARIANTS ResolveInScope ResolveInnermost SiblingExcluded FunctionLocal DeclaredLaterExcluded DesignValidAtMeetsRef

--------------------------- MODULE LineTableEval ---------------------------
(***************************************************************************)
(* C04 oracle for a REAL binary.  LTData is a generated constant module    *)
(* (tools/c04_oracle.py, from llvm-dwarfdump + objdump output) found via   *)
(* -DTLA-Library=<work dir>.  TLC evaluates the DECLARATIVE operators of   *)
(* LineTable (part 1 only) for every query and writes the expected answers *)
(* as ndjson to the file named by the environment variable OUT.            *)
(***************************************************************************)
EXTENDS LineTable, TLC, Json, IOUtils, LTData
\* cfg: Rows <- DataRows, Funcs <- DataFuncs (plain EXTENDS so that TLC caches the constant-level
\* definitions SeqRows/SeqLo/SeqHi)

PcSet == {DataPcs[k] : k \in DOMAIN DataPcs}

PcAnswer(pc) ==
  [q     |-> "pc",
   pc    |-> pc,
   place |-> PlaceOf(pc),
   cand  |-> PlaceCandidates(pc),
   shadow |-> EndSeqShadowing(pc),
   func  |-> FuncOf(pc)]

LineAnswer(file, l) ==
  LET A == AddrsOfLine(file, l)
      F == {f \in DOMAIN DataFuncs : \E a \in A : InFunc(f, a)}     \* = FuncsOfLine(file, l)
  IN [q      |-> "line",
      file   |-> file,
      line   |-> l,
      target |-> LineTarget(file, l),
      addrs  |-> A,
      funcs  |-> {<<f, {a \in A : InFunc(f, a)}>> : f \in F}]

FnAnswer(name) ==
  [q     |-> "fn",
   name  |-> name,
   funcs |-> {[f       |-> f,
               haspe   |-> HasPe(f),
               addr    |-> IF HasPe(f) THEN <<FnBreakAddr(f)>> ELSE <<>>,
               allowed |-> IF HasPe(f) THEN {FnBreakAddr(f)}
                           ELSE {pc \in PcSet : InFunc(f, pc)}]
              : f \in {g \in DOMAIN DataFuncs : DataFuncs[g].q = name}}]

RangeAnswer(file, lo, hi) ==
  [q      |-> "range",
   file   |-> file,
   places |-> StmtPlacesOfFile(file, lo, hi),
   endseq |-> EndSeqPlacesOfFile(file)]

Answers ==
  [k \in DOMAIN DataPcs |-> PcAnswer(DataPcs[k])]
  \o [k \in DOMAIN DataLineQs |-> LineAnswer(DataLineQs[k][1], DataLineQs[k][2])]
  \o [k \in DOMAIN DataFnQs |-> FnAnswer(DataFnQs[k])]
  \o [k \in DOMAIN DataRangeQs |-> RangeAnswer(DataRangeQs[k][1], DataRangeQs[k][2], DataRangeQs[k][3])]

\* well-formedness of the imported table (a violation is a tool error, not a finding)
WellFormed ==
  /\ \A s \in SeqIds : Cardinality({i \in SeqRows[s] : DataRows[i].es}) = 1
  /\ \A i \in DOMAIN DataRows :
       ~DataRows[i].es => /\ i + 1 \in DOMAIN DataRows
                          /\ DataRows[i + 1].seq = DataRows[i].seq
                          /\ DataRows[i + 1].addr >= DataRows[i].addr

ASSUME WellFormed
ASSUME ndJsonSerialize(IOEnv.OUT, Answers)
ASSUME PrintT(<<"C04EVAL", Len(DataRows), Len(DataFuncs), Len(DataPcs), Len(DataLineQs), Len(DataFnQs)>>)

VARIABLE dummy
Init == dummy = 0
Next == UNCHANGED dummy
=============================================================================

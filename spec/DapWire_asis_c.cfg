\* (E) as written for defect (c) only: forwarders ignore the terminated latch; the other candidate fixes applied.
\* TLC's counterexample to NoEventAfterTerminated is the behaviour replayed against the real adapter.
SPECIFICATION Spec
CONSTANTS
  MaxReq = 2
  Universe <- UniverseCore
  QMaxEv = 0
  PreLines = 1
  PostLines = 1
  SeqUnderLock = TRUE
  RespondAfter = TRUE
  FwdHonoursTerm = FALSE
  InitViaQueue = TRUE
  ClearCache = TRUE
  DrainKeepsTerm = FALSE
INVARIANTS TypeOK NoEventAfterTerminated
ALIAS BehAlias

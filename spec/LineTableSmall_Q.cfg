\* quick: 2 rows + 1 row, all flags free, zero-length rows, adjacent functions (padding: _T),
\* stable arrangement of equal addresses (what sort_unstable does for <= 20 elements), std binary search
CONSTANTS
  MaxRows1 = 2
  MaxRows2 = 1
  Lens = {0, 1, 2}
  Lines = {1, 2}
  Cols = {1}
  Stmts = {TRUE, FALSE}
  Pes = {TRUE, FALSE}
  Gaps = {0}
  Stable = TRUE
  AnyHit = FALSE
  Allowed = {}
SPECIFICATION Spec
ALIAS Alias

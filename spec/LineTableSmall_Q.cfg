\* quick: 2 rows + 1 row, all flags free, zero-length rows, adjacent functions (padding: _T),
\* one compilation unit
CONSTANTS
  MaxRows1 = 2
  MaxRows2 = 1
  Lens = {0, 1, 2}
  Lines = {1, 2}
  Cols = {1}
  Stmts = {TRUE, FALSE}
  Pes = {TRUE, FALSE}
  Gaps = {0}
  TwoUnits = FALSE
  PerUnitFallback = FALSE
  Allowed = {}
SPECIFICATION Spec
ALIAS Alias

\* (V) model-bound validation of a batch of recorded sessions (as-written model)
SPECIFICATION TraceSpec
CONSTANTS
  MaxReq = 100000
  Universe = {}
  QMaxEv = 0
  PreLines = 64
  PostLines = 64
  SeqUnderLock = FALSE
  RespondAfter = FALSE
  FwdHonoursTerm = FALSE
  InitViaQueue = FALSE
  ClearCache = FALSE
  DrainKeepsTerm = FALSE
  MonitorOnly = FALSE
INVARIANT TypeOK
CONSTRAINT Progress
POSTCONDITION Accepted
CHECK_DEADLOCK FALSE

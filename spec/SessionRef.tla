------------------------------ MODULE SessionRef ------------------------------
(***************************************************************************)
(* Reference semantics of BugStalker's session commands over ONE execution *)
(* of a deterministic single-threaded debuggee.                            *)
(*                                                                         *)
(* The execution is data: X is the sequence of machine states the program  *)
(* passes through in user code when it runs natively (recorded by an       *)
(* independent ptrace single-stepper, harness/src/bin/reftrace.rs, and     *)
(* annotated from an independent decode of the binary's line table).  A    *)
(* debugger command maps the current position i in X to the set of         *)
(* positions at which the property statements (C01, C02, C03, C05, C11)    *)
(* allow the program to be stopped next, together with what must be        *)
(* reported there.                                                         *)
(*                                                                         *)
(* The module is used in three ways (DESIGN.md 3.3):                       *)
(*  (E/G) Spec      - TLC explores every command history over X within     *)
(*                    MaxCmd/MaxBps, checks the reference's own theorems   *)
(*                    and the design-level model of step.rs (ImplNext,     *)
(*                    ImplFinish) against the reference, and emits command *)
(*                    histories for replay into the real debugger;         *)
(*  (V)   TraceSpec - a recorded session of the REAL debugger (IOEnv.TRACE)*)
(*                    is consumed event by event; every observation is     *)
(*                    judged against the reference at the position the     *)
(*                    real program actually is (pc + the program's own     *)
(*                    TICK); verdicts are collected in `viol`.             *)
(***************************************************************************)
EXTENDS Integers, Sequences, FiniteSets, TLC, Json, IOUtils, XData

(* XData (generated per puppet binary by tools/sesslib.py; spec/XData.tla is a small sample) defines
     X        <<[pc, d, ln, st, pe, fn, sk, tk, ext] ...>> one record per executed user instruction
     Stacks   Stacks[sk] = return addresses of the active calls, outermost first
     BpCands  candidate breakpoint addresses (statement rows), for generation
     ExitCode native exit status
     Entry    set of addresses the debugger may keep patched for itself (entry point)
     TailPos  first position of the puppet's final report (from there on the program calls into std and
              step commands are not judged)
   as plain definitions, so that TLC evaluates them once. *)
CONSTANTS MaxCmd, MaxBps, MaxBk,
          Lifecycle,    \* TRUE: histories may restart and quit (C11)
          Signals,      \* TRUE: histories may send SIGUSR1 to the stopped program
          Extras,       \* TRUE: histories may inject calls and arm a watchpoint (C02)
          Frames        \* TRUE: histories may select a caller's frame before a command (C03, C05)

N == Len(X)
Exited == N + 1
Pc(j) == X[j].pc
D(j)  == X[j].d
Ln(j) == X[j].ln
St(j) == X[j].st                 \* pc is the start of an is_stmt row
Sb(j) == X[j].st /\ X[j].pe      \* ... and lies after its function's prologue
Fn(j) == X[j].fn
After(i) == (i + 1)..N

\* first position >= j satisfying a predicate, or Exited (linear scans; recursion depth <= N)
RECURSIVE ScanPc(_, _), ScanDepthLt(_, _), ScanSb(_), ScanNext(_, _, _), ScanStep(_, _, _)
ScanPc(j, S)      == IF j > N THEN Exited ELSE IF Pc(j) \in S THEN j ELSE ScanPc(j + 1, S)
ScanDepthLt(j, d) == IF j > N THEN Exited ELSE IF D(j) < d THEN j ELSE ScanDepthLt(j + 1, d)
ScanSb(j)         == IF j > N THEN Exited ELSE IF Sb(j) THEN j ELSE ScanSb(j + 1)
ScanNext(j, d, ln) == IF j > N THEN Exited
                      ELSE IF D(j) < d \/ (D(j) = d /\ Sb(j) /\ Ln(j) # ln) THEN j ELSE ScanNext(j + 1, d, ln)
ScanStep(j, d, ln) == IF j > N THEN Exited
                      ELSE IF D(j) < d \/ (Sb(j) /\ (Ln(j) # ln \/ D(j) # d)) THEN j ELSE ScanStep(j + 1, d, ln)
MaxOf(S) == CHOOSE m \in S : \A n \in S : n <= m

---------------------------------------------------------------------------
(* Reference: where may the program be stopped after a command issued at i *)

\* C01: the next arrival at an enabled user breakpoint location, in execution order
RefContinue(i, ubp) == ScanPc(i + 1, ubp)

\* the first instruction executed after the activation of i has returned
EndAct(i) == ScanDepthLt(i + 1, D(i))

\* "in the caller right after the return" (reading rule R7): the return address itself or any
\* statement boundary up to the first post-prologue statement boundary reached afterwards
AfterReturnAdm(r) ==
  IF r = Exited THEN {Exited}
  ELSE LET u == ScanSb(r) IN
       {j \in r..(IF u = Exited THEN N ELSE u) : j = r \/ St(j)} \cup (IF u = Exited THEN {Exited} ELSE {})

\* C03 next: a statement boundary, never inside a callee, no later than the first statement
\* boundary on a different line reached in the body of the current activation
NextAdm(i) ==
  LET u == ScanNext(i + 1, D(i), Ln(i))
  IN IF u # Exited /\ D(u) = D(i)
       THEN {j \in (i + 1)..u : D(j) = D(i) /\ St(j)}
       ELSE {j \in (i + 1)..(IF u = Exited THEN N ELSE u - 1) : D(j) = D(i) /\ St(j)} \cup AfterReturnAdm(u)

\* C03 step: as next, but the first line of a callee that has line information is not skipped
StepAdm(i) ==
  LET v == ScanStep(i + 1, D(i), Ln(i))
  IN IF v # Exited /\ D(v) >= D(i)
       THEN {j \in (i + 1)..v : St(j)}
       ELSE {j \in (i + 1)..(IF v = Exited THEN N ELSE v - 1) : St(j)} \cup AfterReturnAdm(v)

\* C03 finish: immediately after the current function returns, in the caller's activation
FinishAdm(i) == {EndAct(i)}
\* C03 stepi: exactly one instruction
StepIAdm(i) == IF i + 1 <= N THEN {i + 1} ELSE {Exited}

\* tables: evaluated once per execution (they depend on X only)
EndActT  == [i \in 1..N |-> EndAct(i)]
NextAdmT == [i \in 1..N |-> NextAdm(i)]
StepAdmT == [i \in 1..N |-> StepAdm(i)]

Adm(cmd, i) == CASE cmd = "stepi"  -> StepIAdm(i)
                 [] cmd = "step"   -> StepAdmT[i]
                 [] cmd = "next"   -> NextAdmT[i]
                 [] cmd = "finish" -> {EndActT[i]}
                 [] OTHER          -> {}

\* C05: the real call stack at position j, innermost first (frames of user code)
RefBacktrace(j) == LET s == Stacks[X[j].sk] IN
                   <<Pc(j)>> \o [k \in 1..Len(s) |-> s[Len(s) + 1 - k]]

---------------------------------------------------------------------------
(* Design-level model of step.rs: temporary breakpoints keyed by address   *)
(* and thread only (not by frame).  Compared with the reference by TLC in  *)
(* mode (E); the verdict about the code always comes from mode (V).        *)

FnRows(f) == {Pc(j) : j \in {k \in 1..N : Fn(k) = f /\ St(k) /\ X[k].pe}}
FnRowsT == [f \in {Fn(k) : k \in 1..N} |-> FnRows(f)]
RetAddr(i) == LET s == Stacks[X[i].sk] IN IF Len(s) = 0 THEN -1 ELSE s[Len(s)]
ImplNext(i, ubp) ==
  LET tmp == (FnRowsT[Fn(i)] \ {Pc(i)}) \cup {RetAddr(i)}
      hit == ScanPc(i + 1, tmp \cup ubp)
  IN IF hit = Exited THEN Exited
     ELSE IF Pc(hit) = RetAddr(i) /\ ~St(hit)
          THEN ScanSb(hit + 1)        \* step_in to the next line
          ELSE hit
ImplFinish(i, ubp) == ScanPc(i + 1, {RetAddr(i)} \cup ubp)

ImplNextOk(i, ubp) == LET h == ImplNext(i, ubp) IN h \in NextAdm(i) \/ h = RefContinue(i, ubp)
ImplFinishOk(i, ubp) == LET h == ImplFinish(i, ubp) IN h \in FinishAdm(i) \/ h = RefContinue(i, ubp)

=============================================================================

------------------------------ MODULE SessionRef ------------------------------
(***************************************************************************)
(* Reference semantics of BugStalker's session commands over ONE execution *)
(* of a deterministic single-threaded debuggee.                            *)
(*                                                                         *)
(* The execution is data: X is the sequence of machine states the program  *)
(* passes through in user code when it runs natively (recorded by an       *)
(* independent ptrace single-stepper, harness/src/bin/reftrace.rs, and     *)
(* annotated from an independent decode of the binary's line table).  A    *)
(* debugger command maps the current position i in X to the set of         *)
(* positions at which the property statements (C01, C02, C03, C05, C11)    *)
(* allow the program to be stopped next, together with what must be        *)
(* reported there.                                                         *)
(*                                                                         *)
(* The module is used in three ways (DESIGN.md 3.3):                       *)
(*  (E/G) Spec      - TLC explores every command history over X within     *)
(*                    MaxCmd/MaxBps, checks the reference's own theorems   *)
(*                    and the design-level model of step.rs (ImplNext,     *)
(*                    ImplFinish) against the reference, and emits command *)
(*                    histories for replay into the real debugger;         *)
(*  (V)   TraceSpec - a recorded session of the REAL debugger (IOEnv.TRACE)*)
(*                    is consumed event by event; every observation is     *)
(*                    judged against the reference at the position the     *)
(*                    real program actually is (pc + the program's own     *)
(*                    TICK); verdicts are collected in `viol`.             *)
(***************************************************************************)
EXTENDS Integers, Sequences, FiniteSets, TLC, Json, IOUtils

CONSTANTS X,          \* <<[pc, d, ln, st, pe, fn, sk, tk, ext] ...>> one record per executed user instruction
          Stacks,     \* Stacks[sk] = return addresses of the active calls, outermost first
          BpCands,    \* candidate breakpoint addresses (statement rows), for generation
          ExitCode,   \* native exit status
          Entry,      \* set of addresses the debugger may keep patched for itself (entry point)
          MaxCmd, MaxBps

N == Len(X)
Exited == N + 1
Pc(j) == X[j].pc
D(j)  == X[j].d
Ln(j) == X[j].ln
St(j) == X[j].st                 \* pc is the start of an is_stmt row
Sb(j) == X[j].st /\ X[j].pe      \* ... and lies after its function's prologue
Fn(j) == X[j].fn
Min(S) == IF S = {} THEN Exited ELSE CHOOSE m \in S : \A n \in S : m <= n
After(i) == (i + 1)..N

---------------------------------------------------------------------------
(* Reference: where may the program be stopped after a command issued at i *)

\* C01: the next arrival at an enabled user breakpoint location, in execution order
RefContinue(i, ubp) == Min({j \in After(i) : Pc(j) \in ubp})

\* the first instruction executed after the activation of i has returned
EndAct(i) == Min({j \in After(i) : D(j) < D(i)})

\* "in the caller right after the return" (reading rule R7): the return address itself or any
\* statement boundary up to the first post-prologue statement boundary reached afterwards
AfterReturnAdm(r) ==
  IF r = Exited THEN {Exited}
  ELSE LET u == Min({k \in r..N : Sb(k)}) IN
       {j \in r..N : j <= u /\ (j = r \/ St(j))} \cup (IF u = Exited THEN {Exited} ELSE {})

\* C03 next: a statement boundary, never inside a callee, no later than the first statement
\* boundary on a different line reached in the body of the current activation
NextAdm(i) ==
  LET e == EndAct(i)
      u == Min({j \in After(i) : j < e /\ D(j) = D(i) /\ Sb(j) /\ Ln(j) # Ln(i)})
  IN IF u < e THEN {j \in After(i) : j <= u /\ D(j) = D(i) /\ St(j)}
     ELSE {j \in After(i) : j < e /\ D(j) = D(i) /\ St(j)} \cup AfterReturnAdm(e)

\* C03 step: as next, but the first line of a callee that has line information is not skipped
StepAdm(i) ==
  LET e == EndAct(i)
      v == Min({j \in After(i) : j < e /\ Sb(j) /\ (Ln(j) # Ln(i) \/ D(j) # D(i))})
  IN IF v < e THEN {j \in After(i) : j <= v /\ St(j)}
     ELSE {j \in After(i) : j < e /\ St(j)} \cup AfterReturnAdm(e)

\* C03 finish: immediately after the current function returns, in the caller's activation
FinishAdm(i) == {EndAct(i)}
\* C03 stepi: exactly one instruction
StepIAdm(i) == IF i + 1 <= N THEN {i + 1} ELSE {Exited}

Adm(cmd, i) == CASE cmd = "stepi"  -> StepIAdm(i)
                 [] cmd = "step"   -> StepAdm(i)
                 [] cmd = "next"   -> NextAdm(i)
                 [] cmd = "finish" -> FinishAdm(i)
                 [] OTHER          -> {}
MaxOf(S) == CHOOSE m \in S : \A n \in S : n <= m

\* C05: the real call stack at position j, innermost first (frames of user code)
RefBacktrace(j) == LET s == Stacks[X[j].sk] IN
                   <<Pc(j)>> \o [k \in 1..Len(s) |-> s[Len(s) + 1 - k]]

---------------------------------------------------------------------------
(* Design-level model of step.rs: temporary breakpoints keyed by address   *)
(* and thread only (not by frame).  Compared with the reference by TLC in  *)
(* mode (E); the verdict about the code always comes from mode (V).        *)

FnRows(f) == {Pc(j) : j \in {k \in 1..N : Fn(k) = f /\ St(k) /\ X[k].pe}}
RetAddr(i) == LET s == Stacks[X[i].sk] IN IF Len(s) = 0 THEN -1 ELSE s[Len(s)]
ImplNext(i, ubp) ==
  LET tmp == (FnRows(Fn(i)) \ {Pc(i)}) \cup {RetAddr(i)}
      hit == Min({j \in After(i) : Pc(j) \in tmp \/ Pc(j) \in ubp})
  IN IF hit = Exited THEN Exited
     ELSE IF Pc(hit) = RetAddr(i) /\ ~St(hit)
          THEN Min({j \in After(hit) : Sb(j)})        \* step_in to the next line
          ELSE hit
ImplFinish(i, ubp) == Min({j \in After(i) : Pc(j) = RetAddr(i) \/ Pc(j) \in ubp})

ImplNextOk(i, ubp) == LET h == ImplNext(i, ubp) IN h \in NextAdm(i) \/ h = RefContinue(i, ubp)
ImplFinishOk(i, ubp) == LET h == ImplFinish(i, ubp) IN h \in FinishAdm(i) \/ h = RefContinue(i, ubp)

=============================================================================

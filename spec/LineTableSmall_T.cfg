\* thorough: 2 rows + 2 rows, all flags free, zero-length rows, adjacent functions
CONSTANTS
  MaxRows1 = 2
  MaxRows2 = 2
  Lens = {0, 1, 2}
  Lines = {1, 2}
  Cols = {1}
  Stmts = {TRUE, FALSE}
  Pes = {TRUE, FALSE}
  Gaps = {0}
  Stable = TRUE
  AnyHit = FALSE
  Allowed = {}
SPECIFICATION Spec
ALIAS Alias

\* thorough: 2 rows + 2 rows, zero-length rows, adjacent functions (is_stmt free is covered by _Q)
CONSTANTS
  MaxRows1 = 2
  MaxRows2 = 2
  Lens = {0, 1, 2}
  Lines = {1, 2}
  Cols = {1}
  Stmts = {TRUE}
  Pes = {TRUE, FALSE}
  Gaps = {0, 1}
  TwoUnits = FALSE
  PerUnitFallback = FALSE
  Allowed = {}
SPECIFICATION Spec
ALIAS Alias

SPECIFICATION Spec
INVARIANT Inv
CONSTANTS
  Mode = "parse"
  MaxDepth = 2
  Rich = TRUE

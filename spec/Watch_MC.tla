----------------------------- MODULE Watch_MC -----------------------------
(* Model-checking configurations of Watch: request tables and the DR7 enumeration. *)
EXTENDS Watch

AddrKinds(szs, cds) == {[size |-> s, cond |-> c, via |-> "addr"] : s \in szs, c \in cds}
ExprKinds(sz, cds)  == {[size |-> sz, cond |-> c, via |-> "expr"] : c \in cds}
LocalSize(l) == IF l = "LB" THEN 4 ELSE 8          \* la: u64, lb: u32

\* every size x condition by address, both conditions by expression (u64 statics), for every location
FullTab == [l \in Locs |-> IF l \in Locals THEN ExprKinds(LocalSize(l), Conds)
                           ELSE AddrKinds(Sizes, Conds) \cup ExprKinds(8, Conds)]

\* reduced table: all eight (size, condition) pairs and both access paths occur, spread over the locations
SpreadTab == [l \in Locs |->
   CASE l = "G0" -> {[size |-> 8, cond |-> "w",  via |-> "addr"], [size |-> 8, cond |-> "rw", via |-> "expr"]}
     [] l = "G1" -> {[size |-> 4, cond |-> "rw", via |-> "addr"], [size |-> 1, cond |-> "w",  via |-> "addr"]}
     [] l = "G2" -> {[size |-> 8, cond |-> "w",  via |-> "expr"], [size |-> 2, cond |-> "rw", via |-> "addr"]}
     [] l = "G3" -> {[size |-> 2, cond |-> "w",  via |-> "addr"], [size |-> 1, cond |-> "rw", via |-> "addr"]}
     [] l = "G4" -> {[size |-> 4, cond |-> "w",  via |-> "addr"]}
     [] l = "G5" -> {[size |-> 8, cond |-> "rw", via |-> "addr"]}
     [] l = "LA" -> {[size |-> 8, cond |-> "w",  via |-> "expr"]}
     [] l = "LB" -> {[size |-> 4, cond |-> "rw", via |-> "expr"]}]

\* one request kind per location (generation graph with the slot map in the view)
OneTab == [l \in Locs |->
   CASE l = "G0" -> {[size |-> 8, cond |-> "w",  via |-> "addr"]}
     [] l = "G1" -> {[size |-> 4, cond |-> "rw", via |-> "addr"]}
     [] l = "G2" -> {[size |-> 8, cond |-> "rw", via |-> "expr"]}
     [] l = "G3" -> {[size |-> 2, cond |-> "w",  via |-> "addr"]}
     [] l = "G4" -> {[size |-> 1, cond |-> "rw", via |-> "addr"]}
     [] l = "G5" -> {[size |-> 8, cond |-> "w",  via |-> "expr"]}
     [] l = "LA" -> {[size |-> 8, cond |-> "w",  via |-> "expr"]}
     [] l = "LB" -> {[size |-> 4, cond |-> "rw", via |-> "expr"]}]

-----------------------------------------------------------------------------
(* The DR7 encoding as a pure function: every combination of four slots, each either off or on with  *)
(* one of 4 sizes x 2 conditions (9^4 = 6561).  Printed for comparison with the real encoder.          *)
SlotCfg == {[on |-> FALSE, size |-> 0, cond |-> "-"]} \cup
           {[on |-> TRUE, size |-> s, cond |-> c] : s \in Sizes, c \in Conds}
ImgOf(f) == [a   |-> [i \in Slots |-> "none"],
             l   |-> [i \in Slots |-> f[i].on],
             rw  |-> [i \in Slots |-> IF f[i].on THEN RwBits(f[i].cond) ELSE 0],
             len |-> [i \in Slots |-> IF f[i].on THEN LenBits(f[i].size) ELSE 0],
             le  |-> \E i \in Slots : f[i].on]
\* mask of the bits the property constrains when disabled slots may carry stale RW/LEN fields:
\* all enable bits (low 10 bits) and the nibbles of the enabled slots
MaskHi(f) == LET m(i) == IF f[i].on THEN 15 * (16 ^ i) ELSE 0 IN m(0) + m(1) + m(2) + m(3)
Dr7Table == \A f \in [Slots -> SlotCfg] :
              PrintT(<<"DR7", ToJson([slots |-> [i \in Slots |-> f[i]], lo |-> Dr7Lo(ImgOf(f)),
                                      hi |-> Dr7Hi(ImgOf(f)), maskhi |-> MaskHi(f)])>>)
\* measured in the sandbox: 8-byte write watchpoint in slot 0 -> DR7 = 0x90101
Dr7Anchor == LET f == [i \in Slots |-> IF i = 0 THEN [on |-> TRUE, size |-> 8, cond |-> "w"]
                                       ELSE [on |-> FALSE, size |-> 0, cond |-> "-"]]
             IN Dr7Lo(ImgOf(f)) = 257 /\ Dr7Hi(ImgOf(f)) = 9
\* the table is printed exactly once: while evaluating the constraint on the initial state
Dr7Stop == IF nops = 0 THEN Dr7Table /\ FALSE ELSE FALSE
=============================================================================

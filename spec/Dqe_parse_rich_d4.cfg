SPECIFICATION Spec
INVARIANT Inv
CONSTANTS
  Mode = "parse"
  MaxDepth = 4
  Rich = TRUE

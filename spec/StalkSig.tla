---------------------------- MODULE StalkSig ----------------------------
(* C10 -- Signals reach the debuggee exactly once.                                   *)
(*                                                                                   *)
(* Linux ptrace/signal kernel model (per-task and shared pending sets with           *)
(* coalescing of standard signals, signal-delivery-stops, which stops honour the     *)
(* `data` of a resume, pending PTRACE_INTERRUPT) composed with BugStalker's tracer   *)
(* (tracer.rs: resume, apply_new_status, group_stop_interrupt, single_step; step.rs: *)
(* step_over_breakpoint, single_step_instruction, step_in; mod.rs:                   *)
(* continue_execution, stepi, step_into).  One atomic step per tracer syscall, per   *)
(* thread "instruction" and per signal send.  Derived from the prototype Stalk2      *)
(* (DESIGN.md App. D.1); clone and the C01/C09 ghosts are dropped, `step`, process-  *)
(* directed signals, handler entry under single-step and the prompt ghosts are new.  *)
(*                                                                                   *)
(* Switches (FALSE = code as written):                                               *)
(*   FixQuietDup    single_step pops the queue entry it has just injected            *)
(*   FixQuietFront  resume never returns a quiet queue front as a stop               *)
(*   FixStepIntr    single_step re-steps when it woke on an event-stop with pc       *)
(*                  unchanged (so a queued signal is never left to be injected into  *)
(*                  an event-stop)                                                   *)
(*   FixExclude     resume does not skip the injection target when the same thread   *)
(*                  has a further queue entry                                        *)
(*   FixSwallow     queue entries remember whether a command has returned them to    *)
(*                  the user: an entry nobody has seen yet (found inside             *)
(*                  group_stop_interrupt) is returned as a stop by the next resume   *)
(*                  instead of being injected silently, and an entry that was        *)
(*                  already returned is not returned a second time by the re-stop    *)
EXTENDS Naturals, Sequences, FiniteSets, TLC, Json

CONSTANTS Threads, Main,          \* tasks; Main = thread-group leader
          L, Iters, Bp,           \* program = loop of L one-byte instructions, breakpoint site Bp
          LineStarts,             \* addresses that start a source line (for `step`)
          MaxCmd, Cmds, RunOut,   \* commands issued at prompts; RunOut: afterwards remove bp, continue to exit
          Sigs, Quiet, Transparent, MaxSend, ProcTarget,
          FixQuietDup, FixQuietFront, FixStepIntr, FixSwallow, FixExclude,
          Gen                     \* TRUE: print one behaviour per distinct final state

None == 0
Proc == 99                          \* target "the process" (kill(pid)); thread targets are tids
SigStops == {"signal", "trap_brkpt", "trap_step"}     \* stops in which the resume `data` is honoured
SysCls == {"cont", "step", "wait", "intr"}

(* --algorithm StalkSig {
variables
  \* ---------------- kernel ----------------
  code   = TRUE,                                       \* int3 present at Bp
  \* initial state = the prompt after `break site; start; continue`: Main reported at the breakpoint
  \* (pc already rewound), the others parked in reported event-stops
  kst    = [t \in Threads |-> "stopped"],
  kstop  = [t \in Threads |-> IF t = Main THEN "trap_brkpt" ELSE "event_stop"],
  ksig   = [t \in Threads |-> "none"],
  unrep  = [t \in Threads |-> FALSE],
  rip    = [t \in Threads |-> IF t = Main THEN Bp ELSE 0],
  sstep  = [t \in Threads |-> FALSE],
  intr   = [t \in Threads |-> FALSE],                  \* pending trap-stop (PTRACE_INTERRUPT)
  hpend  = [t \in Threads |-> FALSE],                  \* a handler frame was set up, not entered yet
  inh    = [t \in Threads |-> FALSE],                  \* stopped at the first instruction of a handler
  adv    = [t \in Threads |-> FALSE],                  \* pc changed since the last resume
  iter   = [t \in Threads |-> 0],
  pend   = [t \in Threads |-> {}],                     \* per-task pending (tgkill)
  shpend = {},                                         \* shared pending (kill)
  \* ---------------- ghost ----------------
  sent   = [s \in Sigs |-> 0],      \* sends the kernel did not coalesce
  deliv  = [s \in Sigs |-> 0],      \* handler invocations
  taken  = [s \in Sigs |-> 0],      \* signal-delivery-stops entered
  prom   = [s \in Sigs |-> 0],      \* prompts (commands that returned a signal stop) naming s
  nsend  = 0,
  lost   = FALSE,                   \* a signal was suppressed/ignored while the debugger no longer remembers it
  badrecv = FALSE,                  \* a prompt named a thread that is not in the delivery-stop of that signal
  \* scenario ghost (part of the VIEW, so that TLC prints a behaviour of the family whenever one exists):
  \* 1 = non-quiet signal sent to famwho, 2 = a step reported it (it is parked on the queue), 3 = a quiet signal was
  \* sent to the same thread while the next command can still be / is a step, 4 = that second step has returned
  fam = 0, famwho = None,
  \* ---------------- debugger ----------------
  tstate = [t \in Threads |-> "stopped"],
  guard  = FALSE,
  focus  = Main,
  sigq   = <<>>,                    \* inject_signal_queue: <<tid, sig, returned-to-the-user>>
  ncmd   = 0,
  atPrompt = TRUE,
  dead = FALSE,
  phase = "cmds",
  wst = [pid |-> None, kind |-> "none", sig |-> "none"],
  ret = "none", retpid = None, retsig = "none",
  round = 0,
  \* ---------------- hidden from the VIEW (script generation only) ----------------
  hist = <<>>,
  nsys = [c \in SysCls |-> 0],
  lastsys = <<"start", 0>>;

define {
  Reportable(t) == kst[t] \in {"stopped","zombie"} /\ unrep[t]
  Queued(t, s) == \E i \in 1..Len(sigq) : sigq[i][1] = t /\ sigq[i][2] = s
  QPids == {sigq[i][1] : i \in 1..Len(sigq)}
  PopBack(q) == SubSeq(q, 1, Len(q) - 1)
  \* mark the first not-yet-returned entry <<t, s, FALSE>> as returned to the user
  MarkRet(q, t, s) ==
     LET I == {i \in 1..Len(q) : q[i][1] = t /\ q[i][2] = s /\ ~q[i][3]}
     IN IF I = {} THEN q
        ELSE LET m == CHOOSE i \in I : \A j \in I : i <= j IN [q EXCEPT ![m] = <<t, s, TRUE>>]
  Live(t) == kst[t] \in {"running", "stopped"} /\ kstop[t] # "event_exit"     \* can still take a signal
  AllGone == \A t \in Threads : kst[t] = "exited"
  \* the session ran the program to its normal exit (not stepped into the exit, see design/C10.md)
  Finished == phase = "done" /\ AllGone /\ ~dead

  \* ---- properties ----
  AllStop == atPrompt => \A t \in Threads : kst[t] # "running"
  NoDup == \A s \in Sigs : deliv[s] <= sent[s]                              \* DeliveredAtMostOnce
  NoLost == ~lost
  NoLostAtExit == Finished => \A s \in Sigs \ Transparent : deliv[s] = sent[s]
  IntNeverDelivered == \A s \in Transparent \cap Sigs : deliv[s] = 0
  IntReportedAtExit == Finished => \A s \in Transparent \cap Sigs : prom[s] = sent[s]
  QuietNeverPrompts == \A s \in Quiet \cap Sigs : prom[s] = 0
  \* a non-quiet signal produces exactly one prompt, naming the receiving thread, before it is delivered
  PromptAtMostOnce == \A s \in Sigs \ Quiet : prom[s] <= taken[s]
  PromptBeforeDelivery == \A s \in Sigs \ (Quiet \cup Transparent) : deliv[s] <= prom[s]
  PromptedAtExit == Finished => \A s \in Sigs \ Quiet : prom[s] = sent[s]
  ReceiverNamed == ~badrecv
  \* names of the property invariants that do not hold in the current state (printed with every behaviour)
  Broken == {n \in {"NoDup", "NoLost", "NoLostAtExit", "IntNeverDelivered", "IntReportedAtExit", "QuietNeverPrompts",
                     "PromptAtMostOnce", "PromptBeforeDelivery", "PromptedAtExit", "ReceiverNamed"} :
               ~CASE n = "NoDup" -> NoDup [] n = "NoLost" -> NoLost [] n = "NoLostAtExit" -> NoLostAtExit
                  [] n = "IntNeverDelivered" -> IntNeverDelivered [] n = "IntReportedAtExit" -> IntReportedAtExit
                  [] n = "QuietNeverPrompts" -> QuietNeverPrompts [] n = "PromptAtMostOnce" -> PromptAtMostOnce
                  [] n = "PromptBeforeDelivery" -> PromptBeforeDelivery [] n = "PromptedAtExit" -> PromptedAtExit
                  [] n = "ReceiverNamed" -> ReceiverNamed}
}

macro Sys(c) {
  nsys[c] := nsys[c] + 1 || lastsys := <<c, nsys[c] + 1>>;
}
macro KWait(sel) {
  await \E t \in Threads : (sel = None \/ sel = t) /\ Reportable(t);
  with (t \in {x \in Threads : (sel = None \/ sel = x) /\ Reportable(x)}) {
    wst := [pid |-> t, kind |-> IF kst[t] = "zombie" THEN "exited" ELSE kstop[t], sig |-> ksig[t]];
    unrep[t] := FALSE;
    if (kst[t] = "zombie") { kst[t] := "exited" };
  };
  nsys["wait"] := nsys["wait"] + 1 || lastsys := <<"wait", nsys["wait"] + 1>>;
}
\* PTRACE_CONT / PTRACE_SINGLESTEP with an optional signal
macro KResume(t, single, sg) {
  if (kst[t] = "stopped") {
    if (kstop[t] = "event_exit") { kst[t] := "zombie"; unrep[t] := TRUE; kstop[t] := "none"; }
    else {
      if (sg # "none" /\ kstop[t] \in SigStops) { deliv[sg] := deliv[sg] + 1; hpend[t] := TRUE; }
      else if (sg # "none") { lost := TRUE; }                       \* data ignored in PTRACE_EVENT stops
      else if (kstop[t] = "signal" /\ ksig[t] \notin Transparent /\ ~Queued(t, ksig[t])) { lost := TRUE; };
      kst[t] := "running"; kstop[t] := "none"; ksig[t] := "none"; sstep[t] := single; adv[t] := FALSE;
    }
  };
  nsys[IF single THEN "step" ELSE "cont"] := nsys[IF single THEN "step" ELSE "cont"] + 1
    || lastsys := <<IF single THEN "step" ELSE "cont", nsys[IF single THEN "step" ELSE "cont"] + 1>>;
}

procedure group_stop(initiator)
variables gtodo = {}, gt = None, gdone = FALSE, gabort = FALSE;
{
gs0: if (guard) { return; };
gs1: guard := TRUE; gabort := FALSE;
gs1b: if (\A t \in Threads : tstate[t] = "gone" \/ t = initiator) { guard := FALSE; return; };
gs2: round := 0;
gsr: while (round < 2 /\ ~gabort) {
       gtodo := {t \in Threads : tstate[t] # "gone"};
gsl:   while (gtodo # {} /\ ~gabort) {
         with (t \in gtodo) { gt := t; gtodo := gtodo \ {t}; };
gsk:     if (tstate[gt] = "running") {
           \* PTRACE_INTERRUPT
           if (kst[gt] \in {"running","stopped"}) { intr[gt] := TRUE; gdone := FALSE; }
           else { tstate[gt] := "stopped"; gdone := TRUE; };
           Sys("intr");
gsj:       if (~gdone) {
gsw:         KWait(gt);
gsc:         while (wst.kind # "event_stop" /\ ~gdone) {
               call apply(wst);
gsd:           if (ret = "brkpt" /\ retpid = gt) { gdone := TRUE; }
               else if (ret = "exit") { gdone := TRUE; gabort := TRUE; }
               else if (ret = "signal") { gdone := TRUE; }
               else if (tstate[gt] = "gone") { gdone := TRUE; }
               else if (tstate[gt] = "stopped") { gdone := TRUE; };
gsw2:          if (~gdone) { KWait(gt); };
             };
gse:         if (tstate[gt] = "running") { tstate[gt] := "stopped"; };
           };
         };
       };
gsn:   round := round + 1;
     };
gsx: guard := FALSE;
     return;
}

\* Tracer::apply_new_status
procedure apply(st)
{
ap0: ret := "none"; retpid := None; retsig := "none";
ap0b: if (st.kind = "exited") {
       tstate[st.pid] := "gone";
       if (st.pid = Main) { ret := "exit"; };
       return;
     } else if (st.kind = "event_stop") {
       tstate[st.pid] := "stopped"; return;
     } else if (st.kind = "event_exit") {
       tstate[st.pid] := "gone";
ap1:   KResume(st.pid, FALSE, "none");
apr:   return;
     } else if (st.kind = "trap_brkpt") {
       \* set_pc(pc - 1) is folded into the trap
ap3:   if (~code) { return; };
ap4:   tstate[st.pid] := "stopped";
       call group_stop(st.pid);
ap5:   ret := "brkpt"; retpid := st.pid; return;
     } else if (st.kind = "signal") {
       if (st.sig \notin Transparent) { sigq := Append(sigq, <<st.pid, st.sig, FALSE>>); };
       tstate[st.pid] := "stopped";
aps:   if (st.sig \notin Quiet) { call group_stop(st.pid); };
apt:   ret := "signal"; retpid := st.pid; retsig := st.sig; return;
     } else {
       return;
     }
}

\* Tracer::single_step
procedure single_step(stid)
{
ss0: KResume(stid, TRUE, "none");
ss1: KWait(stid);
ss2: if (wst.kind \in {"trap_step", "trap_brkpt"}) {
       if (~adv[stid]) {
ss2a:    KResume(stid, TRUE, "none");          \* pc == initial_pc: step again
         goto ss1;
       } else { ret := "none"; return; }
     }
     else if (wst.kind = "event_stop") {
       if (FixStepIntr /\ ~adv[stid]) {
ss2b:    KResume(stid, TRUE, "none");
         goto ss1;
       } else { ret := "none"; return; }
     }
     else { call apply(wst); };
ss3: if (ret = "signal" /\ retsig \in Quiet) {
ss4:   KResume(stid, TRUE, retsig);
       if (FixQuietDup) { sigq := PopBack(sigq); };
       goto ss1;
     } else if (ret = "signal") { return; }
     else if (ret = "exit") { dead := TRUE; return; }
     else { goto ss1; };
}

\* Tracer::resume
procedure resume()
variables ctodo = {}, inj = <<>>;
{
rs0: while (TRUE) {
       if (sigq # <<>> /\ FixSwallow /\ ~Head(sigq)[3] /\ Head(sigq)[2] \notin Quiet
           /\ kst[Head(sigq)[1]] = "stopped") {
         \* repaired: an entry nobody has shown to the user yet is shown first
         call group_stop(None);
rsw:     ret := "signal"; retpid := Head(sigq)[1]; retsig := Head(sigq)[2];
         return;
       } else if (sigq # <<>>) {
         \* cont_stopped_ex(Some(front), exclude = tids of the REMAINING entries): as written the target
         \* itself is skipped when it has another entry (tracee.rs:242 tests `exclude` first)
         inj := Head(sigq); sigq := Tail(sigq);
         \* (from here on `sigq` is the remaining queue and `inj` the popped entry)
         ctodo := {t \in Threads : tstate[t] = "stopped"} \ (IF FixExclude THEN {sigq[i][1] : i \in 1..Len(sigq)} \ {inj[1]} ELSE {sigq[i][1] : i \in 1..Len(sigq)});
         \* ghost: the entry leaves the queue without being injected
         if (inj[1] \notin ({t \in Threads : tstate[t] = "stopped"} \ (IF FixExclude THEN {} ELSE {sigq[i][1] : i \in 1..Len(sigq)}))) { lost := TRUE; };
       } else {
         inj := <<>>;
         ctodo := {t \in Threads : tstate[t] = "stopped"};
       };
rs1:   while (ctodo # {}) {
         with (t \in ctodo) {
           ctodo := ctodo \ {t};
           KResume(t, FALSE, IF inj # <<>> /\ inj[1] = t THEN inj[2] ELSE "none");
           tstate[t] := "running";
         }
       };
rsq:   if (inj # <<>> /\ sigq # <<>>) {
         \* if there are more signals - stop debugee again (one injection per resume and thread)
         call group_stop(None);
rsr:     if ((FixQuietFront /\ Head(sigq)[2] \in Quiet) \/ (FixSwallow /\ Head(sigq)[3])) {
           goto rs0;                                   \* repaired: no (second) prompt, inject in the next round
         } else {
           ret := "signal"; retpid := Head(sigq)[1]; retsig := Head(sigq)[2];
           return;
         }
       };
rs2:   KWait(None);
rs3:   call apply(wst);
rs4:   if (ret = "signal" /\ retsig \in Quiet) { skip; }
       else if (ret # "none") { return; };
     }
}

\* Debugger::step_over_breakpoint (only when the focus thread sits on the enabled breakpoint)
procedure step_over_breakpoint()
{
sb0: ret := "none";
     if (tstate[focus] # "gone" /\ kst[focus] = "stopped" /\ code /\ rip[focus] = Bp /\ ~inh[focus]) {
sb1:   code := FALSE;
sb2:   call single_step(focus);
sb3:   code := TRUE;
     };
sb4: return;
}

\* Debugger::single_step_instruction
procedure step_insn()
{
sn0: if (code /\ rip[focus] = Bp /\ ~inh[focus]) { call step_over_breakpoint(); }
     else { call single_step(focus); };
sn1: return;
}

procedure continue_execution()
{
ce0: call step_over_breakpoint();
ce1: if (ret = "signal" \/ dead) { return; };
ce4: call resume();
ce5: if (ret \in {"brkpt", "signal"}) { focus := retpid; };
     return;
}

procedure stepi()
{
si0: if (tstate[focus] = "gone" \/ kst[focus] # "stopped") { ret := "none"; return; };
si1: call step_insn();
si2: if (ret = "signal") { retpid := focus; };      \* on_signal(sign); the stop belongs to the focus thread
     return;
}

\* Debugger::step_into / step_in at tracer grain: instruction steps until a new line, cut short by a signal
procedure stepline()
{
sl0: if (tstate[focus] = "gone" \/ kst[focus] # "stopped") { ret := "none"; return; };
sl1: call step_insn();
sl2: if (ret = "signal") { retpid := focus; return; }
     else if (dead \/ ret = "exit" \/ kst[focus] # "stopped") { return; }
     else if (inh[focus] \/ rip[focus] \in LineStarts) { ret := "none"; return; }
     else { goto sl1; };
}

fair process (Dbg = 0)
variables cmd = "none";
{
d0: while (phase # "done") {
      if (phase = "cmds" /\ (ncmd >= MaxCmd \/ ret = "exit" \/ dead)) {
        if (RunOut /\ ret # "exit" /\ ~dead) { phase := "runout"; code := FALSE; }   \* remove the breakpoint
        else { phase := "done"; };
      } else if (phase = "runout" /\ (ret = "exit" \/ dead)) {
        phase := "done";
      } else {
        atPrompt := FALSE;
        nsys := [c \in SysCls |-> 0]; lastsys := <<"start", 0>>;
        if (phase = "runout") { cmd := "continue"; }
        else { with (c \in Cmds) { cmd := c; }; };
d0h:    hist := Append(hist, [cmd |-> cmd]);
        if (fam \in {1, 2, 3} /\ cmd \notin {"stepi", "step"}) { fam := 0; };
        if (cmd = "continue") { call continue_execution(); }
        else if (cmd = "stepi") { call stepi(); }
        else { call stepline(); };
d1:     ncmd := ncmd + 1; atPrompt := TRUE;
        \* the prompt: what the user is told
        if (ret = "signal") {
          prom[retsig] := prom[retsig] + 1;
          sigq := MarkRet(sigq, retpid, retsig);
          if (~(kst[retpid] = "stopped" /\ kstop[retpid] = "signal" /\ ksig[retpid] = retsig)) { badrecv := TRUE; };
        };
        hist := Append(hist, [stop |-> ret, tid |-> retpid, sig |-> retsig]);
        if (fam = 1) {
          if (ret = "signal" /\ retsig \notin (Quiet \cup Transparent) /\ retpid = famwho) { fam := 2; } else { fam := 0; };
        } else if (fam = 3) { fam := 4; }
        else if (fam = 2) { fam := 0; };
      };
    };
dz: if (Gen) {
      print <<"BEH", ToJson([hist |-> hist, sent |-> sent, deliv |-> deliv, prom |-> prom, taken |-> taken,
                             lost |-> lost, badrecv |-> badrecv, exited |-> AllGone, dead |-> dead,
                             nthreads |-> Cardinality(Threads), broken |-> Broken, fam |-> fam])>>;
    };
}

process (Env = 100)
{
e0: while (nsend < MaxSend) {
      await phase = "cmds" /\ pc[0] # "dz" /\ pc[0] # "Done";
      with (s \in Sigs,
            tgt \in {x \in Threads : Live(x)} \cup (IF ProcTarget /\ \E x \in Threads : Live(x) THEN {Proc} ELSE {})) {
        nsend := nsend + 1;
        if (fam = 0 /\ s \notin (Quiet \cup Transparent) /\ tgt # Proc) { fam := 1; famwho := tgt; }
        else if (fam = 2 /\ s \in Quiet /\ tgt = famwho) { fam := 3; };
        if (tgt = Proc) {
          hist := Append(hist, [send |-> s, to |-> tgt, after |-> lastsys, prompt |-> atPrompt, coal |-> s \in shpend]);
          if (s \notin shpend) { shpend := shpend \cup {s}; sent[s] := sent[s] + 1; };
        } else {
          hist := Append(hist, [send |-> s, to |-> tgt, after |-> lastsys, prompt |-> atPrompt, coal |-> s \in pend[tgt]]);
          if (s \notin pend[tgt]) { pend[tgt] := pend[tgt] \cup {s}; sent[s] := sent[s] + 1; };
        };
      }
    }
}

fair process (Thr \in Threads)
{
t0: while (kst[self] # "exited" /\ kst[self] # "zombie") {
      await kst[self] = "running";
      await self # Main \/ iter[self] < Iters \/ intr[self] \/ pend[self] # {} \/ shpend # {} \/ hpend[self] \/ inh[self]
            \/ \A o \in Threads \ {Main} : kst[o] \in {"exited", "zombie"};
      if (intr[self]) {
        intr[self] := FALSE; kst[self] := "stopped"; kstop[self] := "event_stop"; unrep[self] := TRUE;
      } else if (pend[self] # {} \/ shpend # {}) {
        \* signal-delivery-stop: the signal is dequeued (no longer pending, no longer coalesces)
        with (s \in pend[self] \cup shpend) {
          if (s \in pend[self]) { pend[self] := pend[self] \ {s}; } else { shpend := shpend \ {s}; };
          taken[s] := taken[s] + 1;
          kst[self] := "stopped"; kstop[self] := "signal"; ksig[self] := s; unrep[self] := TRUE;
        }
      } else if (hpend[self]) {
        \* enter the handler; under single-step the trap is taken on its first instruction
        hpend[self] := FALSE; adv[self] := TRUE;
        if (sstep[self]) { sstep[self] := FALSE; inh[self] := TRUE;
                           kst[self] := "stopped"; kstop[self] := "trap_step"; unrep[self] := TRUE; };
      } else if (inh[self]) {
        \* the handler body (one abstract instruction), back to the interrupted pc
        inh[self] := FALSE; adv[self] := TRUE;
        if (sstep[self]) { sstep[self] := FALSE; kst[self] := "stopped"; kstop[self] := "trap_step"; unrep[self] := TRUE; };
      } else if (iter[self] = Iters) {
        kst[self] := "stopped"; kstop[self] := "event_exit"; unrep[self] := TRUE;
      } else if (code /\ rip[self] = Bp) {
        kst[self] := "stopped"; kstop[self] := "trap_brkpt"; unrep[self] := TRUE; sstep[self] := FALSE; adv[self] := TRUE;
      } else {
        if (rip[self] = L - 1) { iter[self] := iter[self] + 1 };
        rip[self] := (rip[self] + 1) % L; adv[self] := TRUE;
        if (sstep[self]) { sstep[self] := FALSE; kst[self] := "stopped"; kstop[self] := "trap_step"; unrep[self] := TRUE };
      }
    }
}
} *)
\* BEGIN TRANSLATION
CONSTANT defaultInitValue
VARIABLES pc, code, kst, kstop, ksig, unrep, rip, sstep, intr, hpend, inh, 
          adv, iter, pend, shpend, sent, deliv, taken, prom, nsend, lost, 
          badrecv, fam, famwho, tstate, guard, focus, sigq, ncmd, atPrompt, 
          dead, phase, wst, ret, retpid, retsig, round, hist, nsys, lastsys, 
          stack

(* define statement *)
Reportable(t) == kst[t] \in {"stopped","zombie"} /\ unrep[t]
Queued(t, s) == \E i \in 1..Len(sigq) : sigq[i][1] = t /\ sigq[i][2] = s
QPids == {sigq[i][1] : i \in 1..Len(sigq)}
PopBack(q) == SubSeq(q, 1, Len(q) - 1)

MarkRet(q, t, s) ==
   LET I == {i \in 1..Len(q) : q[i][1] = t /\ q[i][2] = s /\ ~q[i][3]}
   IN IF I = {} THEN q
      ELSE LET m == CHOOSE i \in I : \A j \in I : i <= j IN [q EXCEPT ![m] = <<t, s, TRUE>>]
Live(t) == kst[t] \in {"running", "stopped"} /\ kstop[t] # "event_exit"
AllGone == \A t \in Threads : kst[t] = "exited"

Finished == phase = "done" /\ AllGone /\ ~dead


AllStop == atPrompt => \A t \in Threads : kst[t] # "running"
NoDup == \A s \in Sigs : deliv[s] <= sent[s]
NoLost == ~lost
NoLostAtExit == Finished => \A s \in Sigs \ Transparent : deliv[s] = sent[s]
IntNeverDelivered == \A s \in Transparent \cap Sigs : deliv[s] = 0
IntReportedAtExit == Finished => \A s \in Transparent \cap Sigs : prom[s] = sent[s]
QuietNeverPrompts == \A s \in Quiet \cap Sigs : prom[s] = 0

PromptAtMostOnce == \A s \in Sigs \ Quiet : prom[s] <= taken[s]
PromptBeforeDelivery == \A s \in Sigs \ (Quiet \cup Transparent) : deliv[s] <= prom[s]
PromptedAtExit == Finished => \A s \in Sigs \ Quiet : prom[s] = sent[s]
ReceiverNamed == ~badrecv

Broken == {n \in {"NoDup", "NoLost", "NoLostAtExit", "IntNeverDelivered", "IntReportedAtExit", "QuietNeverPrompts",
                   "PromptAtMostOnce", "PromptBeforeDelivery", "PromptedAtExit", "ReceiverNamed"} :
             ~CASE n = "NoDup" -> NoDup [] n = "NoLost" -> NoLost [] n = "NoLostAtExit" -> NoLostAtExit
                [] n = "IntNeverDelivered" -> IntNeverDelivered [] n = "IntReportedAtExit" -> IntReportedAtExit
                [] n = "QuietNeverPrompts" -> QuietNeverPrompts [] n = "PromptAtMostOnce" -> PromptAtMostOnce
                [] n = "PromptBeforeDelivery" -> PromptBeforeDelivery [] n = "PromptedAtExit" -> PromptedAtExit
                [] n = "ReceiverNamed" -> ReceiverNamed}

VARIABLES initiator, gtodo, gt, gdone, gabort, st, stid, ctodo, inj, cmd

vars == << pc, code, kst, kstop, ksig, unrep, rip, sstep, intr, hpend, inh, 
           adv, iter, pend, shpend, sent, deliv, taken, prom, nsend, lost, 
           badrecv, fam, famwho, tstate, guard, focus, sigq, ncmd, atPrompt, 
           dead, phase, wst, ret, retpid, retsig, round, hist, nsys, lastsys, 
           stack, initiator, gtodo, gt, gdone, gabort, st, stid, ctodo, inj, 
           cmd >>

ProcSet == {0} \cup {100} \cup (Threads)

Init == (* Global variables *)
        /\ code = TRUE
        /\ kst = [t \in Threads |-> "stopped"]
        /\ kstop = [t \in Threads |-> IF t = Main THEN "trap_brkpt" ELSE "event_stop"]
        /\ ksig = [t \in Threads |-> "none"]
        /\ unrep = [t \in Threads |-> FALSE]
        /\ rip = [t \in Threads |-> IF t = Main THEN Bp ELSE 0]
        /\ sstep = [t \in Threads |-> FALSE]
        /\ intr = [t \in Threads |-> FALSE]
        /\ hpend = [t \in Threads |-> FALSE]
        /\ inh = [t \in Threads |-> FALSE]
        /\ adv = [t \in Threads |-> FALSE]
        /\ iter = [t \in Threads |-> 0]
        /\ pend = [t \in Threads |-> {}]
        /\ shpend = {}
        /\ sent = [s \in Sigs |-> 0]
        /\ deliv = [s \in Sigs |-> 0]
        /\ taken = [s \in Sigs |-> 0]
        /\ prom = [s \in Sigs |-> 0]
        /\ nsend = 0
        /\ lost = FALSE
        /\ badrecv = FALSE
        /\ fam = 0
        /\ famwho = None
        /\ tstate = [t \in Threads |-> "stopped"]
        /\ guard = FALSE
        /\ focus = Main
        /\ sigq = <<>>
        /\ ncmd = 0
        /\ atPrompt = TRUE
        /\ dead = FALSE
        /\ phase = "cmds"
        /\ wst = [pid |-> None, kind |-> "none", sig |-> "none"]
        /\ ret = "none"
        /\ retpid = None
        /\ retsig = "none"
        /\ round = 0
        /\ hist = <<>>
        /\ nsys = [c \in SysCls |-> 0]
        /\ lastsys = <<"start", 0>>
        (* Procedure group_stop *)
        /\ initiator = [ self \in ProcSet |-> defaultInitValue]
        /\ gtodo = [ self \in ProcSet |-> {}]
        /\ gt = [ self \in ProcSet |-> None]
        /\ gdone = [ self \in ProcSet |-> FALSE]
        /\ gabort = [ self \in ProcSet |-> FALSE]
        (* Procedure apply *)
        /\ st = [ self \in ProcSet |-> defaultInitValue]
        (* Procedure single_step *)
        /\ stid = [ self \in ProcSet |-> defaultInitValue]
        (* Procedure resume *)
        /\ ctodo = [ self \in ProcSet |-> {}]
        /\ inj = [ self \in ProcSet |-> <<>>]
        (* Process Dbg *)
        /\ cmd = "none"
        /\ stack = [self \in ProcSet |-> << >>]
        /\ pc = [self \in ProcSet |-> CASE self = 0 -> "d0"
                                        [] self = 100 -> "e0"
                                        [] self \in Threads -> "t0"]

gs0(self) == /\ pc[self] = "gs0"
             /\ IF guard
                   THEN /\ pc' = [pc EXCEPT ![self] = Head(stack[self]).pc]
                        /\ gtodo' = [gtodo EXCEPT ![self] = Head(stack[self]).gtodo]
                        /\ gt' = [gt EXCEPT ![self] = Head(stack[self]).gt]
                        /\ gdone' = [gdone EXCEPT ![self] = Head(stack[self]).gdone]
                        /\ gabort' = [gabort EXCEPT ![self] = Head(stack[self]).gabort]
                        /\ initiator' = [initiator EXCEPT ![self] = Head(stack[self]).initiator]
                        /\ stack' = [stack EXCEPT ![self] = Tail(stack[self])]
                   ELSE /\ pc' = [pc EXCEPT ![self] = "gs1"]
                        /\ UNCHANGED << stack, initiator, gtodo, gt, gdone, 
                                        gabort >>
             /\ UNCHANGED << code, kst, kstop, ksig, unrep, rip, sstep, intr, 
                             hpend, inh, adv, iter, pend, shpend, sent, deliv, 
                             taken, prom, nsend, lost, badrecv, fam, famwho, 
                             tstate, guard, focus, sigq, ncmd, atPrompt, dead, 
                             phase, wst, ret, retpid, retsig, round, hist, 
                             nsys, lastsys, st, stid, ctodo, inj, cmd >>

gs1(self) == /\ pc[self] = "gs1"
             /\ guard' = TRUE
             /\ gabort' = [gabort EXCEPT ![self] = FALSE]
             /\ pc' = [pc EXCEPT ![self] = "gs1b"]
             /\ UNCHANGED << code, kst, kstop, ksig, unrep, rip, sstep, intr, 
                             hpend, inh, adv, iter, pend, shpend, sent, deliv, 
                             taken, prom, nsend, lost, badrecv, fam, famwho, 
                             tstate, focus, sigq, ncmd, atPrompt, dead, phase, 
                             wst, ret, retpid, retsig, round, hist, nsys, 
                             lastsys, stack, initiator, gtodo, gt, gdone, st, 
                             stid, ctodo, inj, cmd >>

gs1b(self) == /\ pc[self] = "gs1b"
              /\ IF \A t \in Threads : tstate[t] = "gone" \/ t = initiator[self]
                    THEN /\ guard' = FALSE
                         /\ pc' = [pc EXCEPT ![self] = Head(stack[self]).pc]
                         /\ gtodo' = [gtodo EXCEPT ![self] = Head(stack[self]).gtodo]
                         /\ gt' = [gt EXCEPT ![self] = Head(stack[self]).gt]
                         /\ gdone' = [gdone EXCEPT ![self] = Head(stack[self]).gdone]
                         /\ gabort' = [gabort EXCEPT ![self] = Head(stack[self]).gabort]
                         /\ initiator' = [initiator EXCEPT ![self] = Head(stack[self]).initiator]
                         /\ stack' = [stack EXCEPT ![self] = Tail(stack[self])]
                    ELSE /\ pc' = [pc EXCEPT ![self] = "gs2"]
                         /\ UNCHANGED << guard, stack, initiator, gtodo, gt, 
                                         gdone, gabort >>
              /\ UNCHANGED << code, kst, kstop, ksig, unrep, rip, sstep, intr, 
                              hpend, inh, adv, iter, pend, shpend, sent, deliv, 
                              taken, prom, nsend, lost, badrecv, fam, famwho, 
                              tstate, focus, sigq, ncmd, atPrompt, dead, phase, 
                              wst, ret, retpid, retsig, round, hist, nsys, 
                              lastsys, st, stid, ctodo, inj, cmd >>

gs2(self) == /\ pc[self] = "gs2"
             /\ round' = 0
             /\ pc' = [pc EXCEPT ![self] = "gsr"]
             /\ UNCHANGED << code, kst, kstop, ksig, unrep, rip, sstep, intr, 
                             hpend, inh, adv, iter, pend, shpend, sent, deliv, 
                             taken, prom, nsend, lost, badrecv, fam, famwho, 
                             tstate, guard, focus, sigq, ncmd, atPrompt, dead, 
                             phase, wst, ret, retpid, retsig, hist, nsys, 
                             lastsys, stack, initiator, gtodo, gt, gdone, 
                             gabort, st, stid, ctodo, inj, cmd >>

gsr(self) == /\ pc[self] = "gsr"
             /\ IF round < 2 /\ ~gabort[self]
                   THEN /\ gtodo' = [gtodo EXCEPT ![self] = {t \in Threads : tstate[t] # "gone"}]
                        /\ pc' = [pc EXCEPT ![self] = "gsl"]
                   ELSE /\ pc' = [pc EXCEPT ![self] = "gsx"]
                        /\ gtodo' = gtodo
             /\ UNCHANGED << code, kst, kstop, ksig, unrep, rip, sstep, intr, 
                             hpend, inh, adv, iter, pend, shpend, sent, deliv, 
                             taken, prom, nsend, lost, badrecv, fam, famwho, 
                             tstate, guard, focus, sigq, ncmd, atPrompt, dead, 
                             phase, wst, ret, retpid, retsig, round, hist, 
                             nsys, lastsys, stack, initiator, gt, gdone, 
                             gabort, st, stid, ctodo, inj, cmd >>

gsl(self) == /\ pc[self] = "gsl"
             /\ IF gtodo[self] # {} /\ ~gabort[self]
                   THEN /\ \E t \in gtodo[self]:
                             /\ gt' = [gt EXCEPT ![self] = t]
                             /\ gtodo' = [gtodo EXCEPT ![self] = gtodo[self] \ {t}]
                        /\ pc' = [pc EXCEPT ![self] = "gsk"]
                   ELSE /\ pc' = [pc EXCEPT ![self] = "gsn"]
                        /\ UNCHANGED << gtodo, gt >>
             /\ UNCHANGED << code, kst, kstop, ksig, unrep, rip, sstep, intr, 
                             hpend, inh, adv, iter, pend, shpend, sent, deliv, 
                             taken, prom, nsend, lost, badrecv, fam, famwho, 
                             tstate, guard, focus, sigq, ncmd, atPrompt, dead, 
                             phase, wst, ret, retpid, retsig, round, hist, 
                             nsys, lastsys, stack, initiator, gdone, gabort, 
                             st, stid, ctodo, inj, cmd >>

gsk(self) == /\ pc[self] = "gsk"
             /\ IF tstate[gt[self]] = "running"
                   THEN /\ IF kst[gt[self]] \in {"running","stopped"}
                              THEN /\ intr' = [intr EXCEPT ![gt[self]] = TRUE]
                                   /\ gdone' = [gdone EXCEPT ![self] = FALSE]
                                   /\ UNCHANGED tstate
                              ELSE /\ tstate' = [tstate EXCEPT ![gt[self]] = "stopped"]
                                   /\ gdone' = [gdone EXCEPT ![self] = TRUE]
                                   /\ intr' = intr
                        /\ /\ lastsys' = <<"intr", nsys["intr"] + 1>>
                           /\ nsys' = [nsys EXCEPT !["intr"] = nsys["intr"] + 1]
                        /\ pc' = [pc EXCEPT ![self] = "gsj"]
                   ELSE /\ pc' = [pc EXCEPT ![self] = "gsl"]
                        /\ UNCHANGED << intr, tstate, nsys, lastsys, gdone >>
             /\ UNCHANGED << code, kst, kstop, ksig, unrep, rip, sstep, hpend, 
                             inh, adv, iter, pend, shpend, sent, deliv, taken, 
                             prom, nsend, lost, badrecv, fam, famwho, guard, 
                             focus, sigq, ncmd, atPrompt, dead, phase, wst, 
                             ret, retpid, retsig, round, hist, stack, 
                             initiator, gtodo, gt, gabort, st, stid, ctodo, 
                             inj, cmd >>

gsj(self) == /\ pc[self] = "gsj"
             /\ IF ~gdone[self]
                   THEN /\ pc' = [pc EXCEPT ![self] = "gsw"]
                   ELSE /\ pc' = [pc EXCEPT ![self] = "gsl"]
             /\ UNCHANGED << code, kst, kstop, ksig, unrep, rip, sstep, intr, 
                             hpend, inh, adv, iter, pend, shpend, sent, deliv, 
                             taken, prom, nsend, lost, badrecv, fam, famwho, 
                             tstate, guard, focus, sigq, ncmd, atPrompt, dead, 
                             phase, wst, ret, retpid, retsig, round, hist, 
                             nsys, lastsys, stack, initiator, gtodo, gt, gdone, 
                             gabort, st, stid, ctodo, inj, cmd >>

gsw(self) == /\ pc[self] = "gsw"
             /\ \E t \in Threads : (gt[self] = None \/ gt[self] = t) /\ Reportable(t)
             /\ \E t \in {x \in Threads : (gt[self] = None \/ gt[self] = x) /\ Reportable(x)}:
                  /\ wst' = [pid |-> t, kind |-> IF kst[t] = "zombie" THEN "exited" ELSE kstop[t], sig |-> ksig[t]]
                  /\ unrep' = [unrep EXCEPT ![t] = FALSE]
                  /\ IF kst[t] = "zombie"
                        THEN /\ kst' = [kst EXCEPT ![t] = "exited"]
                        ELSE /\ TRUE
                             /\ kst' = kst
             /\ /\ lastsys' = <<"wait", nsys["wait"] + 1>>
                /\ nsys' = [nsys EXCEPT !["wait"] = nsys["wait"] + 1]
             /\ pc' = [pc EXCEPT ![self] = "gsc"]
             /\ UNCHANGED << code, kstop, ksig, rip, sstep, intr, hpend, inh, 
                             adv, iter, pend, shpend, sent, deliv, taken, prom, 
                             nsend, lost, badrecv, fam, famwho, tstate, guard, 
                             focus, sigq, ncmd, atPrompt, dead, phase, ret, 
                             retpid, retsig, round, hist, stack, initiator, 
                             gtodo, gt, gdone, gabort, st, stid, ctodo, inj, 
                             cmd >>

gsc(self) == /\ pc[self] = "gsc"
             /\ IF wst.kind # "event_stop" /\ ~gdone[self]
                   THEN /\ /\ st' = [st EXCEPT ![self] = wst]
                           /\ stack' = [stack EXCEPT ![self] = << [ procedure |->  "apply",
                                                                    pc        |->  "gsd",
                                                                    st        |->  st[self] ] >>
                                                                \o stack[self]]
                        /\ pc' = [pc EXCEPT ![self] = "ap0"]
                   ELSE /\ pc' = [pc EXCEPT ![self] = "gse"]
                        /\ UNCHANGED << stack, st >>
             /\ UNCHANGED << code, kst, kstop, ksig, unrep, rip, sstep, intr, 
                             hpend, inh, adv, iter, pend, shpend, sent, deliv, 
                             taken, prom, nsend, lost, badrecv, fam, famwho, 
                             tstate, guard, focus, sigq, ncmd, atPrompt, dead, 
                             phase, wst, ret, retpid, retsig, round, hist, 
                             nsys, lastsys, initiator, gtodo, gt, gdone, 
                             gabort, stid, ctodo, inj, cmd >>

gsd(self) == /\ pc[self] = "gsd"
             /\ IF ret = "brkpt" /\ retpid = gt[self]
                   THEN /\ gdone' = [gdone EXCEPT ![self] = TRUE]
                        /\ UNCHANGED gabort
                   ELSE /\ IF ret = "exit"
                              THEN /\ gdone' = [gdone EXCEPT ![self] = TRUE]
                                   /\ gabort' = [gabort EXCEPT ![self] = TRUE]
                              ELSE /\ IF ret = "signal"
                                         THEN /\ gdone' = [gdone EXCEPT ![self] = TRUE]
                                         ELSE /\ IF tstate[gt[self]] = "gone"
                                                    THEN /\ gdone' = [gdone EXCEPT ![self] = TRUE]
                                                    ELSE /\ IF tstate[gt[self]] = "stopped"
                                                               THEN /\ gdone' = [gdone EXCEPT ![self] = TRUE]
                                                               ELSE /\ TRUE
                                                                    /\ gdone' = gdone
                                   /\ UNCHANGED gabort
             /\ pc' = [pc EXCEPT ![self] = "gsw2"]
             /\ UNCHANGED << code, kst, kstop, ksig, unrep, rip, sstep, intr, 
                             hpend, inh, adv, iter, pend, shpend, sent, deliv, 
                             taken, prom, nsend, lost, badrecv, fam, famwho, 
                             tstate, guard, focus, sigq, ncmd, atPrompt, dead, 
                             phase, wst, ret, retpid, retsig, round, hist, 
                             nsys, lastsys, stack, initiator, gtodo, gt, st, 
                             stid, ctodo, inj, cmd >>

gsw2(self) == /\ pc[self] = "gsw2"
              /\ IF ~gdone[self]
                    THEN /\ \E t \in Threads : (gt[self] = None \/ gt[self] = t) /\ Reportable(t)
                         /\ \E t \in {x \in Threads : (gt[self] = None \/ gt[self] = x) /\ Reportable(x)}:
                              /\ wst' = [pid |-> t, kind |-> IF kst[t] = "zombie" THEN "exited" ELSE kstop[t], sig |-> ksig[t]]
                              /\ unrep' = [unrep EXCEPT ![t] = FALSE]
                              /\ IF kst[t] = "zombie"
                                    THEN /\ kst' = [kst EXCEPT ![t] = "exited"]
                                    ELSE /\ TRUE
                                         /\ kst' = kst
                         /\ /\ lastsys' = <<"wait", nsys["wait"] + 1>>
                            /\ nsys' = [nsys EXCEPT !["wait"] = nsys["wait"] + 1]
                    ELSE /\ TRUE
                         /\ UNCHANGED << kst, unrep, wst, nsys, lastsys >>
              /\ pc' = [pc EXCEPT ![self] = "gsc"]
              /\ UNCHANGED << code, kstop, ksig, rip, sstep, intr, hpend, inh, 
                              adv, iter, pend, shpend, sent, deliv, taken, 
                              prom, nsend, lost, badrecv, fam, famwho, tstate, 
                              guard, focus, sigq, ncmd, atPrompt, dead, phase, 
                              ret, retpid, retsig, round, hist, stack, 
                              initiator, gtodo, gt, gdone, gabort, st, stid, 
                              ctodo, inj, cmd >>

gse(self) == /\ pc[self] = "gse"
             /\ IF tstate[gt[self]] = "running"
                   THEN /\ tstate' = [tstate EXCEPT ![gt[self]] = "stopped"]
                   ELSE /\ TRUE
                        /\ UNCHANGED tstate
             /\ pc' = [pc EXCEPT ![self] = "gsl"]
             /\ UNCHANGED << code, kst, kstop, ksig, unrep, rip, sstep, intr, 
                             hpend, inh, adv, iter, pend, shpend, sent, deliv, 
                             taken, prom, nsend, lost, badrecv, fam, famwho, 
                             guard, focus, sigq, ncmd, atPrompt, dead, phase, 
                             wst, ret, retpid, retsig, round, hist, nsys, 
                             lastsys, stack, initiator, gtodo, gt, gdone, 
                             gabort, st, stid, ctodo, inj, cmd >>

gsn(self) == /\ pc[self] = "gsn"
             /\ round' = round + 1
             /\ pc' = [pc EXCEPT ![self] = "gsr"]
             /\ UNCHANGED << code, kst, kstop, ksig, unrep, rip, sstep, intr, 
                             hpend, inh, adv, iter, pend, shpend, sent, deliv, 
                             taken, prom, nsend, lost, badrecv, fam, famwho, 
                             tstate, guard, focus, sigq, ncmd, atPrompt, dead, 
                             phase, wst, ret, retpid, retsig, hist, nsys, 
                             lastsys, stack, initiator, gtodo, gt, gdone, 
                             gabort, st, stid, ctodo, inj, cmd >>

gsx(self) == /\ pc[self] = "gsx"
             /\ guard' = FALSE
             /\ pc' = [pc EXCEPT ![self] = Head(stack[self]).pc]
             /\ gtodo' = [gtodo EXCEPT ![self] = Head(stack[self]).gtodo]
             /\ gt' = [gt EXCEPT ![self] = Head(stack[self]).gt]
             /\ gdone' = [gdone EXCEPT ![self] = Head(stack[self]).gdone]
             /\ gabort' = [gabort EXCEPT ![self] = Head(stack[self]).gabort]
             /\ initiator' = [initiator EXCEPT ![self] = Head(stack[self]).initiator]
             /\ stack' = [stack EXCEPT ![self] = Tail(stack[self])]
             /\ UNCHANGED << code, kst, kstop, ksig, unrep, rip, sstep, intr, 
                             hpend, inh, adv, iter, pend, shpend, sent, deliv, 
                             taken, prom, nsend, lost, badrecv, fam, famwho, 
                             tstate, focus, sigq, ncmd, atPrompt, dead, phase, 
                             wst, ret, retpid, retsig, round, hist, nsys, 
                             lastsys, st, stid, ctodo, inj, cmd >>

group_stop(self) == gs0(self) \/ gs1(self) \/ gs1b(self) \/ gs2(self)
                       \/ gsr(self) \/ gsl(self) \/ gsk(self) \/ gsj(self)
                       \/ gsw(self) \/ gsc(self) \/ gsd(self) \/ gsw2(self)
                       \/ gse(self) \/ gsn(self) \/ gsx(self)

ap0(self) == /\ pc[self] = "ap0"
             /\ ret' = "none"
             /\ retpid' = None
             /\ retsig' = "none"
             /\ pc' = [pc EXCEPT ![self] = "ap0b"]
             /\ UNCHANGED << code, kst, kstop, ksig, unrep, rip, sstep, intr, 
                             hpend, inh, adv, iter, pend, shpend, sent, deliv, 
                             taken, prom, nsend, lost, badrecv, fam, famwho, 
                             tstate, guard, focus, sigq, ncmd, atPrompt, dead, 
                             phase, wst, round, hist, nsys, lastsys, stack, 
                             initiator, gtodo, gt, gdone, gabort, st, stid, 
                             ctodo, inj, cmd >>

ap0b(self) == /\ pc[self] = "ap0b"
              /\ IF st[self].kind = "exited"
                    THEN /\ tstate' = [tstate EXCEPT ![st[self].pid] = "gone"]
                         /\ IF st[self].pid = Main
                               THEN /\ ret' = "exit"
                               ELSE /\ TRUE
                                    /\ ret' = ret
                         /\ pc' = [pc EXCEPT ![self] = Head(stack[self]).pc]
                         /\ st' = [st EXCEPT ![self] = Head(stack[self]).st]
                         /\ stack' = [stack EXCEPT ![self] = Tail(stack[self])]
                         /\ sigq' = sigq
                    ELSE /\ IF st[self].kind = "event_stop"
                               THEN /\ tstate' = [tstate EXCEPT ![st[self].pid] = "stopped"]
                                    /\ pc' = [pc EXCEPT ![self] = Head(stack[self]).pc]
                                    /\ st' = [st EXCEPT ![self] = Head(stack[self]).st]
                                    /\ stack' = [stack EXCEPT ![self] = Tail(stack[self])]
                                    /\ sigq' = sigq
                               ELSE /\ IF st[self].kind = "event_exit"
                                          THEN /\ tstate' = [tstate EXCEPT ![st[self].pid] = "gone"]
                                               /\ pc' = [pc EXCEPT ![self] = "ap1"]
                                               /\ UNCHANGED << sigq, stack, st >>
                                          ELSE /\ IF st[self].kind = "trap_brkpt"
                                                     THEN /\ pc' = [pc EXCEPT ![self] = "ap3"]
                                                          /\ UNCHANGED << tstate, 
                                                                          sigq, 
                                                                          stack, 
                                                                          st >>
                                                     ELSE /\ IF st[self].kind = "signal"
                                                                THEN /\ IF st[self].sig \notin Transparent
                                                                           THEN /\ sigq' = Append(sigq, <<st[self].pid, st[self].sig, FALSE>>)
                                                                           ELSE /\ TRUE
                                                                                /\ sigq' = sigq
                                                                     /\ tstate' = [tstate EXCEPT ![st[self].pid] = "stopped"]
                                                                     /\ pc' = [pc EXCEPT ![self] = "aps"]
                                                                     /\ UNCHANGED << stack, 
                                                                                     st >>
                                                                ELSE /\ pc' = [pc EXCEPT ![self] = Head(stack[self]).pc]
                                                                     /\ st' = [st EXCEPT ![self] = Head(stack[self]).st]
                                                                     /\ stack' = [stack EXCEPT ![self] = Tail(stack[self])]
                                                                     /\ UNCHANGED << tstate, 
                                                                                     sigq >>
                         /\ ret' = ret
              /\ UNCHANGED << code, kst, kstop, ksig, unrep, rip, sstep, intr, 
                              hpend, inh, adv, iter, pend, shpend, sent, deliv, 
                              taken, prom, nsend, lost, badrecv, fam, famwho, 
                              guard, focus, ncmd, atPrompt, dead, phase, wst, 
                              retpid, retsig, round, hist, nsys, lastsys, 
                              initiator, gtodo, gt, gdone, gabort, stid, ctodo, 
                              inj, cmd >>

ap1(self) == /\ pc[self] = "ap1"
             /\ IF kst[(st[self].pid)] = "stopped"
                   THEN /\ IF kstop[(st[self].pid)] = "event_exit"
                              THEN /\ kst' = [kst EXCEPT ![(st[self].pid)] = "zombie"]
                                   /\ unrep' = [unrep EXCEPT ![(st[self].pid)] = TRUE]
                                   /\ kstop' = [kstop EXCEPT ![(st[self].pid)] = "none"]
                                   /\ UNCHANGED << ksig, sstep, hpend, adv, 
                                                   deliv, lost >>
                              ELSE /\ IF "none" # "none" /\ kstop[(st[self].pid)] \in SigStops
                                         THEN /\ deliv' = [deliv EXCEPT !["none"] = deliv["none"] + 1]
                                              /\ hpend' = [hpend EXCEPT ![(st[self].pid)] = TRUE]
                                              /\ lost' = lost
                                         ELSE /\ IF "none" # "none"
                                                    THEN /\ lost' = TRUE
                                                    ELSE /\ IF kstop[(st[self].pid)] = "signal" /\ ksig[(st[self].pid)] \notin Transparent /\ ~Queued((st[self].pid), ksig[(st[self].pid)])
                                                               THEN /\ lost' = TRUE
                                                               ELSE /\ TRUE
                                                                    /\ lost' = lost
                                              /\ UNCHANGED << hpend, deliv >>
                                   /\ kst' = [kst EXCEPT ![(st[self].pid)] = "running"]
                                   /\ kstop' = [kstop EXCEPT ![(st[self].pid)] = "none"]
                                   /\ ksig' = [ksig EXCEPT ![(st[self].pid)] = "none"]
                                   /\ sstep' = [sstep EXCEPT ![(st[self].pid)] = FALSE]
                                   /\ adv' = [adv EXCEPT ![(st[self].pid)] = FALSE]
                                   /\ unrep' = unrep
                   ELSE /\ TRUE
                        /\ UNCHANGED << kst, kstop, ksig, unrep, sstep, hpend, 
                                        adv, deliv, lost >>
             /\ /\ lastsys' = <<IF FALSE THEN "step" ELSE "cont", nsys[IF FALSE THEN "step" ELSE "cont"] + 1>>
                /\ nsys' = [nsys EXCEPT ![IF FALSE THEN "step" ELSE "cont"] = nsys[IF FALSE THEN "step" ELSE "cont"] + 1]
             /\ pc' = [pc EXCEPT ![self] = "apr"]
             /\ UNCHANGED << code, rip, intr, inh, iter, pend, shpend, sent, 
                             taken, prom, nsend, badrecv, fam, famwho, tstate, 
                             guard, focus, sigq, ncmd, atPrompt, dead, phase, 
                             wst, ret, retpid, retsig, round, hist, stack, 
                             initiator, gtodo, gt, gdone, gabort, st, stid, 
                             ctodo, inj, cmd >>

apr(self) == /\ pc[self] = "apr"
             /\ pc' = [pc EXCEPT ![self] = Head(stack[self]).pc]
             /\ st' = [st EXCEPT ![self] = Head(stack[self]).st]
             /\ stack' = [stack EXCEPT ![self] = Tail(stack[self])]
             /\ UNCHANGED << code, kst, kstop, ksig, unrep, rip, sstep, intr, 
                             hpend, inh, adv, iter, pend, shpend, sent, deliv, 
                             taken, prom, nsend, lost, badrecv, fam, famwho, 
                             tstate, guard, focus, sigq, ncmd, atPrompt, dead, 
                             phase, wst, ret, retpid, retsig, round, hist, 
                             nsys, lastsys, initiator, gtodo, gt, gdone, 
                             gabort, stid, ctodo, inj, cmd >>

ap3(self) == /\ pc[self] = "ap3"
             /\ IF ~code
                   THEN /\ pc' = [pc EXCEPT ![self] = Head(stack[self]).pc]
                        /\ st' = [st EXCEPT ![self] = Head(stack[self]).st]
                        /\ stack' = [stack EXCEPT ![self] = Tail(stack[self])]
                   ELSE /\ pc' = [pc EXCEPT ![self] = "ap4"]
                        /\ UNCHANGED << stack, st >>
             /\ UNCHANGED << code, kst, kstop, ksig, unrep, rip, sstep, intr, 
                             hpend, inh, adv, iter, pend, shpend, sent, deliv, 
                             taken, prom, nsend, lost, badrecv, fam, famwho, 
                             tstate, guard, focus, sigq, ncmd, atPrompt, dead, 
                             phase, wst, ret, retpid, retsig, round, hist, 
                             nsys, lastsys, initiator, gtodo, gt, gdone, 
                             gabort, stid, ctodo, inj, cmd >>

ap4(self) == /\ pc[self] = "ap4"
             /\ tstate' = [tstate EXCEPT ![st[self].pid] = "stopped"]
             /\ /\ initiator' = [initiator EXCEPT ![self] = st[self].pid]
                /\ stack' = [stack EXCEPT ![self] = << [ procedure |->  "group_stop",
                                                         pc        |->  "ap5",
                                                         gtodo     |->  gtodo[self],
                                                         gt        |->  gt[self],
                                                         gdone     |->  gdone[self],
                                                         gabort    |->  gabort[self],
                                                         initiator |->  initiator[self] ] >>
                                                     \o stack[self]]
             /\ gtodo' = [gtodo EXCEPT ![self] = {}]
             /\ gt' = [gt EXCEPT ![self] = None]
             /\ gdone' = [gdone EXCEPT ![self] = FALSE]
             /\ gabort' = [gabort EXCEPT ![self] = FALSE]
             /\ pc' = [pc EXCEPT ![self] = "gs0"]
             /\ UNCHANGED << code, kst, kstop, ksig, unrep, rip, sstep, intr, 
                             hpend, inh, adv, iter, pend, shpend, sent, deliv, 
                             taken, prom, nsend, lost, badrecv, fam, famwho, 
                             guard, focus, sigq, ncmd, atPrompt, dead, phase, 
                             wst, ret, retpid, retsig, round, hist, nsys, 
                             lastsys, st, stid, ctodo, inj, cmd >>

ap5(self) == /\ pc[self] = "ap5"
             /\ ret' = "brkpt"
             /\ retpid' = st[self].pid
             /\ pc' = [pc EXCEPT ![self] = Head(stack[self]).pc]
             /\ st' = [st EXCEPT ![self] = Head(stack[self]).st]
             /\ stack' = [stack EXCEPT ![self] = Tail(stack[self])]
             /\ UNCHANGED << code, kst, kstop, ksig, unrep, rip, sstep, intr, 
                             hpend, inh, adv, iter, pend, shpend, sent, deliv, 
                             taken, prom, nsend, lost, badrecv, fam, famwho, 
                             tstate, guard, focus, sigq, ncmd, atPrompt, dead, 
                             phase, wst, retsig, round, hist, nsys, lastsys, 
                             initiator, gtodo, gt, gdone, gabort, stid, ctodo, 
                             inj, cmd >>

aps(self) == /\ pc[self] = "aps"
             /\ IF st[self].sig \notin Quiet
                   THEN /\ /\ initiator' = [initiator EXCEPT ![self] = st[self].pid]
                           /\ stack' = [stack EXCEPT ![self] = << [ procedure |->  "group_stop",
                                                                    pc        |->  "apt",
                                                                    gtodo     |->  gtodo[self],
                                                                    gt        |->  gt[self],
                                                                    gdone     |->  gdone[self],
                                                                    gabort    |->  gabort[self],
                                                                    initiator |->  initiator[self] ] >>
                                                                \o stack[self]]
                        /\ gtodo' = [gtodo EXCEPT ![self] = {}]
                        /\ gt' = [gt EXCEPT ![self] = None]
                        /\ gdone' = [gdone EXCEPT ![self] = FALSE]
                        /\ gabort' = [gabort EXCEPT ![self] = FALSE]
                        /\ pc' = [pc EXCEPT ![self] = "gs0"]
                   ELSE /\ pc' = [pc EXCEPT ![self] = "apt"]
                        /\ UNCHANGED << stack, initiator, gtodo, gt, gdone, 
                                        gabort >>
             /\ UNCHANGED << code, kst, kstop, ksig, unrep, rip, sstep, intr, 
                             hpend, inh, adv, iter, pend, shpend, sent, deliv, 
                             taken, prom, nsend, lost, badrecv, fam, famwho, 
                             tstate, guard, focus, sigq, ncmd, atPrompt, dead, 
                             phase, wst, ret, retpid, retsig, round, hist, 
                             nsys, lastsys, st, stid, ctodo, inj, cmd >>

apt(self) == /\ pc[self] = "apt"
             /\ ret' = "signal"
             /\ retpid' = st[self].pid
             /\ retsig' = st[self].sig
             /\ pc' = [pc EXCEPT ![self] = Head(stack[self]).pc]
             /\ st' = [st EXCEPT ![self] = Head(stack[self]).st]
             /\ stack' = [stack EXCEPT ![self] = Tail(stack[self])]
             /\ UNCHANGED << code, kst, kstop, ksig, unrep, rip, sstep, intr, 
                             hpend, inh, adv, iter, pend, shpend, sent, deliv, 
                             taken, prom, nsend, lost, badrecv, fam, famwho, 
                             tstate, guard, focus, sigq, ncmd, atPrompt, dead, 
                             phase, wst, round, hist, nsys, lastsys, initiator, 
                             gtodo, gt, gdone, gabort, stid, ctodo, inj, cmd >>

apply(self) == ap0(self) \/ ap0b(self) \/ ap1(self) \/ apr(self)
                  \/ ap3(self) \/ ap4(self) \/ ap5(self) \/ aps(self)
                  \/ apt(self)

ss0(self) == /\ pc[self] = "ss0"
             /\ IF kst[stid[self]] = "stopped"
                   THEN /\ IF kstop[stid[self]] = "event_exit"
                              THEN /\ kst' = [kst EXCEPT ![stid[self]] = "zombie"]
                                   /\ unrep' = [unrep EXCEPT ![stid[self]] = TRUE]
                                   /\ kstop' = [kstop EXCEPT ![stid[self]] = "none"]
                                   /\ UNCHANGED << ksig, sstep, hpend, adv, 
                                                   deliv, lost >>
                              ELSE /\ IF "none" # "none" /\ kstop[stid[self]] \in SigStops
                                         THEN /\ deliv' = [deliv EXCEPT !["none"] = deliv["none"] + 1]
                                              /\ hpend' = [hpend EXCEPT ![stid[self]] = TRUE]
                                              /\ lost' = lost
                                         ELSE /\ IF "none" # "none"
                                                    THEN /\ lost' = TRUE
                                                    ELSE /\ IF kstop[stid[self]] = "signal" /\ ksig[stid[self]] \notin Transparent /\ ~Queued(stid[self], ksig[stid[self]])
                                                               THEN /\ lost' = TRUE
                                                               ELSE /\ TRUE
                                                                    /\ lost' = lost
                                              /\ UNCHANGED << hpend, deliv >>
                                   /\ kst' = [kst EXCEPT ![stid[self]] = "running"]
                                   /\ kstop' = [kstop EXCEPT ![stid[self]] = "none"]
                                   /\ ksig' = [ksig EXCEPT ![stid[self]] = "none"]
                                   /\ sstep' = [sstep EXCEPT ![stid[self]] = TRUE]
                                   /\ adv' = [adv EXCEPT ![stid[self]] = FALSE]
                                   /\ unrep' = unrep
                   ELSE /\ TRUE
                        /\ UNCHANGED << kst, kstop, ksig, unrep, sstep, hpend, 
                                        adv, deliv, lost >>
             /\ /\ lastsys' = <<IF TRUE THEN "step" ELSE "cont", nsys[IF TRUE THEN "step" ELSE "cont"] + 1>>
                /\ nsys' = [nsys EXCEPT ![IF TRUE THEN "step" ELSE "cont"] = nsys[IF TRUE THEN "step" ELSE "cont"] + 1]
             /\ pc' = [pc EXCEPT ![self] = "ss1"]
             /\ UNCHANGED << code, rip, intr, inh, iter, pend, shpend, sent, 
                             taken, prom, nsend, badrecv, fam, famwho, tstate, 
                             guard, focus, sigq, ncmd, atPrompt, dead, phase, 
                             wst, ret, retpid, retsig, round, hist, stack, 
                             initiator, gtodo, gt, gdone, gabort, st, stid, 
                             ctodo, inj, cmd >>

ss1(self) == /\ pc[self] = "ss1"
             /\ \E t \in Threads : (stid[self] = None \/ stid[self] = t) /\ Reportable(t)
             /\ \E t \in {x \in Threads : (stid[self] = None \/ stid[self] = x) /\ Reportable(x)}:
                  /\ wst' = [pid |-> t, kind |-> IF kst[t] = "zombie" THEN "exited" ELSE kstop[t], sig |-> ksig[t]]
                  /\ unrep' = [unrep EXCEPT ![t] = FALSE]
                  /\ IF kst[t] = "zombie"
                        THEN /\ kst' = [kst EXCEPT ![t] = "exited"]
                        ELSE /\ TRUE
                             /\ kst' = kst
             /\ /\ lastsys' = <<"wait", nsys["wait"] + 1>>
                /\ nsys' = [nsys EXCEPT !["wait"] = nsys["wait"] + 1]
             /\ pc' = [pc EXCEPT ![self] = "ss2"]
             /\ UNCHANGED << code, kstop, ksig, rip, sstep, intr, hpend, inh, 
                             adv, iter, pend, shpend, sent, deliv, taken, prom, 
                             nsend, lost, badrecv, fam, famwho, tstate, guard, 
                             focus, sigq, ncmd, atPrompt, dead, phase, ret, 
                             retpid, retsig, round, hist, stack, initiator, 
                             gtodo, gt, gdone, gabort, st, stid, ctodo, inj, 
                             cmd >>

ss2(self) == /\ pc[self] = "ss2"
             /\ IF wst.kind \in {"trap_step", "trap_brkpt"}
                   THEN /\ IF ~adv[stid[self]]
                              THEN /\ pc' = [pc EXCEPT ![self] = "ss2a"]
                                   /\ UNCHANGED << ret, stack, stid >>
                              ELSE /\ ret' = "none"
                                   /\ pc' = [pc EXCEPT ![self] = Head(stack[self]).pc]
                                   /\ stid' = [stid EXCEPT ![self] = Head(stack[self]).stid]
                                   /\ stack' = [stack EXCEPT ![self] = Tail(stack[self])]
                        /\ st' = st
                   ELSE /\ IF wst.kind = "event_stop"
                              THEN /\ IF FixStepIntr /\ ~adv[stid[self]]
                                         THEN /\ pc' = [pc EXCEPT ![self] = "ss2b"]
                                              /\ UNCHANGED << ret, stack, stid >>
                                         ELSE /\ ret' = "none"
                                              /\ pc' = [pc EXCEPT ![self] = Head(stack[self]).pc]
                                              /\ stid' = [stid EXCEPT ![self] = Head(stack[self]).stid]
                                              /\ stack' = [stack EXCEPT ![self] = Tail(stack[self])]
                                   /\ st' = st
                              ELSE /\ /\ st' = [st EXCEPT ![self] = wst]
                                      /\ stack' = [stack EXCEPT ![self] = << [ procedure |->  "apply",
                                                                               pc        |->  "ss3",
                                                                               st        |->  st[self] ] >>
                                                                           \o stack[self]]
                                   /\ pc' = [pc EXCEPT ![self] = "ap0"]
                                   /\ UNCHANGED << ret, stid >>
             /\ UNCHANGED << code, kst, kstop, ksig, unrep, rip, sstep, intr, 
                             hpend, inh, adv, iter, pend, shpend, sent, deliv, 
                             taken, prom, nsend, lost, badrecv, fam, famwho, 
                             tstate, guard, focus, sigq, ncmd, atPrompt, dead, 
                             phase, wst, retpid, retsig, round, hist, nsys, 
                             lastsys, initiator, gtodo, gt, gdone, gabort, 
                             ctodo, inj, cmd >>

ss2a(self) == /\ pc[self] = "ss2a"
              /\ IF kst[stid[self]] = "stopped"
                    THEN /\ IF kstop[stid[self]] = "event_exit"
                               THEN /\ kst' = [kst EXCEPT ![stid[self]] = "zombie"]
                                    /\ unrep' = [unrep EXCEPT ![stid[self]] = TRUE]
                                    /\ kstop' = [kstop EXCEPT ![stid[self]] = "none"]
                                    /\ UNCHANGED << ksig, sstep, hpend, adv, 
                                                    deliv, lost >>
                               ELSE /\ IF "none" # "none" /\ kstop[stid[self]] \in SigStops
                                          THEN /\ deliv' = [deliv EXCEPT !["none"] = deliv["none"] + 1]
                                               /\ hpend' = [hpend EXCEPT ![stid[self]] = TRUE]
                                               /\ lost' = lost
                                          ELSE /\ IF "none" # "none"
                                                     THEN /\ lost' = TRUE
                                                     ELSE /\ IF kstop[stid[self]] = "signal" /\ ksig[stid[self]] \notin Transparent /\ ~Queued(stid[self], ksig[stid[self]])
                                                                THEN /\ lost' = TRUE
                                                                ELSE /\ TRUE
                                                                     /\ lost' = lost
                                               /\ UNCHANGED << hpend, deliv >>
                                    /\ kst' = [kst EXCEPT ![stid[self]] = "running"]
                                    /\ kstop' = [kstop EXCEPT ![stid[self]] = "none"]
                                    /\ ksig' = [ksig EXCEPT ![stid[self]] = "none"]
                                    /\ sstep' = [sstep EXCEPT ![stid[self]] = TRUE]
                                    /\ adv' = [adv EXCEPT ![stid[self]] = FALSE]
                                    /\ unrep' = unrep
                    ELSE /\ TRUE
                         /\ UNCHANGED << kst, kstop, ksig, unrep, sstep, hpend, 
                                         adv, deliv, lost >>
              /\ /\ lastsys' = <<IF TRUE THEN "step" ELSE "cont", nsys[IF TRUE THEN "step" ELSE "cont"] + 1>>
                 /\ nsys' = [nsys EXCEPT ![IF TRUE THEN "step" ELSE "cont"] = nsys[IF TRUE THEN "step" ELSE "cont"] + 1]
              /\ pc' = [pc EXCEPT ![self] = "ss1"]
              /\ UNCHANGED << code, rip, intr, inh, iter, pend, shpend, sent, 
                              taken, prom, nsend, badrecv, fam, famwho, tstate, 
                              guard, focus, sigq, ncmd, atPrompt, dead, phase, 
                              wst, ret, retpid, retsig, round, hist, stack, 
                              initiator, gtodo, gt, gdone, gabort, st, stid, 
                              ctodo, inj, cmd >>

ss2b(self) == /\ pc[self] = "ss2b"
              /\ IF kst[stid[self]] = "stopped"
                    THEN /\ IF kstop[stid[self]] = "event_exit"
                               THEN /\ kst' = [kst EXCEPT ![stid[self]] = "zombie"]
                                    /\ unrep' = [unrep EXCEPT ![stid[self]] = TRUE]
                                    /\ kstop' = [kstop EXCEPT ![stid[self]] = "none"]
                                    /\ UNCHANGED << ksig, sstep, hpend, adv, 
                                                    deliv, lost >>
                               ELSE /\ IF "none" # "none" /\ kstop[stid[self]] \in SigStops
                                          THEN /\ deliv' = [deliv EXCEPT !["none"] = deliv["none"] + 1]
                                               /\ hpend' = [hpend EXCEPT ![stid[self]] = TRUE]
                                               /\ lost' = lost
                                          ELSE /\ IF "none" # "none"
                                                     THEN /\ lost' = TRUE
                                                     ELSE /\ IF kstop[stid[self]] = "signal" /\ ksig[stid[self]] \notin Transparent /\ ~Queued(stid[self], ksig[stid[self]])
                                                                THEN /\ lost' = TRUE
                                                                ELSE /\ TRUE
                                                                     /\ lost' = lost
                                               /\ UNCHANGED << hpend, deliv >>
                                    /\ kst' = [kst EXCEPT ![stid[self]] = "running"]
                                    /\ kstop' = [kstop EXCEPT ![stid[self]] = "none"]
                                    /\ ksig' = [ksig EXCEPT ![stid[self]] = "none"]
                                    /\ sstep' = [sstep EXCEPT ![stid[self]] = TRUE]
                                    /\ adv' = [adv EXCEPT ![stid[self]] = FALSE]
                                    /\ unrep' = unrep
                    ELSE /\ TRUE
                         /\ UNCHANGED << kst, kstop, ksig, unrep, sstep, hpend, 
                                         adv, deliv, lost >>
              /\ /\ lastsys' = <<IF TRUE THEN "step" ELSE "cont", nsys[IF TRUE THEN "step" ELSE "cont"] + 1>>
                 /\ nsys' = [nsys EXCEPT ![IF TRUE THEN "step" ELSE "cont"] = nsys[IF TRUE THEN "step" ELSE "cont"] + 1]
              /\ pc' = [pc EXCEPT ![self] = "ss1"]
              /\ UNCHANGED << code, rip, intr, inh, iter, pend, shpend, sent, 
                              taken, prom, nsend, badrecv, fam, famwho, tstate, 
                              guard, focus, sigq, ncmd, atPrompt, dead, phase, 
                              wst, ret, retpid, retsig, round, hist, stack, 
                              initiator, gtodo, gt, gdone, gabort, st, stid, 
                              ctodo, inj, cmd >>

ss3(self) == /\ pc[self] = "ss3"
             /\ IF ret = "signal" /\ retsig \in Quiet
                   THEN /\ pc' = [pc EXCEPT ![self] = "ss4"]
                        /\ UNCHANGED << dead, stack, stid >>
                   ELSE /\ IF ret = "signal"
                              THEN /\ pc' = [pc EXCEPT ![self] = Head(stack[self]).pc]
                                   /\ stid' = [stid EXCEPT ![self] = Head(stack[self]).stid]
                                   /\ stack' = [stack EXCEPT ![self] = Tail(stack[self])]
                                   /\ dead' = dead
                              ELSE /\ IF ret = "exit"
                                         THEN /\ dead' = TRUE
                                              /\ pc' = [pc EXCEPT ![self] = Head(stack[self]).pc]
                                              /\ stid' = [stid EXCEPT ![self] = Head(stack[self]).stid]
                                              /\ stack' = [stack EXCEPT ![self] = Tail(stack[self])]
                                         ELSE /\ pc' = [pc EXCEPT ![self] = "ss1"]
                                              /\ UNCHANGED << dead, stack, 
                                                              stid >>
             /\ UNCHANGED << code, kst, kstop, ksig, unrep, rip, sstep, intr, 
                             hpend, inh, adv, iter, pend, shpend, sent, deliv, 
                             taken, prom, nsend, lost, badrecv, fam, famwho, 
                             tstate, guard, focus, sigq, ncmd, atPrompt, phase, 
                             wst, ret, retpid, retsig, round, hist, nsys, 
                             lastsys, initiator, gtodo, gt, gdone, gabort, st, 
                             ctodo, inj, cmd >>

ss4(self) == /\ pc[self] = "ss4"
             /\ IF kst[stid[self]] = "stopped"
                   THEN /\ IF kstop[stid[self]] = "event_exit"
                              THEN /\ kst' = [kst EXCEPT ![stid[self]] = "zombie"]
                                   /\ unrep' = [unrep EXCEPT ![stid[self]] = TRUE]
                                   /\ kstop' = [kstop EXCEPT ![stid[self]] = "none"]
                                   /\ UNCHANGED << ksig, sstep, hpend, adv, 
                                                   deliv, lost >>
                              ELSE /\ IF retsig # "none" /\ kstop[stid[self]] \in SigStops
                                         THEN /\ deliv' = [deliv EXCEPT ![retsig] = deliv[retsig] + 1]
                                              /\ hpend' = [hpend EXCEPT ![stid[self]] = TRUE]
                                              /\ lost' = lost
                                         ELSE /\ IF retsig # "none"
                                                    THEN /\ lost' = TRUE
                                                    ELSE /\ IF kstop[stid[self]] = "signal" /\ ksig[stid[self]] \notin Transparent /\ ~Queued(stid[self], ksig[stid[self]])
                                                               THEN /\ lost' = TRUE
                                                               ELSE /\ TRUE
                                                                    /\ lost' = lost
                                              /\ UNCHANGED << hpend, deliv >>
                                   /\ kst' = [kst EXCEPT ![stid[self]] = "running"]
                                   /\ kstop' = [kstop EXCEPT ![stid[self]] = "none"]
                                   /\ ksig' = [ksig EXCEPT ![stid[self]] = "none"]
                                   /\ sstep' = [sstep EXCEPT ![stid[self]] = TRUE]
                                   /\ adv' = [adv EXCEPT ![stid[self]] = FALSE]
                                   /\ unrep' = unrep
                   ELSE /\ TRUE
                        /\ UNCHANGED << kst, kstop, ksig, unrep, sstep, hpend, 
                                        adv, deliv, lost >>
             /\ /\ lastsys' = <<IF TRUE THEN "step" ELSE "cont", nsys[IF TRUE THEN "step" ELSE "cont"] + 1>>
                /\ nsys' = [nsys EXCEPT ![IF TRUE THEN "step" ELSE "cont"] = nsys[IF TRUE THEN "step" ELSE "cont"] + 1]
             /\ IF FixQuietDup
                   THEN /\ sigq' = PopBack(sigq)
                   ELSE /\ TRUE
                        /\ sigq' = sigq
             /\ pc' = [pc EXCEPT ![self] = "ss1"]
             /\ UNCHANGED << code, rip, intr, inh, iter, pend, shpend, sent, 
                             taken, prom, nsend, badrecv, fam, famwho, tstate, 
                             guard, focus, ncmd, atPrompt, dead, phase, wst, 
                             ret, retpid, retsig, round, hist, stack, 
                             initiator, gtodo, gt, gdone, gabort, st, stid, 
                             ctodo, inj, cmd >>

single_step(self) == ss0(self) \/ ss1(self) \/ ss2(self) \/ ss2a(self)
                        \/ ss2b(self) \/ ss3(self) \/ ss4(self)

rs0(self) == /\ pc[self] = "rs0"
             /\ IF sigq # <<>> /\ FixSwallow /\ ~Head(sigq)[3] /\ Head(sigq)[2] \notin Quiet
                   /\ kst[Head(sigq)[1]] = "stopped"
                   THEN /\ /\ initiator' = [initiator EXCEPT ![self] = None]
                           /\ stack' = [stack EXCEPT ![self] = << [ procedure |->  "group_stop",
                                                                    pc        |->  "rsw",
                                                                    gtodo     |->  gtodo[self],
                                                                    gt        |->  gt[self],
                                                                    gdone     |->  gdone[self],
                                                                    gabort    |->  gabort[self],
                                                                    initiator |->  initiator[self] ] >>
                                                                \o stack[self]]
                        /\ gtodo' = [gtodo EXCEPT ![self] = {}]
                        /\ gt' = [gt EXCEPT ![self] = None]
                        /\ gdone' = [gdone EXCEPT ![self] = FALSE]
                        /\ gabort' = [gabort EXCEPT ![self] = FALSE]
                        /\ pc' = [pc EXCEPT ![self] = "gs0"]
                        /\ UNCHANGED << lost, sigq, ctodo, inj >>
                   ELSE /\ IF sigq # <<>>
                              THEN /\ inj' = [inj EXCEPT ![self] = Head(sigq)]
                                   /\ sigq' = Tail(sigq)
                                   /\ ctodo' = [ctodo EXCEPT ![self] = {t \in Threads : tstate[t] = "stopped"} \ (IF FixExclude THEN {sigq'[i][1] : i \in 1..Len(sigq')} \ {inj'[self][1]} ELSE {sigq'[i][1] : i \in 1..Len(sigq')})]
                                   /\ IF inj'[self][1] \notin ({t \in Threads : tstate[t] = "stopped"} \ (IF FixExclude THEN {} ELSE {sigq'[i][1] : i \in 1..Len(sigq')}))
                                         THEN /\ lost' = TRUE
                                         ELSE /\ TRUE
                                              /\ lost' = lost
                              ELSE /\ inj' = [inj EXCEPT ![self] = <<>>]
                                   /\ ctodo' = [ctodo EXCEPT ![self] = {t \in Threads : tstate[t] = "stopped"}]
                                   /\ UNCHANGED << lost, sigq >>
                        /\ pc' = [pc EXCEPT ![self] = "rs1"]
                        /\ UNCHANGED << stack, initiator, gtodo, gt, gdone, 
                                        gabort >>
             /\ UNCHANGED << code, kst, kstop, ksig, unrep, rip, sstep, intr, 
                             hpend, inh, adv, iter, pend, shpend, sent, deliv, 
                             taken, prom, nsend, badrecv, fam, famwho, tstate, 
                             guard, focus, ncmd, atPrompt, dead, phase, wst, 
                             ret, retpid, retsig, round, hist, nsys, lastsys, 
                             st, stid, cmd >>

rs1(self) == /\ pc[self] = "rs1"
             /\ IF ctodo[self] # {}
                   THEN /\ \E t \in ctodo[self]:
                             /\ ctodo' = [ctodo EXCEPT ![self] = ctodo[self] \ {t}]
                             /\ IF kst[t] = "stopped"
                                   THEN /\ IF kstop[t] = "event_exit"
                                              THEN /\ kst' = [kst EXCEPT ![t] = "zombie"]
                                                   /\ unrep' = [unrep EXCEPT ![t] = TRUE]
                                                   /\ kstop' = [kstop EXCEPT ![t] = "none"]
                                                   /\ UNCHANGED << ksig, sstep, 
                                                                   hpend, adv, 
                                                                   deliv, lost >>
                                              ELSE /\ IF (IF inj[self] # <<>> /\ inj[self][1] = t THEN inj[self][2] ELSE "none") # "none" /\ kstop[t] \in SigStops
                                                         THEN /\ deliv' = [deliv EXCEPT ![(IF inj[self] # <<>> /\ inj[self][1] = t THEN inj[self][2] ELSE "none")] = deliv[(IF inj[self] # <<>> /\ inj[self][1] = t THEN inj[self][2] ELSE "none")] + 1]
                                                              /\ hpend' = [hpend EXCEPT ![t] = TRUE]
                                                              /\ lost' = lost
                                                         ELSE /\ IF (IF inj[self] # <<>> /\ inj[self][1] = t THEN inj[self][2] ELSE "none") # "none"
                                                                    THEN /\ lost' = TRUE
                                                                    ELSE /\ IF kstop[t] = "signal" /\ ksig[t] \notin Transparent /\ ~Queued(t, ksig[t])
                                                                               THEN /\ lost' = TRUE
                                                                               ELSE /\ TRUE
                                                                                    /\ lost' = lost
                                                              /\ UNCHANGED << hpend, 
                                                                              deliv >>
                                                   /\ kst' = [kst EXCEPT ![t] = "running"]
                                                   /\ kstop' = [kstop EXCEPT ![t] = "none"]
                                                   /\ ksig' = [ksig EXCEPT ![t] = "none"]
                                                   /\ sstep' = [sstep EXCEPT ![t] = FALSE]
                                                   /\ adv' = [adv EXCEPT ![t] = FALSE]
                                                   /\ unrep' = unrep
                                   ELSE /\ TRUE
                                        /\ UNCHANGED << kst, kstop, ksig, 
                                                        unrep, sstep, hpend, 
                                                        adv, deliv, lost >>
                             /\ /\ lastsys' = <<IF FALSE THEN "step" ELSE "cont", nsys[IF FALSE THEN "step" ELSE "cont"] + 1>>
                                /\ nsys' = [nsys EXCEPT ![IF FALSE THEN "step" ELSE "cont"] = nsys[IF FALSE THEN "step" ELSE "cont"] + 1]
                             /\ tstate' = [tstate EXCEPT ![t] = "running"]
                        /\ pc' = [pc EXCEPT ![self] = "rs1"]
                   ELSE /\ pc' = [pc EXCEPT ![self] = "rsq"]
                        /\ UNCHANGED << kst, kstop, ksig, unrep, sstep, hpend, 
                                        adv, deliv, lost, tstate, nsys, 
                                        lastsys, ctodo >>
             /\ UNCHANGED << code, rip, intr, inh, iter, pend, shpend, sent, 
                             taken, prom, nsend, badrecv, fam, famwho, guard, 
                             focus, sigq, ncmd, atPrompt, dead, phase, wst, 
                             ret, retpid, retsig, round, hist, stack, 
                             initiator, gtodo, gt, gdone, gabort, st, stid, 
                             inj, cmd >>

rsq(self) == /\ pc[self] = "rsq"
             /\ IF inj[self] # <<>> /\ sigq # <<>>
                   THEN /\ /\ initiator' = [initiator EXCEPT ![self] = None]
                           /\ stack' = [stack EXCEPT ![self] = << [ procedure |->  "group_stop",
                                                                    pc        |->  "rsr",
                                                                    gtodo     |->  gtodo[self],
                                                                    gt        |->  gt[self],
                                                                    gdone     |->  gdone[self],
                                                                    gabort    |->  gabort[self],
                                                                    initiator |->  initiator[self] ] >>
                                                                \o stack[self]]
                        /\ gtodo' = [gtodo EXCEPT ![self] = {}]
                        /\ gt' = [gt EXCEPT ![self] = None]
                        /\ gdone' = [gdone EXCEPT ![self] = FALSE]
                        /\ gabort' = [gabort EXCEPT ![self] = FALSE]
                        /\ pc' = [pc EXCEPT ![self] = "gs0"]
                   ELSE /\ pc' = [pc EXCEPT ![self] = "rs2"]
                        /\ UNCHANGED << stack, initiator, gtodo, gt, gdone, 
                                        gabort >>
             /\ UNCHANGED << code, kst, kstop, ksig, unrep, rip, sstep, intr, 
                             hpend, inh, adv, iter, pend, shpend, sent, deliv, 
                             taken, prom, nsend, lost, badrecv, fam, famwho, 
                             tstate, guard, focus, sigq, ncmd, atPrompt, dead, 
                             phase, wst, ret, retpid, retsig, round, hist, 
                             nsys, lastsys, st, stid, ctodo, inj, cmd >>

rsr(self) == /\ pc[self] = "rsr"
             /\ IF (FixQuietFront /\ Head(sigq)[2] \in Quiet) \/ (FixSwallow /\ Head(sigq)[3])
                   THEN /\ pc' = [pc EXCEPT ![self] = "rs0"]
                        /\ UNCHANGED << ret, retpid, retsig, stack, ctodo, inj >>
                   ELSE /\ ret' = "signal"
                        /\ retpid' = Head(sigq)[1]
                        /\ retsig' = Head(sigq)[2]
                        /\ pc' = [pc EXCEPT ![self] = Head(stack[self]).pc]
                        /\ ctodo' = [ctodo EXCEPT ![self] = Head(stack[self]).ctodo]
                        /\ inj' = [inj EXCEPT ![self] = Head(stack[self]).inj]
                        /\ stack' = [stack EXCEPT ![self] = Tail(stack[self])]
             /\ UNCHANGED << code, kst, kstop, ksig, unrep, rip, sstep, intr, 
                             hpend, inh, adv, iter, pend, shpend, sent, deliv, 
                             taken, prom, nsend, lost, badrecv, fam, famwho, 
                             tstate, guard, focus, sigq, ncmd, atPrompt, dead, 
                             phase, wst, round, hist, nsys, lastsys, initiator, 
                             gtodo, gt, gdone, gabort, st, stid, cmd >>

rs2(self) == /\ pc[self] = "rs2"
             /\ \E t \in Threads : (None = None \/ None = t) /\ Reportable(t)
             /\ \E t \in {x \in Threads : (None = None \/ None = x) /\ Reportable(x)}:
                  /\ wst' = [pid |-> t, kind |-> IF kst[t] = "zombie" THEN "exited" ELSE kstop[t], sig |-> ksig[t]]
                  /\ unrep' = [unrep EXCEPT ![t] = FALSE]
                  /\ IF kst[t] = "zombie"
                        THEN /\ kst' = [kst EXCEPT ![t] = "exited"]
                        ELSE /\ TRUE
                             /\ kst' = kst
             /\ /\ lastsys' = <<"wait", nsys["wait"] + 1>>
                /\ nsys' = [nsys EXCEPT !["wait"] = nsys["wait"] + 1]
             /\ pc' = [pc EXCEPT ![self] = "rs3"]
             /\ UNCHANGED << code, kstop, ksig, rip, sstep, intr, hpend, inh, 
                             adv, iter, pend, shpend, sent, deliv, taken, prom, 
                             nsend, lost, badrecv, fam, famwho, tstate, guard, 
                             focus, sigq, ncmd, atPrompt, dead, phase, ret, 
                             retpid, retsig, round, hist, stack, initiator, 
                             gtodo, gt, gdone, gabort, st, stid, ctodo, inj, 
                             cmd >>

rs3(self) == /\ pc[self] = "rs3"
             /\ /\ st' = [st EXCEPT ![self] = wst]
                /\ stack' = [stack EXCEPT ![self] = << [ procedure |->  "apply",
                                                         pc        |->  "rs4",
                                                         st        |->  st[self] ] >>
                                                     \o stack[self]]
             /\ pc' = [pc EXCEPT ![self] = "ap0"]
             /\ UNCHANGED << code, kst, kstop, ksig, unrep, rip, sstep, intr, 
                             hpend, inh, adv, iter, pend, shpend, sent, deliv, 
                             taken, prom, nsend, lost, badrecv, fam, famwho, 
                             tstate, guard, focus, sigq, ncmd, atPrompt, dead, 
                             phase, wst, ret, retpid, retsig, round, hist, 
                             nsys, lastsys, initiator, gtodo, gt, gdone, 
                             gabort, stid, ctodo, inj, cmd >>

rs4(self) == /\ pc[self] = "rs4"
             /\ IF ret = "signal" /\ retsig \in Quiet
                   THEN /\ TRUE
                        /\ pc' = [pc EXCEPT ![self] = "rs0"]
                        /\ UNCHANGED << stack, ctodo, inj >>
                   ELSE /\ IF ret # "none"
                              THEN /\ pc' = [pc EXCEPT ![self] = Head(stack[self]).pc]
                                   /\ ctodo' = [ctodo EXCEPT ![self] = Head(stack[self]).ctodo]
                                   /\ inj' = [inj EXCEPT ![self] = Head(stack[self]).inj]
                                   /\ stack' = [stack EXCEPT ![self] = Tail(stack[self])]
                              ELSE /\ pc' = [pc EXCEPT ![self] = "rs0"]
                                   /\ UNCHANGED << stack, ctodo, inj >>
             /\ UNCHANGED << code, kst, kstop, ksig, unrep, rip, sstep, intr, 
                             hpend, inh, adv, iter, pend, shpend, sent, deliv, 
                             taken, prom, nsend, lost, badrecv, fam, famwho, 
                             tstate, guard, focus, sigq, ncmd, atPrompt, dead, 
                             phase, wst, ret, retpid, retsig, round, hist, 
                             nsys, lastsys, initiator, gtodo, gt, gdone, 
                             gabort, st, stid, cmd >>

rsw(self) == /\ pc[self] = "rsw"
             /\ ret' = "signal"
             /\ retpid' = Head(sigq)[1]
             /\ retsig' = Head(sigq)[2]
             /\ pc' = [pc EXCEPT ![self] = Head(stack[self]).pc]
             /\ ctodo' = [ctodo EXCEPT ![self] = Head(stack[self]).ctodo]
             /\ inj' = [inj EXCEPT ![self] = Head(stack[self]).inj]
             /\ stack' = [stack EXCEPT ![self] = Tail(stack[self])]
             /\ UNCHANGED << code, kst, kstop, ksig, unrep, rip, sstep, intr, 
                             hpend, inh, adv, iter, pend, shpend, sent, deliv, 
                             taken, prom, nsend, lost, badrecv, fam, famwho, 
                             tstate, guard, focus, sigq, ncmd, atPrompt, dead, 
                             phase, wst, round, hist, nsys, lastsys, initiator, 
                             gtodo, gt, gdone, gabort, st, stid, cmd >>

resume(self) == rs0(self) \/ rs1(self) \/ rsq(self) \/ rsr(self)
                   \/ rs2(self) \/ rs3(self) \/ rs4(self) \/ rsw(self)

sb0(self) == /\ pc[self] = "sb0"
             /\ ret' = "none"
             /\ IF tstate[focus] # "gone" /\ kst[focus] = "stopped" /\ code /\ rip[focus] = Bp /\ ~inh[focus]
                   THEN /\ pc' = [pc EXCEPT ![self] = "sb1"]
                   ELSE /\ pc' = [pc EXCEPT ![self] = "sb4"]
             /\ UNCHANGED << code, kst, kstop, ksig, unrep, rip, sstep, intr, 
                             hpend, inh, adv, iter, pend, shpend, sent, deliv, 
                             taken, prom, nsend, lost, badrecv, fam, famwho, 
                             tstate, guard, focus, sigq, ncmd, atPrompt, dead, 
                             phase, wst, retpid, retsig, round, hist, nsys, 
                             lastsys, stack, initiator, gtodo, gt, gdone, 
                             gabort, st, stid, ctodo, inj, cmd >>

sb1(self) == /\ pc[self] = "sb1"
             /\ code' = FALSE
             /\ pc' = [pc EXCEPT ![self] = "sb2"]
             /\ UNCHANGED << kst, kstop, ksig, unrep, rip, sstep, intr, hpend, 
                             inh, adv, iter, pend, shpend, sent, deliv, taken, 
                             prom, nsend, lost, badrecv, fam, famwho, tstate, 
                             guard, focus, sigq, ncmd, atPrompt, dead, phase, 
                             wst, ret, retpid, retsig, round, hist, nsys, 
                             lastsys, stack, initiator, gtodo, gt, gdone, 
                             gabort, st, stid, ctodo, inj, cmd >>

sb2(self) == /\ pc[self] = "sb2"
             /\ /\ stack' = [stack EXCEPT ![self] = << [ procedure |->  "single_step",
                                                         pc        |->  "sb3",
                                                         stid      |->  stid[self] ] >>
                                                     \o stack[self]]
                /\ stid' = [stid EXCEPT ![self] = focus]
             /\ pc' = [pc EXCEPT ![self] = "ss0"]
             /\ UNCHANGED << code, kst, kstop, ksig, unrep, rip, sstep, intr, 
                             hpend, inh, adv, iter, pend, shpend, sent, deliv, 
                             taken, prom, nsend, lost, badrecv, fam, famwho, 
                             tstate, guard, focus, sigq, ncmd, atPrompt, dead, 
                             phase, wst, ret, retpid, retsig, round, hist, 
                             nsys, lastsys, initiator, gtodo, gt, gdone, 
                             gabort, st, ctodo, inj, cmd >>

sb3(self) == /\ pc[self] = "sb3"
             /\ code' = TRUE
             /\ pc' = [pc EXCEPT ![self] = "sb4"]
             /\ UNCHANGED << kst, kstop, ksig, unrep, rip, sstep, intr, hpend, 
                             inh, adv, iter, pend, shpend, sent, deliv, taken, 
                             prom, nsend, lost, badrecv, fam, famwho, tstate, 
                             guard, focus, sigq, ncmd, atPrompt, dead, phase, 
                             wst, ret, retpid, retsig, round, hist, nsys, 
                             lastsys, stack, initiator, gtodo, gt, gdone, 
                             gabort, st, stid, ctodo, inj, cmd >>

sb4(self) == /\ pc[self] = "sb4"
             /\ pc' = [pc EXCEPT ![self] = Head(stack[self]).pc]
             /\ stack' = [stack EXCEPT ![self] = Tail(stack[self])]
             /\ UNCHANGED << code, kst, kstop, ksig, unrep, rip, sstep, intr, 
                             hpend, inh, adv, iter, pend, shpend, sent, deliv, 
                             taken, prom, nsend, lost, badrecv, fam, famwho, 
                             tstate, guard, focus, sigq, ncmd, atPrompt, dead, 
                             phase, wst, ret, retpid, retsig, round, hist, 
                             nsys, lastsys, initiator, gtodo, gt, gdone, 
                             gabort, st, stid, ctodo, inj, cmd >>

step_over_breakpoint(self) == sb0(self) \/ sb1(self) \/ sb2(self)
                                 \/ sb3(self) \/ sb4(self)

sn0(self) == /\ pc[self] = "sn0"
             /\ IF code /\ rip[focus] = Bp /\ ~inh[focus]
                   THEN /\ stack' = [stack EXCEPT ![self] = << [ procedure |->  "step_over_breakpoint",
                                                                 pc        |->  "sn1" ] >>
                                                             \o stack[self]]
                        /\ pc' = [pc EXCEPT ![self] = "sb0"]
                        /\ stid' = stid
                   ELSE /\ /\ stack' = [stack EXCEPT ![self] = << [ procedure |->  "single_step",
                                                                    pc        |->  "sn1",
                                                                    stid      |->  stid[self] ] >>
                                                                \o stack[self]]
                           /\ stid' = [stid EXCEPT ![self] = focus]
                        /\ pc' = [pc EXCEPT ![self] = "ss0"]
             /\ UNCHANGED << code, kst, kstop, ksig, unrep, rip, sstep, intr, 
                             hpend, inh, adv, iter, pend, shpend, sent, deliv, 
                             taken, prom, nsend, lost, badrecv, fam, famwho, 
                             tstate, guard, focus, sigq, ncmd, atPrompt, dead, 
                             phase, wst, ret, retpid, retsig, round, hist, 
                             nsys, lastsys, initiator, gtodo, gt, gdone, 
                             gabort, st, ctodo, inj, cmd >>

sn1(self) == /\ pc[self] = "sn1"
             /\ pc' = [pc EXCEPT ![self] = Head(stack[self]).pc]
             /\ stack' = [stack EXCEPT ![self] = Tail(stack[self])]
             /\ UNCHANGED << code, kst, kstop, ksig, unrep, rip, sstep, intr, 
                             hpend, inh, adv, iter, pend, shpend, sent, deliv, 
                             taken, prom, nsend, lost, badrecv, fam, famwho, 
                             tstate, guard, focus, sigq, ncmd, atPrompt, dead, 
                             phase, wst, ret, retpid, retsig, round, hist, 
                             nsys, lastsys, initiator, gtodo, gt, gdone, 
                             gabort, st, stid, ctodo, inj, cmd >>

step_insn(self) == sn0(self) \/ sn1(self)

ce0(self) == /\ pc[self] = "ce0"
             /\ stack' = [stack EXCEPT ![self] = << [ procedure |->  "step_over_breakpoint",
                                                      pc        |->  "ce1" ] >>
                                                  \o stack[self]]
             /\ pc' = [pc EXCEPT ![self] = "sb0"]
             /\ UNCHANGED << code, kst, kstop, ksig, unrep, rip, sstep, intr, 
                             hpend, inh, adv, iter, pend, shpend, sent, deliv, 
                             taken, prom, nsend, lost, badrecv, fam, famwho, 
                             tstate, guard, focus, sigq, ncmd, atPrompt, dead, 
                             phase, wst, ret, retpid, retsig, round, hist, 
                             nsys, lastsys, initiator, gtodo, gt, gdone, 
                             gabort, st, stid, ctodo, inj, cmd >>

ce1(self) == /\ pc[self] = "ce1"
             /\ IF ret = "signal" \/ dead
                   THEN /\ pc' = [pc EXCEPT ![self] = Head(stack[self]).pc]
                        /\ stack' = [stack EXCEPT ![self] = Tail(stack[self])]
                   ELSE /\ pc' = [pc EXCEPT ![self] = "ce4"]
                        /\ stack' = stack
             /\ UNCHANGED << code, kst, kstop, ksig, unrep, rip, sstep, intr, 
                             hpend, inh, adv, iter, pend, shpend, sent, deliv, 
                             taken, prom, nsend, lost, badrecv, fam, famwho, 
                             tstate, guard, focus, sigq, ncmd, atPrompt, dead, 
                             phase, wst, ret, retpid, retsig, round, hist, 
                             nsys, lastsys, initiator, gtodo, gt, gdone, 
                             gabort, st, stid, ctodo, inj, cmd >>

ce4(self) == /\ pc[self] = "ce4"
             /\ stack' = [stack EXCEPT ![self] = << [ procedure |->  "resume",
                                                      pc        |->  "ce5",
                                                      ctodo     |->  ctodo[self],
                                                      inj       |->  inj[self] ] >>
                                                  \o stack[self]]
             /\ ctodo' = [ctodo EXCEPT ![self] = {}]
             /\ inj' = [inj EXCEPT ![self] = <<>>]
             /\ pc' = [pc EXCEPT ![self] = "rs0"]
             /\ UNCHANGED << code, kst, kstop, ksig, unrep, rip, sstep, intr, 
                             hpend, inh, adv, iter, pend, shpend, sent, deliv, 
                             taken, prom, nsend, lost, badrecv, fam, famwho, 
                             tstate, guard, focus, sigq, ncmd, atPrompt, dead, 
                             phase, wst, ret, retpid, retsig, round, hist, 
                             nsys, lastsys, initiator, gtodo, gt, gdone, 
                             gabort, st, stid, cmd >>

ce5(self) == /\ pc[self] = "ce5"
             /\ IF ret \in {"brkpt", "signal"}
                   THEN /\ focus' = retpid
                   ELSE /\ TRUE
                        /\ focus' = focus
             /\ pc' = [pc EXCEPT ![self] = Head(stack[self]).pc]
             /\ stack' = [stack EXCEPT ![self] = Tail(stack[self])]
             /\ UNCHANGED << code, kst, kstop, ksig, unrep, rip, sstep, intr, 
                             hpend, inh, adv, iter, pend, shpend, sent, deliv, 
                             taken, prom, nsend, lost, badrecv, fam, famwho, 
                             tstate, guard, sigq, ncmd, atPrompt, dead, phase, 
                             wst, ret, retpid, retsig, round, hist, nsys, 
                             lastsys, initiator, gtodo, gt, gdone, gabort, st, 
                             stid, ctodo, inj, cmd >>

continue_execution(self) == ce0(self) \/ ce1(self) \/ ce4(self)
                               \/ ce5(self)

si0(self) == /\ pc[self] = "si0"
             /\ IF tstate[focus] = "gone" \/ kst[focus] # "stopped"
                   THEN /\ ret' = "none"
                        /\ pc' = [pc EXCEPT ![self] = Head(stack[self]).pc]
                        /\ stack' = [stack EXCEPT ![self] = Tail(stack[self])]
                   ELSE /\ pc' = [pc EXCEPT ![self] = "si1"]
                        /\ UNCHANGED << ret, stack >>
             /\ UNCHANGED << code, kst, kstop, ksig, unrep, rip, sstep, intr, 
                             hpend, inh, adv, iter, pend, shpend, sent, deliv, 
                             taken, prom, nsend, lost, badrecv, fam, famwho, 
                             tstate, guard, focus, sigq, ncmd, atPrompt, dead, 
                             phase, wst, retpid, retsig, round, hist, nsys, 
                             lastsys, initiator, gtodo, gt, gdone, gabort, st, 
                             stid, ctodo, inj, cmd >>

si1(self) == /\ pc[self] = "si1"
             /\ stack' = [stack EXCEPT ![self] = << [ procedure |->  "step_insn",
                                                      pc        |->  "si2" ] >>
                                                  \o stack[self]]
             /\ pc' = [pc EXCEPT ![self] = "sn0"]
             /\ UNCHANGED << code, kst, kstop, ksig, unrep, rip, sstep, intr, 
                             hpend, inh, adv, iter, pend, shpend, sent, deliv, 
                             taken, prom, nsend, lost, badrecv, fam, famwho, 
                             tstate, guard, focus, sigq, ncmd, atPrompt, dead, 
                             phase, wst, ret, retpid, retsig, round, hist, 
                             nsys, lastsys, initiator, gtodo, gt, gdone, 
                             gabort, st, stid, ctodo, inj, cmd >>

si2(self) == /\ pc[self] = "si2"
             /\ IF ret = "signal"
                   THEN /\ retpid' = focus
                   ELSE /\ TRUE
                        /\ UNCHANGED retpid
             /\ pc' = [pc EXCEPT ![self] = Head(stack[self]).pc]
             /\ stack' = [stack EXCEPT ![self] = Tail(stack[self])]
             /\ UNCHANGED << code, kst, kstop, ksig, unrep, rip, sstep, intr, 
                             hpend, inh, adv, iter, pend, shpend, sent, deliv, 
                             taken, prom, nsend, lost, badrecv, fam, famwho, 
                             tstate, guard, focus, sigq, ncmd, atPrompt, dead, 
                             phase, wst, ret, retsig, round, hist, nsys, 
                             lastsys, initiator, gtodo, gt, gdone, gabort, st, 
                             stid, ctodo, inj, cmd >>

stepi(self) == si0(self) \/ si1(self) \/ si2(self)

sl0(self) == /\ pc[self] = "sl0"
             /\ IF tstate[focus] = "gone" \/ kst[focus] # "stopped"
                   THEN /\ ret' = "none"
                        /\ pc' = [pc EXCEPT ![self] = Head(stack[self]).pc]
                        /\ stack' = [stack EXCEPT ![self] = Tail(stack[self])]
                   ELSE /\ pc' = [pc EXCEPT ![self] = "sl1"]
                        /\ UNCHANGED << ret, stack >>
             /\ UNCHANGED << code, kst, kstop, ksig, unrep, rip, sstep, intr, 
                             hpend, inh, adv, iter, pend, shpend, sent, deliv, 
                             taken, prom, nsend, lost, badrecv, fam, famwho, 
                             tstate, guard, focus, sigq, ncmd, atPrompt, dead, 
                             phase, wst, retpid, retsig, round, hist, nsys, 
                             lastsys, initiator, gtodo, gt, gdone, gabort, st, 
                             stid, ctodo, inj, cmd >>

sl1(self) == /\ pc[self] = "sl1"
             /\ stack' = [stack EXCEPT ![self] = << [ procedure |->  "step_insn",
                                                      pc        |->  "sl2" ] >>
                                                  \o stack[self]]
             /\ pc' = [pc EXCEPT ![self] = "sn0"]
             /\ UNCHANGED << code, kst, kstop, ksig, unrep, rip, sstep, intr, 
                             hpend, inh, adv, iter, pend, shpend, sent, deliv, 
                             taken, prom, nsend, lost, badrecv, fam, famwho, 
                             tstate, guard, focus, sigq, ncmd, atPrompt, dead, 
                             phase, wst, ret, retpid, retsig, round, hist, 
                             nsys, lastsys, initiator, gtodo, gt, gdone, 
                             gabort, st, stid, ctodo, inj, cmd >>

sl2(self) == /\ pc[self] = "sl2"
             /\ IF ret = "signal"
                   THEN /\ retpid' = focus
                        /\ pc' = [pc EXCEPT ![self] = Head(stack[self]).pc]
                        /\ stack' = [stack EXCEPT ![self] = Tail(stack[self])]
                        /\ ret' = ret
                   ELSE /\ IF dead \/ ret = "exit" \/ kst[focus] # "stopped"
                              THEN /\ pc' = [pc EXCEPT ![self] = Head(stack[self]).pc]
                                   /\ stack' = [stack EXCEPT ![self] = Tail(stack[self])]
                                   /\ ret' = ret
                              ELSE /\ IF inh[focus] \/ rip[focus] \in LineStarts
                                         THEN /\ ret' = "none"
                                              /\ pc' = [pc EXCEPT ![self] = Head(stack[self]).pc]
                                              /\ stack' = [stack EXCEPT ![self] = Tail(stack[self])]
                                         ELSE /\ pc' = [pc EXCEPT ![self] = "sl1"]
                                              /\ UNCHANGED << ret, stack >>
                        /\ UNCHANGED retpid
             /\ UNCHANGED << code, kst, kstop, ksig, unrep, rip, sstep, intr, 
                             hpend, inh, adv, iter, pend, shpend, sent, deliv, 
                             taken, prom, nsend, lost, badrecv, fam, famwho, 
                             tstate, guard, focus, sigq, ncmd, atPrompt, dead, 
                             phase, wst, retsig, round, hist, nsys, lastsys, 
                             initiator, gtodo, gt, gdone, gabort, st, stid, 
                             ctodo, inj, cmd >>

stepline(self) == sl0(self) \/ sl1(self) \/ sl2(self)

d0 == /\ pc[0] = "d0"
      /\ IF phase # "done"
            THEN /\ IF phase = "cmds" /\ (ncmd >= MaxCmd \/ ret = "exit" \/ dead)
                       THEN /\ IF RunOut /\ ret # "exit" /\ ~dead
                                  THEN /\ phase' = "runout"
                                       /\ code' = FALSE
                                  ELSE /\ phase' = "done"
                                       /\ code' = code
                            /\ pc' = [pc EXCEPT ![0] = "d0"]
                            /\ UNCHANGED << atPrompt, nsys, lastsys, cmd >>
                       ELSE /\ IF phase = "runout" /\ (ret = "exit" \/ dead)
                                  THEN /\ phase' = "done"
                                       /\ pc' = [pc EXCEPT ![0] = "d0"]
                                       /\ UNCHANGED << atPrompt, nsys, lastsys, 
                                                       cmd >>
                                  ELSE /\ atPrompt' = FALSE
                                       /\ nsys' = [c \in SysCls |-> 0]
                                       /\ lastsys' = <<"start", 0>>
                                       /\ IF phase = "runout"
                                             THEN /\ cmd' = "continue"
                                             ELSE /\ \E c \in Cmds:
                                                       cmd' = c
                                       /\ pc' = [pc EXCEPT ![0] = "d0h"]
                                       /\ phase' = phase
                            /\ code' = code
            ELSE /\ pc' = [pc EXCEPT ![0] = "dz"]
                 /\ UNCHANGED << code, atPrompt, phase, nsys, lastsys, cmd >>
      /\ UNCHANGED << kst, kstop, ksig, unrep, rip, sstep, intr, hpend, inh, 
                      adv, iter, pend, shpend, sent, deliv, taken, prom, nsend, 
                      lost, badrecv, fam, famwho, tstate, guard, focus, sigq, 
                      ncmd, dead, wst, ret, retpid, retsig, round, hist, stack, 
                      initiator, gtodo, gt, gdone, gabort, st, stid, ctodo, 
                      inj >>

d0h == /\ pc[0] = "d0h"
       /\ hist' = Append(hist, [cmd |-> cmd])
       /\ IF fam \in {1, 2, 3} /\ cmd \notin {"stepi", "step"}
             THEN /\ fam' = 0
             ELSE /\ TRUE
                  /\ fam' = fam
       /\ IF cmd = "continue"
             THEN /\ stack' = [stack EXCEPT ![0] = << [ procedure |->  "continue_execution",
                                                        pc        |->  "d1" ] >>
                                                    \o stack[0]]
                  /\ pc' = [pc EXCEPT ![0] = "ce0"]
             ELSE /\ IF cmd = "stepi"
                        THEN /\ stack' = [stack EXCEPT ![0] = << [ procedure |->  "stepi",
                                                                   pc        |->  "d1" ] >>
                                                               \o stack[0]]
                             /\ pc' = [pc EXCEPT ![0] = "si0"]
                        ELSE /\ stack' = [stack EXCEPT ![0] = << [ procedure |->  "stepline",
                                                                   pc        |->  "d1" ] >>
                                                               \o stack[0]]
                             /\ pc' = [pc EXCEPT ![0] = "sl0"]
       /\ UNCHANGED << code, kst, kstop, ksig, unrep, rip, sstep, intr, hpend, 
                       inh, adv, iter, pend, shpend, sent, deliv, taken, prom, 
                       nsend, lost, badrecv, famwho, tstate, guard, focus, 
                       sigq, ncmd, atPrompt, dead, phase, wst, ret, retpid, 
                       retsig, round, nsys, lastsys, initiator, gtodo, gt, 
                       gdone, gabort, st, stid, ctodo, inj, cmd >>

d1 == /\ pc[0] = "d1"
      /\ ncmd' = ncmd + 1
      /\ atPrompt' = TRUE
      /\ IF ret = "signal"
            THEN /\ prom' = [prom EXCEPT ![retsig] = prom[retsig] + 1]
                 /\ sigq' = MarkRet(sigq, retpid, retsig)
                 /\ IF ~(kst[retpid] = "stopped" /\ kstop[retpid] = "signal" /\ ksig[retpid] = retsig)
                       THEN /\ badrecv' = TRUE
                       ELSE /\ TRUE
                            /\ UNCHANGED badrecv
            ELSE /\ TRUE
                 /\ UNCHANGED << prom, badrecv, sigq >>
      /\ hist' = Append(hist, [stop |-> ret, tid |-> retpid, sig |-> retsig])
      /\ IF fam = 1
            THEN /\ IF ret = "signal" /\ retsig \notin (Quiet \cup Transparent) /\ retpid = famwho
                       THEN /\ fam' = 2
                       ELSE /\ fam' = 0
            ELSE /\ IF fam = 3
                       THEN /\ fam' = 4
                       ELSE /\ IF fam = 2
                                  THEN /\ fam' = 0
                                  ELSE /\ TRUE
                                       /\ fam' = fam
      /\ pc' = [pc EXCEPT ![0] = "d0"]
      /\ UNCHANGED << code, kst, kstop, ksig, unrep, rip, sstep, intr, hpend, 
                      inh, adv, iter, pend, shpend, sent, deliv, taken, nsend, 
                      lost, famwho, tstate, guard, focus, dead, phase, wst, 
                      ret, retpid, retsig, round, nsys, lastsys, stack, 
                      initiator, gtodo, gt, gdone, gabort, st, stid, ctodo, 
                      inj, cmd >>

dz == /\ pc[0] = "dz"
      /\ IF Gen
            THEN /\ PrintT(<<"BEH", ToJson([hist |-> hist, sent |-> sent, deliv |-> deliv, prom |-> prom, taken |-> taken,
                                            lost |-> lost, badrecv |-> badrecv, exited |-> AllGone, dead |-> dead,
                                            nthreads |-> Cardinality(Threads), broken |-> Broken, fam |-> fam])>>)
            ELSE /\ TRUE
      /\ pc' = [pc EXCEPT ![0] = "Done"]
      /\ UNCHANGED << code, kst, kstop, ksig, unrep, rip, sstep, intr, hpend, 
                      inh, adv, iter, pend, shpend, sent, deliv, taken, prom, 
                      nsend, lost, badrecv, fam, famwho, tstate, guard, focus, 
                      sigq, ncmd, atPrompt, dead, phase, wst, ret, retpid, 
                      retsig, round, hist, nsys, lastsys, stack, initiator, 
                      gtodo, gt, gdone, gabort, st, stid, ctodo, inj, cmd >>

Dbg == d0 \/ d0h \/ d1 \/ dz

e0 == /\ pc[100] = "e0"
      /\ IF nsend < MaxSend
            THEN /\ phase = "cmds" /\ pc[0] # "dz" /\ pc[0] # "Done"
                 /\ \E s \in Sigs:
                      \E tgt \in {x \in Threads : Live(x)} \cup (IF ProcTarget /\ \E x \in Threads : Live(x) THEN {Proc} ELSE {}):
                        /\ nsend' = nsend + 1
                        /\ IF fam = 0 /\ s \notin (Quiet \cup Transparent) /\ tgt # Proc
                              THEN /\ fam' = 1
                                   /\ famwho' = tgt
                              ELSE /\ IF fam = 2 /\ s \in Quiet /\ tgt = famwho
                                         THEN /\ fam' = 3
                                         ELSE /\ TRUE
                                              /\ fam' = fam
                                   /\ UNCHANGED famwho
                        /\ IF tgt = Proc
                              THEN /\ hist' = Append(hist, [send |-> s, to |-> tgt, after |-> lastsys, prompt |-> atPrompt, coal |-> s \in shpend])
                                   /\ IF s \notin shpend
                                         THEN /\ shpend' = (shpend \cup {s})
                                              /\ sent' = [sent EXCEPT ![s] = sent[s] + 1]
                                         ELSE /\ TRUE
                                              /\ UNCHANGED << shpend, sent >>
                                   /\ pend' = pend
                              ELSE /\ hist' = Append(hist, [send |-> s, to |-> tgt, after |-> lastsys, prompt |-> atPrompt, coal |-> s \in pend[tgt]])
                                   /\ IF s \notin pend[tgt]
                                         THEN /\ pend' = [pend EXCEPT ![tgt] = pend[tgt] \cup {s}]
                                              /\ sent' = [sent EXCEPT ![s] = sent[s] + 1]
                                         ELSE /\ TRUE
                                              /\ UNCHANGED << pend, sent >>
                                   /\ UNCHANGED shpend
                 /\ pc' = [pc EXCEPT ![100] = "e0"]
            ELSE /\ pc' = [pc EXCEPT ![100] = "Done"]
                 /\ UNCHANGED << pend, shpend, sent, nsend, fam, famwho, hist >>
      /\ UNCHANGED << code, kst, kstop, ksig, unrep, rip, sstep, intr, hpend, 
                      inh, adv, iter, deliv, taken, prom, lost, badrecv, 
                      tstate, guard, focus, sigq, ncmd, atPrompt, dead, phase, 
                      wst, ret, retpid, retsig, round, nsys, lastsys, stack, 
                      initiator, gtodo, gt, gdone, gabort, st, stid, ctodo, 
                      inj, cmd >>

Env == e0

t0(self) == /\ pc[self] = "t0"
            /\ IF kst[self] # "exited" /\ kst[self] # "zombie"
                  THEN /\ kst[self] = "running"
                       /\ self # Main \/ iter[self] < Iters \/ intr[self] \/ pend[self] # {} \/ shpend # {} \/ hpend[self] \/ inh[self]
                          \/ \A o \in Threads \ {Main} : kst[o] \in {"exited", "zombie"}
                       /\ IF intr[self]
                             THEN /\ intr' = [intr EXCEPT ![self] = FALSE]
                                  /\ kst' = [kst EXCEPT ![self] = "stopped"]
                                  /\ kstop' = [kstop EXCEPT ![self] = "event_stop"]
                                  /\ unrep' = [unrep EXCEPT ![self] = TRUE]
                                  /\ UNCHANGED << ksig, rip, sstep, hpend, inh, 
                                                  adv, iter, pend, shpend, 
                                                  taken >>
                             ELSE /\ IF pend[self] # {} \/ shpend # {}
                                        THEN /\ \E s \in pend[self] \cup shpend:
                                                  /\ IF s \in pend[self]
                                                        THEN /\ pend' = [pend EXCEPT ![self] = pend[self] \ {s}]
                                                             /\ UNCHANGED shpend
                                                        ELSE /\ shpend' = shpend \ {s}
                                                             /\ pend' = pend
                                                  /\ taken' = [taken EXCEPT ![s] = taken[s] + 1]
                                                  /\ kst' = [kst EXCEPT ![self] = "stopped"]
                                                  /\ kstop' = [kstop EXCEPT ![self] = "signal"]
                                                  /\ ksig' = [ksig EXCEPT ![self] = s]
                                                  /\ unrep' = [unrep EXCEPT ![self] = TRUE]
                                             /\ UNCHANGED << rip, sstep, hpend, 
                                                             inh, adv, iter >>
                                        ELSE /\ IF hpend[self]
                                                   THEN /\ hpend' = [hpend EXCEPT ![self] = FALSE]
                                                        /\ adv' = [adv EXCEPT ![self] = TRUE]
                                                        /\ IF sstep[self]
                                                              THEN /\ sstep' = [sstep EXCEPT ![self] = FALSE]
                                                                   /\ inh' = [inh EXCEPT ![self] = TRUE]
                                                                   /\ kst' = [kst EXCEPT ![self] = "stopped"]
                                                                   /\ kstop' = [kstop EXCEPT ![self] = "trap_step"]
                                                                   /\ unrep' = [unrep EXCEPT ![self] = TRUE]
                                                              ELSE /\ TRUE
                                                                   /\ UNCHANGED << kst, 
                                                                                   kstop, 
                                                                                   unrep, 
                                                                                   sstep, 
                                                                                   inh >>
                                                        /\ UNCHANGED << rip, 
                                                                        iter >>
                                                   ELSE /\ IF inh[self]
                                                              THEN /\ inh' = [inh EXCEPT ![self] = FALSE]
                                                                   /\ adv' = [adv EXCEPT ![self] = TRUE]
                                                                   /\ IF sstep[self]
                                                                         THEN /\ sstep' = [sstep EXCEPT ![self] = FALSE]
                                                                              /\ kst' = [kst EXCEPT ![self] = "stopped"]
                                                                              /\ kstop' = [kstop EXCEPT ![self] = "trap_step"]
                                                                              /\ unrep' = [unrep EXCEPT ![self] = TRUE]
                                                                         ELSE /\ TRUE
                                                                              /\ UNCHANGED << kst, 
                                                                                              kstop, 
                                                                                              unrep, 
                                                                                              sstep >>
                                                                   /\ UNCHANGED << rip, 
                                                                                   iter >>
                                                              ELSE /\ IF iter[self] = Iters
                                                                         THEN /\ kst' = [kst EXCEPT ![self] = "stopped"]
                                                                              /\ kstop' = [kstop EXCEPT ![self] = "event_exit"]
                                                                              /\ unrep' = [unrep EXCEPT ![self] = TRUE]
                                                                              /\ UNCHANGED << rip, 
                                                                                              sstep, 
                                                                                              adv, 
                                                                                              iter >>
                                                                         ELSE /\ IF code /\ rip[self] = Bp
                                                                                    THEN /\ kst' = [kst EXCEPT ![self] = "stopped"]
                                                                                         /\ kstop' = [kstop EXCEPT ![self] = "trap_brkpt"]
                                                                                         /\ unrep' = [unrep EXCEPT ![self] = TRUE]
                                                                                         /\ sstep' = [sstep EXCEPT ![self] = FALSE]
                                                                                         /\ adv' = [adv EXCEPT ![self] = TRUE]
                                                                                         /\ UNCHANGED << rip, 
                                                                                                         iter >>
                                                                                    ELSE /\ IF rip[self] = L - 1
                                                                                               THEN /\ iter' = [iter EXCEPT ![self] = iter[self] + 1]
                                                                                               ELSE /\ TRUE
                                                                                                    /\ iter' = iter
                                                                                         /\ rip' = [rip EXCEPT ![self] = (rip[self] + 1) % L]
                                                                                         /\ adv' = [adv EXCEPT ![self] = TRUE]
                                                                                         /\ IF sstep[self]
                                                                                               THEN /\ sstep' = [sstep EXCEPT ![self] = FALSE]
                                                                                                    /\ kst' = [kst EXCEPT ![self] = "stopped"]
                                                                                                    /\ kstop' = [kstop EXCEPT ![self] = "trap_step"]
                                                                                                    /\ unrep' = [unrep EXCEPT ![self] = TRUE]
                                                                                               ELSE /\ TRUE
                                                                                                    /\ UNCHANGED << kst, 
                                                                                                                    kstop, 
                                                                                                                    unrep, 
                                                                                                                    sstep >>
                                                                   /\ inh' = inh
                                                        /\ hpend' = hpend
                                             /\ UNCHANGED << ksig, pend, 
                                                             shpend, taken >>
                                  /\ intr' = intr
                       /\ pc' = [pc EXCEPT ![self] = "t0"]
                  ELSE /\ pc' = [pc EXCEPT ![self] = "Done"]
                       /\ UNCHANGED << kst, kstop, ksig, unrep, rip, sstep, 
                                       intr, hpend, inh, adv, iter, pend, 
                                       shpend, taken >>
            /\ UNCHANGED << code, sent, deliv, prom, nsend, lost, badrecv, fam, 
                            famwho, tstate, guard, focus, sigq, ncmd, atPrompt, 
                            dead, phase, wst, ret, retpid, retsig, round, hist, 
                            nsys, lastsys, stack, initiator, gtodo, gt, gdone, 
                            gabort, st, stid, ctodo, inj, cmd >>

Thr(self) == t0(self)

(* Allow infinite stuttering to prevent deadlock on termination. *)
Terminating == /\ \A self \in ProcSet: pc[self] = "Done"
               /\ UNCHANGED vars

Next == Dbg \/ Env
           \/ (\E self \in ProcSet:  \/ group_stop(self) \/ apply(self)
                                     \/ single_step(self) \/ resume(self)
                                     \/ step_over_breakpoint(self)
                                     \/ step_insn(self)
                                     \/ continue_execution(self) \/ stepi(self)
                                     \/ stepline(self))
           \/ (\E self \in Threads: Thr(self))
           \/ Terminating

Spec == /\ Init /\ [][Next]_vars
        /\ /\ WF_vars(Dbg)
           /\ WF_vars(continue_execution(0))
           /\ WF_vars(stepi(0))
           /\ WF_vars(stepline(0))
           /\ WF_vars(group_stop(0))
           /\ WF_vars(apply(0))
           /\ WF_vars(single_step(0))
           /\ WF_vars(resume(0))
           /\ WF_vars(step_over_breakpoint(0))
           /\ WF_vars(step_insn(0))
        /\ \A self \in Threads : WF_vars(Thr(self))

Termination == <>(\A self \in ProcSet: pc[self] = "Done")

\* END TRANSLATION












\* hist / nsys / lastsys only describe how a state was reached (script generation); they are not state
View == << pc, code, kst, kstop, ksig, unrep, rip, sstep, intr, hpend, inh,
           adv, iter, pend, shpend, sent, deliv, taken, prom, nsend, lost,
           badrecv, fam, famwho, tstate, guard, focus, sigq, ncmd, atPrompt, dead, phase,
           wst, ret, retpid, retsig, round, stack,
           initiator, gtodo, gt, gdone, gabort, st, stid, ctodo, inj, cmd >>
=============================================================================

\* C16 / CallInject.tla -- (E, quick tier: arities 0, 3, 6) the code's step order (debug assertions on, as the harness is built): every terminal state
\* is printed with the post-conditions it breaks (predictions; the binding decides)
CONSTANTS
    Variant = "aswritten"
    DebugAsserts = TRUE
    FailKinds = {"err", "death", "stop"}
    Arities = {0, 3, 6}
    Emit = "term"
SPECIFICATION Spec
INVARIANTS HappyPathOk TypeOK

\* C16 / CallInject.tla -- (E, quick tier: arities 0 and 6, three breakpoint sets) the code's step order (debug assertions on, as the harness is built): every terminal state
\* is printed with the post-conditions it breaks (predictions; the binding decides)
CONSTANTS
    Variant = "aswritten"
    DebugAsserts = TRUE
    FailKinds = {"err", "death", "stop"}
    Arities = {0, 6}
    BpChoice = "some"
    Emit = "term"
SPECIFICATION Spec
INVARIANTS HappyPathOk TypeOK

INIT Init
NEXT Next

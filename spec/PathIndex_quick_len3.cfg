SPECIFICATION Spec
CONSTANTS
  Names <- NamesAB
  Delim <- DelimColons
  RawChars <- CharsColons
  MaxLen = 3
  MaxInserts = 2
  WithRoot = FALSE
  RawLen = 4
  Emit = TRUE
INVARIANTS GetEqualsSpec GetEqualsSpecFast StructureOK EmitCases

----------------------------- MODULE PathMatch -----------------------------
(***************************************************************************)
(* C17 -- the declarative half: what it MEANS for a name template (a       *)
(* string typed by the user) to denote a path (a sequence of components).  *)
(*                                                                         *)
(* Strings are sequences of one-character strings, so that the step        *)
(* "string -> components" (splitting on the delimiter) is part of the      *)
(* model: "no partial-component match" is a statement about that step.     *)
(* Everything here is constant-level (no variables); it is shared by the   *)
(* algorithm model PathIndex.tla and by the generated ground-truth         *)
(* modules of the end-to-end leg (work/c17/GT_*.tla).                      *)
(***************************************************************************)
EXTENDS Naturals, Sequences, FiniteSets

StartsWithP(p, s) == Len(p) <= Len(s) /\ SubSeq(s, 1, Len(p)) = p
EndsWithP(p, s) == Len(p) <= Len(s) /\ SubSeq(s, Len(s) - Len(p) + 1, Len(s)) = p
LastN(s, k)    == SubSeq(s, Len(s) - k + 1, Len(s))
Range(f)       == {f[i] : i \in DOMAIN f}

(* Match on COMPONENTS: the components of the needle are a suffix of the   *)
(* components of the path.  The empty needle denotes nothing.              *)
Match(needle, path) == needle # <<>> /\ EndsWithP(needle, path)

(* Concatenate components with the delimiter in between.                   *)
RECURSIVE Join(_, _)
Join(cs, d) == IF cs = <<>> THEN <<>>
               ELSE IF Len(cs) = 1 THEN cs[1]
               ELSE cs[1] \o d \o Join(Tail(cs), d)

(* The textual form of a path.  A path whose first component IS the        *)
(* delimiter is rooted (file paths: "/" "home" "x.rs" is "/home/x.rs", not *)
(* "//home/x.rs").                                                         *)
PathText(cs, d) == IF cs # <<>> /\ cs[1] = d /\ Len(cs) > 1
                   THEN d \o Join(Tail(cs), d)
                   ELSE Join(cs, d)

(* Match on STRINGS, with no reference to any splitting procedure: the     *)
(* template text equals the text of a non-empty component-suffix of the    *)
(* path.  "b::f" is not the text of any suffix of <<"ab","f">>; "::f",     *)
(* "f::", "a:::f" are the text of no path at all.                          *)
MatchStr(needleText, path, d) ==
    \E k \in 1..Len(path) : needleText = PathText(LastN(path, k), d)

(* The texts that denote `path`: by definition                             *)
(*     t \in SuffixTexts(path, d)  <=>  MatchStr(t, path, d)               *)
(* (PathIndex.tla checks this equivalence entry by entry on its universe). *)
SuffixTexts(path, d) == {PathText(LastN(path, k), d) : k \in 1..Len(path)}

(* The same set, computed in one backward pass (for the large ground-truth *)
(* universes of PathGT; PathIndex.tla checks SuffixTextsFast = SuffixTexts *)
(* on every path of its universe).                                         *)
SuffixTextsFast(path, d) ==
    LET n == Len(path)
        g[k \in 1..n] == IF k = 1 THEN path[n]
                         ELSE IF k = n /\ path[1] = d THEN d \o g[k - 1]      \* rooted: no second delimiter
                         ELSE path[n - k + 1] \o d \o g[k - 1]
    IN  {g[k] : k \in 1..n}

(* str::split as Rust defines it: scan left to right, cut at every         *)
(* non-overlapping occurrence of the (non-empty) delimiter; always yields  *)
(* at least one (possibly empty) piece.                                    *)
RECURSIVE SplitAcc(_, _, _)
SplitAcc(cur, rest, d) ==
    IF rest = <<>> THEN <<cur>>
    ELSE IF StartsWithP(d, rest)
         THEN <<cur>> \o SplitAcc(<<>>, SubSeq(rest, Len(d) + 1, Len(rest)), d)
         ELSE SplitAcc(Append(cur, Head(rest)), Tail(rest), d)
Split(s, d) == SplitAcc(<<>>, s, d)

(* All sequences over S with length in lo..hi.                             *)
SeqsUpTo(S, lo, hi) == UNION {[1..n -> S] : n \in lo..hi}
=============================================================================

\* (S) thorough, by simulation: N = 4 workers, two of them create a child; two sites; 8 continues
SPECIFICATION SpecS
CONSTANTS
  Threads = {1, 2, 3, 4, 5, 6, 7}
  Main = 1
  ChildOf <- Spawn26_37
  Iters <- MainJoins1
  L = 4
  UserBps = {1, 3}
  MaxCmd = 8
  Cmds = {"continue"}
  Sigs = {}
  Quiet = {}
  Transparent = {}
  MaxSend = 0
  FixQuietDup = FALSE
  Hist = FALSE
  defaultInitValue = defaultInitValue
  MutOneRound = FALSE
  MutNoRewind = FALSE
  MutForgetNew = FALSE
  MutNoReenable = FALSE
INVARIANTS AllStop BeliefSound ThreadListExact NoCorruption NoMissed NoSpurious AllReportedAtExit
CHECK_DEADLOCK FALSE

SPECIFICATION Spec
VIEW View
INVARIANTS Emit DecoderEqualsAbstraction
CONSTANTS
  Mode = "colls"
  MaxDepth = 0
  Rot = 1
  LeafSet = "all"
  CtorSet = "all"
  MaxOps = 5
  NKeys = 3
  MaxBulk = 0
  History = FALSE
  Kinds = {"vec","vdq","hset","hmap","bset","bmap"}
  Elems = {"u64"}
  Scripts <- ScriptsShapes
  MaxCap = 6
  HbBuckets = {1, 2, 4, 8}
  BtLevels = 3

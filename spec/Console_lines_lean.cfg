SPECIFICATION Spec
INVARIANT Inv
CONSTANTS
  Mode = "lines"
  Rich = FALSE
  MaxSeq = 0
  DqeDepth = 0

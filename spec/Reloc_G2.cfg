\* C18 / Reloc.tla -- (G, quick tier 2/2) every complete session whose first request is a line anchor in the executable and whose second goes to the library / stage_reopened at any prompt (one load bias per object: the loader's choice is not
\* controllable in the replay) printed as JSON with the REFERENCE's expectations at every prompt
CONSTANTS
    ExeModes = {"pie", "nopie"}
    LibModes = {"startup", "dlopen"}
    SessModes = {"launch"}
    LibBiases = {300}
    LibBases = {0, 60}
    Kinds = {"fn", "line", "addr"}
    MaxReq = 2
    OffsetRule = "bias"
    ReloadRule = "rearm"
    EarlyAddrRule = "defer"
    AttachRule = "rbrk"
    ReqPlan = "anchor"
    Emit = "scn"
SPECIFICATION Spec
INVARIANTS RefSane InstalledAtTrueAddress ActiveWhenMapped SharedLibsAreMapped StopsWhereRequested NeverLost

SPECIFICATION TraceSpec
INVARIANT TraceDone
CONSTANTS
  Quiet = {"ALRM"}
  Transparent = {"INT"}

\* (E) as written for defect (b) only: `continue` responds before its fallible step; the other candidate fixes applied.
\* TLC's counterexample to OneResponsePerRequest is the behaviour replayed against the real adapter.
SPECIFICATION Spec
CONSTANTS
  MaxReq = 2
  Universe <- UniverseFull
  QMaxEv = 0
  PreLines = 0
  PostLines = 0
  SeqUnderLock = TRUE
  RespondAfter = FALSE
  FwdHonoursTerm = TRUE
  InitViaQueue = TRUE
  ClearCache = TRUE
  DrainKeepsTerm = FALSE
INVARIANTS TypeOK OneResponsePerRequest
ALIAS BehAlias

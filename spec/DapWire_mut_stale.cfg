\* (E) the mutation family 'terminated checked before the event queue is taken' (DrainKeepsTerm): the reference must
\* reject it on a relaunch history; TLC's counterexample is replayed against the real adapter
SPECIFICATION Spec
CONSTANTS
  MaxReq = 6
  Universe <- UniverseRelaunch
  QMaxEv = 0
  PreLines = 0
  PostLines = 0
  SeqUnderLock = TRUE
  RespondAfter = TRUE
  FwdHonoursTerm = FALSE
  InitViaQueue = TRUE
  ClearCache = TRUE
  DrainKeepsTerm = TRUE
CONSTRAINT RelaunchShape1
INVARIANTS TypeOK EventsOnceAndCausal NoEventAfterTerminated
ALIAS BehAlias

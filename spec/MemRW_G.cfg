\* C15 / MemRW.tla -- (G) every single call at the real word size 8 printed as a JSON case with the specification's outcome
CONSTANTS
    W = 8
    Lo = 8
    Hi = 32
    MaxN = 17
    MaxOps = 1
    OpKinds = {"R", "WB", "WW"}
    DataKinds = {"pat", "inv"}
    ReadVariant = "tail"
    Emit = "cases"
    Regs = {}
    InitMem = "pattern"
    DisVariant = "masked"
SPECIFICATION SpecMem
VIEW View
INVARIANTS MemoryMatchesSpec UnmappedNeverChanges

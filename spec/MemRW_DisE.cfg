\* C15 / MemRW.tla -- (E) disassembly masking, candidate fix (exclusive end): original bytes always
CONSTANTS
    W = 4
    Lo = 4
    Hi = 16
    MaxN = 9
    MaxOps = 5
    OpKinds = {"R", "WB", "WW"}
    DataKinds = {"pat", "inv"}
    ReadVariant = "tail"
    Emit = "none"
    Regs = {}
    InitMem = "pattern"
    DisVariant = "masked_excl"
SPECIFICATION SpecDis
VIEW View
INVARIANTS PatchesConsistent
PROPERTIES DisasmOriginal

\* (G) cover generation: three workers loop twice through one site -> schedule skeletons (puppet n=3 k=2)
SPECIFICATION SpecS
CONSTANTS
  Threads = {1, 2, 3, 4}
  Main = 1
  ChildOf <- NoChild
  Iters <- MainJoins2
  L = 3
  UserBps = {1}
  MaxCmd = 3
  Cmds = {"continue"}
  Sigs = {}
  Quiet = {}
  Transparent = {}
  MaxSend = 0
  FixQuietDup = FALSE
  Hist = TRUE
  defaultInitValue = defaultInitValue
  MutOneRound = FALSE
  MutNoRewind = FALSE
  MutForgetNew = FALSE
  MutNoReenable = FALSE
INVARIANTS AllStop BeliefSound ThreadListExact NoCorruption NoMissed NoSpurious AllReportedAtExit
CHECK_DEADLOCK FALSE
VIEW View
ACTION_CONSTRAINT CoverAC

\* (E) coverage run: the spawn configuration with 2 continues, -coverage 1 (every label must fire)
SPECIFICATION SpecD
CONSTANTS
  Threads = {1, 2, 3, 4}
  Main = 1
  ChildOf <- Spawn24
  Iters <- MainJoins1
  L = 3
  UserBps = {1}
  MaxCmd = 2
  Cmds = {"continue"}
  Sigs = {}
  Quiet = {}
  Transparent = {}
  MaxSend = 0
  FixQuietDup = FALSE
  Hist = FALSE
  defaultInitValue = defaultInitValue
  MutOneRound = FALSE
  MutNoRewind = FALSE
  MutForgetNew = FALSE
  MutNoReenable = FALSE
INVARIANTS AllStop BeliefSound ThreadListExact NoCorruption NoMissed NoSpurious AllReportedAtExit
CHECK_DEADLOCK TRUE

\* (V) model-bound validation against the REPAIRED model (all five candidate fixes); used with C12_TRACE_CFG when checking a patched tree
SPECIFICATION TraceSpec
CONSTANTS
  MaxReq = 100000
  Universe = {}
  QMaxEv = 0
  PreLines = 64
  PostLines = 64
  SeqUnderLock = TRUE
  RespondAfter = TRUE
  FwdHonoursTerm = TRUE
  InitViaQueue = TRUE
  ClearCache = TRUE
  DrainKeepsTerm = FALSE
  MonitorOnly = FALSE
INVARIANT TypeOK
CONSTRAINT Progress
POSTCONDITION Accepted
CHECK_DEADLOCK FALSE

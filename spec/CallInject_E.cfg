\* C16 / CallInject.tla -- (E) candidate repair: every avoidable exit path meets the reference, no panic anywhere
CONSTANTS
    Variant = "fixed"
    DebugAsserts = TRUE
    FailKinds = {"err", "death", "stop"}
    Arities = {0, 1, 2, 3, 4, 5, 6}
    BpChoice = "all"
    Emit = "none"
SPECIFICATION Spec
INVARIANTS AllPost NoPanic TypeOK

\* (G) relaunch histories of the CURRENT code, k = 1 enqueue-while-terminated request: every finished history is printed
SPECIFICATION Spec
CONSTANTS
  MaxReq = 6
  Universe <- UniverseRelaunch
  QMaxEv = 1
  PreLines = 0
  PostLines = 0
  SeqUnderLock = TRUE
  RespondAfter = TRUE
  FwdHonoursTerm = FALSE
  InitViaQueue = TRUE
  ClearCache = TRUE
  DrainKeepsTerm = FALSE
CONSTRAINT RelaunchShape1
INVARIANTS TypeOK EmitRelaunch EventsOnceAndCausal NoEventAfterTerminated OneResponsePerRequest

\* (V) model-bound validation against the REPAIRED model (the repairs committed in /repo: ec05f82 6734d0e 96415ff; continue still responds before its fallible step, the forwarders still ignore `terminated`, known finding c)
SPECIFICATION TraceSpec
CONSTANTS
  MaxReq = 100000
  Universe = {}
  QMaxEv = 0
  PreLines = 64
  PostLines = 64
  SeqUnderLock = TRUE
  RespondAfter = FALSE
  FwdHonoursTerm = FALSE
  InitViaQueue = TRUE
  ClearCache = TRUE
  DrainKeepsTerm = FALSE
  MonitorOnly = FALSE
INVARIANT TypeOK
CONSTRAINT Progress
POSTCONDITION Accepted
CHECK_DEADLOCK FALSE

\* (V) model-bound validation against the REPAIRED model (the four repairs committed in /repo: ec05f82 3e6d084 c96f37d c700d6c; the forwarders still ignore `terminated`, known finding c)
SPECIFICATION TraceSpec
CONSTANTS
  MaxReq = 100000
  Universe = {}
  QMaxEv = 0
  PreLines = 64
  PostLines = 64
  SeqUnderLock = TRUE
  RespondAfter = TRUE
  FwdHonoursTerm = FALSE
  InitViaQueue = TRUE
  ClearCache = TRUE
  DrainKeepsTerm = FALSE
  MonitorOnly = FALSE
INVARIANT TypeOK
CONSTRAINT Progress
POSTCONDITION Accepted
CHECK_DEADLOCK FALSE

------------------------------- MODULE DapBp -------------------------------
(***************************************************************************)
(* C13 -- DAP breakpoint requests replace, and their options are honoured  *)
(* whenever set.                                                           *)
(*                                                                         *)
(* Two machines run side by side on the same request history:              *)
(*                                                                         *)
(*  ref   the REFERENCE: what the property promises.  It knows only the    *)
(*        latest requested sets, the program (Exec) and hit counters.  It  *)
(*        does not depend on any switch.                                   *)
(*  impl  the adapter + debugger registry AS WRITTEN in                    *)
(*        src/dap/yadap/session/{breakpoint,control}.rs and                *)
(*        src/debugger/breakpoint.rs: records hold addresses WITH their    *)
(*        kind (<<"G",a>> file address / <<"R",a>> relocated), only        *)
(*        views[0] is remembered for a line, lookups at a stop use the     *)
(*        relocated address, the first stop after `restart` bypasses the   *)
(*        option filter, a bare identifier condition is read as a literal. *)
(*        One instance per configuration in Cfgs; Sw[c] says which repairs *)
(*        are switched on (TRUE = repaired).                               *)
(*                                                                         *)
(* Addresses are small naturals; Exec is the sequence of breakpointable    *)
(* addresses a native run visits.                                          *)
(***************************************************************************)
EXTENDS Naturals, Sequences, FiniteSets, TLC, Json

CONSTANTS
  Lines,        \* source lines with code                      e.g. {1,2,3}
  NoCode,       \* requested lines without any code            e.g. {9}
  Places,       \* line -> set of addresses (two for the generic line)
  FirstPlace,   \* line -> the address set_breakpoint_at_line returns first (views[0])
  AltFirst,     \* line -> the other candidate for views[0] (the order of the returned views is an
                \* implementation detail that changed between two builds of the puppet: both are carried)
  CondLines,    \* lines on which the variable `hot` is in scope
  FnPlaces,     \* function name -> set of addresses ("nosuch" |-> {})
  InsnOk,       \* valid instruction addresses
  InsnBogus,    \* addresses that are no instruction of the program
  Exec,         \* the native execution: sequence of addresses
  Loc,          \* address -> observable location name (source line marker)
  HotPos,       \* positions of Exec at which `hot` holds
  IterAt,       \* position (0..N+1) -> value of the program's own iteration counter there (ground truth
                \* for WHICH arrival at the loop line a stop is; read from the debuggee's memory)
  WritePos,     \* positions of Exec after which the watched datum has been written
  HwDelivers,   \* does the hardware deliver data breakpoints (FALSE in this sandbox, R4)
  DataKnown,    \* resolvable data ids
  DataUnknown,  \* unresolvable data ids
  MaxReq,
  Alphabet,     \* "small" | "full"
  Cfgs,         \* names of implementation configurations carried along
  Sw,           \* cfg -> [kindless, all, rfilter, bareident, insnchk, altfirst : BOOLEAN]
  Emit,         \* TRUE: print the history of every complete behaviour (generation mode)
  TwoPhase      \* TRUE (simulation only): a step first draws the request class, then the request, so
                \* that TLC's uniform choice among successors does not drown `continue` in set requests

VARIABLES ref, impl, nreq, last, hist, cls
vars == <<ref, impl, nreq, last, hist, cls>>

Opt == {"none", "cfalse", "cparen", "cbare", "hit2", "log"}
N == Len(Exec)
AllAddrs == {Exec[i] : i \in 1..N}

ASSUME /\ \A l \in Lines : Places[l] \subseteq AllAddrs /\ FirstPlace[l] \in Places[l]
       /\ \A l \in Lines : AltFirst[l] \in Places[l]
       /\ \A l1, l2 \in Lines : l1 # l2 => Places[l1] \cap Places[l2] = {}
       /\ InsnOk \subseteq AllAddrs /\ InsnBogus \cap AllAddrs = {}
       /\ \A n \in DOMAIN FnPlaces : FnPlaces[n] \subseteq AllAddrs
       \* no two kinds share an address in this model (one registry entry per address in the code)
       /\ \A l \in Lines : Places[l] \cap InsnOk = {} /\ \A n \in DOMAIN FnPlaces : Places[l] \cap FnPlaces[n] = {}
       /\ \A n \in DOMAIN FnPlaces : FnPlaces[n] \cap InsnOk = {}

Empty == [x \in {} |-> "none"]
Restrict(f, S) == [x \in S |-> f[x]]

-----------------------------------------------------------------------------
(* Option semantics, shared vocabulary                                      *)
CondHolds(o, p) == CASE o = "cfalse" -> FALSE
                     [] o \in {"cparen", "cbare"} -> p \in HotPos
                     [] OTHER -> TRUE

-----------------------------------------------------------------------------
(*                              REFERENCE                                   *)
(* st: "unload" | "stopped" | "exited";  pos: index of Exec of the stop     *)
(* src/fn/insn: key -> option (the latest set of each kind); data: set      *)
(* hits: <<kind,key>> -> arrivals since the breakpoint was created          *)
RefInit == [st |-> "unload", pos |-> 0, src |-> Empty, fn |-> Empty, insn |-> Empty,
            data |-> {}, hits |-> [k \in {} |-> 0],
            ever |-> {}]   \* generation only: every location ever requested (stays {} unless Emit)

\* breakpoints of the latest sets that cover address a (at most one, by the ASSUME)
RCover(r, a) ==
     {<<"src", l>> : l \in {x \in DOMAIN r.src : x \in Lines /\ a \in Places[x]}}
  \cup {<<"fn", n>> : n \in {x \in DOMAIN r.fn : a \in FnPlaces[x]}}
  \cup {<<"insn", x>> : x \in {y \in DOMAIN r.insn : y = a /\ y \in InsnOk}}
ROpt(r, k) == CASE k[1] = "src" -> r.src[k[2]] [] k[1] = "fn" -> r.fn[k[2]] [] OTHER -> r.insn[k[2]]
LatestLocs(r) == UNION {Places[l] : l \in DOMAIN r.src \cap Lines}
            \cup UNION {FnPlaces[n] : n \in DOMAIN r.fn}
            \cup (DOMAIN r.insn \cap InsnOk)
\* an arrival at position p at which the reference stops whatever the counters are
UncondAt(r, p) == \E k \in RCover(r, Exec[p]) : ROpt(r, k) = "none"

\* run from position `from` (exclusive): [pos, st, outs, hits, stop]
\* nopt counts the arrivals decided by an option (selection guidance for the replay, not an observable)
RECURSIVE RRunN(_, _, _, _, _)
RRunN(r, p, hits, outs, nopt) ==
  IF p > N THEN [pos |-> N + 1, st |-> "exited", outs |-> outs, hits |-> hits, stop |-> "exit", nopt |-> nopt]
  ELSE LET a == Exec[p]
           cov == RCover(r, a)
           dataStop == HwDelivers /\ r.data # {} /\ (p - 1) \in WritePos
       IN IF dataStop THEN [pos |-> p, st |-> "stopped", outs |-> outs, hits |-> hits, stop |-> "data", nopt |-> nopt]
          ELSE IF cov = {} THEN RRunN(r, p + 1, hits, outs, nopt)
          ELSE LET k == CHOOSE x \in cov : TRUE
                   o == ROpt(r, k)
                   h == hits[k] + 1
                   hits2 == [hits EXCEPT ![k] = h]
                   stops == CASE o = "none" -> TRUE
                              [] o = "hit2" -> h = 2
                              [] o = "log" -> FALSE
                              [] OTHER -> CondHolds(o, p)
                   n2 == IF o = "none" THEN nopt ELSE nopt + 1
               IN IF stops THEN [pos |-> p, st |-> "stopped", outs |-> outs, hits |-> hits2, stop |-> Loc[a], nopt |-> n2]
                  ELSE RRunN(r, p + 1, hits2, IF o = "log" THEN Append(outs, Loc[a]) ELSE outs, n2)
RRun(r, p, hits, outs) == RRunN(r, p, hits, outs, 0)

RApplyRun(r, res) == [r EXCEPT !.st = res.st, !.pos = res.pos, !.hits = res.hits]
RObs(res) == [outs |-> res.outs, stop |-> res.stop, it |-> IterAt[res.pos]]

\* a set request creates new breakpoints of its kind: counters of that kind start at 0
RSetKind(r, kind, req) ==
  LET keep == {k \in DOMAIN r.hits : k[1] # kind}
      new == {<<kind, x>> : x \in DOMAIN req}
  IN [k \in keep \cup new |-> IF k \in keep THEN r.hits[k] ELSE 0]
RVerSrc(req) == {<<l, l \in Lines>> : l \in DOMAIN req}
RVerFn(req) == {<<n, FnPlaces[n] # {}>> : n \in DOMAIN req}
RVerInsn(req) == {<<a, a \in InsnOk>> : a \in DOMAIN req}
RVerData(r, req) == {<<d, r.st = "stopped" /\ d \in DataKnown>> : d \in req}

\* reading rule C13-a: whether hit counters survive `restart` is not stated; the reference does not
\* decide it -- restart is only taken when no hit-conditional breakpoint has been hit yet
RestartUnambiguous(r) == \A k \in DOMAIN r.hits : ROpt(r, k) = "hit2" => r.hits[k] = 0

-----------------------------------------------------------------------------
(*                    IMPLEMENTATION (as written, with switches)            *)
(* dis: registry.disabled_breakpoints keys <<kind,addr>>; en: enabled       *)
(* relocated addresses; recs[kind]: adapter records [key, addrs, opt, hits, *)
(* id]; data: adapter data-breakpoint map keys; term: adapter `terminated`  *)
IInit == [st |-> "unload", pos |-> 0, dis |-> {}, en |-> {},
          recs |-> [k \in {"src", "fn", "insn"} |-> {}], data |-> {}, term |-> FALSE]

\* BreakpointRegistry::remove_by_addr
IRemoveOne(sw, s, ad) ==
  IF ad \in s.dis THEN [s EXCEPT !.dis = @ \ {ad}]
  ELSE IF ad[1] = "R" /\ ad[2] \in s.en THEN [s EXCEPT !.en = @ \ {ad[2]}]
  ELSE IF sw.kindless THEN [s EXCEPT !.dis = {x \in @ : x[2] # ad[2]}, !.en = @ \ {ad[2]}]
  ELSE s
RECURSIVE IRemoveAll(_, _, _)
IRemoveAll(sw, s, S) == IF S = {} THEN s
                        ELSE LET ad == CHOOSE x \in S : TRUE IN IRemoveAll(sw, IRemoveOne(sw, s, ad), S \ {ad})
IClearKind(sw, s, kind) == IRemoveAll(sw, s, UNION {r.addrs : r \in s.recs[kind]})

IKind(s) == IF s.st = "stopped" THEN "R" ELSE "G"
\* Debugger::add_breakpoints: enabled at once while the process runs, otherwise uninit
IInstall(s, kind, addrs) ==
  IF s.st = "stopped" THEN [s EXCEPT !.en = @ \cup addrs] ELSE [s EXCEPT !.dis = @ \cup {<<kind, a>> : a \in addrs}]

\* handle_set_breakpoints: returns <<state, verified flags>>
ISetSrc(sw, s0, req, id) ==
  LET s1 == IClearKind(sw, s0, "src")
      places(l) == IF l \in Lines THEN Places[l] ELSE {}
      k == IKind(s1)
      s2 == IInstall(s1, k, UNION {places(l) : l \in DOMAIN req})
      mk(l) == [key |-> l, opt |-> req[l], hits |-> 0, id |-> <<id, l>>,
                addrs |-> IF places(l) = {} THEN {}
                          ELSE IF sw.all THEN {<<k, a>> : a \in places(l)}
                          ELSE {<<k, IF sw.altfirst THEN AltFirst[l] ELSE FirstPlace[l]>>}]
  IN <<[s2 EXCEPT !.recs["src"] = {mk(l) : l \in DOMAIN req}], {<<l, places(l) # {}>> : l \in DOMAIN req}>>

\* handle_set_function_breakpoints: every returned view is remembered
ISetFn(sw, s0, req, id) ==
  LET s1 == IClearKind(sw, s0, "fn")
      k == IKind(s1)
      s2 == IInstall(s1, k, UNION {FnPlaces[n] : n \in DOMAIN req})
      mk(n) == [key |-> n, opt |-> req[n], hits |-> 0, id |-> <<id, n>>, addrs |-> {<<k, a>> : a \in FnPlaces[n]}]
  IN <<[s2 EXCEPT !.recs["fn"] = {mk(n) : n \in DOMAIN req}], {<<n, FnPlaces[n] # {}>> : n \in DOMAIN req}>>

\* handle_set_instruction_breakpoints: set_breakpoint_at_addr checks the place only while running;
\* before start any address is accepted as an uninit breakpoint keyed Address::Relocated
ISetInsn(sw, s0, req, id) ==
  LET s1 == IClearKind(sw, s0, "insn")
      run == s1.st = "stopped"
      ok(a) == IF run \/ sw.insnchk THEN a \in InsnOk ELSE TRUE
      acc == {a \in DOMAIN req : ok(a)}
      s2 == IF run THEN [s1 EXCEPT !.en = @ \cup acc] ELSE [s1 EXCEPT !.dis = @ \cup {<<"R", a>> : a \in acc}]
      mk(a) == [key |-> a, opt |-> req[a], hits |-> 0, id |-> <<id, a>>,
                addrs |-> IF ok(a) THEN {<<"R", a>>} ELSE {}]
  IN <<[s2 EXCEPT !.recs["insn"] = {mk(a) : a \in DOMAIN req}], {<<a, ok(a)>> : a \in DOMAIN req}>>

ISetData(sw, s, req) ==
  LET ok(d) == s.st = "stopped" /\ d \in DataKnown
  IN <<[s EXCEPT !.data = {d \in req : ok(d)}], {<<d, ok(d)>> : d \in req}>>

\* with_breakpoint_record_mut: source records, then function, then instruction; relocated address
IFind(sw, s, a) ==
  LET hit(r) == \E ad \in r.addrs : ad[2] = a /\ (sw.kindless \/ ad[1] = "R")
      cand(kind) == {<<kind, r>> : r \in {x \in s.recs[kind] : hit(x)}}
  IN IF cand("src") # {} THEN cand("src") ELSE IF cand("fn") # {} THEN cand("fn") ELSE cand("insn")

\* continue_execution + emit_stop_reason/should_skip_breakpoint, from position p on
\* filter = FALSE: the stop is taken as is (restart_debugee's internal continue, as written)
RECURSIVE IRun(_, _, _, _, _)
IRun(sw, s, p, outs, filter) ==
  IF p > N
  THEN [s |-> [s EXCEPT !.st = "exited", !.pos = N + 1, !.en = {},
                        !.dis = @ \cup {<<"G", a>> : a \in s.en}], outs |-> outs, stop |-> "exit"]
  ELSE LET a == Exec[p]
           dataStop == HwDelivers /\ s.data # {} /\ (p - 1) \in WritePos
       IN IF dataStop THEN [s |-> [s EXCEPT !.st = "stopped", !.pos = p], outs |-> outs, stop |-> "data"]
          ELSE IF a \notin s.en THEN IRun(sw, s, p + 1, outs, filter)
          ELSE LET f == IFind(sw, s, a)
                   here == [s |-> [s EXCEPT !.st = "stopped", !.pos = p], outs |-> outs, stop |-> Loc[a]]
               IN IF ~filter \/ f = {} THEN here
                  ELSE LET kr == CHOOSE x \in f : TRUE
                           r == kr[2]
                           r2 == [r EXCEPT !.hits = @ + 1]
                           s2 == [s EXCEPT !.recs[kr[1]] = (@ \ {r}) \cup {r2}]
                           o == r.opt
                           stops == CASE o = "none" -> TRUE
                                      [] o = "hit2" -> r2.hits = 2
                                      [] o = "log" -> FALSE
                                      [] o = "cbare" -> IF sw.bareident THEN CondHolds(o, p) ELSE TRUE
                                      [] OTHER -> CondHolds(o, p)
                       IN IF stops THEN [here EXCEPT !.s = [s2 EXCEPT !.st = "stopped", !.pos = p]]
                          ELSE IRun(sw, s2, p + 1,
                                    IF o = "log" /\ ~s.term THEN Append(outs, Loc[a]) ELSE outs, TRUE)

\* enable_all_breakpoints at the entry point: uninit breakpoints that cannot be resolved are dropped
IEnableAll(s) == [s EXCEPT !.en = {ad[2] : ad \in {x \in s.dis : x[2] \in AllAddrs}}, !.dis = {}]
\* an `exited` event makes the adapter set `terminated`; afterwards every event is dropped
IAfterRun(res) == IF res.stop = "exit" THEN [res EXCEPT !.s.term = TRUE] ELSE res

IConfigDone(sw, s) ==
  IF s.st # "unload" THEN [s |-> s, outs |-> <<>>, stop |-> "error"]
  ELSE IAfterRun(IRun(sw, IEnableAll(s), 1, <<>>, TRUE))
IContinue(sw, s) ==
  IF s.st # "stopped" THEN [s |-> s, outs |-> <<>>, stop |-> "error"]
  ELSE IAfterRun(IRun(sw, s, s.pos + 1, <<>>, TRUE))
\* handle_restart -> start_debugee_force_with_reason -> restart_debugee: the new process runs to its
\* first stop inside restart_debugee; the adapter is told DebugeeStart whatever happened
IRestart(sw, s) ==
  LET s1 == IF s.st = "stopped" THEN [s EXCEPT !.dis = @ \cup {<<"G", a>> : a \in s.en}, !.en = {}] ELSE s
      s2 == IEnableAll(s1)
  IN IF s.st = "unload" THEN [s |-> s, outs |-> <<>>, stop |-> "error"]
     ELSE IF sw.rfilter THEN IAfterRun(IRun(sw, s2, 1, <<>>, TRUE))
     ELSE LET res == IRun(sw, s2, 1, <<>>, FALSE)
          IN IF res.stop = "exit" /\ ~s.term THEN [res EXCEPT !.stop = "phantom"] ELSE res

IInstalled(s) == IF s.st = "stopped" THEN s.en ELSE {ad[2] : ad \in s.dis}

-----------------------------------------------------------------------------
(*                           request alphabet                               *)
LineOpts(l) == IF l \in CondLines THEN Opt \ {"none"} ELSE {"cfalse", "hit2", "log"}
OneOpt(S, optsOf(_)) ==      \* functions on S with at most one non-"none" option
  {[x \in S |-> "none"]} \cup
  UNION {{[x \in S |-> IF x = l THEN o ELSE "none"] : o \in optsOf(l)} : l \in S}
AnyOpt(S, optsOf(_)) ==
  LET F == [S -> Opt] IN {f \in F : \A x \in S : f[x] = "none" \/ f[x] \in optsOf(x)}
\* "focus": a narrow alphabet for generation -- options on a live process (a plain breakpoint to stop at
\* first, then option-carrying breakpoints on the lines still ahead); every request is also in "small"
Focus == Alphabet = "focus"
FocusLines == {S \in SUBSET Lines : Cardinality(S) <= 1} \cup {{l, m} : l \in Lines \ CondLines, m \in CondLines}
SrcReqs == LET real == IF Alphabet = "full" THEN UNION {AnyOpt(S, LineOpts) : S \in SUBSET Lines}
                       ELSE IF Focus THEN UNION {OneOpt(S, LineOpts) : S \in FocusLines}
                       ELSE UNION {OneOpt(S, LineOpts) : S \in SUBSET Lines}
           IN IF Focus THEN real
              ELSE real \cup {[x \in DOMAIN f \cup NoCode |-> IF x \in NoCode THEN "none" ELSE f[x]] :
                                f \in {g \in real : Cardinality(DOMAIN g) <= 1}}
FnOpts(n) == {"cfalse", "hit2", "log"}
FnReqs == IF Focus THEN UNION {OneOpt(S, FnOpts) : S \in {{}} \cup {{m} : m \in {x \in DOMAIN FnPlaces : FnPlaces[x] # {}}}}
          ELSE UNION {OneOpt(S, FnOpts) : S \in {T \in SUBSET (DOMAIN FnPlaces) :
                                                    Cardinality(T) <= 1 \/ (Cardinality(T) = 2 /\ \A n \in T : FnPlaces[n] # {})}}
InsnOpts(a) == IF a \in InsnOk THEN {"cfalse", "log"} ELSE {}
InsnReqs == IF Focus THEN UNION {OneOpt(S, InsnOpts) : S \in {{}} \cup {{a} : a \in InsnOk}}
            ELSE UNION {OneOpt(S, InsnOpts) : S \in {{}} \cup {{a} : a \in InsnOk} \cup {{b} : b \in InsnBogus}
                                                    \cup {{a, b} : a \in InsnOk, b \in InsnBogus}}
DataReqs == IF Focus THEN {{}}
            ELSE {{}} \cup {{d} : d \in DataKnown} \cup {{d, u} : d \in DataKnown, u \in DataUnknown}

-----------------------------------------------------------------------------
Init == /\ ref = RefInit /\ impl = [c \in Cfgs |-> IInit] /\ nreq = 0
        /\ last = [kind |-> "init"] /\ hist = <<>> /\ cls = ""

Pairs(f) == {<<x, f[x]>> : x \in DOMAIN f}
Log(cmd, arg, robs, iobs) == hist' = IF Emit THEN Append(hist, [cmd |-> cmd, arg |-> arg, ref |-> robs, impl |-> iobs]) ELSE hist

SetAct(cmd, req, rver, ires, ref2) ==
  /\ nreq < MaxReq
  /\ ref' = [ref2 EXCEPT !.ever = IF Emit THEN @ \cup LatestLocs(ref2) ELSE {}]
  /\ impl' = [c \in Cfgs |-> ires[c][1]]
  /\ last' = [kind |-> "set", cmd |-> cmd, rver |-> rver, iver |-> [c \in Cfgs |-> ires[c][2]]]
  /\ Log(cmd, IF cmd = "setDataBreakpoints" THEN req ELSE Pairs(req), [ver |-> rver], [c \in Cfgs |-> [ver |-> ires[c][2]]])
  /\ nreq' = nreq + 1

SetBreakpoints(req) ==
  SetAct("setBreakpoints", req, RVerSrc(req), [c \in Cfgs |-> ISetSrc(Sw[c], impl[c], req, nreq)],
         [ref EXCEPT !.src = req, !.hits = RSetKind(ref, "src", req)])
SetFunctionBreakpoints(req) ==
  SetAct("setFunctionBreakpoints", req, RVerFn(req), [c \in Cfgs |-> ISetFn(Sw[c], impl[c], req, nreq)],
         [ref EXCEPT !.fn = req, !.hits = RSetKind(ref, "fn", req)])
SetInstructionBreakpoints(req) ==
  SetAct("setInstructionBreakpoints", req, RVerInsn(req), [c \in Cfgs |-> ISetInsn(Sw[c], impl[c], req, nreq)],
         [ref EXCEPT !.insn = req, !.hits = RSetKind(ref, "insn", req)])
SetDataBreakpoints(req) ==
  SetAct("setDataBreakpoints", req, RVerData(ref, req), [c \in Cfgs |-> ISetData(Sw[c], impl[c], req)],
         [ref EXCEPT !.data = {d \in req : ref.st = "stopped" /\ d \in DataKnown}])

RunAct(cmd, from, rres, ires) ==
  /\ nreq < MaxReq
  /\ ref' = RApplyRun(ref, rres)
  /\ impl' = [c \in Cfgs |-> ires[c].s]
  /\ last' = [kind |-> "run", cmd |-> cmd, from |-> from, robs |-> RObs(rres),
              iobs |-> [c \in Cfgs |-> [outs |-> ires[c].outs, stop |-> ires[c].stop, it |-> IterAt[ires[c].s.pos]]],
              muted |-> [c \in Cfgs |-> impl[c].term]]
  /\ Log(cmd, <<>>, [outs |-> rres.outs, stop |-> rres.stop, it |-> IterAt[rres.pos], nopt |-> rres.nopt,
                      \* selection guidance: arrivals at locations that were requested once and are not any more
                      ngone |-> Cardinality({p \in (from + 1)..(IF rres.pos > N THEN N ELSE rres.pos) :
                                               Exec[p] \in ref.ever \ LatestLocs(ref)})],
         [c \in Cfgs |-> [outs |-> ires[c].outs, stop |-> ires[c].stop, it |-> IterAt[ires[c].s.pos]]])
  /\ nreq' = nreq + 1

ConfigurationDone ==
  /\ ref.st = "unload"
  /\ RunAct("configurationDone", 0, RRun(ref, 1, ref.hits, <<>>), [c \in Cfgs |-> IConfigDone(Sw[c], impl[c])])
Continue ==
  /\ ref.st = "stopped"
  /\ RunAct("continue", ref.pos, RRun(ref, ref.pos + 1, ref.hits, <<>>), [c \in Cfgs |-> IContinue(Sw[c], impl[c])])
Restart ==
  /\ ref.st \in {"stopped", "exited"} /\ RestartUnambiguous(ref)
  /\ RunAct("restart", 0, RRun(ref, 1, ref.hits, <<>>), [c \in Cfgs |-> IRestart(Sw[c], impl[c])])

Do(k) == \/ k = "src" /\ \E r \in SrcReqs : SetBreakpoints(r)
         \/ k = "fn" /\ \E r \in FnReqs : SetFunctionBreakpoints(r)
         \/ k = "insn" /\ \E r \in InsnReqs : SetInstructionBreakpoints(r)
         \/ k = "data" /\ \E r \in DataReqs : SetDataBreakpoints(r)
         \/ k \in {"go", "go2", "go3", "go4"} /\ (ConfigurationDone \/ Continue)
         \/ k = "restart" /\ Restart
         \/ k = "src0" /\ \E r \in {f \in SrcReqs : DOMAIN f # {} /\ \A x \in DOMAIN f : f[x] = "none"} : SetBreakpoints(r)
Classes == {"src", "fn", "insn", "data", "go", "go2", "go3", "go4", "restart", "src0"}
\* focus generation follows a plan of request classes: plain breakpoints, start, then option-carrying
\* requests on the live process alternating with run requests (all randomness goes into the requests)
FocusPlan == << {"src0", "fn"}, {"go"}, {"src", "insn", "fn"}, {"go", "restart"}, {"src", "fn"}, {"go"} >>
\* generation only: at most MaxPre requests before configurationDone, so that most of a history is
\* spent with a live process (the exhaustive configurations have no such bound)
MaxPre == 2
ClassEnabled(k) == CASE Focus /\ (nreq + 1 > Len(FocusPlan) \/ k \notin FocusPlan[nreq + 1]) -> FALSE
                     [] k = "src0" -> Focus
                     [] k \in {"go", "go2", "go3", "go4"} -> ref.st # "exited"
                     [] ref.st = "unload" /\ nreq >= MaxPre -> FALSE
                     \* generation binds restart of a live process only: after `exited` the adapter is
                     \* `terminated` (drops events) and restart-after-exit belongs to C11/C12
                     [] k = "restart" -> ref.st = "stopped" /\ RestartUnambiguous(ref)
                     [] k = "data" -> ~Focus
                     [] OTHER -> TRUE
Pick == /\ cls = ""
        /\ nreq < MaxReq
        /\ \E k \in Classes : ClassEnabled(k) /\ cls' = k
        /\ UNCHANGED <<ref, impl, nreq, last, hist>>
\* generation: a complete behaviour prints its history once (as a successor of the chosen final state)
Done == /\ Emit /\ nreq = MaxReq /\ cls = ""
        /\ PrintT(<<"BEH", ToJson(hist)>>)
        /\ cls' = "done"
        /\ UNCHANGED <<ref, impl, nreq, last, hist>>
\* exhaustive configurations: one named action per request kind (TLC's coverage reports them by name)
ASetBreakpoints == (\E r \in SrcReqs : SetBreakpoints(r)) /\ UNCHANGED cls
ASetFunctionBreakpoints == (\E r \in FnReqs : SetFunctionBreakpoints(r)) /\ UNCHANGED cls
ASetInstructionBreakpoints == (\E r \in InsnReqs : SetInstructionBreakpoints(r)) /\ UNCHANGED cls
ASetDataBreakpoints == (\E r \in DataReqs : SetDataBreakpoints(r)) /\ UNCHANGED cls
AConfigurationDone == ConfigurationDone /\ UNCHANGED cls
AContinue == Continue /\ UNCHANGED cls
ARestart == Restart /\ UNCHANGED cls
Next == \/ ASetBreakpoints \/ ASetFunctionBreakpoints \/ ASetInstructionBreakpoints \/ ASetDataBreakpoints
        \/ AConfigurationDone \/ AContinue \/ ARestart
\* generation (simulation): class first, then the request, then print
NextG == Pick \/ (cls \in Classes /\ Do(cls) /\ cls' = "") \/ Done
Spec == Init /\ [][Next]_vars
SpecG == Init /\ [][NextG]_vars

-----------------------------------------------------------------------------
(*                     properties (stated for every cfg in Cfgs)            *)
\* at every prompt the installed user locations are the union of the latest sets
InstalledEqualsLatest ==
  \A c \in Cfgs : impl[c].st = ref.st => IInstalled(impl[c]) \cap AllAddrs = LatestLocs(ref)
\* the response says verified exactly for what was installed, and that is what the reference promises
VerifiedIffInstalled ==
  last.kind = "set" =>
    \A c \in Cfgs : /\ last.iver[c] = last.rver
                    /\ last.cmd = "setBreakpoints" =>
                         \A pr \in last.iver[c] : pr[2] <=> (pr[1] \in Lines /\ Places[pr[1]] \subseteq IInstalled(impl[c]))
\* a run stops only at a location of the latest sets and never runs past an unconditional one
StopsExactlyAtLatest ==
  last.kind = "run" =>
    \A c \in Cfgs :
      LET s == impl[c]
          upto == IF s.st = "stopped" THEN s.pos - 1 ELSE N
      IN last.iobs[c].stop # "error" =>
           /\ last.iobs[c].stop # "phantom"
           /\ (s.st = "stopped" /\ last.iobs[c].stop # "data") => Exec[s.pos] \in LatestLocs(ref)
           /\ \A p \in (last.from + 1)..upto : ~UncondAt(ref, p)
\* conditions, hit conditions and log messages: same observations as the reference, whenever created
\* (log output of a session the adapter has already `terminated` is not observable: C12's subject)
OptionsHonouredWheneverSet ==
  last.kind = "run" =>
    \A c \in Cfgs : /\ last.iobs[c].stop = last.robs.stop
                    /\ last.iobs[c].it = last.robs.it          \* the same arrival, not only the same line
                    /\ ~last.muted[c] => last.iobs[c].outs = last.robs.outs
\* the two machines agree on where the program is (sanity of the side-by-side construction)
InSync == \A c \in Cfgs : impl[c].st = ref.st /\ impl[c].pos = ref.pos

-----------------------------------------------------------------------------
View == <<ref, impl, nreq, last, cls>>
=============================================================================

\* (E) exhaustive, quick tier: all five candidate fixes; 3 requests over the full universe, 1 line per forwarder (DapWire_fixed_full.cfg: 2 lines)
SPECIFICATION Spec
CONSTANTS
  MaxReq = 3
  Universe <- UniverseFull
  QMaxEv = 0
  PreLines = 1
  PostLines = 0
  SeqUnderLock = TRUE
  RespondAfter = TRUE
  FwdHonoursTerm = TRUE
  InitViaQueue = TRUE
  ClearCache = TRUE
  DrainKeepsTerm = FALSE
INVARIANTS TypeOK WireSeqOrdered WireSeqOrderedMon OneResponsePerRequest EventsOnceAndCausal
  NoEventAfterTerminated FailureIsErrorResponse NoEventAfterTerminatedW AtMostOneResponseW

\* mode (V): run with TRACE=<normalised ndjson>, -workers 1, depth-first queue
SPECIFICATION Spec
INVARIANT TraceDone
CONSTRAINT Progress
POSTCONDITION Accepted
CHECK_DEADLOCK FALSE

SPECIFICATION Spec
CONSTANTS
  Names <- NamesAB
  Delim <- DelimSlash
  RawChars <- CharsSlash
  MaxLen = 3
  MaxInserts = 3
  WithRoot = TRUE
  RawLen = 4
  Emit = TRUE
INVARIANTS GetEqualsSpecFast StructureOK EmitCases

SPECIFICATION Spec
INVARIANT Done
CONSTANT Entry = {0}

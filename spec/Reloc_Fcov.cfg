\* C18 / Reloc.tla -- (E) coverage run (MaxReq = 1, -coverage 1): every rule repaired; the implementation model must meet the reference
CONSTANTS
    ExeModes = {"pie", "nopie"}
    LibModes = {"startup", "dlopen"}
    SessModes = {"launch", "attach_pre", "attach_mid"}
    LibBiases = {300, 400}
    LibBases = {0, 60}
    Kinds = {"fn", "line", "addr"}
    MaxReq = 1
    OffsetRule = "bias"
    ReloadRule = "rearm"
    EarlyAddrRule = "defer"
    AttachRule = "rbrk"
    ReqPlan = "free"
    Emit = "none"
SPECIFICATION Spec
INVARIANTS RefSane InstalledAtTrueAddress ActiveWhenMapped SharedLibsAreMapped StopsWhereRequested NeverLost

------------------------------ MODULE StalkMC ------------------------------
(* constant expressions for the Stalk configurations *)
EXTENDS Stalk
NoChild == [t \in Threads |-> 0]
Iters1 == [t \in Threads |-> 1]
Iters2 == [t \in Threads |-> 2]
Iters3 == [t \in Threads |-> 3]
\* the main thread only joins; workers loop
MainJoins1 == [t \in Threads |-> IF t = Main THEN 0 ELSE 1]
MainJoins2 == [t \in Threads |-> IF t = Main THEN 0 ELSE 2]
\* thread 2 creates thread 3 (and exits); with 4 threads 3 creates 4 as well
Spawn24 == [t \in Threads |-> IF t = 2 THEN 4 ELSE 0]
Spawn23 == [t \in Threads |-> IF t = 2 THEN 3 ELSE 0]
Spawn23_34 == [t \in Threads |-> IF t = 2 THEN 3 ELSE IF t = 3 THEN 4 ELSE 0]
Spawn26_37 == [t \in Threads |-> IF t = 2 THEN 6 ELSE IF t = 3 THEN 7 ELSE 0]
Spawn24_35 == [t \in Threads |-> IF t = 2 THEN 4 ELSE IF t = 3 THEN 5 ELSE 0]
=============================================================================

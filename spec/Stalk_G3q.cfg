\* (G) cover generation: workers 2,3 loop once, 2 creates 4 and exits (puppet n=2 k=1 k2=1 spawn=1)
SPECIFICATION SpecS
CONSTANTS
  Threads = {1, 2, 3, 4}
  Main = 1
  ChildOf <- Spawn24
  Iters <- MainJoins1
  L = 3
  UserBps = {1}
  MaxCmd = 2
  Cmds = {"continue"}
  Sigs = {}
  Quiet = {}
  Transparent = {}
  MaxSend = 0
  FixQuietDup = FALSE
  Hist = TRUE
  defaultInitValue = defaultInitValue
  MutOneRound = FALSE
  MutNoRewind = FALSE
  MutForgetNew = FALSE
  MutNoReenable = FALSE
INVARIANTS AllStop BeliefSound ThreadListExact NoCorruption NoMissed NoSpurious AllReportedAtExit
CHECK_DEADLOCK FALSE
VIEW View
ACTION_CONSTRAINT CoverAC

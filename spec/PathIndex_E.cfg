SPECIFICATION Spec
CONSTANTS
  Names <- NamesAB
  Delim <- DelimColons
  RawChars <- CharsColons
  MaxLen = 3
  MaxInserts = 4
  WithRoot = FALSE
  RawLen = 3
  Emit = FALSE
INVARIANTS GetEqualsSpecFast StructureOK EmitCases

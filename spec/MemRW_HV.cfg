\* C15 / MemRW.tla -- (G) simulated histories of variable writes
CONSTANTS
    W = 8
    Lo = 8
    Hi = 88
    MaxN = 1
    MaxOps = 3
    OpKinds = {"WV"}
    DataKinds = {"pat", "inv"}
    ReadVariant = "tail"
    Emit = "hist"
    Regs = {}
    InitMem = "pack"
    DisVariant = "masked"
SPECIFICATION SpecMem
VIEW View
INVARIANTS MemoryMatchesSpec UnmappedNeverChanges

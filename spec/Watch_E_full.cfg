\* (E) exhaustive, thorough: all command sequences of length <= 7, every size x condition x access path on every location
SPECIFICATION Spec
CONSTANTS
  Globals = {"G0", "G1", "G2", "G3", "G4", "G5"}
  Locals = {"LA", "LB"}
  KindTab <- FullTab
  MaxOps = 7
  SlotFirst = TRUE
  Distribute = TRUE
  Gen = FALSE
  ViewSlots = TRUE
INVARIANTS TypeOK DrEncodesExactly NoDoubleSlot AtMostFour NoStaleEnable SlotsReusable ResultAgrees RegistryAgrees NoOrphanCompanion ScopedOnlyInScope
PROPERTIES RefusalHasNoSideEffects

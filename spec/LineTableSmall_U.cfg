\* "unstable" variant: ANY address-sorted arrangement of rows with equal addresses (what sort_unstable_by_key
\* may do on a big vector) and ANY equal element returned by binary_search (its documented contract);
\* two columns so that find_closest_place's "same column and flags as the first row" matching is exercised
CONSTANTS
  MaxRows1 = 2
  MaxRows2 = 1
  Lens = {0, 1}
  Lines = {1, 2}
  Cols = {1, 2}
  Stmts = {TRUE}
  Pes = {TRUE, FALSE}
  Gaps = {0}
  Stable = FALSE
  AnyHit = TRUE
  Allowed = {}
SPECIFICATION Spec
ALIAS Alias

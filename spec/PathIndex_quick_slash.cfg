SPECIFICATION Spec
CONSTANTS
  Names <- NamesAB
  Delim <- DelimSlash
  RawChars <- CharsSlash
  MaxLen = 3
  MaxInserts = 2
  WithRoot = TRUE
  RawLen = 4
  Emit = TRUE
INVARIANTS GetEqualsSpec GetEqualsSpecFast StructureOK EmitCases

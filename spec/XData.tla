---- MODULE XData ----
(* Sample execution (hand-made, 8 instructions: main calls f once) so that the Session modules can be
   parsed and model-checked stand-alone.  Real checks generate this module from a puppet binary
   (tools/sesslib.py: Puppet.tla_data) into a work directory that shadows this file. *)
X == <<
  [pc |-> 100, d |-> 0, ln |-> 1, st |-> TRUE,  pe |-> FALSE, fn |-> 1, sk |-> 1, tk |-> 0, ext |-> FALSE, co |-> 8],
  [pc |-> 104, d |-> 0, ln |-> 2, st |-> TRUE,  pe |-> TRUE,  fn |-> 1, sk |-> 1, tk |-> 0, ext |-> FALSE, co |-> 8],
  [pc |-> 108, d |-> 0, ln |-> 2, st |-> FALSE, pe |-> TRUE,  fn |-> 1, sk |-> 1, tk |-> 1, ext |-> FALSE, co |-> 8],
  [pc |-> 200, d |-> 1, ln |-> 7, st |-> TRUE,  pe |-> FALSE, fn |-> 2, sk |-> 2, tk |-> 1, ext |-> FALSE, co |-> 8],
  [pc |-> 204, d |-> 1, ln |-> 8, st |-> TRUE,  pe |-> TRUE,  fn |-> 2, sk |-> 2, tk |-> 1, ext |-> FALSE, co |-> 8],
  [pc |-> 208, d |-> 1, ln |-> 8, st |-> FALSE, pe |-> TRUE,  fn |-> 2, sk |-> 2, tk |-> 2, ext |-> FALSE, co |-> 8],
  [pc |-> 112, d |-> 0, ln |-> 2, st |-> FALSE, pe |-> TRUE,  fn |-> 1, sk |-> 1, tk |-> 2, ext |-> FALSE, co |-> 8],
  [pc |-> 116, d |-> 0, ln |-> 3, st |-> TRUE,  pe |-> TRUE,  fn |-> 1, sk |-> 1, tk |-> 2, ext |-> FALSE, co |-> 8]
>>
Stacks == << <<>>, <<112>> >>
BpCands == {104, 204, 116}
Entry == {50}
ExitCode == 0
TailPos == 9
====

\* C15 / MemRW.tla -- (E)+(G) every (member, byte string) of the puppet's packed struct as a variable write, histories of 2, single writes printed
CONSTANTS
    W = 8
    Lo = 8
    Hi = 88
    MaxN = 1
    MaxOps = 1
    OpKinds = {"WV"}
    DataKinds = {"pat", "inv"}
    ReadVariant = "tail"
    Emit = "cases"
    Regs = {}
    InitMem = "pack"
    DisVariant = "masked"
SPECIFICATION SpecMem
VIEW View
INVARIANTS MemoryMatchesSpec UnmappedNeverChanges
PROPERTIES WritesMeetSpec NeighboursUntouched

----------------------------- MODULE DapWireMC -----------------------------
(* Model-checking harness for DapWire: request universes, the G-mode behaviour printer. *)
EXTENDS DapWire, Json

\* every behavioural class of handler x the argument shapes that change its plan
UniverseFull ==
  { <<"init", "ok">>, <<"launch", "ok">>, <<"launch", "bad">>, <<"launch", "noexec">>, <<"attach", "bad">>,
    <<"setbp", "ok">>, <<"confdone", "ok">>, <<"continue", "ok">>, <<"step", "ok">>, <<"pause", "ok">>,
    <<"restart", "ok">>, <<"goto", "ok">>, <<"goto", "bad">>, <<"threads", "ok">>, <<"query", "ok">>,
    <<"query", "bad">>, <<"terminate", "ok">>, <<"disconnect", "term">>, <<"disconnect", "noterm">>,
    <<"termthreads", "empty">>, <<"termthreads", "bad">> }

\* the lifecycle core (used where output lines multiply the interleavings)
UniverseCore ==
  { <<"init", "ok">>, <<"launch", "ok">>, <<"setbp", "ok">>, <<"confdone", "ok">>, <<"continue", "ok">>,
    <<"step", "ok">>, <<"pause", "ok">>, <<"restart", "ok">>, <<"threads", "ok">>, <<"query", "ok">>,
    <<"terminate", "ok">>, <<"termthreads", "empty">> }

\* the smallest universe in which defect (e) shows (needs 6 requests)
UniverseE == { <<"launch", "ok">>, <<"setbp", "ok">>, <<"confdone", "ok">>, <<"continue", "ok">>,
               <<"terminate", "ok">> }

\* ---- relaunch histories: terminated -> k >= 1 requests that enqueue while terminated -> launch -> run to exit ----
KL == <<"launch", "ok">>   KCD == <<"confdone", "ok">>   KC == <<"continue", "ok">>
KTT == <<"termthreads", "empty">>
\* every class of handler with an enqueue site reachable while `terminated` is set (read off Plan/ExecRun/ExecRefresh)
EnqTermKinds == { <<"pause", "ok">>, KTT, <<"restart", "ok">>, <<"threads", "ok">>, <<"setbp", "ok">>,
                  <<"query", "ok">>, <<"step", "ok">>, <<"goto", "ok">>, KC }
UniverseRelaunch == {KL, KCD, KC} \cup EnqTermKinds
KK(i) == <<reqlog[i].cls, reqlog[i].shape>>
RelaunchShape(kmax) ==
  LET n == Len(reqlog) IN
  /\ (n >= 1 => KK(1) = KL)
  /\ (n >= 2 => KK(2) \in {KCD, KTT})          \* the debuggee runs to its end / is terminated: `terminated` is set
  /\ \A i \in 3..n :
        IF \E j \in 3..(i - 1) : KK(j) = KL
          THEN LET j == CHOOSE j \in 3..(i - 1) : KK(j) = KL IN
               (i = j + 1 /\ KK(i) = KCD) \/ (i = j + 2 /\ KK(i) = KC)
          ELSE (KK(i) \in EnqTermKinds /\ i <= 2 + kmax) \/ (KK(i) = KL /\ i >= 4)
RelaunchShape1 == RelaunchShape(1)
RelaunchShape2 == RelaunchShape(2)
RelaunchDone == LET n == Len(reqlog) IN
                n >= 6 /\ KK(n) = KC /\ KK(n - 1) = KCD /\ KK(n - 2) = KL /\ ppc["sess"] = "reading"

\* G mode (simulation): print requests, writer order and outcome of every finished behaviour
Beh == [reqs  |-> [i \in 1..Len(reqlog) |-> <<reqlog[i].cls, reqlog[i].shape>>],
        order |-> [i \in 1..Len(wire) |-> wire[i].by],
        kinds |-> [i \in 1..Len(wire) |-> IF wire[i].type = "response" THEN "R" ELSE wire[i].name],
        seqs  |-> [i \in 1..Len(wire) |-> wire[i].seq],
        viol  |-> {v.c : v \in viol}]
\* counterexamples are printed through this alias (one JSON string per state)
BehAlias == [beh |-> ToJson(Beh)]
EmitBeh == Terminal => PrintT(<<"BEH", ToJson(Beh)>>)
EmitRelaunch == RelaunchDone => PrintT(<<"BEH", ToJson(Beh)>>)
=============================================================================

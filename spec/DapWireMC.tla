----------------------------- MODULE DapWireMC -----------------------------
(* Model-checking harness for DapWire: request universes, the G-mode behaviour printer. *)
EXTENDS DapWire, Json

\* every behavioural class of handler x the argument shapes that change its plan
UniverseFull ==
  { <<"init", "ok">>, <<"launch", "ok">>, <<"launch", "bad">>, <<"launch", "noexec">>, <<"attach", "bad">>,
    <<"setbp", "ok">>, <<"confdone", "ok">>, <<"continue", "ok">>, <<"step", "ok">>, <<"pause", "ok">>,
    <<"restart", "ok">>, <<"goto", "ok">>, <<"goto", "bad">>, <<"threads", "ok">>, <<"query", "ok">>,
    <<"query", "bad">>, <<"terminate", "ok">>, <<"disconnect", "term">>, <<"disconnect", "noterm">>,
    <<"termthreads", "empty">>, <<"termthreads", "bad">> }

\* the lifecycle core (used where output lines multiply the interleavings)
UniverseCore ==
  { <<"init", "ok">>, <<"launch", "ok">>, <<"setbp", "ok">>, <<"confdone", "ok">>, <<"continue", "ok">>,
    <<"step", "ok">>, <<"pause", "ok">>, <<"restart", "ok">>, <<"threads", "ok">>, <<"query", "ok">>,
    <<"terminate", "ok">>, <<"termthreads", "empty">> }

\* the smallest universe in which defect (e) shows (needs 6 requests)
UniverseE == { <<"launch", "ok">>, <<"setbp", "ok">>, <<"confdone", "ok">>, <<"continue", "ok">>,
               <<"terminate", "ok">> }

\* G mode (simulation): print requests, writer order and outcome of every finished behaviour
Beh == [reqs  |-> [i \in 1..Len(reqlog) |-> <<reqlog[i].cls, reqlog[i].shape>>],
        order |-> [i \in 1..Len(wire) |-> wire[i].by],
        kinds |-> [i \in 1..Len(wire) |-> IF wire[i].type = "response" THEN "R" ELSE wire[i].name],
        seqs  |-> [i \in 1..Len(wire) |-> wire[i].seq],
        viol  |-> {v.c : v \in viol}]
\* counterexamples are printed through this alias (one JSON string per state)
BehAlias == [beh |-> ToJson(Beh)]
EmitBeh == Terminal => PrintT(<<"BEH", ToJson(Beh)>>)
=============================================================================

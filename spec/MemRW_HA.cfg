\* C15 / MemRW.tla -- (G) simulated histories (Debugger API operations) at word size 8
CONSTANTS
    W = 8
    Lo = 8
    Hi = 32
    MaxN = 17
    MaxOps = 3
    OpKinds = {"R", "WW"}
    DataKinds = {"pat", "inv"}
    ReadVariant = "tail"
    Emit = "hist"
    Regs = {}
    DisVariant = "masked"
SPECIFICATION SpecMem
VIEW View
INVARIANTS MemoryMatchesSpec UnmappedNeverChanges

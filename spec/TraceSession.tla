--------------------------- MODULE TraceSession ---------------------------
(* Mode (V): judge a recorded session of the real debugger against SessionRef. *)
EXTENDS SessionRef

---------------------------------------------------------------------------
(* (V) judging a recorded session of the real debugger                     *)
(* Each line of IOEnv.TRACE is one command with what was observed after it:*)
(*  [cmd, ok, addrs, idx, said, rpc, rline, code, patched, bt, tick]       *)
(* idx is the position of the REAL program (matched on pc and its own TICK)*)
(* or 0 if the real pc/tick pair does not occur in the native execution.   *)

Rec == IF "TRACE" \in DOMAIN IOEnv THEN ndJsonDeserialize(IOEnv.TRACE) ELSE <<>>

VARIABLES l,       \* next event to consume
          ti,      \* position according to the reference bookkeeping (resynchronised on every event)
          tbp,     \* user breakpoints
          viol,    \* verdicts: sequence of [k, class, action, expected, actual]
          tsg      \* SIGUSR1 sent by the harness: 0 none, 1 sent (not yet reported), 2 reported (delivered by the next resume)
tvars == <<l, ti, tbp, viol, tsg>>

TInit == l = 1 /\ ti = 0 /\ tbp = {} /\ viol = <<>> /\ tsg = 0

SeqToSet(s) == {s[k] : k \in 1..Len(s)}
V(k, cls, act, exp, actl) == [k |-> k, class |-> cls, action |-> act, expected |-> exp, actual |-> actl]

\* why a stop at j is not admissible for a step command issued at i0 (class vocabulary, DESIGN 7)
Classify(c, i0, j) ==
  IF j = 0 THEN "pc_not_in_execution"
  ELSE IF j = Exited THEN "ran_to_exit"
  ELSE IF j <= i0 THEN "went_backwards"
  ELSE IF c = "finish" THEN (IF j < EndActT[i0] THEN "stopped_before_return" ELSE "wrong_caller_frame")
  ELSE IF c = "stepi" THEN "not_one_instruction"
  ELSE IF j > MaxOf(Adm(c, i0) \cup {0}) /\ MaxOf(Adm(c, i0) \cup {0}) # Exited THEN
          (IF D(j) > D(i0) /\ Fn(j) = Fn(i0) THEN "deeper_activation_same_function"
           ELSE IF D(j) > D(i0) THEN "inside_callee_past_boundary"
           ELSE "past_first_line_boundary")
  ELSE IF c = "next" /\ D(j) > D(i0) /\ j < EndActT[i0] THEN
          (IF Fn(j) = Fn(i0) THEN "deeper_activation_same_function" ELSE "inside_callee")
  ELSE IF ~St(j) THEN "not_a_statement_boundary"
  ELSE "not_admissible"

\* common observation checks at a reported stop at position j (C03 last sentence, C02, C05)
PlaceChecks(k, e, j) ==
  (IF j \in 1..N /\ e.rpc # -1 /\ e.rpc # Pc(j)
     THEN <<V(k, "place_ne_pc", e.cmd, Pc(j), e.rpc)>> ELSE <<>>) \o
  (IF j \in 1..N /\ e.rline # -1 /\ e.rline # Ln(j)
     THEN <<V(k, "line_ne_pc_line", e.cmd, Ln(j), e.rline)>> ELSE <<>>)
PatchChecks(k, e, bps) ==
  IF e.patched = <<-1>> THEN <<>>
  ELSE LET p == SeqToSet(e.patched) IN
       (IF (p \ Entry) \ bps # {} THEN <<V(k, "residual_patch", e.cmd, bps, (p \ Entry) \ bps)>> ELSE <<>>) \o
       (IF bps \ p # {} THEN <<V(k, "breakpoint_not_patched", e.cmd, bps, bps \ p)>> ELSE <<>>)
BtChecks(k, e, j) ==
  IF j \notin 1..N THEN <<>>
  ELSE (IF e.bt = <<-1>> THEN <<>>
        ELSE LET r == RefBacktrace(j) IN
             IF Len(e.bt) >= Len(r) /\ SubSeq(e.bt, 1, Len(r)) = r THEN <<>>
             ELSE <<V(k, IF Len(e.bt) < Len(r) THEN "backtrace_truncated" ELSE "backtrace_wrong_frame", e.cmd, r, e.bt)>>)
       \* C05: CFA and return address reported for the selected (innermost) frame match the real stack
       \o (IF e.cfa_off # -1 /\ e.cfa_off # X[j].co THEN <<V(k, "cfa_wrong", e.cmd, X[j].co, e.cfa_off)>> ELSE <<>>)
       \o (IF e.fi_ret # -1 /\ RetAddr(j) # -1 /\ e.fi_ret # RetAddr(j)
              THEN <<V(k, "frame_return_address_wrong", e.cmd, RetAddr(j), e.fi_ret)>> ELSE <<>>)

RunCmds == {"start", "continue", "stepi", "step", "next", "finish"}
Consume ==
  /\ l <= Len(Rec)
  /\ LET e == Rec[l] k == l IN
     /\ l' = l + 1
     /\ tsg' = CASE e.cmd = "reset" -> 0
                 [] e.cmd = "signal" /\ e.ok -> 1
                 [] e.cmd \in RunCmds /\ tsg = 1 /\ e.said = "signal" -> 2
                 [] e.cmd \in RunCmds /\ tsg = 2 -> 0
                 [] e.cmd = "restart" -> 0
                 [] OTHER -> tsg
     /\ CASE e.cmd = "reset" ->          \* a new session starts (several sessions are judged in one run)
               /\ ti' = 0 /\ tbp' = {} /\ viol' = viol
          [] e.cmd \in RunCmds /\ ti \in 1..N /\ tsg = 1 /\ e.said = "signal" ->
               \* the pending signal cuts the command short and it says so (C03 last sentence): the program
               \* has not moved (or has executed the one instruction it was stepping over a breakpoint with)
               /\ tbp' = tbp
               /\ ti' = IF e.idx = 0 THEN ti ELSE e.idx
               /\ viol' = viol \o (IF e.idx \in {ti, ti + 1} THEN <<>>
                                   ELSE <<V(k, "signal_stop_moved_program", e.cmd, {ti, ti + 1}, e.idx)>>)
                                \o PatchChecks(k, e, tbp)
          [] e.cmd \in {"stepi", "step", "next", "finish"} /\ ti \in 1..N /\ tsg = 2 ->
               \* stepping with a signal to deliver enters the program's handler: not judged
               /\ tbp' = tbp /\ ti' = (IF e.idx = 0 THEN ti ELSE e.idx) /\ viol' = viol
          [] e.cmd = "restart" ->
               \* C11: same breakpoints (same numbers), hit again at the same place; exit status is the real one
               LET want == RefContinue(0, tbp) IN
               /\ tbp' = tbp
               /\ ti' = IF e.idx = 0 THEN want ELSE e.idx
               /\ viol' = viol \o
                    (IF ~e.ok THEN <<V(k, "restart_failed", e.cmd, "ok", e.err)>>
                     ELSE IF e.idx = 0 THEN <<V(k, "pc_not_in_execution", e.cmd, want, e.rpc)>>
                     ELSE IF e.idx # want THEN <<V(k, "restart_lost_or_moved_breakpoint", e.cmd, want, e.idx)>>
                     ELSE (IF want = Exited /\ e.code # ExitCode THEN <<V(k, "wrong_exit_code", e.cmd, ExitCode, e.code)>> ELSE <<>>)
                          \o (IF e.nums_kept THEN <<>> ELSE <<V(k, "restart_renumbered_breakpoints", e.cmd, "same numbers", "changed")>>)
                          \o (IF e.stale = 0 THEN <<>> ELSE <<V(k, "process_left_behind", e.cmd, "previous process gone", e.stale)>>)
                          \o (IF want # Exited THEN PatchChecks(k, e, tbp) ELSE <<>>))
          [] e.cmd = "drop" ->
               \* C11: no process (no task of it) may remain for a program the debugger launched
               /\ UNCHANGED <<ti, tbp>>
               /\ viol' = viol \o (IF e.panic THEN <<V(k, "panic_on_drop", e.cmd, "clean drop", e.err)>> ELSE <<>>)
                                \o (IF e.gone THEN <<>> ELSE <<V(k, "process_left_behind", e.cmd, "no process", e.err)>>)
          [] e.cmd = "released" ->
               \* C11 (attached): the process lives on, runs, has original code and no armed debug register,
               \* and computes what it computes natively
               /\ UNCHANGED <<ti, tbp>>
               /\ viol' = viol \o (IF e.alive THEN <<>> ELSE <<V(k, "attached_process_killed", e.cmd, "alive", e.err)>>)
                                \o (IF e.running THEN <<>> ELSE <<V(k, "attached_process_left_stopped", e.cmd, "running", e.err)>>)
                                \o (IF e.patched = <<>> \/ e.patched = <<-1>> THEN <<>> ELSE <<V(k, "residual_patch_after_release", e.cmd, <<>>, e.patched)>>)
                                \o (IF e.dr_armed THEN <<V(k, "debug_register_left_armed", e.cmd, "L/G bits clear", e.err)>> ELSE <<>>)
                                \o (IF e.code = ExitCode \/ e.code = -1 THEN <<>> ELSE <<V(k, "wrong_exit_code", e.cmd, ExitCode, e.code)>>)
          [] e.cmd \in {"call", "watch", "frame"} /\ ti \in 1..N ->
               \* C02/C16: the program has not moved and nothing is left in its code
               /\ UNCHANGED <<ti, tbp>>
               /\ viol' = viol \o (IF ~e.ok THEN <<V(k, "command_failed", e.cmd, "ok", e.err)>> ELSE <<>>)
                                \o (IF e.idx # ti THEN <<V(k, "command_moved_program", e.cmd, ti, e.idx)>> ELSE <<>>)
                                \o PatchChecks(k, e, tbp)
          [] e.cmd = "break" ->
               /\ tbp' = IF e.ok THEN tbp \cup SeqToSet(e.addrs) ELSE tbp
               /\ ti' = ti
               /\ viol' = viol \o PatchChecks(k, e, IF ti = 0 THEN {} ELSE tbp')
          [] e.cmd = "remove" ->
               /\ tbp' = IF e.ok THEN tbp \ SeqToSet(e.addrs) ELSE tbp
               /\ ti' = ti
               /\ viol' = viol \o PatchChecks(k, e, IF ti = 0 THEN {} ELSE tbp')
          [] (e.cmd = "start" /\ ti = 0) \/ (e.cmd = "continue" /\ ti \in 1..N /\ ~(tsg = 1 /\ e.said = "signal")) ->
               LET want == RefContinue(ti, tbp) IN
               /\ tbp' = tbp
               /\ ti' = IF e.idx = 0 THEN want ELSE e.idx
               /\ viol' = viol \o
                    (IF ~e.ok THEN <<V(k, "command_failed", e.cmd, "ok", e.err)>>
                     ELSE IF e.idx = 0 THEN <<V(k, "pc_not_in_execution", e.cmd, want, e.rpc)>>
                     ELSE IF e.idx # want THEN
                        <<V(k, IF e.idx > want THEN "missed_breakpoint_hit"
                               ELSE IF Pc(e.idx) \in tbp THEN "stop_out_of_order" ELSE "spurious_stop",
                            e.cmd, want, e.idx)>>
                     ELSE (IF want = Exited
                             THEN (IF e.said # "exit" THEN <<V(k, "exit_not_reported", e.cmd, "exit", e.said)>>
                                   ELSE IF e.code # ExitCode THEN <<V(k, "wrong_exit_code", e.cmd, ExitCode, e.code)>>
                                   ELSE <<>>)
                             ELSE (IF e.said # "breakpoint" THEN <<V(k, "stop_reason_wrong", e.cmd, "breakpoint", e.said)>> ELSE <<>>)
                                  \o PlaceChecks(k, e, want) \o PatchChecks(k, e, tbp) \o BtChecks(k, e, want)))
          [] e.cmd \in {"stepi", "step", "next", "finish", "continue"} /\ ti \notin 1..N ->
               \* no process is stopped (not started / exited): the command must be refused and change nothing
               /\ UNCHANGED <<ti, tbp>>
               /\ viol' = viol \o (IF e.ok THEN <<V(k, "accepted_without_process", e.cmd, "error", "ok")>> ELSE <<>>)
          [] e.cmd = "start" /\ ti # 0 ->
               /\ UNCHANGED <<ti, tbp>>
               /\ viol' = viol \o (IF e.ok THEN <<V(k, "accepted_without_process", e.cmd, "error", "ok")>> ELSE <<>>)
          [] e.cmd \in {"stepi", "step", "next", "finish"} /\ ti \in 1..N /\ ~(tsg = 1 /\ e.said = "signal") /\ tsg # 2
             /\ MaxOf(Adm(e.cmd, ti) \cup {ti}) >= TailPos ->
               \* the step may run into code outside the recorded execution (the puppet's final report calls
               \* into std): no verdict, follow the real program
               /\ tbp' = tbp /\ ti' = (IF e.idx = 0 THEN ti ELSE e.idx) /\ viol' = viol
          [] e.cmd \in {"stepi", "step", "next", "finish"} /\ ti \in 1..N /\ ~(tsg = 1 /\ e.said = "signal") /\ tsg # 2
             /\ MaxOf(Adm(e.cmd, ti) \cup {ti}) < TailPos ->
               LET adm == Adm(e.cmd, ti)
                   cut == RefContinue(ti, tbp)
                   j   == e.idx IN
               /\ tbp' = tbp
               /\ ti' = IF j = 0 THEN ti ELSE j
               /\ viol' = viol \o
                    (IF ~e.ok /\ ~(Exited \in adm \/ cut = Exited) THEN <<V(k, "command_failed", e.cmd, "ok", e.err)>>
                     ELSE IF ~e.ok THEN <<>>
                     ELSE IF j \in adm THEN PlaceChecks(k, e, j) \o PatchChecks(k, e, tbp) \o BtChecks(k, e, j)
                     ELSE IF j = cut /\ j <= MaxOf(adm) THEN
                          (IF e.said = "breakpoint" THEN <<>> ELSE <<V(k, "silent_cut_short", e.cmd, "breakpoint", e.said)>>)
                          \o PlaceChecks(k, e, j) \o PatchChecks(k, e, tbp) \o BtChecks(k, e, j)
                     ELSE <<V(k, Classify(e.cmd, ti, j), e.cmd, adm, j)>>)
          [] OTHER -> /\ UNCHANGED <<ti, tbp>> /\ viol' = viol

TraceSpec == TInit /\ [][Consume]_tvars
\* acceptance: the whole trace was consumed; verdicts are printed for the checker
TraceDone == (l = Len(Rec) + 1) => PrintT(<<"VERDICT", ToJson([n |-> Len(Rec), viol |-> viol])>>)
=============================================================================

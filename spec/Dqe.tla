-------------------------------- MODULE Dqe --------------------------------
(***************************************************************************)
(* C07 -- data query expressions mean what the documentation says.         *)
(*                                                                         *)
(* Expression ASTs (Variable, PtrCast, Field, Index(literal), Slice(l,r),  *)
(* Deref, Address, Canonic), their canonical text Show(e) with the         *)
(* documented precedence (prefix operators apply to the whole postfix      *)
(* chain, parentheses only where needed), and the documented meaning       *)
(* Eval(e) over an abstract value universe Env.                            *)
(*                                                                         *)
(* Eval is SET valued: Eval(e) is the set of outcomes the documentation    *)
(* allows.  NoRes = "no result", AnyRes = "the documentation says nothing  *)
(* that could be checked" (reads of adjacent memory, std internals).       *)
(* Where the user documentation is silent about an operator/operand pair   *)
(* the set is {NoRes, value}: no result is fine, a value must be the right *)
(* one.  The real debugger conforms iff its outcome is in the set.         *)
(*                                                                         *)
(* TLC enumerates expressions as a state machine: a state is an expression *)
(* with its outcome set, a transition applies one more operator.  In mode  *)
(* "eval" an expression is only extended while some outcome is a value     *)
(* (every operator is strict: no result stays no result), which gives all  *)
(* meaningful trees of the depth bound plus one failing operator on top.   *)
(* In mode "parse" nothing is pruned.  Every state is printed as JSON      *)
(* (texts, AST, outcome set); harness/src/bin/c07.rs replays it.           *)
(***************************************************************************)
EXTENDS Integers, Sequences, FiniteSets, TLC, Json

CONSTANTS Mode,      \* "parse" | "eval"
          MaxDepth,  \* number of operators on top of a base expression
          Rich       \* TRUE: the full operator alphabet; FALSE: the reduced one

VARIABLES e, out, d
vars == <<e, out, d>>

-----------------------------------------------------------------------------
(* Abstract values *)
IntV(n)      == [k |-> "int", i |-> n]
Flt(s)      == [k |-> "float", f |-> s]          \* decimal text, e.g. "1.5"
Bool(b)     == [k |-> "bool", b |-> b]
Str(s)      == [k |-> "str", s |-> s]            \* String and &str
Arr(xs)     == [k |-> "array", items |-> xs]
Vec(xs)     == [k |-> "vec", items |-> xs]
VecDq(xs)   == [k |-> "vecdeque", items |-> xs]
Map(kv)     == [k |-> "map", kv |-> kv]          \* sequence of <<key, value>>, order irrelevant
SetV(xs)    == [k |-> "set", items |-> xs]       \* order irrelevant
Struct(fs)  == [k |-> "struct", fields |-> fs]   \* sequence of <<name, value>>; tuples use __0, __1
Open(fs)    == [k |-> "struct", fields |-> fs, open |-> TRUE]  \* further fields unspecified
T2(a, b)    == Struct(<< <<"__0", a>>, <<"__1", b>> >>)
T1(a)       == Struct(<< <<"__0", a>> >>)
CEnum(v)    == [k |-> "cenum", v |-> v]
Enum(n, p)  == [k |-> "enum", variant |-> n, payload |-> p]
Ptr(p)      == [k |-> "ptr", path |-> p, view |-> <<>>]        \* reference, raw pointer, Box
PtrV(p,l,h) == [k |-> "ptr", path |-> p, view |-> <<l, h>>]    \* pointer to elements l..h-1 of p
Rc(p)       == [k |-> "rc", path |-> p]
RefCell(v)  == [k |-> "refcell", fields |-> << <<"borrow", IntV(0)>>, <<"value", v>> >>]
Opaque      == [k |-> "opaque"]

Pt(x, y)  == Struct(<< <<"x", IntV(x)>>, <<"y", IntV(y)>> >>)
Key(a, b) == Struct(<< <<"a", IntV(a)>>, <<"b", IntV(b)>> >>)
Ints(s)   == [i \in DOMAIN s |-> IntV(s[i])]
None      == Enum("None", Struct(<<>>))
Some(v)   == Enum("Some", T1(v))

(* The value universe: mirrors puppets/c07_universe.rs (checked at run time against the puppet's
   self-report).  Names starting with # are pointees that are not variables. *)
EnvNames == <<"x", "fl", "flag", "s", "arr", "arr2", "v", "vp", "vd", "hm_i", "hm_s", "hm_b", "bm_k",
              "hm_t", "hm_c", "bm_o", "hm_f", "hm_v", "bm_set", "hs", "bs_t", "st", "tup", "color",
              "en_c", "en_r", "en_d", "opt", "rx", "rrx", "rarr", "rst", "px", "bx", "rc", "cell",
              "hm_p", "#G", "#bx", "#rcbox">>
EnvVal(n) ==
  CASE n = "x"     -> IntV(7)
    [] n = "fl"    -> Flt("1.5")
    [] n = "flag"  -> Bool(TRUE)
    [] n = "s"     -> Str("ab")
    [] n = "arr"   -> Arr(Ints(<<10, 11, 12, 13, 14>>))
    [] n = "arr2"  -> Arr(<<Arr(Ints(<<1, 2>>)), Arr(Ints(<<3, 4>>))>>)
    [] n = "v"     -> Vec(Ints(<<20, 21, 22, 23>>))
    [] n = "vp"    -> Vec(<<Pt(1, 2), Pt(3, 4)>>)
    [] n = "vd"    -> VecDq(Ints(<<31, 32, 33, 34>>))
    [] n = "hm_i"  -> Map(<< <<IntV(1), IntV(100)>>, <<IntV(2), IntV(200)>>, <<IntV(-3), IntV(300)>> >>)
    [] n = "hm_s"  -> Map(<< <<Str("ab"), IntV(1)>>, <<Str("cd"), IntV(2)>> >>)
    [] n = "hm_b"  -> Map(<< <<Bool(TRUE), IntV(1)>>, <<Bool(FALSE), IntV(0)>> >>)
    [] n = "bm_k"  -> Map(<< <<Key(1, 2), IntV(12)>>, <<Key(1, 3), IntV(13)>>, <<Key(2, 2), IntV(22)>> >>)
    [] n = "hm_t"  -> Map(<< <<T2(IntV(1), Bool(TRUE)), IntV(11)>>, <<T2(IntV(2), Bool(FALSE)), IntV(20)>> >>)
    [] n = "hm_c"  -> Map(<< <<CEnum("Red"), IntV(1)>>, <<CEnum("Blue"), IntV(3)>> >>)
    [] n = "bm_o"  -> Map(<< <<None, IntV(0)>>, <<Some(IntV(5)), IntV(50)>>, <<Some(IntV(6)), IntV(60)>> >>)
    [] n = "hm_f"  -> Map(<< <<T1(Flt("1.5")), IntV(15)>>, <<T1(Flt("-2.25")), IntV(22)>> >>)
    [] n = "hm_v"  -> Map(<< <<Vec(Ints(<<1, 2>>)), IntV(12)>>, <<Vec(Ints(<<1, 3>>)), IntV(13)>>,
                            <<Vec(Ints(<<1>>)), IntV(1)>> >>)
    [] n = "bm_set" -> Map(<< <<SetV(<<T2(IntV(1), Bool(FALSE)), T2(IntV(1), Bool(TRUE))>>), IntV(1)>>,
                             <<SetV(<<T2(IntV(2), Bool(FALSE))>>), IntV(2)>> >>)
    [] n = "hs"    -> SetV(Ints(<<1, 2, 3>>))
    [] n = "bs_t"  -> SetV(<<T2(IntV(1), Bool(FALSE)), T2(IntV(1), Bool(TRUE))>>)
    [] n = "st"    -> Struct(<< <<"id", IntV(9)>>, <<"pt", Pt(1, 2)>>, <<"arr", Arr(Ints(<<5, 6, 7>>))>>,
                               <<"v", Vec(Ints(<<8, 9>>))>>, <<"r", Ptr(<<"#G">>)>>,
                               <<"t", T2(IntV(4), Bool(TRUE))>> >>)
    [] n = "tup"   -> T2(IntV(3), Pt(5, 6))
    [] n = "color" -> CEnum("Green")
    [] n = "en_c"  -> Enum("Circle", T1(IntV(5)))
    [] n = "en_r"  -> Enum("Rect", Struct(<< <<"w", IntV(2)>>, <<"h", IntV(3)>> >>))
    [] n = "en_d"  -> Enum("Dot", Struct(<<>>))
    [] n = "opt"   -> Some(IntV(3))
    [] n = "rx"    -> Ptr(<<"x">>)
    [] n = "rrx"   -> Ptr(<<"rx">>)
    [] n = "rarr"  -> Ptr(<<"arr">>)
    [] n = "rst"   -> Ptr(<<"st">>)
    [] n = "px"    -> Ptr(<<"arr", "1">>)
    [] n = "bx"    -> Ptr(<<"#bx">>)
    [] n = "rc"    -> Rc(<<"#rcbox">>)
    [] n = "cell"  -> RefCell(IntV(55))
    [] n = "hm_p"  -> Map(<< <<Ptr(<<"x">>), IntV(1)>>, <<Ptr(<<"arr", "2">>), IntV(2)>> >>)
    [] n = "#G"    -> IntV(77)
    [] n = "#bx"   -> Pt(8, 9)
    [] n = "#rcbox" -> Struct(<< <<"strong", Opaque>>, <<"weak", Opaque>>, <<"value", IntV(41)>> >>)

InEnv(n) == \E i \in DOMAIN EnvNames : EnvNames[i] = n
Env == [i \in DOMAIN EnvNames |-> <<EnvNames[i], EnvVal(EnvNames[i])>>]

-----------------------------------------------------------------------------
(* Small helpers *)
RECURSIVE Join(_, _)
Join(ss, sep) == IF ss = <<>> THEN ""
                 ELSE IF Len(ss) = 1 THEN ss[1] ELSE ss[1] \o sep \o Join(Tail(ss), sep)

Front(s) == SubSeq(s, 1, Len(s) - 1)
Last(s)  == s[Len(s)]
IsArrayLike(v) == v.k \in {"array", "vec", "vecdeque"}
IsIdxStr(s) == \E i \in 0..9 : ToString(i) = s
NatOf(s)    == CHOOSE i \in 0..9 : ToString(i) = s
IsEntryStr(s) == \E i \in 1..9 : "#" \o ToString(i) = s
EntryOf(s)    == CHOOSE i \in 1..9 : "#" \o ToString(i) = s
HasField(fs, n) == \E i \in DOMAIN fs : fs[i][1] = n
FieldOf(fs, n)  == fs[CHOOSE i \in DOMAIN fs : fs[i][1] = n][2]
FieldNames(fs)  == {fs[i][1] : i \in DOMAIN fs}
IsOpen(v) == "open" \in DOMAIN v

(* Symbols name addresses in texts: root/step/step. *)
SymPath(sym) ==
  CASE sym = "x"      -> <<"x">>
    [] sym = "rx"     -> <<"rx">>
    [] sym = "arr/1"  -> <<"arr", "1">>
    [] sym = "arr/2"  -> <<"arr", "2">>
    [] sym = "st"     -> <<"st">>
    [] sym = "#G"     -> <<"#G">>
    [] OTHER          -> <<sym>>

(* The value stored at a path: a root followed by field names, element numbers, map entries #i. *)
RECURSIVE Walk(_, _)
Walk(v, steps) ==
  IF steps = <<>> THEN v
  ELSE LET s == Head(steps) IN
    CASE IsArrayLike(v) /\ IsIdxStr(s) /\ NatOf(s) < Len(v.items) -> Walk(v.items[NatOf(s) + 1], Tail(steps))
      [] v.k \in {"struct", "refcell"} /\ HasField(v.fields, s)   -> Walk(FieldOf(v.fields, s), Tail(steps))
      [] v.k = "enum" /\ HasField(v.payload.fields, s)            -> Walk(FieldOf(v.payload.fields, s), Tail(steps))
      [] v.k = "map" /\ IsEntryStr(s) /\ EntryOf(s) <= Len(v.kv)  -> Walk(v.kv[EntryOf(s)][2], Tail(steps))
      [] v.k \in {"vec", "vecdeque"} /\ s = "len"                 -> Walk(IntV(Len(v.items)), Tail(steps))
      [] OTHER -> Opaque
Lookup(p) == IF InEnv(Head(p)) THEN Walk(EnvVal(Head(p)), Tail(p)) ELSE Opaque

-----------------------------------------------------------------------------
(* Expressions and literals *)
Var(n)        == [op |-> "var", name |-> n]
Cast(ty, sym) == [op |-> "ptrcast", ty |-> ty, sym |-> sym]

LInt(n)   == [t |-> "int", i |-> n]
LFlt(s)   == [t |-> "float", f |-> s]
LStr(s)   == [t |-> "str", s |-> s]
LBool(b)  == [t |-> "bool", b |-> b]
LAddr(s)  == [t |-> "addr", sym |-> s]
LVar(n)   == [t |-> "variant", name |-> n, arg |-> <<>>]
LVarA(n, a) == [t |-> "variant", name |-> n, arg |-> <<a>>]
LArr(xs)  == [t |-> "arr", items |-> xs]
LAssoc(fs) == [t |-> "assoc", fields |-> fs]     \* sequence of <<name, literal-or-wildcard>>
W         == [t |-> "wild"]

OpField(n)    == [o |-> "field", name |-> n]
OpIndex(l)    == [o |-> "index", lit |-> l]
OpSlice(l, r) == [o |-> "slice", l |-> l, r |-> r]      \* <<>> = open end, <<n>> = bound
OpDeref       == [o |-> "deref"]
OpAddr        == [o |-> "addr"]
OpCanonic     == [o |-> "canonic"]

Apply(op, x) ==
  CASE op.o = "field"   -> [op |-> "field", e |-> x, name |-> op.name]
    [] op.o = "index"   -> [op |-> "index", e |-> x, lit |-> op.lit]
    [] op.o = "slice"   -> [op |-> "slice", e |-> x, l |-> op.l, r |-> op.r]
    [] op.o = "deref"   -> [op |-> "deref", e |-> x]
    [] op.o = "addr"    -> [op |-> "addr", e |-> x]
    [] op.o = "canonic" -> [op |-> "canonic", e |-> x]

-----------------------------------------------------------------------------
(* Canonical text.  Postfix operators (.f [lit] [l..r]) bind tighter than the prefix operators
   deref, address-of and canonic; a prefix expression under a postfix operator needs parentheses, nothing else does. *)
RECURSIVE ShowLit(_, _)
ShowLit(l, sp) ==
  LET c == IF sp THEN " , " ELSE ", "
      o == IF sp THEN "{ " ELSE "{"
      z == IF sp THEN " }" ELSE "}"
      q == IF sp THEN " : " ELSE ": " IN
  CASE l.t = "int"     -> ToString(l.i)
    [] l.t = "float"   -> l.f
    [] l.t = "str"     -> "\"" \o l.s \o "\""
    [] l.t = "bool"    -> IF l.b THEN "true" ELSE "false"
    [] l.t = "addr"    -> "0x$" \o l.sym \o "$"
    [] l.t = "wild"    -> "*"
    [] l.t = "variant" -> IF l.arg = <<>> THEN l.name
                          ELSE IF sp THEN l.name \o "( " \o ShowLit(l.arg[1], sp) \o " )"
                          ELSE l.name \o "(" \o ShowLit(l.arg[1], sp) \o ")"
    [] l.t = "arr"     -> o \o Join([i \in DOMAIN l.items |-> ShowLit(l.items[i], sp)], c) \o z
    [] l.t = "assoc"   -> o \o Join([i \in DOMAIN l.fields |->
                                       l.fields[i][1] \o q \o ShowLit(l.fields[i][2], sp)], c) \o z

Bound(b) == IF b = <<>> THEN "" ELSE ToString(b[1])
IsPrefix(x) == x.op \in {"deref", "addr", "canonic"}

(* style "canon": minimal parentheses; "full": every operand parenthesised; "spaced": canonical with
   blanks around the tokens where the grammar pads them *)
RECURSIVE ShowS(_, _)
ShowS(x, style) ==
  LET sp == style = "spaced"
      Operand(y) == IF style = "full" \/ IsPrefix(y)
                    THEN (IF sp THEN "( " \o ShowS(y, style) \o " )" ELSE "(" \o ShowS(y, style) \o ")")
                    ELSE ShowS(y, style)
      POperand(y) == IF style = "full" THEN "(" \o ShowS(y, style) \o ")" ELSE ShowS(y, style) IN
  CASE x.op = "var"     -> x.name
    [] x.op = "ptrcast" -> IF sp THEN "( " \o x.ty \o " ) 0x$" \o x.sym \o "$"
                           ELSE "(" \o x.ty \o ")0x$" \o x.sym \o "$"
    [] x.op = "field"   -> Operand(x.e) \o (IF sp THEN " ." ELSE ".") \o x.name
    [] x.op = "index"   -> IF sp THEN Operand(x.e) \o " [ " \o ShowLit(x.lit, sp) \o " ]"
                           ELSE Operand(x.e) \o "[" \o ShowLit(x.lit, sp) \o "]"
    [] x.op = "slice"   -> IF sp THEN Operand(x.e) \o " [ " \o Bound(x.l) \o " .. " \o Bound(x.r) \o " ]"
                           ELSE Operand(x.e) \o "[" \o Bound(x.l) \o ".." \o Bound(x.r) \o "]"
    [] x.op = "deref"   -> (IF sp THEN "* " ELSE "*") \o POperand(x.e)
    [] x.op = "addr"    -> (IF sp THEN "& " ELSE "&") \o POperand(x.e)
    [] x.op = "canonic" -> (IF sp THEN "~ " ELSE "~") \o POperand(x.e)

Show(x) == ShowS(x, "canon")

-----------------------------------------------------------------------------
(* Literal matching: "T" matches, "F" does not, "U" the documentation does not say. *)
And3(a, b) == IF a = "F" \/ b = "F" THEN "F" ELSE IF a = "U" \/ b = "U" THEN "U" ELSE "T"
RECURSIVE All3(_)
All3(s) == IF s = <<>> THEN "T" ELSE And3(Head(s), All3(Tail(s)))
Or3(S) == IF "T" \in S THEN "T" ELSE IF "U" \in S THEN "U" ELSE "F"

Perms(n) == {p \in [1..n -> 1..n] : \A i, j \in 1..n : i # j => p[i] # p[j]}

RECURSIVE Match(_, _)
MatchLW(v, l) == IF l.t = "wild" THEN "T" ELSE Match(v, l)
Positional(xs, ls) == IF Len(xs) # Len(ls) THEN "F"
                      ELSE All3([i \in DOMAIN xs |-> MatchLW(xs[i], ls[i])])
Match(v, l) ==
  CASE l.t = "int"   -> IF v.k = "int" /\ v.i = l.i THEN "T" ELSE "F"
    [] l.t = "float" -> IF v.k = "float" /\ v.f = l.f THEN "T" ELSE "F"
    [] l.t = "str"   -> IF v.k = "str" /\ v.s = l.s THEN "T" ELSE "F"
    [] l.t = "bool"  -> IF v.k = "bool" /\ v.b = l.b THEN "T" ELSE "F"
    [] l.t = "addr"  -> IF v.k \in {"ptr", "rc"} /\ v.path = SymPath(l.sym) THEN "T" ELSE "F"
    [] l.t = "variant" ->
         IF v.k = "cenum" THEN (IF l.arg = <<>> /\ v.v = l.name THEN "T" ELSE "F")
         ELSE IF v.k = "enum" /\ v.variant = l.name
              THEN IF l.arg = <<>> THEN "T"
                   ELSE LET m == Match(v.payload, l.arg[1]) IN
                        IF m = "F" /\ Len(v.payload.fields) = 1
                              /\ Match(v.payload.fields[1][2], l.arg[1]) # "F"
                        THEN "U"     \* Some(5) for Some({5}): natural, undocumented
                        ELSE m
              ELSE "F"
    [] l.t = "arr" ->
         IF IsArrayLike(v) THEN Positional(v.items, l.items)
         ELSE IF v.k = "struct" /\ ~IsOpen(v)
              THEN LET m == Positional([i \in DOMAIN v.fields |-> v.fields[i][2]], l.items) IN
                   IF \A i \in DOMAIN v.fields : v.fields[i][1] = "__" \o ToString(i - 1)
                   THEN m                                  \* a tuple
                   ELSE IF m = "F" THEN "F" ELSE "U"       \* named fields by position: undocumented
         ELSE IF v.k = "set"
              THEN IF Len(v.items) # Len(l.items) THEN "F"
                   ELSE Or3({All3([i \in DOMAIN v.items |-> MatchLW(v.items[i], l.items[p[i]])])
                             : p \in Perms(Len(v.items))})
         ELSE "F"
    [] l.t = "assoc" ->
         IF v.k = "struct" /\ ~IsOpen(v)
         THEN LET ln == FieldNames(l.fields) IN
              IF ~(ln \subseteq FieldNames(v.fields)) \/ Cardinality(ln) # Len(l.fields) THEN "F"
              ELSE LET m == All3([i \in DOMAIN l.fields |->
                                     MatchLW(FieldOf(v.fields, l.fields[i][1]), l.fields[i][2])]) IN
                   IF ln = FieldNames(v.fields) THEN m
                   ELSE IF m = "F" THEN "F" ELSE "U"       \* fields left out: undocumented
         ELSE "F"

-----------------------------------------------------------------------------
(* Outcomes.  A value outcome remembers where the value lives (for & and for places of parts):
   p = path of the object ("" none, <<"?">> somewhere unspecified), lo = first element of the window
   when the value is a slice of the object, whole = the value is the whole object at p. *)
NoRes  == [r |-> "none"]
AnyRes == [r |-> "any"]
NoPlace == [p |-> <<>>, lo |-> 0, whole |-> TRUE]
UnkPlace == [p |-> <<"?">>, lo |-> 0, whole |-> FALSE]
At(p) == [p |-> p, lo |-> 0, whole |-> TRUE]
Val(v, at) == [r |-> "val", v |-> v, at |-> at]
Lenient(S) == S \cup {NoRes}

Sub(at, step) == IF at.p = <<>> \/ at.p = <<"?">> THEN at ELSE At(at.p \o <<step>>)
Elem(at, i)   == Sub(at, ToString(at.lo + i))          \* i-th (0-based) element of the window

SliceOf(v, lo, hi) == [v EXCEPT !.items = SubSeq(v.items, lo + 1, hi)]

StepField(o, n) ==
  LET v == o.v IN
  CASE v.k = "opaque" -> {AnyRes}
    [] v.k = "struct" ->
         IF HasField(v.fields, n) THEN {Val(FieldOf(v.fields, n), Sub(o.at, n))}
         ELSE IF IsOpen(v) THEN {AnyRes}
         ELSE IF IsIdxStr(n) /\ HasField(v.fields, "__" \o n)          \* tup.0 for tup.__0
              THEN Lenient({Val(FieldOf(v.fields, "__" \o n), Sub(o.at, "__" \o n))})
         ELSE {NoRes}
    [] v.k = "enum" ->                                                  \* variant payload shows through
         IF HasField(v.payload.fields, n)
         THEN Lenient({Val(FieldOf(v.payload.fields, n), Sub(o.at, n))}) ELSE {NoRes}
    [] v.k = "refcell" ->
         IF HasField(v.fields, n) THEN Lenient({Val(FieldOf(v.fields, n), Sub(o.at, n))}) ELSE {NoRes}
    [] v.k = "map" ->                                                   \* string keys as field names
         LET hit == {i \in DOMAIN v.kv : v.kv[i][1].k = "str" /\ v.kv[i][1].s = n} IN
         IF hit = {} THEN {NoRes}
         ELSE Lenient({Val(v.kv[i][2], Sub(o.at, "#" \o ToString(i))) : i \in hit})
    [] v.k \in {"vec", "vecdeque"} ->
         IF n = "buf"                                \* the data as an array: its elements are places
         THEN Lenient({Val(Arr(v.items), IF o.at.p = <<>> \/ o.at.p = <<"?">> THEN o.at
                                        ELSE [p |-> o.at.p, lo |-> o.at.lo, whole |-> FALSE])})
         ELSE {NoRes}
    [] OTHER -> {NoRes}

StepIndex(o, l) ==
  LET v == o.v IN
  CASE v.k = "opaque" -> {AnyRes}
    [] IsArrayLike(v) ->                            \* a[i] is the i-th element
         IF l.t = "int" /\ l.i >= 0 /\ l.i < Len(v.items)
         THEN {Val(v.items[l.i + 1], Elem(o.at, l.i))} ELSE {NoRes}
    [] v.k = "map" ->                               \* a[key] is the value stored under key
         LET ms == [i \in DOMAIN v.kv |-> Match(v.kv[i][1], l)]
             sure == {i \in DOMAIN v.kv : ms[i] = "T"}
             maybe == {i \in DOMAIN v.kv : ms[i] = "U"} IN
         IF sure \cup maybe = {} THEN {NoRes}
         ELSE {Val(v.kv[i][2], Sub(o.at, "#" \o ToString(i))) : i \in sure \cup maybe}
              \cup (IF sure = {} THEN {NoRes} ELSE {})
    [] v.k = "set" ->                               \* membership
         LET ms == {Match(v.items[i], l) : i \in DOMAIN v.items} IN
         IF Or3(ms) = "U" THEN {NoRes, Val(Bool(TRUE), NoPlace), Val(Bool(FALSE), NoPlace)}
         ELSE Lenient({Val(Bool(Or3(ms) = "T"), NoPlace)})
    [] v.k = "struct" /\ IsOpen(v) -> {AnyRes}
    [] OTHER -> {NoRes}

StepSlice(o, l, r) ==
  LET v == o.v IN
  CASE v.k = "opaque" -> {AnyRes}
    [] IsArrayLike(v) ->                            \* a[l..r] is elements l..r-1
         LET n  == Len(v.items)
             lo == IF l = <<>> THEN 0 ELSE l[1]
             hi == IF r = <<>> THEN n ELSE r[1] IN
         IF lo <= hi /\ hi <= n
         THEN {Val(SliceOf(v, lo, hi),
                   IF o.at.p = <<>> \/ o.at.p = <<"?">> THEN o.at
                   ELSE [p |-> o.at.p, lo |-> o.at.lo + lo, whole |-> o.at.whole /\ lo = 0 /\ hi = n])}
         ELSE IF lo <= n /\ lo <= hi                \* end beyond the data: nothing, or what is there
              THEN Lenient({Val(SliceOf(v, lo, n),
                   IF o.at.p = <<>> \/ o.at.p = <<"?">> THEN o.at
                   ELSE [p |-> o.at.p, lo |-> o.at.lo + lo, whole |-> FALSE])})
         ELSE {NoRes}
    [] v.k = "ptr" /\ v.view = <<>> ->              \* p[l..r]: r-l objects starting l objects after *p
         IF r = <<>> THEN {NoRes}
         ELSE LET lo == IF l = <<>> THEN 0 ELSE l[1]
                  hi == r[1]
                  p  == v.path
                  \* neighbours in memory are the neighbouring elements for arrays and vectors only
                  \* (a VecDeque is a ring buffer)
                  inArr == Len(p) >= 2 /\ IsIdxStr(Last(p)) /\ Lookup(Front(p)).k \in {"array", "vec"} IN
              IF lo > hi THEN {NoRes}
              ELSE IF inArr
                   THEN LET par == Lookup(Front(p))
                            b   == NatOf(Last(p)) IN
                        IF b + hi <= Len(par.items)
                        THEN Lenient({Val(Arr(SubSeq(par.items, b + lo + 1, b + hi)),
                                          [p |-> Front(p), lo |-> b + lo, whole |-> FALSE])})
                        ELSE {AnyRes}
              ELSE IF hi <= 1 THEN Lenient({Val(Arr(SubSeq(<<Lookup(p)>>, lo + 1, hi)), UnkPlace)})
              ELSE {AnyRes}
    [] v.k \in {"ptr", "rc"} -> {AnyRes}
    [] v.k = "struct" /\ IsOpen(v) -> {AnyRes}
    [] OTHER -> {NoRes}

StepDeref(o) ==
  LET v == o.v IN
  CASE v.k = "opaque" -> {AnyRes}
    [] v.k = "ptr" ->
         LET t == Lookup(v.path) IN
         IF v.view = <<>> THEN {Val(t, At(v.path))}
         ELSE IF IsArrayLike(t) /\ v.view[2] <= Len(t.items)
              THEN {Val(SliceOf(t, v.view[1], v.view[2]),
                        [p |-> v.path, lo |-> v.view[1], whole |-> FALSE])}
              ELSE {AnyRes}
    [] v.k = "rc" ->          \* the shared box or the value in it
         {Val(Lookup(v.path), At(v.path)), Val(Lookup(v.path \o <<"value">>), At(v.path \o <<"value">>))}
    [] v.k = "refcell" -> Lenient({Val(FieldOf(v.fields, "value"), Sub(o.at, "value"))})
    [] v.k = "struct" /\ IsOpen(v) -> {AnyRes}
    [] OTHER -> {NoRes}

StepAddr(o) ==
  CASE o.v.k = "opaque" -> {AnyRes}
    [] o.at.p = <<>>    -> {NoRes}                      \* not a place
    [] o.at.p = <<"?">> -> {AnyRes}
    [] o.at.whole       -> {Val(Ptr(o.at.p), NoPlace)}
    [] OTHER            ->                              \* a window of an object: its first element
         IF IsArrayLike(o.v)
         THEN Lenient({Val(PtrV(o.at.p, o.at.lo, o.at.lo + Len(o.v.items)), NoPlace)})
         ELSE {AnyRes}

StepCanonic(o) ==
  LET v == o.v IN
  CASE v.k \in {"vec", "vecdeque"} ->                   \* (~v).len is the vector's length
         IF o.at.whole /\ o.at.p # <<>> THEN {Val(Open(<< <<"len", IntV(Len(v.items))>> >>), o.at)}
         ELSE {AnyRes}
    [] v.k \in {"map", "set", "str", "rc", "refcell"} -> {Val(Open(<<>>), o.at)}
    [] OTHER -> {o}

Step(op, o) ==
  IF o.r # "val" THEN {o}
  ELSE CASE op.o = "field"   -> StepField(o, op.name)
         [] op.o = "index"   -> StepIndex(o, op.lit)
         [] op.o = "slice"   -> StepSlice(o, op.l, op.r)
         [] op.o = "deref"   -> StepDeref(o)
         [] op.o = "addr"    -> StepAddr(o)
         [] op.o = "canonic" -> StepCanonic(o)

StepAll(op, S) == UNION {Step(op, o) : o \in S}

(* Types a pointer cast may name (they exist in the puppet's debug information). *)
KnownTypes == {"*const i32", "&i32", "&&i32", "&c07_universe::Outer"}
EvalBase(b) ==
  IF b.op = "var"
  THEN IF InEnv(b.name) /\ b.name \notin {"#G", "#bx", "#rcbox"} THEN {Val(EnvVal(b.name), At(<<b.name>>))} ELSE {NoRes}
  ELSE IF b.ty \in KnownTypes THEN {Val(Ptr(SymPath(b.sym)), NoPlace)} ELSE {NoRes}

RECURSIVE Eval(_)
Eval(x) == IF x.op \in {"var", "ptrcast"} THEN EvalBase(x)
           ELSE LET op == CASE x.op = "field" -> OpField(x.name)
                            [] x.op = "index" -> OpIndex(x.lit)
                            [] x.op = "slice" -> OpSlice(x.l, x.r)
                            [] x.op = "deref" -> OpDeref
                            [] x.op = "addr"  -> OpAddr
                            [] x.op = "canonic" -> OpCanonic IN
                StepAll(op, Eval(x.e))

-----------------------------------------------------------------------------
(* Operator alphabets *)
EvalBases ==
  [i \in 1..(Len(EnvNames) - 3) |-> Var(EnvNames[i])] \o
  << Var("nope"),
     Cast("*const i32", "x"), Cast("&i32", "x"), Cast("*const i32", "arr/1"), Cast("&&i32", "rx"),
     Cast("&c07_universe::Outer", "st"), Cast("*const Nope", "x") >>

EvalFields == << "a", "b", "x", "y", "id", "pt", "arr", "v", "r", "t", "w", "h", "__0", "__1", "0", "1",
                 "len", "buf", "value", "borrow", "ab", "cd", "nope" >>

EvalLits ==
  << LInt(-3), LInt(-1), LInt(0), LInt(1), LInt(2), LInt(3), LInt(4), LInt(5), LInt(6),
     LFlt("1.5"), LStr("ab"), LStr("zz"), LBool(TRUE), LBool(FALSE),
     LAddr("x"), LAddr("arr/2"), LAddr("rx"),
     LVar("Red"), LVar("Green"), LVar("None"), LVar("Some"), LVarA("Some", LArr(<<LInt(5)>>)),
     LVarA("Some", LInt(5)), LVarA("Some", LArr(<<W>>)), LVarA("Some", LArr(<<LInt(7)>>)),
     LVarA("Circle", LArr(<<LInt(5)>>)), LVar("Dot"),
     LArr(<<>>), LArr(<<LInt(1)>>), LArr(<<W>>), LArr(<<LInt(1), LInt(2)>>), LArr(<<LInt(1), W>>),
     LArr(<<W, LInt(2)>>), LArr(<<W, W>>), LArr(<<LInt(1), LInt(2), LInt(3)>>), LArr(<<W, W, W>>),
     LArr(<<LInt(1), LBool(TRUE)>>), LArr(<<W, LBool(TRUE)>>), LArr(<<LInt(2), LBool(FALSE)>>),
     LArr(<<LInt(2), W>>), LArr(<<LFlt("1.5")>>), LArr(<<LFlt("-2.25")>>), LArr(<<LFlt("2.5")>>),
     LArr(<<LArr(<<LInt(1), LBool(FALSE)>>), LArr(<<LInt(1), LBool(TRUE)>>)>>),
     LArr(<<LArr(<<LInt(1), LBool(TRUE)>>), LArr(<<LInt(1), LBool(FALSE)>>)>>),
     LArr(<<LArr(<<LInt(1), W>>), LArr(<<LInt(1), LBool(FALSE)>>)>>),
     LArr(<<LArr(<<LInt(1), LBool(FALSE)>>), LArr(<<LInt(1), W>>)>>),
     LArr(<<W, LArr(<<LInt(1), LBool(TRUE)>>)>>), LArr(<<LArr(<<LInt(2), LBool(FALSE)>>)>>),
     LArr(<<LArr(<<LInt(1), LBool(TRUE)>>), LArr(<<LInt(1), LBool(TRUE)>>)>>),
     LAssoc(<< <<"a", LInt(1)>>, <<"b", LInt(2)>> >>), LAssoc(<< <<"b", LInt(2)>>, <<"a", LInt(1)>> >>),
     LAssoc(<< <<"a", LInt(1)>>, <<"b", W>> >>), LAssoc(<< <<"a", W>>, <<"b", LInt(2)>> >>),
     LAssoc(<< <<"a", W>>, <<"b", W>> >>), LAssoc(<< <<"a", LInt(1)>> >>),
     LAssoc(<< <<"a", LInt(2)>>, <<"b", LInt(3)>> >>),
     LAssoc(<< <<"a", LInt(1)>>, <<"b", LInt(2)>>, <<"c", LInt(3)>> >>),
     LAssoc(<< <<"x", W>>, <<"y", LInt(2)>> >>) >>

EvalSlices ==
  << <<<<>>, <<>>>>, <<<<1>>, <<>>>>, <<<<>>, <<2>>>>, <<<<1>>, <<3>>>>, <<<<0>>, <<2>>>>, <<<<2>>, <<2>>>>,
     <<<<0>>, <<0>>>>, <<<<0>>, <<1>>>>, <<<<0>>, <<4>>>>, <<<<0>>, <<5>>>>, <<<<4>>, <<4>>>>, <<<<1>>, <<6>>>>,
     <<<<3>>, <<1>>>>, <<<<6>>, <<>>>> >>

(* the reduced evaluation alphabet (quick tier): at least one literal of every form that matches a key,
   one that does not, the wildcard forms, and every slice shape *)
EvalFieldsLean == << "a", "x", "pt", "v", "t", "w", "__0", "0", "len", "buf", "value", "ab", "nope" >>
EvalLitsLean ==
  << LInt(-3), LInt(0), LInt(1), LInt(2), LInt(4), LInt(5), LFlt("1.5"), LStr("ab"), LStr("zz"), LBool(TRUE),
     LAddr("x"), LAddr("arr/2"), LVar("Red"), LVar("Green"), LVar("None"), LVarA("Some", LArr(<<LInt(5)>>)),
     LVarA("Some", LInt(5)), LArr(<<LInt(1)>>), LArr(<<LInt(1), LInt(2)>>), LArr(<<LInt(1), W>>), LArr(<<W, W>>),
     LArr(<<W, W, W>>), LArr(<<LInt(1), LBool(TRUE)>>), LArr(<<W, LBool(TRUE)>>), LArr(<<LFlt("1.5")>>),
     LArr(<<LArr(<<LInt(1), LBool(TRUE)>>), LArr(<<LInt(1), LBool(FALSE)>>)>>),
     LArr(<<LArr(<<LInt(1), W>>), LArr(<<LInt(1), LBool(FALSE)>>)>>),
     LAssoc(<< <<"b", LInt(2)>>, <<"a", LInt(1)>> >>), LAssoc(<< <<"a", LInt(1)>>, <<"b", W>> >>),
     LAssoc(<< <<"a", W>>, <<"b", W>> >>), LAssoc(<< <<"a", LInt(1)>> >>),
     LAssoc(<< <<"a", LInt(1)>>, <<"b", LInt(2)>>, <<"c", LInt(3)>> >>) >>
EvalSlicesLean ==
  << <<<<>>, <<>>>>, <<<<1>>, <<>>>>, <<<<>>, <<2>>>>, <<<<1>>, <<3>>>>, <<<<2>>, <<2>>>>, <<<<0>>, <<1>>>>,
     <<<<1>>, <<6>>>>, <<<<3>>, <<1>>>>, <<<<6>>, <<>>>> >>

(* parse mode: names that exercise identifiers, paths, numeric fields; every literal form *)
ParseBases == << Var("a"), Var("b1::c_2"), Cast("*const i32", "x"), Cast("&abc::Def<u8, T>", "q") >>
ParseFieldsRich == << "f", "0", "g_1", "__1", "len" >>
ParseFieldsLean == << "f", "0" >>
ParseLitsRich ==
  << LInt(0), LInt(7), LInt(-5), LFlt("1.5"), LFlt("-0.25"), LFlt("10.0"), LStr("key"), LStr(""), LStr("a b"),
     LBool(TRUE), LBool(FALSE), LAddr("x"), LVar("Green"), LVar("a::B"), LVarA("Some", LBool(TRUE)),
     LVarA("Some", LArr(<<LInt(5)>>)), LVarA("A", LVarA("B", LInt(1))), LVarA("V", LAssoc(<< <<"w", LInt(2)>> >>)),
     LArr(<<>>), LArr(<<LInt(1)>>), LArr(<<W>>), LArr(<<LInt(1), LInt(2), W>>),
     LArr(<<LArr(<<LInt(1), W>>), LStr("s"), W, LVar("E")>>), LArr(<<LFlt("2.5"), LInt(-1), LAddr("q")>>),
     LAssoc(<< <<"a", LInt(1)>> >>), LAssoc(<< <<"a", LInt(1)>>, <<"b", W>> >>),
     LAssoc(<< <<"f1", LAssoc(<< <<"s", LInt(1)>> >>)>>, <<"f2", LArr(<<LInt(1), LInt(2)>>)>>,
               <<"f3", LVarA("A", LArr(<<LInt(3), W>>))>> >>),
     LAssoc(<< <<"x", LStr("v")>>, <<"y", LBool(FALSE)>>, <<"z", LFlt("0.5")>> >>) >>
ParseLitsLean == << LInt(3), LStr("k"), LVarA("Some", LArr(<<W>>)), LAssoc(<< <<"a", LInt(1)>>, <<"b", W>> >>) >>
ParseSlicesRich == << <<<<>>, <<>>>>, <<<<1>>, <<>>>>, <<<<>>, <<2>>>>, <<<<1>>, <<3>>>>, <<<<0>>, <<0>>>>, <<<<12>>, <<345>>>> >>
ParseSlicesLean == << <<<<>>, <<>>>>, <<<<1>>, <<3>>>> >>

Bases == IF Mode = "eval" THEN EvalBases ELSE ParseBases
Fields == IF Mode = "eval" THEN (IF Rich THEN EvalFields ELSE EvalFieldsLean) ELSE IF Rich THEN ParseFieldsRich ELSE ParseFieldsLean
Lits   == IF Mode = "eval" THEN (IF Rich THEN EvalLits ELSE EvalLitsLean) ELSE IF Rich THEN ParseLitsRich ELSE ParseLitsLean
Slices == IF Mode = "eval" THEN (IF Rich THEN EvalSlices ELSE EvalSlicesLean) ELSE IF Rich THEN ParseSlicesRich ELSE ParseSlicesLean

Ops == [i \in DOMAIN Fields |-> OpField(Fields[i])] \o
       [i \in DOMAIN Lits |-> OpIndex(Lits[i])] \o
       [i \in DOMAIN Slices |-> OpSlice(Slices[i][1], Slices[i][2])] \o
       <<OpDeref, OpAddr, OpCanonic>>

-----------------------------------------------------------------------------
(* The enumeration as a state machine *)
Live(S) == Mode = "parse" \/ \E o \in S : o.r = "val"

Init == /\ \E i \in DOMAIN Bases : e = Bases[i]
        /\ out = IF Mode = "eval" THEN EvalBase(e) ELSE {}
        /\ d = 0

Extend(i) == /\ d < MaxDepth
             /\ Live(out)
             /\ e' = Apply(Ops[i], e)
             /\ out' = IF Mode = "eval" THEN StepAll(Ops[i], out) ELSE {}
             /\ d' = d + 1

Next == \E i \in DOMAIN Ops : Extend(i)
Spec == Init /\ [][Next]_vars

(* Printed once per distinct state. *)
Emit == PrintT(<<"CASE", ToJson([d |-> d, ast |-> e, exp |-> out,
                                 texts |-> [canon |-> ShowS(e, "canon"), full |-> ShowS(e, "full"),
                                            spaced |-> ShowS(e, "spaced")]])>>)

(* Sanity of the specification itself, checked on every enumerated expression:
   the incremental outcome equals the recursive definition, *&x = x wherever &x is certain,
   (~v).len = |v|, and a certain slice has r-l elements. *)
EvalAgrees == Mode = "eval" => out = Eval(e)
DerefAddr == (Mode = "eval" /\ \A o \in out : o.r = "val" /\ o.at.whole /\ o.at.p # <<>> /\ o.at.p # <<"?">>
                               /\ o.v.k # "opaque" /\ ~(o.v.k = "struct" /\ IsOpen(o.v)))
             => {q.v : q \in StepAll(OpDeref, StepAll(OpAddr, out))} = {o.v : o \in out}
CanonicLen == (Mode = "eval" /\ \A o \in out : o.r = "val" /\ o.v.k = "vec" /\ o.at.whole /\ o.at.p # <<>>)
              => \A o \in out : StepAll(OpField("len"), StepAll(OpCanonic, {o}))
                                = {Val(IntV(Len(o.v.items)), Sub(o.at, "len"))}
SliceLen == (Mode = "eval" /\ e.op = "slice" /\ e.l # <<>> /\ e.r # <<>> /\ Cardinality(out) = 1)
            => \A o \in out : (o.r = "val" /\ IsArrayLike(o.v)) => Len(o.v.items) = e.r[1] - e.l[1]

Inv == Emit /\ EvalAgrees /\ DerefAddr /\ CanonicLen /\ SliceLen

(* The environment as JSON, printed once. *)
ASSUME PrintT(<<"ENV", ToJson(Env)>>)
=============================================================================

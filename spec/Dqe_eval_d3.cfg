SPECIFICATION Spec
INVARIANT Inv
CONSTANTS
  Mode = "eval"
  MaxDepth = 3
  Rich = TRUE

SPECIFICATION Spec
VIEW View
INVARIANTS Emit DecoderEqualsAbstraction
CONSTANTS
  Mode = "hb"
  MaxDepth = 0
  Rot = 1
  LeafSet = "all"
  CtorSet = "all"
  MaxOps = 0
  NKeys = 0
  MaxBulk = 0
  History = FALSE
  Kinds = {"vec"}
  Elems = {"i16"}
  Scripts <- ScriptsNone
  MaxCap = 6
  HbBuckets = {1, 2, 4, 8}
  BtLevels = 3

\* thorough (2 + 2 rows): two compilation units sharing one source file (function 1 in unit 1, function 2 in unit 2):
\* the "next line only if the line has no code" decision must be taken for the FILE, not per unit
CONSTANTS
  MaxRows1 = 2
  MaxRows2 = 2
  Lens = {1, 2}
  Lines = {1, 2}
  Cols = {1}
  Stmts = {TRUE, FALSE}
  Pes = {TRUE, FALSE}
  Gaps = {0, 1}
  TwoUnits = TRUE
  PerUnitFallback = FALSE
  Allowed = {}
SPECIFICATION Spec
ALIAS Alias

fn main() {
    // libthread_db looks up ps_* symbols in the executable
    println!("cargo:rustc-link-arg=-Wl,--export-dynamic");
}

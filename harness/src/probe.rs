//! Probes that look at the debuggee through the OS, independently of the debugger's bookkeeping.

use object::{Object, ObjectSegment, ObjectSymbol};
use serde_json::{json, Value};
use std::collections::BTreeMap;
use std::fs;
use std::os::unix::fs::FileExt;

/// Static facts about an ELF file.
pub struct Elf {
    pub path: String,
    pub data: Vec<u8>,
    pub is_pie: bool,
    pub symbols: BTreeMap<String, (u64, u64)>, // name -> (value, size)
    /// executable PT_LOAD segments: (vaddr, file offset, file size)
    pub exec_segments: Vec<(u64, u64, u64)>,
}

impl Elf {
    pub fn load(path: &str) -> Elf {
        let data = fs::read(path).unwrap_or_else(|e| crate::tool_error(&format!("read {path}: {e}")));
        let (is_pie, symbols, exec_segments) = {
            let f = object::File::parse(&*data).unwrap_or_else(|e| crate::tool_error(&format!("parse {path}: {e}")));
            let is_pie = f.kind() == object::ObjectKind::Dynamic;
            let mut symbols = BTreeMap::new();
            for s in f.symbols() {
                if let Ok(n) = s.name() {
                    if !n.is_empty() && s.address() != 0 {
                        symbols.insert(n.to_string(), (s.address(), s.size()));
                    }
                }
            }
            let mut segs = vec![];
            for seg in f.segments() {
                let flags = seg.flags();
                let exec = matches!(flags, object::SegmentFlags::Elf { p_flags } if p_flags & 1 != 0);
                if exec {
                    let (off, sz) = seg.file_range();
                    segs.push((seg.address(), off, sz));
                }
            }
            (is_pie, symbols, segs)
        };
        Elf { path: path.to_string(), data, is_pie, symbols, exec_segments }
    }

    /// Address of a symbol whose (mangled or plain) name contains `needle` — exact match first.
    pub fn sym(&self, needle: &str) -> Option<u64> {
        if let Some(v) = self.symbols.get(needle) {
            return Some(v.0);
        }
        self.symbols.iter().find(|(k, _)| k.contains(needle)).map(|(_, v)| v.0)
    }
}

/// One line of /proc/<pid>/maps.
#[derive(Debug, Clone)]
pub struct MapLine {
    pub start: u64,
    pub end: u64,
    pub perms: String,
    pub offset: u64,
    pub path: String,
}

pub fn maps(pid: i32) -> Vec<MapLine> {
    let s = fs::read_to_string(format!("/proc/{pid}/maps")).unwrap_or_default();
    let mut out = vec![];
    for l in s.lines() {
        let mut it = l.split_whitespace();
        let range = it.next().unwrap_or("");
        let perms = it.next().unwrap_or("").to_string();
        let offset = u64::from_str_radix(it.next().unwrap_or("0"), 16).unwrap_or(0);
        let _dev = it.next();
        let _ino = it.next();
        let path = it.next().unwrap_or("").to_string();
        if let Some((a, b)) = range.split_once('-') {
            out.push(MapLine {
                start: u64::from_str_radix(a, 16).unwrap_or(0),
                end: u64::from_str_radix(b, 16).unwrap_or(0),
                perms,
                offset,
                path,
            });
        }
    }
    out
}

/// Load bias of `elf` in process `pid` (0 for non-PIE).
pub fn load_bias(pid: i32, elf: &Elf) -> u64 {
    if !elf.is_pie {
        return 0;
    }
    let canon = fs::canonicalize(&elf.path).map(|p| p.to_string_lossy().to_string()).unwrap_or(elf.path.clone());
    maps(pid)
        .iter()
        .filter(|m| m.path == canon || m.path == elf.path)
        .map(|m| m.start - m.offset)
        .min()
        .unwrap_or(0)
}

/// Read debuggee memory through /proc/<pid>/mem (no ptrace involved).
pub fn read_mem(pid: i32, addr: u64, len: usize) -> Option<Vec<u8>> {
    let f = fs::File::open(format!("/proc/{pid}/mem")).ok()?;
    let mut buf = vec![0u8; len];
    let mut done = 0usize;
    while done < len {
        match f.read_at(&mut buf[done..], addr + done as u64) {
            Ok(0) => return None,
            Ok(n) => done += n,
            Err(_) => return None,
        }
    }
    Some(buf)
}

pub fn write_mem(pid: i32, addr: u64, data: &[u8]) -> bool {
    let f = match fs::OpenOptions::new().write(true).open(format!("/proc/{pid}/mem")) {
        Ok(f) => f,
        Err(_) => return false,
    };
    f.write_all_at(data, addr).is_ok()
}

pub fn read_u64(pid: i32, addr: u64) -> Option<u64> {
    read_mem(pid, addr, 8).map(|b| u64::from_le_bytes(b.try_into().unwrap()))
}

/// Addresses (link-time / file vaddr) of the main object's executable bytes that differ
/// from the on-disk image.
pub fn patched_text(pid: i32, elf: &Elf) -> Option<Vec<u64>> {
    let bias = load_bias(pid, elf);
    let mut diff = vec![];
    for (vaddr, off, sz) in &elf.exec_segments {
        let mem = read_mem(pid, bias + vaddr, *sz as usize)?;
        let file = &elf.data[*off as usize..(*off + *sz) as usize];
        for (i, (a, b)) in mem.iter().zip(file.iter()).enumerate() {
            if a != b {
                diff.push(vaddr + i as u64);
            }
        }
    }
    Some(diff)
}

/// tid -> state letter from /proc/<pid>/task/*/stat  (t = tracing stop, R, S, D, Z, ...).
pub fn task_states(pid: i32) -> BTreeMap<i32, String> {
    let mut out = BTreeMap::new();
    if let Ok(rd) = fs::read_dir(format!("/proc/{pid}/task")) {
        for e in rd.flatten() {
            if let Ok(tid) = e.file_name().to_string_lossy().parse::<i32>() {
                if let Ok(s) = fs::read_to_string(format!("/proc/{pid}/task/{tid}/stat")) {
                    // state is the field after the last ')'
                    if let Some(idx) = s.rfind(')') {
                        let st = s[idx + 1..].split_whitespace().next().unwrap_or("?").to_string();
                        out.insert(tid, st);
                    }
                }
            }
        }
    }
    out
}

pub fn task_states_json(pid: i32) -> Value {
    let m = task_states(pid);
    let mut o = serde_json::Map::new();
    for (k, v) in m {
        o.insert(k.to_string(), json!(v));
    }
    Value::Object(o)
}

/// Does any process with this pid (or any live member of its thread group) exist?
pub fn process_exists(pid: i32) -> bool {
    match fs::read_to_string(format!("/proc/{pid}/stat")) {
        Ok(s) => {
            // a zombie still has an entry; report its state
            let st = s.rfind(')').map(|i| s[i + 1..].split_whitespace().next().unwrap_or("?").to_string());
            !matches!(st.as_deref(), None)
        }
        Err(_) => false,
    }
}

pub fn process_state(pid: i32) -> Option<String> {
    let s = fs::read_to_string(format!("/proc/{pid}/stat")).ok()?;
    let i = s.rfind(')')?;
    Some(s[i + 1..].split_whitespace().next().unwrap_or("?").to_string())
}

/// SigPnd / ShdPnd masks of a task.
pub fn pending_signals(pid: i32, tid: i32) -> (u64, u64) {
    let s = fs::read_to_string(format!("/proc/{pid}/task/{tid}/status")).unwrap_or_default();
    let mut a = 0;
    let mut b = 0;
    for l in s.lines() {
        if let Some(v) = l.strip_prefix("SigPnd:") {
            a = u64::from_str_radix(v.trim(), 16).unwrap_or(0);
        }
        if let Some(v) = l.strip_prefix("ShdPnd:") {
            b = u64::from_str_radix(v.trim(), 16).unwrap_or(0);
        }
    }
    (a, b)
}

//! Launching debuggees under the real `Debugger` and recording what it tells its front-end.

use bugstalker::debugger::address::RelocatedAddress;
use bugstalker::debugger::process::{Child, Installed};
use bugstalker::debugger::register::debug::BreakCondition;
use bugstalker::debugger::variable::value::Value as BsValue;
use bugstalker::debugger::{
    rust, Debugger, DebuggerBuilder, EventHook, FunctionInfo, PlaceDescriptor, StopReason,
};
use nix::sys::signal::Signal;
use nix::unistd::Pid;
use serde_json::{json, Value};
use std::io::Read;
use std::path::Path;
use std::sync::{Arc, Mutex, Once};

static INIT: Once = Once::new();

pub fn init() {
    INIT.call_once(|| {
        rust::Environment::init(None);
    });
}

/// Captured output of the debuggee (both pipes are drained by background threads).
#[derive(Clone, Default)]
pub struct Output {
    pub stdout: Arc<Mutex<Vec<u8>>>,
    pub stderr: Arc<Mutex<Vec<u8>>>,
    /// number of drain threads started / that have seen end-of-file
    pub drains: Arc<std::sync::atomic::AtomicUsize>,
    pub eofs: Arc<std::sync::atomic::AtomicUsize>,
}

impl Output {
    pub fn stdout_string(&self) -> String {
        String::from_utf8_lossy(&self.stdout.lock().unwrap()).to_string()
    }
    /// Waits until every pipe has been read to its end (all writers gone: the program has exited and the
    /// debugger has been dropped), so that what was written is what is reported - however late the
    /// drain threads are scheduled.  Gives up after `max` (a process left behind keeps the pipe open).
    pub fn wait_eof(&self, max: std::time::Duration) -> bool {
        use std::sync::atomic::Ordering::SeqCst;
        let t0 = std::time::Instant::now();
        while self.eofs.load(SeqCst) < self.drains.load(SeqCst) {
            if t0.elapsed() > max {
                return false;
            }
            std::thread::sleep(std::time::Duration::from_millis(5));
        }
        true
    }
    /// registers one more reader thread; the returned counter is bumped by it at end-of-file
    pub fn reader_started(&self) -> Arc<std::sync::atomic::AtomicUsize> {
        self.drains.fetch_add(1, std::sync::atomic::Ordering::SeqCst);
        self.eofs.clone()
    }
    pub fn stderr_string(&self) -> String {
        String::from_utf8_lossy(&self.stderr.lock().unwrap()).to_string()
    }
}

fn drain(mut r: os_pipe::PipeReader, into: Arc<Mutex<Vec<u8>>>, eofs: Arc<std::sync::atomic::AtomicUsize>) {
    std::thread::spawn(move || {
        let mut buf = [0u8; 4096];
        loop {
            match r.read(&mut buf) {
                Ok(0) | Err(_) => {
                    eofs.fetch_add(1, std::sync::atomic::Ordering::SeqCst);
                    return;
                }
                Ok(n) => into.lock().unwrap().extend_from_slice(&buf[..n]),
            }
        }
    });
}

/// drain one more pipe into the captured stdout / stderr of `out`
pub fn drain_more(r: os_pipe::PipeReader, out: &Output, stderr: bool) {
    let buf = if stderr { out.stderr.clone() } else { out.stdout.clone() };
    drain(r, buf, out.reader_started());
}

/// fork + SIGSTOP + PTRACE_SEIZE (ADDR_NO_RANDOMIZE), like the repository's own tests.
/// NB: `install` does `waitpid(-1)`: no other child of this process may be in flight.
pub fn spawn(prog: &str, args: &[String]) -> (Child<Installed>, Output) {
    init();
    let out = Output::default();
    let (r1, w1) = os_pipe::pipe().unwrap();
    let (r2, w2) = os_pipe::pipe().unwrap();
    drain(r1, out.stdout.clone(), out.reader_started());
    drain(r2, out.stderr.clone(), out.reader_started());
    let tpl = Child::new(prog, args.to_vec(), None::<&Path>, w1, w2);
    let child = tpl
        .install()
        .unwrap_or_else(|e| crate::tool_error(&format!("install {prog}: {e}")));
    (child, out)
}

/// Everything the debugger reports through its hook interface, in order.
#[derive(Clone, Default)]
pub struct Recorder {
    pub events: Arc<Mutex<Vec<Value>>>,
}

impl Recorder {
    pub fn take(&self) -> Vec<Value> {
        std::mem::take(&mut *self.events.lock().unwrap())
    }
    fn push(&self, v: Value) {
        self.events.lock().unwrap().push(v);
    }
}

pub fn place_json(p: &Option<PlaceDescriptor>) -> Value {
    match p {
        None => Value::Null,
        Some(p) => json!({
            "file": p.file.to_string_lossy(),
            "line": p.line_number,
            "col": p.column_number,
            "addr": u64::from(p.address),
            "is_stmt": p.is_stmt,
        }),
    }
}

fn func_json(f: &Option<&FunctionInfo>) -> Value {
    match f {
        None => Value::Null,
        Some(f) => json!({"name": f.name, "full": f.full_name()}),
    }
}

impl EventHook for Recorder {
    fn on_breakpoint(
        &self,
        pc: RelocatedAddress,
        num: u32,
        place: Option<PlaceDescriptor>,
        function: Option<&FunctionInfo>,
        thread_num: Option<u32>,
    ) -> anyhow::Result<()> {
        self.push(json!({"hook": "breakpoint", "pc": u64::from(pc), "num": num,
            "place": place_json(&place), "func": func_json(&function), "thread": thread_num}));
        Ok(())
    }

    fn on_watchpoint(
        &self,
        pc: RelocatedAddress,
        num: u32,
        place: Option<PlaceDescriptor>,
        cond: BreakCondition,
        dqe: Option<&str>,
        old: Option<&BsValue>,
        new: Option<&BsValue>,
        end_of_scope: bool,
    ) -> anyhow::Result<()> {
        self.push(json!({"hook": "watchpoint", "pc": u64::from(pc), "num": num,
            "place": place_json(&place), "cond": format!("{cond:?}"), "dqe": dqe,
            "old": old.map(|v| format!("{v:?}")), "new": new.map(|v| format!("{v:?}")),
            "end_of_scope": end_of_scope}));
        Ok(())
    }

    fn on_step(
        &self,
        pc: RelocatedAddress,
        place: Option<PlaceDescriptor>,
        function: Option<&FunctionInfo>,
        thread_num: Option<u32>,
    ) -> anyhow::Result<()> {
        self.push(json!({"hook": "step", "pc": u64::from(pc), "place": place_json(&place),
            "func": func_json(&function), "thread": thread_num}));
        Ok(())
    }

    fn on_async_step(
        &self,
        pc: RelocatedAddress,
        place: Option<PlaceDescriptor>,
        function: Option<&FunctionInfo>,
        task_id: u64,
        task_completed: bool,
    ) -> anyhow::Result<()> {
        self.push(json!({"hook": "async_step", "pc": u64::from(pc), "place": place_json(&place),
            "func": func_json(&function), "task": task_id, "completed": task_completed}));
        Ok(())
    }

    fn on_signal(&self, signal: Signal) {
        self.push(json!({"hook": "signal", "sig": signal.as_str(), "signo": signal as i32}));
    }

    fn on_exit(&self, code: i32) {
        self.push(json!({"hook": "exit", "code": code}));
    }

    fn on_process_install(&self, pid: Pid, _: Option<&object::File>) {
        self.push(json!({"hook": "install", "pid": pid.as_raw()}));
    }
}

/// Build a debugger for `prog` with a recording hook.
pub fn launch(prog: &str, args: &[String]) -> (Debugger, Recorder, Output, Pid) {
    let (child, out) = spawn(prog, args);
    let pid = child.pid();
    let rec = Recorder::default();
    let dbg = DebuggerBuilder::new()
        .with_hooks(rec.clone())
        .build(child)
        .unwrap_or_else(|e| crate::tool_error(&format!("build debugger for {prog}: {e}")));
    (dbg, rec, out, pid)
}

pub fn stop_json(r: &StopReason) -> Value {
    match r {
        StopReason::DebugeeExit(c) => json!({"kind": "exit", "code": c}),
        StopReason::DebugeeStart => json!({"kind": "start"}),
        StopReason::Breakpoint(p, a) => json!({"kind": "breakpoint", "tid": p.as_raw(), "pc": u64::from(*a)}),
        StopReason::Watchpoint(p, a, t) => {
            json!({"kind": "watchpoint", "tid": p.as_raw(), "pc": u64::from(*a), "ty": format!("{t:?}")})
        }
        StopReason::SignalStop(p, s) => json!({"kind": "signal", "tid": p.as_raw(), "sig": s.as_str()}),
        StopReason::NoSuchProcess(p) => json!({"kind": "nosuchprocess", "tid": p.as_raw()}),
    }
}

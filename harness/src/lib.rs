//! Common pieces of the verification harness: spawning debuggees, a recording event hook,
//! OS-level probes that do not trust the debugger, small JSON helpers.

pub mod dbg;
pub mod probe;

use serde_json::Value;
use std::io::Write;

/// Read a JSON file.
pub fn read_json(path: &str) -> Value {
    let s = std::fs::read_to_string(path).unwrap_or_else(|e| tool_error(&format!("read {path}: {e}")));
    serde_json::from_str(&s).unwrap_or_else(|e| tool_error(&format!("parse {path}: {e}")))
}

/// Read an ndjson file.
pub fn read_ndjson(path: &str) -> Vec<Value> {
    let s = std::fs::read_to_string(path).unwrap_or_else(|e| tool_error(&format!("read {path}: {e}")));
    s.lines()
        .filter(|l| !l.trim().is_empty())
        .map(|l| serde_json::from_str(l).unwrap_or_else(|e| tool_error(&format!("parse {path}: {e}"))))
        .collect()
}

/// ndjson writer that flushes every line (a crashing worker still leaves its prefix behind).
pub struct NdjsonOut {
    f: std::fs::File,
}

impl NdjsonOut {
    pub fn create(path: &str) -> Self {
        Self {
            f: std::fs::File::create(path).unwrap_or_else(|e| tool_error(&format!("create {path}: {e}"))),
        }
    }
    pub fn emit(&mut self, v: &Value) {
        let mut s = serde_json::to_string(v).unwrap();
        s.push('\n');
        let _ = self.f.write_all(s.as_bytes());
        let _ = self.f.flush();
    }
}

/// Exit code 2: not a statement about the code under test.
pub fn tool_error(msg: &str) -> ! {
    eprintln!("TOOL-ERROR: {msg}");
    std::process::exit(2)
}

/// Run `f`, turning a panic of the code under test into data.
pub fn catch<T>(f: impl FnOnce() -> T) -> Result<T, String> {
    match std::panic::catch_unwind(std::panic::AssertUnwindSafe(f)) {
        Ok(v) => Ok(v),
        Err(e) => {
            let msg = if let Some(s) = e.downcast_ref::<&str>() {
                s.to_string()
            } else if let Some(s) = e.downcast_ref::<String>() {
                s.clone()
            } else {
                "panic".to_string()
            };
            Err(msg)
        }
    }
}

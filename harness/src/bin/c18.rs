//! c18: replays one load/breakpoint scenario (a behaviour of spec/Reloc.tla projected onto what the
//! user controls) against the real `Debugger` and emits one observation record per step (ndjson).
//!
//! usage: c18 <scenario.json> <out.ndjson>
//! scenario: {"exe": path, "args": [..], "mode": "launch"|"attach", "gate": "pre"|"mid",
//!            "steps": [{"op":"req","rid":1,"kind":"fn","name":"lib_add"}
//!                     |{"op":"req","rid":2,"kind":"line","file":"lib1.rs","line":16}
//!                     |{"op":"req","rid":3,"kind":"addr","addr":<absolute address>}
//!                     |{"op":"req","rid":3,"kind":"addr","obj":<path>,"link":<link address>}   (bias measured now)
//!                     |{"op":"start"}|{"op":"cont"}]}
//!
//! Request protocol (what the console does, extended to addresses through the public API):
//! `set_breakpoint_at_*`; if that is refused, `add_deferred_at_*`.
//!
//! Observations mix what the debugger says (return values, hook events, snapshot, shared_libs,
//! backtrace, arguments) with what the OS shows (/proc/<pid>/maps, rip from /proc/<pid>/task/<tid>/syscall,
//! the byte at every listed breakpoint address through /proc/<pid>/mem).

use bugstalker::debugger::address::{Address, RelocatedAddress};
use bugstalker::debugger::variable::dqe::{Dqe, Selector};
use bugstalker::debugger::{Debugger, DebuggerBuilder};
use nix::unistd::Pid;
use serde_json::{json, Value};
use std::collections::BTreeMap;
use std::io::Write;
use std::os::unix::io::AsRawFd;
use vharness::dbg::{self, stop_json, Output, Recorder};
use vharness::probe;
use vharness::{catch, read_json, NdjsonOut};

fn proc_regs(pid: i32, tid: i32) -> Option<(u64, u64)> {
    let s = std::fs::read_to_string(format!("/proc/{pid}/task/{tid}/syscall")).ok()?;
    let parts: Vec<&str> = s.split_whitespace().collect();
    if parts.len() < 2 {
        return None;
    }
    let h = |x: &str| u64::from_str_radix(x.trim_start_matches("0x"), 16).ok();
    Some((h(parts[parts.len() - 2])?, h(parts[parts.len() - 1])?))
}

/// lowest PT_LOAD vaddr (page aligned) of an ELF file, None if it is not an ELF file
fn min_load_vaddr(path: &str, cache: &mut BTreeMap<String, Option<(u64, bool)>>) -> Option<(u64, bool)> {
    if let Some(v) = cache.get(path) {
        return *v;
    }
    let v = (|| {
        // program headers only (the files can be large)
        use std::io::Read;
        let mut f = std::fs::File::open(path).ok()?;
        let mut h = [0u8; 64];
        f.read_exact(&mut h).ok()?;
        if &h[..4] != b"\x7fELF" || h[4] != 2 {
            return None;
        }
        let e_type = u16::from_le_bytes([h[0x10], h[0x11]]);
        let phoff = u64::from_le_bytes(h[0x20..0x28].try_into().unwrap());
        let phentsize = u16::from_le_bytes([h[0x36], h[0x37]]) as usize;
        let phnum = u16::from_le_bytes([h[0x38], h[0x39]]) as usize;
        let mut ph = vec![0u8; phentsize * phnum];
        std::os::unix::fs::FileExt::read_exact_at(&f, &mut ph, phoff).ok()?;
        let mut lo: Option<u64> = None;
        for i in 0..phnum {
            let e = &ph[i * phentsize..(i + 1) * phentsize];
            if u32::from_le_bytes(e[0..4].try_into().unwrap()) == 1 {
                let va = u64::from_le_bytes(e[16..24].try_into().unwrap());
                lo = Some(lo.map_or(va, |x: u64| x.min(va)));
            }
        }
        Some((lo? & !0xfff, e_type == 3))
    })();
    cache.insert(path.to_string(), v);
    v
}

/// Mapped ELF objects as the kernel shows them: path -> {start, end, bias}
fn mapped_objects(pid: i32, cache: &mut BTreeMap<String, Option<(u64, bool)>>) -> Value {
    let mut by: BTreeMap<String, (u64, u64, bool)> = BTreeMap::new();
    for m in probe::maps(pid) {
        if !m.path.starts_with('/') {
            continue;
        }
        let e = by.entry(m.path.clone()).or_insert((m.start, m.end, false));
        e.0 = e.0.min(m.start);
        e.1 = e.1.max(m.end);
        e.2 |= m.perms.contains('x');
    }
    let mut out = vec![];
    for (p, (lo, hi, x)) in by {
        if let Some((v, dynamic)) = min_load_vaddr(&p, cache) {
            out.push(json!({"path": p, "start": lo, "end": hi, "exec": x, "bias": lo.wrapping_sub(v), "dyn": dynamic}));
        }
    }
    json!(out)
}

fn views_json(v: &[bugstalker::debugger::BreakpointView], pid: i32) -> Value {
    Value::Array(
        v.iter()
            .map(|bp| {
                let (kind, a) = match bp.addr {
                    Address::Relocated(r) => ("reloc", u64::from(r)),
                    Address::Global(g) => ("global", u64::from(g)),
                };
                let byte = if kind == "reloc" { probe::read_mem(pid, a, 1).map(|b| b[0]) } else { None };
                json!({"num": bp.number, "kind": kind, "addr": a, "byte": byte,
                       "line": bp.place.as_ref().map(|p| p.line_number),
                       "file": bp.place.as_ref().map(|p| p.file.to_string_lossy().to_string())})
            })
            .collect(),
    )
}

struct Ctx {
    dbg: Option<Debugger>,
    rec: Recorder,
    out: Output,
    pid: i32,
    elfc: BTreeMap<String, Option<(u64, bool)>>,
}

fn canon(p: &std::path::Path) -> String {
    std::fs::canonicalize(p).map(|c| c.to_string_lossy().to_string()).unwrap_or(p.to_string_lossy().to_string())
}

fn observe(cx: &mut Ctx, stopped: bool, started: bool) -> Value {
    let mut o = serde_json::Map::new();
    let st = probe::process_state(cx.pid);
    let alive = st.as_deref().map(|s| s != "Z").unwrap_or(false);
    o.insert("alive".into(), json!(alive));
    o.insert("proc_state".into(), json!(st));
    o.insert("tasks".into(), probe::task_states_json(cx.pid));
    if alive && started {
        o.insert("objects".into(), mapped_objects(cx.pid, &mut cx.elfc));
    }
    let Some(d) = cx.dbg.as_ref() else { return Value::Object(o) };
    let snap = d.breakpoints_snapshot();
    o.insert("snapshot".into(), views_json(&snap, cx.pid));
    drop(snap);
    match catch(|| d.shared_libs()) {
        Ok(libs) => {
            let l: Vec<Value> = libs
                .iter()
                .map(|r| {
                    json!({"path": r.path.to_string_lossy(), "canon": canon(&r.path), "debug": r.has_debug_info,
                           "from": r.range.as_ref().map(|x| u64::from(x.from)), "to": r.range.as_ref().map(|x| u64::from(x.to))})
                })
                .collect();
            o.insert("shared_libs".into(), json!(l));
        }
        Err(p) => {
            o.insert("shared_libs_panic".into(), json!(p));
        }
    }
    if !alive || !stopped {
        return Value::Object(o);
    }
    let tid = d.ecx().pid_on_focus().as_raw();
    o.insert("focus".into(), json!(tid));
    o.insert("ecx_pc".into(), json!(u64::from(d.ecx().location().pc)));
    o.insert("ecx_global_pc".into(), json!(u64::from(d.ecx().location().global_pc)));
    if let Some((sp, pc)) = proc_regs(cx.pid, tid) {
        o.insert("rip".into(), json!(pc));
        o.insert("rsp".into(), json!(sp));
    }
    match catch(|| d.backtrace(Pid::from_raw(tid))) {
        Ok(Ok(bt)) => {
            let frames: Vec<Value> = bt
                .iter()
                .map(|f| {
                    json!({"ip": u64::from(f.ip), "fn": f.func_name, "start": f.fn_start_ip.map(u64::from),
                       "line": f.place.as_ref().map(|p| p.line_number),
                       "file": f.place.as_ref().map(|p| p.file.to_string_lossy().to_string())})
                })
                .collect();
            o.insert("bt".into(), json!(frames));
        }
        Ok(Err(e)) => {
            o.insert("bt_err".into(), json!(e.to_string()));
        }
        Err(p) => {
            o.insert("bt_panic".into(), json!(p));
        }
    }
    let args = match catch(|| d.read_argument(Dqe::Variable(Selector::Any))) {
        Ok(Ok(v)) => Value::Array(
            v.iter()
                .map(|q| json!({"name": q.identity().name.clone(), "value": scalar_json(q.value())}))
                .collect(),
        ),
        Ok(Err(e)) => json!({"err": e.to_string()}),
        Err(p) => json!({"panic": p}),
    };
    o.insert("args".into(), args);
    Value::Object(o)
}

fn scalar_json(v: &bugstalker::debugger::variable::value::Value) -> Value {
    use bugstalker::debugger::variable::value::{SupportedScalar as S, Value as V};
    match v {
        V::Scalar(s) => match &s.value {
            Some(S::U64(x)) => json!(x),
            Some(S::Usize(x)) => json!(x),
            Some(S::I64(x)) => json!(x),
            Some(S::U32(x)) => json!(x),
            Some(S::I32(x)) => json!(x),
            Some(other) => json!(format!("{other:?}")),
            None => Value::Null,
        },
        other => json!(format!("{other:?}").chars().take(120).collect::<String>()),
    }
}

fn do_req(cx: &mut Ctx, c: &Value) -> Value {
    let pid = cx.pid;
    let kind = c["kind"].as_str().unwrap_or("");
    // an address request given as (object, link address): the user reads the load address from the maps now
    let mut abs = c["addr"].as_u64();
    if kind == "addr" && abs.is_none() {
        let objs = mapped_objects(pid, &mut cx.elfc);
        let want = c["obj"].as_str().unwrap_or("");
        abs = objs
            .as_array()
            .and_then(|a| a.iter().find(|o| o["path"].as_str() == Some(want)))
            .and_then(|o| o["bias"].as_u64())
            .map(|b| b.wrapping_add(c["link"].as_u64().unwrap_or(0)));
        if abs.is_none() {
            return json!({"ok": false, "err": "object not mapped (scenario out of step)", "tool": true});
        }
    }
    let Some(d) = cx.dbg.as_mut() else { return json!({"ok": false, "err": "debugger gone"}) };
    let r: Result<Result<Value, String>, String> = catch(|| match kind {
        "fn" => d.set_breakpoint_at_fn(c["name"].as_str().unwrap()).map(|v| views_json(&v, pid)).map_err(|e| e.to_string()),
        "line" => d
            .set_breakpoint_at_line(c["file"].as_str().unwrap(), c["line"].as_u64().unwrap())
            .map(|v| views_json(&v, pid))
            .map_err(|e| e.to_string()),
        "addr" => d
            .set_breakpoint_at_addr(RelocatedAddress::from(abs.unwrap()))
            .map(|v| views_json(&[v], pid))
            .map_err(|e| e.to_string()),
        other => Err(format!("unknown kind {other}")),
    });
    match r {
        Ok(Ok(v)) => json!({"ok": true, "ret": v, "deferred": false, "abs": abs}),
        Ok(Err(e)) => {
            // refused: defer it (console: "Add deferred breakpoint for future shared library load? y")
            let r2 = catch(|| match kind {
                "fn" => d.add_deferred_at_function(c["name"].as_str().unwrap()),
                "line" => d.add_deferred_at_line(c["file"].as_str().unwrap(), c["line"].as_u64().unwrap()),
                _ => d.add_deferred_at_addr(RelocatedAddress::from(abs.unwrap())),
            });
            json!({"ok": r2.is_ok(), "deferred": true, "refusal": e, "panic": r2.err(), "abs": abs})
        }
        Err(p) => json!({"ok": false, "panic": p, "abs": abs}),
    }
}

fn main() {
    let argv: Vec<String> = std::env::args().collect();
    if argv.len() < 3 {
        vharness::tool_error("usage: c18 <scenario.json> <out.ndjson>");
    }
    let t0 = std::time::Instant::now();
    let sc = read_json(&argv[1]);
    let mut out = NdjsonOut::create(&argv[2]);
    let exe = sc["exe"].as_str().unwrap_or_else(|| vharness::tool_error("scenario.exe")).to_string();
    let args: Vec<String> =
        sc["args"].as_array().map(|a| a.iter().map(|x| x.as_str().unwrap_or("").to_string()).collect()).unwrap_or_default();
    let attach = sc["mode"].as_str() == Some("attach");
    std::panic::set_hook(Box::new(|_| {}));
    unsafe { libc::prctl(libc::PR_SET_PDEATHSIG, libc::SIGKILL) };

    let mut gate_w: Option<std::fs::File> = None;
    let (d, rec, outp, pid) = if attach {
        // a natively started process (no ADDR_NO_RANDOMIZE: the kernel randomises every load address),
        // parked at its gate; then DebuggerBuilder::build_attached
        dbg::init();
        let (gr, gw) = os_pipe::pipe().unwrap();
        let (or, ow) = os_pipe::pipe().unwrap();
        let outp = Output::default();
        {
            let into = outp.stdout.clone();
            let mut or = or;
            std::thread::spawn(move || {
                use std::io::Read;
                let mut buf = [0u8; 4096];
                while let Ok(n) = or.read(&mut buf) {
                    if n == 0 {
                        break;
                    }
                    into.lock().unwrap().extend_from_slice(&buf[..n]);
                }
            });
        }
        let child = std::process::Command::new(&exe)
            .args(&args)
            .env("C18_GATE", sc["gate"].as_str().unwrap_or("pre"))
            .stdin(unsafe { <std::process::Stdio as std::os::unix::io::FromRawFd>::from_raw_fd(libc::dup(gr.as_raw_fd())) })
            .stdout(ow.try_clone().unwrap())
            .stderr(std::process::Stdio::null())
            .spawn()
            .unwrap_or_else(|e| vharness::tool_error(&format!("spawn {exe}: {e}")));
        drop(gr);
        let pid = child.id() as i32;
        std::mem::forget(child);
        // wait until it blocks in read() at the gate
        let mut parked = false;
        for _ in 0..400 {
            std::thread::sleep(std::time::Duration::from_millis(10));
            let sysc = std::fs::read_to_string(format!("/proc/{pid}/syscall")).unwrap_or_default();
            if sysc.starts_with("0 0x0 ") || sysc.starts_with("0 0 ") {
                parked = true;
                break;
            }
        }
        if !parked {
            unsafe { libc::kill(pid, libc::SIGKILL) };
            vharness::tool_error("puppet did not reach its gate");
        }
        gate_w = Some(unsafe { <std::fs::File as std::os::unix::io::FromRawFd>::from_raw_fd(libc::dup(gw.as_raw_fd())) });
        drop(gw);
        let rec = Recorder::default();
        let (_r2, w2) = os_pipe::pipe().unwrap();
        let built = catch(|| DebuggerBuilder::new().with_hooks(rec.clone()).build_attached(Pid::from_raw(pid), ow, w2));
        match built {
            Ok(Ok(d)) => (d, rec, outp, Pid::from_raw(pid)),
            Ok(Err(e)) => {
                out.emit(&json!({"ev": "meta", "pid": pid, "mode": "attach", "build_err": e.to_string()}));
                unsafe { libc::kill(pid, libc::SIGKILL) };
                out.emit(&json!({"ev": "end", "stdout": ""}));
                return;
            }
            Err(p) => {
                out.emit(&json!({"ev": "meta", "pid": pid, "mode": "attach", "build_panic": p}));
                unsafe { libc::kill(pid, libc::SIGKILL) };
                out.emit(&json!({"ev": "end", "stdout": ""}));
                return;
            }
        }
    } else {
        dbg::launch(&exe, &args)
    };
    let mut cx = Ctx { dbg: Some(d), rec, out: outp, pid: pid.as_raw(), elfc: BTreeMap::new() };
    out.emit(&json!({"ev": "meta", "pid": cx.pid, "mode": if attach { "attach" } else { "launch" }, "t_ms": t0.elapsed().as_millis() as u64}));
    let o0 = observe(&mut cx, attach, attach);
    out.emit(&json!({"ev": "obs", "k": -1, "cmd": {"op": "init"}, "res": {"ok": true}, "hooks": cx.rec.take(), "after": o0}));

    let steps = sc["steps"].as_array().cloned().unwrap_or_default();
    let mut started = attach;
    let mut gate_open = false;
    for (k, c) in steps.iter().enumerate() {
        let op = c["op"].as_str().unwrap_or("");
        let res = match op {
            "req" => do_req(&mut cx, c),
            "start" | "cont" => {
                if attach && !gate_open {
                    if let Some(w) = gate_w.as_mut() {
                        let _ = w.write_all(b"g");
                    }
                    gate_open = true;
                }
                let d = cx.dbg.as_mut().unwrap();
                let r = catch(|| {
                    if op == "start" {
                        d.start_debugee_with_reason()
                    } else {
                        d.continue_debugee_with_reason()
                    }
                });
                match r {
                    Ok(Ok(sr)) => {
                        started = true;
                        json!({"ok": true, "ret": stop_json(&sr)})
                    }
                    Ok(Err(e)) => json!({"ok": false, "err": e.to_string()}),
                    Err(p) => json!({"ok": false, "panic": p}),
                }
            }
            other => json!({"ok": false, "err": format!("unknown op {other}"), "tool": true}),
        };
        let hooks = cx.rec.take();
        let panicked = res.get("panic").map(|p| !p.is_null()).unwrap_or(false) && op != "req";
        // after a failed run command the debuggee may be running unsupervised: give it a moment, then look
        if op != "req" && res["ok"] == json!(false) {
            std::thread::sleep(std::time::Duration::from_millis(300));
        }
        let stopped = started && res["ok"] == json!(true) && res["ret"]["kind"] != json!("exit");
        let after = if panicked { json!({"status": "panicked", "proc_state": probe::process_state(cx.pid)}) } else { observe(&mut cx, stopped || (op == "req" && started), started || op != "req") };
        out.emit(&json!({"ev": "obs", "k": k, "cmd": c, "res": res, "hooks": hooks, "after": after, "t_ms": t0.elapsed().as_millis() as u64}));
        if op != "req" && res["ok"] != json!(true) {
            break; // the session is lost (error or panic while running)
        }
        if res["ret"]["kind"] == json!("exit") {
            break;
        }
    }
    let st_before = probe::process_state(cx.pid);
    if let Some(d) = cx.dbg.take() {
        let r = catch(move || drop(d));
        std::thread::sleep(std::time::Duration::from_millis(40));
        out.emit(&json!({"ev": "teardown", "ok": r.is_ok(), "panic": r.err(), "proc_state_before": st_before,
            "proc_state": probe::process_state(cx.pid)}));
    }
    std::thread::sleep(std::time::Duration::from_millis(30));
    out.emit(&json!({"ev": "end", "stdout": cx.out.stdout_string(), "stderr": cx.out.stderr_string()}));
    unsafe { libc::kill(cx.pid, libc::SIGKILL) };
}

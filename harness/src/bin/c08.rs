//! C08 worker: owns ONE real session (console: `Debugger` + the generic command handler + the terminal
//! hook; DAP: `DebugSession::run` on a real TCP `Transport`) on a puppet and executes requests from
//! stdin one by one, printing one JSON result per request on stdout.
//!
//!   c08 console <puppet> [puppet args..]
//!   c08 dap
//!
//! Requests (one JSON object per line):
//!   console  {"op":"line","text":..,"yes":bool,"prog":[..]}   one console line through `Command::parse` and
//!                                                              `CommandHandler::handle_command`, followed by
//!                                                              the sentinel `break info`
//!            {"op":"read","addr":..,"len":..} {"op":"write","addr":..,"hex":..} {"op":"maps"} {"op":"vars"}
//!            {"op":"locate","expr":"x"}                        address/size of a place (orchestration only)
//!   dap      {"op":"msg","msg":{..}}                           one DAP message (JSON value, framed by the worker)
//!            {"op":"raw","bytes":"..","close":bool}            raw bytes on the socket
//!            every request is followed by the sentinel `threads`
//!
//! The worker never judges.  A panic inside the pure `Command::parse` stage is caught (the session state
//! is untouched) and reported as {"r":"panic"}; any other panic kills the worker: the panic hook prints
//! `C08-PANIC {json}` on stderr and the process exits; tools/checks/c08.py turns that (or a signal, or
//! its watchdog) into a record and starts a fresh worker.
use bugstalker::dap::transport::{new_tcp_transport, DapTransport};
use bugstalker::dap::yadap::session::DebugSession;
use bugstalker::debugger::address::RelocatedAddress;
use bugstalker::debugger::register::debug::BreakCondition;
use bugstalker::debugger::variable::dqe::Dqe;
use bugstalker::debugger::variable::value::Value as BsValue;
use bugstalker::debugger::{Debugger, DebuggerBuilder, EventHook, FunctionInfo, PlaceDescriptor};
use bugstalker::ui::command::parser::expression;
use bugstalker::ui::command::{Command, CommandError};
use bugstalker::ui::config::{self, Theme, UIConfig};
use bugstalker::ui::console::hook::TerminalHook;
use bugstalker::ui::generic::command_handler::{CommandHandler, Completer, ProgramTaker, YesQuestion};
use bugstalker::ui::generic::file::FileView;
use bugstalker::ui::generic::help::Helper;
use bugstalker::ui::generic::print::{ExternalPrinter, InStringPrinter};
use bugstalker::ui::generic::trigger::{TriggerRegistry, UserProgram};
use chumsky::Parser;
use nix::sys::signal::Signal;
use nix::unistd::Pid;
use serde_json::{json, Value};
use std::cell::{Cell, RefCell};
use std::io::{BufRead, Read, Write};
use std::rc::Rc;
use std::sync::atomic::{AtomicBool, AtomicI32, Ordering};
use std::sync::{Arc, Mutex};
use std::time::{Duration, Instant};
use vharness::{catch, probe, tool_error};

// ------------------------------------------------------------------------------------------------
// panic reporting
// ------------------------------------------------------------------------------------------------
static LAST_PANIC: Mutex<Option<Value>> = Mutex::new(None);
static EVENTS: Mutex<Vec<String>> = Mutex::new(Vec::new());

fn repo_root() -> String {
    std::env::var("C08_REPO").unwrap_or_else(|_| "/repo".to_string())
}

/// `src/..rs:LINE` of the first mention of a file of the repository under test in `text`.
fn site_in(text: &str, root: &str) -> Option<String> {
    let pat = format!("{}/src/", root.trim_end_matches('/'));
    let mut from = 0;
    while let Some(i) = text[from..].find(&pat) {
        let start = from + i + pat.len() - 4;
        let rest = &text[start..];
        let end = rest.find(".rs:").map(|e| e + 4);
        if let Some(e) = end {
            let digits: String = rest[e..].chars().take_while(|c| c.is_ascii_digit()).collect();
            if !digits.is_empty() && !rest[..e].contains(char::is_whitespace) {
                return Some(format!("{}{}", &rest[..e], digits));
            }
        }
        from = start + 4;
    }
    None
}

fn install_panic_hook() {
    std::panic::set_hook(Box::new(|info| {
        let msg = if let Some(s) = info.payload().downcast_ref::<&str>() {
            s.to_string()
        } else if let Some(s) = info.payload().downcast_ref::<String>() {
            s.clone()
        } else {
            "panic".to_string()
        };
        let root = repo_root();
        let loc = info.location().map(|l| format!("{}:{}", l.file(), l.line())).unwrap_or_default();
        let mut site = site_in(&msg, &root);
        let mut func = String::new();
        if site.is_none() {
            // the innermost frame of the repository under test: its file:line is the site, its symbol the
            // function (line numbers move when the file is edited, the function name does not)
            let bt = std::backtrace::Backtrace::force_capture().to_string();
            let pat = format!("{}/src/", root.trim_end_matches('/'));
            let lines: Vec<&str> = bt.lines().collect();
            for (i, l) in lines.iter().enumerate() {
                if l.trim_start().starts_with("at ") && l.contains(&pat) && i > 0 {
                    site = site_in(l, &root);
                    let sym = lines[i - 1].trim();
                    let sym = sym.split_once(": ").map(|x| x.1).unwrap_or(sym);
                    func = sym.replace("::{{closure}}", "").to_string();
                    break;
                }
            }
            if site.is_none() {
                site = site_in(&loc, &root);
            }
        }
        let site = site.unwrap_or_else(|| format!("ext:{loc}"));
        let thread = std::thread::current().name().unwrap_or("?").to_string();
        let v = json!({"msg": msg.chars().take(400).collect::<String>(), "loc": loc, "site": site, "func": func, "thread": thread});
        eprintln!("C08-PANIC {v}");
        *LAST_PANIC.lock().unwrap() = Some(v);
    }));
}

fn install_event_sink() {
    bugstalker::verif::set_event_sink(Some(Arc::new(|site: &'static str, payload: &str| {
        if site == "oob_read" {
            EVENTS.lock().unwrap().push(payload.to_string());
        }
    })));
}

fn take_events() -> Vec<String> {
    std::mem::take(&mut *EVENTS.lock().unwrap())
}

fn out(v: &Value) {
    let mut s = serde_json::to_string(v).unwrap();
    s.push('\n');
    let so = std::io::stdout();
    let mut l = so.lock();
    let _ = l.write_all(s.as_bytes());
    let _ = l.flush();
}

fn strip_ansi(s: &str) -> String {
    let mut o = String::new();
    let mut it = s.chars().peekable();
    while let Some(c) = it.next() {
        if c == '\x1b' && it.peek() == Some(&'[') {
            it.next();
            for d in it.by_ref() {
                if d.is_ascii_alphabetic() {
                    break;
                }
            }
        } else {
            o.push(c);
        }
    }
    o
}

fn clip(s: &str, n: usize) -> String {
    let s = strip_ansi(s);
    if s.chars().count() <= n {
        s
    } else {
        let mut t: String = s.chars().take(n).collect();
        t.push_str("...");
        t
    }
}

// ------------------------------------------------------------------------------------------------
// console leg
// ------------------------------------------------------------------------------------------------
#[derive(Default)]
struct Flags {
    exited: AtomicBool,
    exit_code: AtomicI32,
    pid: AtomicI32,
    signals: Mutex<Vec<String>>,
}

/// The real terminal hook, plus a note of what happened.
struct Tee {
    inner: TerminalHook,
    flags: Arc<Flags>,
}

impl EventHook for Tee {
    fn on_breakpoint(
        &self,
        pc: RelocatedAddress,
        num: u32,
        place: Option<PlaceDescriptor>,
        function: Option<&FunctionInfo>,
        thread_num: Option<u32>,
    ) -> anyhow::Result<()> {
        self.inner.on_breakpoint(pc, num, place, function, thread_num)
    }
    fn on_watchpoint(
        &self,
        pc: RelocatedAddress,
        num: u32,
        place: Option<PlaceDescriptor>,
        cond: BreakCondition,
        dqe: Option<&str>,
        old: Option<&BsValue>,
        new: Option<&BsValue>,
        end_of_scope: bool,
    ) -> anyhow::Result<()> {
        self.inner.on_watchpoint(pc, num, place, cond, dqe, old, new, end_of_scope)
    }
    fn on_step(
        &self,
        pc: RelocatedAddress,
        place: Option<PlaceDescriptor>,
        function: Option<&FunctionInfo>,
        thread_num: Option<u32>,
    ) -> anyhow::Result<()> {
        self.inner.on_step(pc, place, function, thread_num)
    }
    fn on_async_step(
        &self,
        pc: RelocatedAddress,
        place: Option<PlaceDescriptor>,
        function: Option<&FunctionInfo>,
        task_id: u64,
        task_completed: bool,
    ) -> anyhow::Result<()> {
        self.inner.on_async_step(pc, place, function, task_id, task_completed)
    }
    fn on_signal(&self, signal: Signal) {
        self.flags.signals.lock().unwrap().push(signal.as_str().to_string());
        self.inner.on_signal(signal)
    }
    fn on_exit(&self, code: i32) {
        self.flags.exited.store(true, Ordering::SeqCst);
        self.flags.exit_code.store(code, Ordering::SeqCst);
        self.inner.on_exit(code)
    }
    fn on_process_install(&self, pid: Pid, object: Option<&object::File>) {
        self.flags.exited.store(false, Ordering::SeqCst);
        self.flags.pid.store(pid.as_raw(), Ordering::SeqCst);
        self.inner.on_process_install(pid, object)
    }
}

struct Yes<'a>(&'a Cell<bool>, &'a Cell<u32>);
impl YesQuestion for Yes<'_> {
    fn yes(&self, _q: &str) -> Result<bool, CommandError> {
        self.1.set(self.1.get() + 1);
        Ok(self.0.get())
    }
}
struct NoComplete;
impl Completer for NoComplete {
    fn update_completer_variables(&self, d: &Debugger) -> anyhow::Result<()> {
        // what the console completer does after every resuming command
        use bugstalker::debugger::variable::dqe::Selector;
        let _ = d.read_variable_names(Dqe::Variable(Selector::Any))?;
        let _ = d.read_argument_names(Dqe::Variable(Selector::Any))?;
        Ok(())
    }
}
/// Same filter as the console's program taker (src/ui/console/mod.rs).
struct Prog<'a>(&'a RefCell<Vec<String>>);
impl ProgramTaker for Prog<'_> {
    fn take_user_command_list(&self, _h: &str) -> Result<UserProgram, CommandError> {
        use bugstalker::ui::command::r#async::Command as AsyncCommand;
        let mut result = vec![];
        for input in self.0.borrow().iter() {
            if input.trim() == "end" {
                break;
            }
            let cmd = Command::parse(input)?;
            match cmd {
                Command::Print(_)
                | Command::PrintBacktrace(_)
                | Command::Frame(_)
                | Command::PrintSymbol(_)
                | Command::Memory(_)
                | Command::Register(_)
                | Command::Thread(_)
                | Command::SharedLib
                | Command::SourceCode(_)
                | Command::Oracle(_, _)
                | Command::Async(AsyncCommand::FullBacktrace)
                | Command::Async(AsyncCommand::ShortBacktrace)
                | Command::Async(AsyncCommand::CurrentTask(_)) => result.push((cmd, input.clone())),
                _ => {}
            }
        }
        Ok(result)
    }
}

fn err_json(e: &CommandError, stage: &str) -> Value {
    let (text, fatal) = match e {
        CommandError::Parsing(p) => (p.clone(), false),
        CommandError::FileRender(x) => (format!("render: {x:#}"), false),
        CommandError::Handle(h) => (format!("{h:#}"), h.is_fatal()),
    };
    json!({"r": "error", "stage": stage, "fatal": fatal, "text": clip(&text, 300)})
}

fn hex_of(b: &[u8]) -> String {
    b.iter().map(|x| format!("{x:02x}")).collect()
}
fn unhex(s: &str) -> Vec<u8> {
    (0..s.len() / 2).map(|i| u8::from_str_radix(&s[2 * i..2 * i + 2], 16).unwrap_or(0)).collect()
}

fn console(puppet: &str, pargs: &[String]) {
    config::set(UIConfig { theme: Theme::None, tui_keymap: Default::default(), save_history: false });
    let t_start = Instant::now();
    let (child, output) = vharness::dbg::spawn(puppet, pargs);
    let t_spawn = t_start.elapsed().as_millis() as u64;
    let buf = Rc::new(RefCell::new(String::new()));
    let printer = ExternalPrinter::new(Box::new(InStringPrinter::new(buf.clone())));
    let hook_printer = ExternalPrinter::new(Box::new(InStringPrinter::new(buf.clone())));
    let file_view = Rc::new(FileView::new());
    let trig = Rc::new(TriggerRegistry::default());
    let flags = Arc::new(Flags::default());
    let hook = Tee {
        inner: TerminalHook::new(hook_printer, file_view.clone(), |_| {}, trig.clone()),
        flags: flags.clone(),
    };
    let mut dbg = DebuggerBuilder::new()
        .with_hooks(hook)
        .build(child)
        .unwrap_or_else(|e| tool_error(&format!("build debugger for {puppet}: {e}")));
    let helper = Helper::new(&dbg);
    let answer = Cell::new(false);
    let asked = Cell::new(0u32);
    let prog: RefCell<Vec<String>> = RefCell::new(vec![]);
    let mut started = false;
    out(&json!({"ready": true, "pid": dbg.process().pid().as_raw(), "spawn_ms": t_spawn,
        "build_ms": t_start.elapsed().as_millis() as u64 - t_spawn}));

    let stdin = std::io::stdin();
    for l in stdin.lock().lines() {
        let Ok(l) = l else { break };
        if l.trim().is_empty() {
            continue;
        }
        let req: Value = serde_json::from_str(&l).unwrap_or_else(|e| tool_error(&format!("bad request {l}: {e}")));
        let pid = dbg.process().pid().as_raw();
        match req["op"].as_str().unwrap_or("") {
            "line" => {
                let text = req["text"].as_str().unwrap_or("").to_string();
                answer.set(req["yes"].as_bool().unwrap_or(false));
                asked.set(0);
                *prog.borrow_mut() =
                    req["prog"].as_array().map(|a| a.iter().filter_map(|x| x.as_str().map(String::from)).collect()).unwrap_or_default();
                buf.borrow_mut().clear();
                let _ = take_events();
                let t0 = Instant::now();
                // stage 1: the pure parser.  A panic here leaves the session untouched.
                // the console skips empty input (src/ui/console/mod.rs: `if !command.is_empty()`)
                let parsed = if text.is_empty() { Ok(Ok(Command::SkipInput)) } else { catch(|| Command::parse(&text)) };
                let mut caught: Option<Value> = None;
                let mut res = match parsed {
                    Err(_) => {
                        let p = LAST_PANIC.lock().unwrap().take().unwrap_or(json!({}));
                        json!({"r": "panic", "stage": "parse", "msg": p["msg"], "site": p["site"], "func": p["func"], "loc": p["loc"]})
                    }
                    Ok(Err(e)) => err_json(&e, "parse"),
                    Ok(Ok(cmd)) => {
                        let resuming = matches!(
                            cmd,
                            Command::Run | Command::Continue | Command::StepInstruction | Command::StepInto
                                | Command::StepOut | Command::StepOver
                        );
                        if matches!(cmd, Command::Run) {
                            started = true;
                        }
                        // stage 2: the handler.  A panic here ends the worker (as it ends the console).
                        let mut h = CommandHandler {
                            yes_handler: Yes(&answer, &asked),
                            complete_handler: NoComplete,
                            prog_taker: Prog(&prog),
                            trigger_reg: &trig,
                            debugger: &mut dbg,
                            printer: &printer,
                            file_view: &file_view,
                            helper: &helper,
                        };
                        // Commands that only look (`var`, `bt`, `source`, `mem read` ...) cannot leave the session
                        // half-changed: a panic there is reported and the worker goes on (a fresh worker costs
                        // seconds); a panic of any command that resumes or changes the session ends the worker.
                        let read_only = {
                            use bugstalker::ui::command::{frame, memory, r#async, r#break, register, thread, trigger, watch};
                            matches!(
                                cmd,
                                Command::Print(_)
                                    | Command::PrintBacktrace(_)
                                    | Command::Frame(frame::Command::Info)
                                    | Command::PrintSymbol(_)
                                    | Command::Memory(memory::Command::Read(_))
                                    | Command::Register(register::Command::Info)
                                    | Command::Register(register::Command::Read(_))
                                    | Command::Thread(thread::Command::Info)
                                    | Command::Thread(thread::Command::Current)
                                    | Command::SharedLib
                                    | Command::SourceCode(_)
                                    | Command::Help { .. }
                                    | Command::Oracle(_, _)
                                    | Command::Async(r#async::Command::ShortBacktrace)
                                    | Command::Async(r#async::Command::FullBacktrace)
                                    | Command::Async(r#async::Command::CurrentTask(_))
                                    | Command::Breakpoint(r#break::Command::Info)
                                    | Command::Watchpoint(watch::Command::Info)
                                    | Command::Trigger(trigger::Command::Info)
                            )
                        };
                        let r = if read_only {
                            match catch(|| h.handle_command(cmd)) {
                                Ok(r) => r,
                                Err(_) => {
                                    caught = LAST_PANIC.lock().unwrap().take();
                                    Ok(())
                                }
                            }
                        } else {
                            h.handle_command(cmd)
                        };
                        // the console runs the user program attached to the event that just fired
                        let mut prog_errs = vec![];
                        if let Some(up) = trig.take_program() {
                            for (c, _) in up {
                                if let Err(e) = h.handle_command(c) {
                                    prog_errs.push(err_json(&e, "trigger"));
                                }
                            }
                        }
                        let mut v = match (r, caught.take()) {
                            (_, Some(p)) => json!({"r": "panic", "stage": "handle", "msg": p["msg"], "site": p["site"], "func": p["func"], "loc": p["loc"]}),
                            (Ok(()), None) => json!({"r": "ok", "stage": "handle", "text": clip(&buf.borrow(), 300)}),
                            (Err(e), None) => err_json(&e, "handle"),
                        };
                        v["resuming"] = json!(resuming);
                        v["trigger_errors"] = json!(prog_errs);
                        v
                    }
                };
                res["ms"] = json!(t0.elapsed().as_millis() as u64);
                res["asked"] = json!(asked.get());
                res["events"] = json!(take_events());
                res["out_len"] = json!(buf.borrow().len());
                let status = if !started {
                    "notstarted"
                } else if flags.exited.load(Ordering::SeqCst) {
                    "exited"
                } else {
                    "stopped"
                };
                res["status"] = json!(status);
                res["signals"] = json!(std::mem::take(&mut *flags.signals.lock().unwrap()));
                // the sentinel: the session must still list its breakpoints
                buf.borrow_mut().clear();
                let s = Command::parse("break info").and_then(|cmd| {
                    let mut h = CommandHandler {
                        yes_handler: Yes(&answer, &asked),
                        complete_handler: NoComplete,
                        prog_taker: Prog(&prog),
                        trigger_reg: &trig,
                        debugger: &mut dbg,
                        printer: &printer,
                        file_view: &file_view,
                        helper: &helper,
                    };
                    h.handle_command(cmd)
                });
                res["sentinel"] = match s {
                    Ok(()) => {
                        let listing = strip_ansi(&buf.borrow());
                        let n = listing.lines().filter(|l| l.starts_with("- Breakpoint")).count();
                        json!({"r": "ok", "n": n})
                    }
                    Err(e) => err_json(&e, "sentinel"),
                };
                res["pid"] = json!(dbg.process().pid().as_raw());
                out(&res);
            }
            "read" => {
                let a = req["addr"].as_u64().unwrap_or(0);
                let n = req["len"].as_u64().unwrap_or(0) as usize;
                out(&json!({"hex": probe::read_mem(pid, a, n).map(|b| hex_of(&b))}));
            }
            "write" => {
                let a = req["addr"].as_u64().unwrap_or(0);
                let b = unhex(req["hex"].as_str().unwrap_or(""));
                let old = probe::read_mem(pid, a, b.len()).map(|b| hex_of(&b));
                let ok = old.is_some() && probe::write_mem(pid, a, &b);
                out(&json!({"ok": ok, "old": old}));
            }
            "maps" => {
                let m: Vec<Value> = probe::maps(pid)
                    .iter()
                    .map(|m| json!({"start": m.start, "end": m.end, "perms": m.perms, "path": m.path}))
                    .collect();
                out(&json!({"maps": m, "pid": pid}));
            }
            "vars" => {
                // the puppet's own report `C08-VAR name addr size`
                let mut vars = serde_json::Map::new();
                for _ in 0..100 {
                    let so = output.stdout_string();
                    for l in so.lines() {
                        let p: Vec<&str> = l.split_whitespace().collect();
                        if p.len() == 4 && p[0] == "C08-VAR" {
                            vars.insert(p[1].to_string(), json!([p[2].parse::<u64>().unwrap_or(0), p[3].parse::<u64>().unwrap_or(0)]));
                        }
                    }
                    if !vars.is_empty() {
                        break;
                    }
                    std::thread::sleep(Duration::from_millis(10));
                }
                out(&json!({"vars": vars}));
            }
            "locate" => {
                // address and size of a place, asked from the debugger itself (orchestration only: any
                // bytes anywhere are admissible memory contents, a wrong answer cannot cause an alarm)
                let e = req["expr"].as_str().unwrap_or("");
                let r = catch(|| {
                    let text = format!("&{e}");
                    let parser = expression::parser();
                    let q = parser.parse(text.as_str()).into_result().ok()?;
                    let rs = dbg.read_variable(q).ok()?;
                    let v = rs.into_iter().next()?.value?;
                    match v {
                        BsValue::Pointer(p) => Some((p.value? as usize as u64, p.target_type_size)),
                        _ => None,
                    }
                });
                match r {
                    Ok(Some((a, sz))) => out(&json!({"addr": a, "size": sz})),
                    _ => out(&json!({"addr": null})),
                }
            }
            other => tool_error(&format!("unknown op {other}")),
        }
    }
    leave(Some(dbg));
}

/// Never run destructors of a possibly confused debugger; take the process group down.
fn leave(dbg: Option<Debugger>) -> ! {
    if let Some(d) = dbg {
        std::mem::forget(d);
    }
    unsafe {
        if libc::getpgrp() == libc::getpid() {
            libc::kill(0, libc::SIGKILL);
        }
        libc::_exit(0);
    }
}

// ------------------------------------------------------------------------------------------------
// DAP leg: the real TCP transport (src/dap/transport.rs) over a loopback socket
// ------------------------------------------------------------------------------------------------
struct Client {
    sock: std::net::TcpStream,
    inbox: Arc<Mutex<Vec<Value>>>,
    bad_stream: Arc<Mutex<Option<String>>>,
    ended: Arc<Mutex<Option<String>>>,
    next_seq: i64,
}

fn frame(v: &Value) -> Vec<u8> {
    let p = serde_json::to_vec(v).unwrap();
    let mut o = format!("Content-Length: {}\r\n\r\n", p.len()).into_bytes();
    o.extend_from_slice(&p);
    o
}

/// SAFETY (DESIGN 3.4): handlers that act on the host get only our own puppet / /bin/true / nothing.
fn safety_check(m: &Value, puppet: &str) {
    let cmd = m["command"].as_str().unwrap_or("");
    let a = &m["arguments"];
    let is_pidlike = |v: &Value| match v {
        Value::Number(_) => true,
        Value::String(s) => s.trim().parse::<f64>().is_ok(),
        _ => false,
    };
    let bad = match cmd {
        "launch" => match a.get("program") {
            Some(Value::String(p)) => !(p == puppet || p == "/bin/true" || p.starts_with("/nonexistent/")),
            _ => false,
        },
        "attach" => a.get("pid").map(is_pidlike).unwrap_or(false) || a.get("processId").map(is_pidlike).unwrap_or(false),
        "terminateThreads" => {
            a.get("threadIds").and_then(|t| t.as_array()).map(|t| t.iter().any(is_pidlike)).unwrap_or(false)
                || a.get("threadIds").map(is_pidlike).unwrap_or(false)
        }
        "runInTerminal" => match a.get("args") {
            Some(Value::Array(x)) => x.first().map(|s| s != "/bin/true").unwrap_or(false),
            Some(Value::String(s)) => s != "/bin/true",
            _ => false,
        },
        _ => false,
    };
    if bad {
        tool_error(&format!("unsafe request refused by the harness: {m}"));
    }
}

fn reader_thread(mut s: std::net::TcpStream, inbox: Arc<Mutex<Vec<Value>>>, bad: Arc<Mutex<Option<String>>>) {
    std::thread::spawn(move || {
        let mut acc: Vec<u8> = vec![];
        let mut tmp = [0u8; 65536];
        loop {
            // parse as many frames as are complete
            loop {
                let Some(h) = acc.windows(4).position(|w| w == b"\r\n\r\n") else { break };
                let hdr = String::from_utf8_lossy(&acc[..h]).to_string();
                let len = hdr.split("\r\n").find_map(|l| l.strip_prefix("Content-Length:").and_then(|v| v.trim().parse::<usize>().ok()));
                let Some(len) = len else {
                    *bad.lock().unwrap() = Some(format!("no Content-Length in {hdr:?}"));
                    return;
                };
                if acc.len() < h + 4 + len {
                    break;
                }
                match serde_json::from_slice::<Value>(&acc[h + 4..h + 4 + len]) {
                    Ok(v) => inbox.lock().unwrap().push(v),
                    Err(e) => {
                        *bad.lock().unwrap() = Some(format!("bad json from adapter: {e}"));
                        return;
                    }
                }
                acc.drain(..h + 4 + len);
            }
            match s.read(&mut tmp) {
                Ok(0) | Err(_) => return,
                Ok(n) => acc.extend_from_slice(&tmp[..n]),
            }
        }
    });
}

impl Client {
    /// Wait for the response with `request_seq == seq`; None on session end / quiet timeout.
    fn wait_response(&self, seq: i64, from: usize, limit: Duration) -> Option<Value> {
        let t0 = Instant::now();
        loop {
            {
                let g = self.inbox.lock().unwrap();
                if let Some(m) = g[from.min(g.len())..].iter().find(|m| m["type"] == "response" && m["request_seq"] == json!(seq)) {
                    return Some(m.clone());
                }
            }
            if t0.elapsed() > limit {
                return None;
            }
            if self.ended.lock().unwrap().is_some() && t0.elapsed() > Duration::from_millis(150) {
                // one last look
                let g = self.inbox.lock().unwrap();
                return g[from.min(g.len())..].iter().find(|m| m["type"] == "response" && m["request_seq"] == json!(seq)).cloned();
            }
            std::thread::sleep(Duration::from_millis(2));
        }
    }
}

fn dap(puppet: &str) {
    vharness::dbg::init();
    let listener = std::net::TcpListener::bind("127.0.0.1:0").unwrap_or_else(|e| tool_error(&format!("bind: {e}")));
    let addr = listener.local_addr().unwrap();
    let sock = std::net::TcpStream::connect(addr).unwrap_or_else(|e| tool_error(&format!("connect: {e}")));
    let (server, _) = listener.accept().unwrap_or_else(|e| tool_error(&format!("accept: {e}")));
    let io = new_tcp_transport(server, None).unwrap_or_else(|e| tool_error(&format!("transport: {e}")));
    let io: Arc<Mutex<dyn DapTransport>> = Arc::new(Mutex::new(io));
    let ended: Arc<Mutex<Option<String>>> = Arc::new(Mutex::new(None));
    let e2 = ended.clone();
    std::thread::Builder::new()
        .name("sess".into())
        .stack_size(8 << 20) // the adapter runs its session on the main thread: same stack as there
        .spawn(move || {
            let r = catch(|| DebugSession::new(io).run(vec![]));
            let res = match r {
                Ok(Ok(())) => "ok".to_string(),
                Ok(Err(e)) => format!("err: {e:#}"),
                Err(p) => format!("panic: {p}"),
            };
            *e2.lock().unwrap() = Some(res);
        })
        .unwrap();
    let inbox = Arc::new(Mutex::new(vec![]));
    let bad_stream = Arc::new(Mutex::new(None));
    reader_thread(sock.try_clone().unwrap(), inbox.clone(), bad_stream.clone());
    let mut cl = Client { sock, inbox, bad_stream, ended, next_seq: 1 };
    out(&json!({"ready": true}));

    let stdin = std::io::stdin();
    for l in stdin.lock().lines() {
        let Ok(l) = l else { break };
        if l.trim().is_empty() {
            continue;
        }
        let req: Value = serde_json::from_str(&l).unwrap_or_else(|e| tool_error(&format!("bad request {l}: {e}")));
        let limit = Duration::from_millis(req["limit_ms"].as_u64().unwrap_or(9000));
        let from = cl.inbox.lock().unwrap().len();
        let t0 = Instant::now();
        let _ = take_events();
        let mut res = json!({});
        let mut closed = false;
        match req["op"].as_str().unwrap_or("") {
            "msg" => {
                let mut m = req["msg"].clone();
                safety_check(&m, puppet);
                // the worker owns the sequence numbers of well-formed envelopes
                let mut seq = None;
                if req["own_seq"].as_bool().unwrap_or(true) {
                    if let Some(o) = m.as_object_mut() {
                        o.insert("seq".into(), json!(cl.next_seq));
                        seq = Some(cl.next_seq);
                        cl.next_seq += 1;
                    }
                }
                let sent = cl.sock.write_all(&frame(&m)).is_ok();
                res["sent"] = json!(sent);
                if let Some(seq) = seq {
                    match cl.wait_response(seq, from, limit) {
                        Some(r) => {
                            res["r"] = json!(if r["success"] == true { "ok" } else { "error" });
                            res["text"] = json!(clip(r["message"].as_str().unwrap_or(""), 200));
                            res["body_keys"] = json!(r["body"].as_object().map(|o| o.keys().cloned().collect::<Vec<_>>()));
                            if req["want_body"].as_bool().unwrap_or(false) {
                                res["body"] = r["body"].clone();
                            }
                        }
                        None => res["r"] = json!("noresponse"),
                    }
                } else {
                    res["r"] = json!("unanswerable");
                    std::thread::sleep(Duration::from_millis(30));
                }
            }
            "raw" => {
                let b = unhex(req["hex"].as_str().unwrap_or(""));
                res["sent"] = json!(cl.sock.write_all(&b).is_ok());
                if req["close"].as_bool().unwrap_or(false) {
                    let _ = cl.sock.shutdown(std::net::Shutdown::Write);
                    closed = true;
                    // the session must come to an end by itself
                    let t = Instant::now();
                    while cl.ended.lock().unwrap().is_none() && t.elapsed() < limit {
                        std::thread::sleep(Duration::from_millis(5));
                    }
                }
                res["r"] = json!("unanswerable");
                std::thread::sleep(Duration::from_millis(30));
            }
            other => tool_error(&format!("unknown op {other}")),
        }
        res["ms"] = json!(t0.elapsed().as_millis() as u64);
        // the sentinel: `threads` must still be answered (unless the client itself closed the stream)
        if !closed {
            let from2 = cl.inbox.lock().unwrap().len();
            let seq = cl.next_seq;
            cl.next_seq += 1;
            let s = json!({"seq": seq, "type": "request", "command": "threads"});
            let sent = cl.sock.write_all(&frame(&s)).is_ok();
            res["sentinel"] = match cl.wait_response(seq, from2, limit) {
                Some(r) => json!({"r": if r["success"] == true { "ok" } else { "error" },
                    "n": r["body"]["threads"].as_array().map(|a| a.len()), "text": clip(r["message"].as_str().unwrap_or(""), 120)}),
                None => json!({"r": "noresponse", "sent": sent}),
            };
        }
        let g = cl.inbox.lock().unwrap();
        res["events"] = json!(g[from.min(g.len())..].iter().filter(|m| m["type"] == "event").map(|m| m["event"].clone()).collect::<Vec<_>>());
        drop(g);
        res["ended"] = json!(*cl.ended.lock().unwrap());
        res["bad_stream"] = json!(*cl.bad_stream.lock().unwrap());
        res["oob"] = json!(take_events());
        out(&res);
        if closed || cl.ended.lock().unwrap().is_some() {
            break;
        }
    }
    leave(None);
}

fn main() {
    unsafe {
        libc::prctl(libc::PR_SET_PDEATHSIG, libc::SIGKILL);
    }
    install_panic_hook();
    install_event_sink();
    let a: Vec<String> = std::env::args().collect();
    match a.get(1).map(|s| s.as_str()) {
        Some("console") if a.len() >= 3 => console(&a[2], &a[3..]),
        Some("dap") if a.len() >= 3 => dap(&a[2]),
        _ => tool_error("usage: c08 console <puppet> [args..] | c08 dap <puppet>"),
    }
}

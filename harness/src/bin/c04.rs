//! C04 driver: asks the REAL debugger the address <-> source questions on one binary and writes
//! its answers as ndjson.  No expectations live here (they come from TLC, see
//! spec/LineTableEval.tla); this program only asks and records.
//!
//! usage: c04 <queries.json> <out.ndjson>
//! queries.json: {"binary": path, "file": template for file:line queries,
//!                "pcs": [global addr...], "lines": [n...], "fns": [name...],
//!                "addr_bps": [global addr...], "range": [lo, hi], "run": bool}
//!
//! Phases:  pre   (debuggee not started: breakpoints are "uninit", addresses are global)
//!          post  (debuggee stopped at main: breakpoints are live, addresses are relocated
//!                 and mapped back with the load bias probed from /proc/<pid>/maps)
//!          run   (function breakpoints on every queried name, continue to exit: the place
//!                 and function *reported on each stop*)

use bugstalker::debugger::address::{Address, GlobalAddress, RelocatedAddress};
use bugstalker::debugger::{BreakpointView, Debugger, PlaceDescriptorOwned};
use serde_json::{json, Value};
use vharness::dbg::{launch, stop_json};
use vharness::probe::{load_bias, Elf};
use vharness::{catch, read_json, tool_error, NdjsonOut};

fn place_json(p: &PlaceDescriptorOwned) -> Value {
    json!({
        "file": p.file.to_string_lossy(),
        "line": p.line_number,
        "col": p.column_number,
        "addr": u64::from(p.address),
        "is_stmt": p.is_stmt,
        "pe": p.prolog_end,
        "eb": p.epilog_begin,
    })
}

fn view_json(v: &BreakpointView, bias: u64) -> Value {
    let (kind, raw, global) = match v.addr {
        Address::Relocated(a) => ("relocated", u64::from(a), u64::from(a).wrapping_sub(bias)),
        Address::Global(a) => ("global", u64::from(a), u64::from(a)),
    };
    json!({
        "kind": kind,
        "raw": raw,
        "addr": global,
        "number": v.number,
        "place": v.place.as_ref().map(|p| place_json(p)),
    })
}

fn views_json(r: Result<Vec<BreakpointView>, bugstalker::debugger::Error>, bias: u64) -> Value {
    match r {
        Ok(vs) => json!({"ok": vs.iter().map(|v| view_json(v, bias)).collect::<Vec<_>>()}),
        Err(e) => json!({"err": e.to_string()}),
    }
}

fn line_phase(dbg: &mut Debugger, out: &mut NdjsonOut, phase: &str, file: &str, lines: &[u64], bias: u64) {
    for &l in lines {
        let res = catch(|| {
            let v = views_json(dbg.set_breakpoint_at_line(file, l), bias);
            let removed = dbg.remove_breakpoint_at_line(file, l).map(|r| r.len()).map_err(|e| e.to_string());
            (v, removed)
        });
        match res {
            Ok((v, removed)) => out.emit(&json!({"q": "line", "phase": phase, "file": file, "line": l, "res": v,
                "removed": removed.unwrap_or(usize::MAX)})),
            Err(p) => out.emit(&json!({"q": "line", "phase": phase, "file": file, "line": l, "panic": p})),
        }
    }
}

fn fn_phase(dbg: &mut Debugger, out: &mut NdjsonOut, phase: &str, fns: &[String], bias: u64) {
    for name in fns {
        let res = catch(|| {
            let v = views_json(dbg.set_breakpoint_at_fn(name), bias);
            let removed = dbg.remove_breakpoint_at_fn(name).map(|r| r.len()).map_err(|e| e.to_string());
            (v, removed)
        });
        match res {
            Ok((v, removed)) => out.emit(&json!({"q": "fn", "phase": phase, "name": name, "res": v,
                "removed": removed.unwrap_or(usize::MAX)})),
            Err(p) => out.emit(&json!({"q": "fn", "phase": phase, "name": name, "panic": p})),
        }
    }
}

fn u64s(v: &Value) -> Vec<u64> {
    v.as_array().map(|a| a.iter().filter_map(|x| x.as_u64()).collect()).unwrap_or_default()
}

fn main() {
    let args: Vec<String> = std::env::args().collect();
    if args.len() != 3 {
        tool_error("usage: c04 <queries.json> <out.ndjson>");
    }
    let q = read_json(&args[1]);
    let mut out = NdjsonOut::create(&args[2]);
    let binary = q["binary"].as_str().unwrap_or_else(|| tool_error("binary missing")).to_string();
    let file = q["file"].as_str().unwrap_or("").to_string();
    let pcs = u64s(&q["pcs"]);
    let lines = u64s(&q["lines"]);
    let addr_bps = u64s(&q["addr_bps"]);
    let fns: Vec<String> =
        q["fns"].as_array().map(|a| a.iter().filter_map(|x| x.as_str().map(String::from)).collect()).unwrap_or_default();
    let run = q["run"].as_bool().unwrap_or(false);
    let elf = Elf::load(&binary);

    let (mut dbg, rec, _output, pid) = launch(&binary, &[]);
    out.emit(&json!({"q": "meta", "pid": pid.as_raw(), "pie": elf.is_pie}));

    // ---- pre-start: file:line and function breakpoints on the not yet started debuggee
    line_phase(&mut dbg, &mut out, "pre", &file, &lines, 0);
    fn_phase(&mut dbg, &mut out, "pre", &fns, 0);
    if let Some(r) = q["range"].as_array() {
        let (lo, hi) = (r[0].as_u64().unwrap_or(1), r[1].as_u64().unwrap_or(1));
        match catch(|| dbg.breakpoint_places_for_file_range(&file, lo, hi)) {
            Ok(Ok(ps)) => out.emit(&json!({"q": "range", "file": file, "lo": lo, "hi": hi,
                "res": {"ok": ps.iter().map(place_json).collect::<Vec<_>>()}})),
            Ok(Err(e)) => out.emit(&json!({"q": "range", "file": file, "lo": lo, "hi": hi, "res": {"err": e.to_string()}})),
            Err(p) => out.emit(&json!({"q": "range", "file": file, "lo": lo, "hi": hi, "panic": p})),
        }
    }

    // ---- start: stop at the user's main
    let started = catch(|| {
        let _ = dbg.set_breakpoint_at_fn("main");
        dbg.start_debugee_with_reason()
    });
    let reason = match started {
        Ok(Ok(r)) => stop_json(&r),
        Ok(Err(e)) => {
            out.emit(&json!({"q": "start", "err": e.to_string()}));
            std::mem::forget(dbg);
            unsafe { libc::kill(pid.as_raw(), libc::SIGKILL) };
            return;
        }
        Err(p) => {
            out.emit(&json!({"q": "start", "panic": p}));
            std::mem::forget(dbg);
            unsafe { libc::kill(pid.as_raw(), libc::SIGKILL) };
            return;
        }
    };
    let bias = load_bias(pid.as_raw(), &elf);
    out.emit(&json!({"q": "start", "reason": reason, "bias": bias, "hooks": rec.take()}));
    let _ = catch(|| dbg.remove_breakpoint_at_fn("main"));

    // ---- pc -> function + place
    for &pc in &pcs {
        match catch(|| dbg.resolve_function_at_pc(GlobalAddress::from(pc))) {
            Ok(Ok(None)) => out.emit(&json!({"q": "pc", "pc": pc, "res": Value::Null})),
            Ok(Ok(Some((name, place)))) => out.emit(&json!({"q": "pc", "pc": pc,
                "res": {"name": name, "place": place.as_ref().map(place_json)}})),
            Ok(Err(e)) => out.emit(&json!({"q": "pc", "pc": pc, "err": e.to_string()})),
            Err(p) => out.emit(&json!({"q": "pc", "pc": pc, "panic": p})),
        }
    }

    // ---- place recorded for an address breakpoint
    for &pc in &addr_bps {
        let rel = RelocatedAddress::from(pc.wrapping_add(bias));
        let res = catch(|| {
            let v = dbg.set_breakpoint_at_addr(rel).map(|v| view_json(&v, bias)).map_err(|e| e.to_string());
            let _ = dbg.remove_breakpoint(Address::Relocated(rel));
            v
        });
        match res {
            Ok(Ok(v)) => out.emit(&json!({"q": "addr", "pc": pc, "res": {"ok": v}})),
            Ok(Err(e)) => out.emit(&json!({"q": "addr", "pc": pc, "res": {"err": e}})),
            Err(p) => out.emit(&json!({"q": "addr", "pc": pc, "panic": p})),
        }
    }

    // ---- post-start: the same file:line and function questions on the live process
    line_phase(&mut dbg, &mut out, "post", &file, &lines, bias);
    fn_phase(&mut dbg, &mut out, "post", &fns, bias);

    // ---- run: what is reported on real stops
    if run {
        let r = catch(|| {
            for name in &fns {
                let _ = dbg.set_breakpoint_at_fn(name);
            }
            let mut n = 0;
            loop {
                n += 1;
                match dbg.continue_debugee_with_reason() {
                    Ok(reason) => {
                        let rj = stop_json(&reason);
                        let done = rj["kind"] == "exit" || n > 400;
                        out.emit(&json!({"q": "stop", "n": n, "bias": bias, "reason": rj, "hooks": rec.take()}));
                        if done {
                            break;
                        }
                    }
                    Err(e) => {
                        out.emit(&json!({"q": "stop", "n": n, "err": e.to_string()}));
                        break;
                    }
                }
            }
        });
        if let Err(p) = r {
            out.emit(&json!({"q": "stop", "panic": p}));
            std::mem::forget(dbg);
            unsafe { libc::kill(pid.as_raw(), libc::SIGKILL) };
            out.emit(&json!({"q": "done"}));
            return;
        }
    }
    out.emit(&json!({"q": "done"}));
    if catch(move || drop(dbg)).is_err() {
        unsafe { libc::kill(pid.as_raw(), libc::SIGKILL) };
    }
}

//! c19: session driver for property C19 (scope and frame selection of `var locals` / `arg all` / `var <name>`).
//!
//! Executes a command script (break/start/continue/step*/frame k) against the real `Debugger` and,
//! after every command that leaves the program stopped, records
//!   * what the debugger shows for the selected frame: `read_local_variables()`, `read_argument(Any)`,
//!     `read_variable(<name>)` for every name of the script's name list;
//!   * independent raw facts that do not go through BugStalker's variable machinery:
//!     PTRACE_GETREGS of the stopped thread (issued here, on the tracer thread), the frame chain obtained by
//!     walking saved rbp / return address pairs through /proc/<pid>/mem (puppets are built with
//!     force-frame-pointers), and for every frame and every variable of that frame's function the bytes
//!     named by each of its DWARF location entries as decoded by tools/c19_dwarf.py (llvm-dwarfdump).
//! Which variable / which location entry is the right one at the frame's pc is decided by the TLA+
//! specification (spec/Scope.tla, spec/TraceScope.tla), not here.
//!
//! usage: c19 <exe> <script.json> <out.ndjson>
//! script: {"cmds":[..], "tick":addr, "names":[..], "fns":[[lo,hi]..], "vars":[{"id","fn":[[lo,hi]..],"size","signed",
//!          "locs":[{"e","form","a","b"}]}]}

use bugstalker::debugger::address::RelocatedAddress;
use bugstalker::debugger::variable::dqe::{Dqe, Selector};
use bugstalker::debugger::Debugger;
use serde_json::{json, Value};
use vharness::dbg::{self, stop_json, Recorder};
use vharness::probe::{self, Elf};
use vharness::{catch, read_json, NdjsonOut};

const PIE_BIAS: u64 = 0x5555_5555_4000;

struct VarLoc {
    e: u64,
    form: String,
    a: i64,
    b: i64,
    ops: Vec<(String, i64, i64)>,
}

/// value expressions (register reads, constants, arithmetic; ends in DW_OP_stack_value): own little stack machine
fn eval_ops(ops: &[(String, i64, i64)], reg: &dyn Fn(i64) -> Option<u64>) -> Option<u64> {
    let mut st: Vec<u64> = vec![];
    for (op, a, b) in ops {
        match op.as_str() {
            "breg" => st.push(reg(*a)?.wrapping_add(*b as u64)),
            "const" => st.push(*a as u64),
            "plus_uconst" => {
                let x = st.pop()?;
                st.push(x.wrapping_add(*a as u64))
            }
            "neg" => {
                let x = st.pop()?;
                st.push((x as i64).wrapping_neg() as u64)
            }
            "not" => {
                let x = st.pop()?;
                st.push(!x)
            }
            "dup" => {
                let x = *st.last()?;
                st.push(x)
            }
            _ => {
                let y = st.pop()?; // top
                let x = st.pop()?; // second
                st.push(match op.as_str() {
                    "or" => x | y,
                    "and" => x & y,
                    "xor" => x ^ y,
                    "plus" => x.wrapping_add(y),
                    "minus" => x.wrapping_sub(y),
                    "mul" => x.wrapping_mul(y),
                    "shl" => x.checked_shl(y as u32).unwrap_or(0),
                    "shr" => x.checked_shr(y as u32).unwrap_or(0),
                    "shra" => ((x as i64) >> (y.min(63) as u32)) as u64,
                    _ => return None,
                })
            }
        }
    }
    st.pop()
}
struct VarT {
    id: u64,
    fnr: Vec<(u64, u64)>,
    size: u64,
    signed: bool,
    locs: Vec<VarLoc>,
}

struct Ctx {
    dbg: Option<Debugger>,
    rec: Recorder,
    pid: i32,
    bias: u64,
    tick_addr: u64,
    names: Vec<String>,
    fns: Vec<(u64, u64)>,
    vars: Vec<VarT>,
}

fn pairs(v: &Value) -> Vec<(u64, u64)> {
    v.as_array()
        .map(|a| a.iter().map(|r| (r[0].as_u64().unwrap_or(0), r[1].as_u64().unwrap_or(0))).collect())
        .unwrap_or_default()
}

/// rip of a ptrace-stopped task as the kernel reports it in /proc/<pid>/task/<tid>/syscall
fn proc_pc(pid: i32, tid: i32) -> Option<u64> {
    let s = std::fs::read_to_string(format!("/proc/{pid}/task/{tid}/syscall")).ok()?;
    let last = s.split_whitespace().last()?;
    u64::from_str_radix(last.trim_start_matches("0x"), 16).ok()
}

/// PTRACE_GETREGS issued directly (this thread owns the Debugger, hence is the tracer)
fn getregs(tid: i32) -> Option<libc::user_regs_struct> {
    let mut r: libc::user_regs_struct = unsafe { std::mem::zeroed() };
    let rc = unsafe {
        libc::ptrace(
            libc::PTRACE_GETREGS,
            tid,
            std::ptr::null_mut::<libc::c_void>(),
            &mut r as *mut _ as *mut libc::c_void,
        )
    };
    if rc == -1 {
        None
    } else {
        Some(r)
    }
}

/// System V x86-64 psABI, figure 3.36: DWARF register number -> register (own table, not BugStalker's)
fn dwarf_reg(r: &libc::user_regs_struct, n: i64) -> Option<u64> {
    Some(match n {
        0 => r.rax,
        1 => r.rdx,
        2 => r.rcx,
        3 => r.rbx,
        4 => r.rsi,
        5 => r.rdi,
        6 => r.rbp,
        7 => r.rsp,
        8 => r.r8,
        9 => r.r9,
        10 => r.r10,
        11 => r.r11,
        12 => r.r12,
        13 => r.r13,
        14 => r.r14,
        15 => r.r15,
        16 => r.rip,
        _ => return None,
    })
}

fn typed(raw: u64, size: u64, signed: bool) -> String {
    match (size, signed) {
        (1, true) => (raw as u8 as i8).to_string(),
        (2, true) => (raw as u16 as i16).to_string(),
        (4, true) => (raw as u32 as i32).to_string(),
        (8, true) => (raw as i64).to_string(),
        (1, false) => (raw as u8).to_string(),
        (2, false) => (raw as u16).to_string(),
        (4, false) => (raw as u32).to_string(),
        _ => raw.to_string(),
    }
}

struct Frame {
    pc: u64, // link-time
    rbp: u64,
    rsp: u64,
}

fn mem_val(pid: i32, addr: u64, size: u64) -> Option<u64> {
    let b = probe::read_mem(pid, addr, size as usize)?;
    let mut w = [0u8; 8];
    w[..b.len().min(8)].copy_from_slice(&b[..b.len().min(8)]);
    Some(u64::from_le_bytes(w))
}

/// independent raw facts: frame chain + bytes named by every location entry of every variable of each frame's function
fn raw_facts(cx: &Ctx, tid: i32) -> Value {
    let Some(regs) = getregs(tid) else { return json!({"err": "PTRACE_GETREGS failed"}) };
    let in_user = |a: u64| cx.fns.iter().any(|(lo, hi)| a >= *lo && a < *hi);
    let mut frames = vec![Frame { pc: regs.rip.wrapping_sub(cx.bias), rbp: regs.rbp, rsp: regs.rsp }];
    while frames.len() < 64 {
        let rbp = frames.last().unwrap().rbp;
        let (Some(ret), Some(next)) = (probe::read_u64(cx.pid, rbp.wrapping_add(8)), probe::read_u64(cx.pid, rbp)) else { break };
        let link = ret.wrapping_sub(cx.bias);
        if !in_user(link) {
            break;
        }
        frames.push(Frame { pc: link, rbp: next, rsp: rbp.wrapping_add(16) });
    }
    let mut raw = vec![];
    for (k, f) in frames.iter().enumerate() {
        let reg = |n: i64| -> Option<u64> {
            if k == 0 {
                dwarf_reg(&regs, n)
            } else {
                match n {
                    6 => Some(f.rbp),
                    7 => Some(f.rsp),
                    16 => Some(f.pc.wrapping_add(cx.bias)),
                    _ => None, // caller-saved/callee-saved registers of outer frames are not recovered here
                }
            }
        };
        let mut ents = vec![];
        for v in cx.vars.iter().filter(|v| v.fnr.iter().any(|(lo, hi)| f.pc >= *lo && f.pc < *hi)) {
            for l in &v.locs {
                let val: Option<u64> = match l.form.as_str() {
                    "fbreg" => mem_val(cx.pid, f.rbp.wrapping_add(l.a as u64), v.size),
                    "fbderef" => {
                        let mut a = Some(f.rbp.wrapping_add(l.a as u64));
                        for _ in 0..l.b {
                            a = a.and_then(|x| probe::read_u64(cx.pid, x));
                        }
                        a.and_then(|x| mem_val(cx.pid, x, v.size))
                    }
                    "reg" => reg(l.a),
                    "breg" => reg(l.a).and_then(|r| mem_val(cx.pid, r.wrapping_add(l.b as u64), v.size)),
                    "regval" => reg(l.a).map(|r| r.wrapping_add(l.b as u64)),
                    "const" => Some(l.a as u64),
                    "expr" => eval_ops(&l.ops, &reg),
                    _ => None,
                };
                let mut o = json!({"v": v.id, "e": l.e, "val": val.map(|x| typed(x, v.size, v.signed)).unwrap_or_else(|| "unk".into())});
                if l.form == "fbreg" {
                    // the same slot offset applied to the CALLER's frame base (saved rbp): lets the specification name
                    // the defect "frame k is read with frame k+1's registers" instead of a bare wrong value
                    let up = probe::read_u64(cx.pid, f.rbp).and_then(|b| mem_val(cx.pid, b.wrapping_add(l.a as u64), v.size));
                    o["up"] = json!(up.map(|x| typed(x, v.size, v.signed)).unwrap_or_else(|| "unk".into()));
                }
                if l.form == "reg" && k == 0 {
                    let alt: Vec<Value> = (0..16)
                        .filter(|n| *n != l.a)
                        .filter_map(|n| dwarf_reg(&regs, n).map(|x| json!({"r": n, "val": typed(x, v.size, v.signed)})))
                        .collect();
                    o["alt"] = json!(alt);
                }
                ents.push(o);
            }
        }
        raw.push(json!(ents));
    }
    json!({"chain": frames.iter().map(|f| f.pc).collect::<Vec<_>>(),
           "rbp": frames.iter().map(|f| f.rbp).collect::<Vec<_>>(), "raw": raw})
}

fn scalar_json(v: &bugstalker::debugger::variable::value::Value) -> Value {
    use bugstalker::debugger::variable::value::{SupportedScalar as S, Value as V};
    match v {
        V::Scalar(s) => match &s.value {
            Some(S::I8(x)) => json!(x.to_string()),
            Some(S::I16(x)) => json!(x.to_string()),
            Some(S::I32(x)) => json!(x.to_string()),
            Some(S::I64(x)) => json!(x.to_string()),
            Some(S::Isize(x)) => json!(x.to_string()),
            Some(S::U8(x)) => json!(x.to_string()),
            Some(S::U16(x)) => json!(x.to_string()),
            Some(S::U32(x)) => json!(x.to_string()),
            Some(S::U64(x)) => json!(x.to_string()),
            Some(S::Usize(x)) => json!(x.to_string()),
            Some(S::Bool(x)) => json!(if *x { "1" } else { "0" }),
            Some(_) => json!("other"),
            None => json!("none"),
        },
        _ => json!("other"),
    }
}

fn results_json(r: Result<Result<Vec<bugstalker::debugger::variable::execute::QueryResult<'_>>, bugstalker::debugger::Error>, String>) -> Value {
    match r {
        Ok(Ok(v)) => Value::Array(
            v.iter()
                .map(|q| json!([q.identity().name.clone().unwrap_or_default(), scalar_json(q.value())]))
                .collect(),
        ),
        Ok(Err(e)) => json!({"err": e.to_string()}),
        Err(p) => json!({"panic": p}),
    }
}

fn observe(cx: &Ctx) -> Value {
    let Some(d) = cx.dbg.as_ref() else { return json!({"status": "gone"}) };
    let alive = probe::process_state(cx.pid).map(|s| s != "Z").unwrap_or(false);
    let mut o = serde_json::Map::new();
    o.insert("alive".into(), json!(alive));
    if !alive {
        return Value::Object(o);
    }
    let tid = d.ecx().pid_on_focus().as_raw();
    let started = d.thread_state().is_ok();
    o.insert("started".into(), json!(started));
    if !started {
        return Value::Object(o);
    }
    let b = cx.bias;
    o.insert("ecx_pc".into(), json!(u64::from(d.ecx().location().pc).wrapping_sub(b)));
    o.insert("rip_bias".into(), json!(b));
    o.insert("frame_num".into(), json!(d.ecx().frame_num()));
    if let Some(pc) = proc_pc(cx.pid, tid) {
        o.insert("rip".into(), json!(pc.wrapping_sub(b)));
    }
    if cx.tick_addr != 0 {
        o.insert("tick".into(), json!(probe::read_u64(cx.pid, b + cx.tick_addr)));
    }
    // independent facts first (nothing below can influence them)
    o.insert("facts".into(), raw_facts(cx, tid));
    o.insert("locals".into(), results_json(catch(|| d.read_local_variables())));
    o.insert("args".into(), results_json(catch(|| d.read_argument(Dqe::Variable(Selector::Any)))));
    let mut res = vec![];
    for n in &cx.names {
        let r = results_json(catch(|| d.read_variable(Dqe::Variable(Selector::by_name(n, false)))));
        res.push(json!({"name": n, "got": r}));
    }
    o.insert("res".into(), json!(res));
    Value::Object(o)
}

fn run_cmd(cx: &mut Ctx, c: &Value) -> Value {
    let name = c["cmd"].as_str().unwrap_or("");
    let b = cx.bias;
    let reloc = |a: u64| RelocatedAddress::from(b + a);
    let Some(d) = cx.dbg.as_mut() else { return json!({"ok": false, "err": "debugger gone"}) };
    let r: Result<Result<Value, String>, String> = catch(|| match name {
        "break_addr" => d
            .set_breakpoint_at_addr(reloc(c["addr"].as_u64().unwrap()))
            .map(|v| json!([{"link": c["addr"], "num": v.number}]))
            .map_err(|e| e.to_string()),
        "remove_addr" => d
            .remove_breakpoint(bugstalker::debugger::address::Address::Relocated(reloc(c["addr"].as_u64().unwrap())))
            .map(|v| json!(v.into_iter().map(|x| json!({"link": c["addr"], "num": x.number})).collect::<Vec<_>>()))
            .map_err(|e| e.to_string()),
        "start" => d.start_debugee_with_reason().map(|r| stop_json(&r)).map_err(|e| e.to_string()),
        "continue" => d.continue_debugee_with_reason().map(|r| stop_json(&r)).map_err(|e| e.to_string()),
        "stepi" => d.stepi().map(|_| Value::Null).map_err(|e| e.to_string()),
        "step" => d.step_into().map(|_| Value::Null).map_err(|e| e.to_string()),
        "next" => d.step_over().map(|_| Value::Null).map_err(|e| e.to_string()),
        "finish" => d.step_out().map(|_| Value::Null).map_err(|e| e.to_string()),
        "frame" => d
            .set_frame_into_focus(c["k"].as_u64().unwrap() as u32)
            .map(|n| json!(n))
            .map_err(|e| e.to_string()),
        other => Err(format!("unknown command {other}")),
    });
    match r {
        Ok(Ok(v)) => json!({"ok": true, "ret": v}),
        Ok(Err(e)) => json!({"ok": false, "err": e}),
        Err(p) => json!({"ok": false, "panic": p}),
    }
}

fn main() {
    let argv: Vec<String> = std::env::args().collect();
    if argv.len() < 4 {
        vharness::tool_error("usage: c19 <exe> <script.json> <out.ndjson>");
    }
    let script = read_json(&argv[2]);
    let mut out = NdjsonOut::create(&argv[3]);
    let elf = Elf::load(&argv[1]);
    std::panic::set_hook(Box::new(|_| {}));
    let (d, rec, outp, pid) = dbg::launch(&argv[1], &[]);
    let vars = script["vars"]
        .as_array()
        .map(|a| {
            a.iter()
                .map(|v| VarT {
                    id: v["id"].as_u64().unwrap_or(0),
                    fnr: pairs(&v["fn"]),
                    size: v["size"].as_u64().unwrap_or(8),
                    signed: v["signed"].as_bool().unwrap_or(true),
                    locs: v["locs"]
                        .as_array()
                        .map(|l| {
                            l.iter()
                                .map(|x| VarLoc {
                                    e: x["e"].as_u64().unwrap_or(0),
                                    form: x["form"].as_str().unwrap_or("").to_string(),
                                    a: x["a"].as_i64().unwrap_or(0),
                                    b: x["b"].as_i64().unwrap_or(0),
                                    ops: x["ops"]
                                        .as_array()
                                        .map(|o| {
                                            o.iter()
                                                .map(|t| (t[0].as_str().unwrap_or("").to_string(), t[1].as_i64().unwrap_or(0), t[2].as_i64().unwrap_or(0)))
                                                .collect()
                                        })
                                        .unwrap_or_default(),
                                })
                                .collect()
                        })
                        .unwrap_or_default(),
                })
                .collect()
        })
        .unwrap_or_default();
    let mut cx = Ctx {
        dbg: Some(d),
        rec,
        pid: pid.as_raw(),
        bias: if elf.is_pie { PIE_BIAS } else { 0 },
        tick_addr: script["tick"].as_u64().unwrap_or(0),
        names: script["names"]
            .as_array()
            .map(|a| a.iter().map(|x| x.as_str().unwrap_or("").to_string()).collect())
            .unwrap_or_default(),
        fns: pairs(&script["fns"]),
        vars,
    };
    out.emit(&json!({"ev": "meta", "pid": cx.pid, "pie": elf.is_pie}));
    let cmds = script["cmds"].as_array().cloned().unwrap_or_default();
    for (k, c) in cmds.iter().enumerate() {
        let res = run_cmd(&mut cx, c);
        let hooks = cx.rec.take();
        let after = if res.get("panic").is_some() { json!({"status": "panicked"}) } else { observe(&cx) };
        out.emit(&json!({"ev": "obs", "k": k, "cmd": c, "res": res, "hooks": hooks, "after": after}));
        if res.get("panic").is_some() {
            if let Some(d) = cx.dbg.take() {
                std::mem::forget(d);
            }
            unsafe { libc::kill(cx.pid, libc::SIGKILL) };
            break;
        }
    }
    if let Some(d) = cx.dbg.take() {
        let r = catch(move || drop(d));
        out.emit(&json!({"ev": "teardown", "ok": r.is_ok(), "panic": r.err()}));
    }
    std::thread::sleep(std::time::Duration::from_millis(30));
    out.emit(&json!({"ev": "end", "stdout": outp.stdout_string(), "stderr": outp.stderr_string()}));
    unsafe { libc::kill(cx.pid, libc::SIGKILL) };
}

//! c09: runs multi-threaded puppets under the real `Debugger` with the ptrace/waitpid interposer,
//! free-running (seeded perturbation) or steered (tracer held at a syscall, puppet threads released
//! through their gates), and records the syscall-grain trace + prompt probes for TraceKernel.tla.
//!
//! usage: c09 <jobs.json>          jobs.json = {"puppet": exe, "src": "c09p.rs", "lines": {"a": n, "b": n},
//!                                              "jobs": [ {job}, ... ]}
//! job  = {"id": s, "out": path, "mode": "free"|"steer", "n":N, "k":K, "k2":K2, "sites":1|2, "spawn":0|1,
//!         "seed": u64, "pin": cpu|-1, "delays": {...}, "max_cmds": M, "script": [steps...]}
//! One result line per job on stdout: {"id":.., "ok":bool, "events":n, "pass":{t:n}, "reports":{t:n}, ...}
#[path = "../interpose.rs"]
mod interpose;

use bugstalker::debugger::Debugger;
use interpose::{DelayCfg, DelayPoint, Pending};
use serde_json::{json, Value};
use std::collections::BTreeMap;
use std::io::{Read, Write};
use std::os::fd::{AsRawFd, IntoRawFd};
use std::sync::mpsc;
use std::sync::{Arc, Mutex};
use std::time::{Duration, Instant};
use vharness::dbg::{self, stop_json};
use vharness::probe;
use vharness::{catch, read_json};

/// messages of the puppet's report pipe, decoded
#[derive(Default)]
struct Acks {
    /// logical -> tid
    tids: BTreeMap<u8, i32>,
    /// logical -> highest statement index announced at a gate
    at_gate: BTreeMap<u8, u32>,
    /// logical -> passes announced on leaving
    left: BTreeMap<u8, u32>,
    /// total messages
    seen: u64,
}

fn drain_acks(mut r: os_pipe::PipeReader, acks: Arc<Mutex<Acks>>) {
    std::thread::spawn(move || {
        let mut buf = [0u8; 8];
        loop {
            if r.read_exact(&mut buf).is_err() {
                return;
            }
            let v = u32::from_le_bytes([buf[4], buf[5], buf[6], buf[7]]);
            let mut a = acks.lock().unwrap();
            a.seen += 1;
            match buf[0] {
                1 => {
                    a.tids.insert(buf[1], v as i32);
                }
                2 => {
                    a.at_gate.insert(buf[1], v);
                }
                3 => {
                    a.left.insert(buf[1], v);
                }
                _ => {}
            }
        }
    });
}

fn set_cloexec(fd: i32, on: bool) {
    unsafe {
        let fl = libc::fcntl(fd, libc::F_GETFD);
        libc::fcntl(fd, libc::F_SETFD, if on { fl | libc::FD_CLOEXEC } else { fl & !libc::FD_CLOEXEC });
    }
}

/// plain pipe(2): both ends inheritable; returns (read, write)
fn raw_pipe() -> (i32, i32) {
    let mut fds = [0i32; 2];
    let r = unsafe { libc::pipe(fds.as_mut_ptr()) };
    if r != 0 {
        vharness::tool_error("pipe");
    }
    (fds[0], fds[1])
}

struct Session {
    dbg: Option<Debugger>,
    out: dbg::Output,
    pid: i32,
    acks: Arc<Mutex<Acks>>,
    /// write ends of the gates by logical thread
    gate_w: Vec<i32>,
    gate_r: Vec<i32>,
    ack_w: i32,
}

fn num(j: &Value, k: &str, d: i64) -> i64 {
    j.get(k).and_then(|v| v.as_i64()).unwrap_or(d)
}

fn launch(puppet: &str, job: &Value) -> Session {
    let n = num(job, "n", 2);
    let spawn = num(job, "spawn", 0);
    let gated = job["mode"] == "steer";
    let (ack_r, ack_w) = os_pipe::pipe().unwrap();
    let ack_w = ack_w.into_raw_fd();
    set_cloexec(ack_w, false);
    let acks = Arc::new(Mutex::new(Acks::default()));
    drain_acks(ack_r, acks.clone());
    let mut gate_r = vec![];
    let mut gate_w = vec![];
    if gated {
        let total = if spawn != 0 { 2 * n } else { n };
        for _ in 0..total {
            let (r, w) = raw_pipe();
            set_cloexec(w, true);
            gate_r.push(r);
            gate_w.push(w);
        }
    }
    // the environment is inherited by the forked debuggee
    std::env::set_var("C09_N", n.to_string());
    std::env::set_var("C09_K", num(job, "k", 2).to_string());
    std::env::set_var("C09_K2", num(job, "k2", 1).to_string());
    std::env::set_var("C09_SITES", num(job, "sites", 1).to_string());
    std::env::set_var("C09_SPAWN", spawn.to_string());
    std::env::set_var("C09_ACK", ack_w.to_string());
    std::env::set_var("C09_YIELD", if gated { "0".to_string() } else { num(job, "yield", 0).to_string() });
    std::env::set_var("C09_PIN", num(job, "pin", -1).to_string());
    if gated {
        std::env::set_var("C09_GATES", gate_r.iter().map(|f| f.to_string()).collect::<Vec<_>>().join(","));
    } else {
        std::env::remove_var("C09_GATES");
    }
    let (dbg, _rec, out, pid) = dbg::launch(puppet, &[]);
    Session { dbg: Some(dbg), out, pid: pid.as_raw(), acks, gate_w, gate_r, ack_w }
}

impl Session {
    fn close_fds(&mut self) {
        for f in self.gate_w.drain(..).chain(self.gate_r.drain(..)) {
            unsafe { libc::close(f) };
        }
        if self.ack_w >= 0 {
            unsafe { libc::close(self.ack_w) };
            self.ack_w = -1;
        }
    }
}

/// what the debugger says its threads are: [[tid, "stopped"|"running"], ...] sorted by tid
fn belief(d: &Debugger) -> Value {
    match d.thread_state() {
        Ok(ts) => {
            let mut v: Vec<(i32, bool, bool)> =
                ts.iter().map(|t| (t.thread.pid.as_raw(), t.thread.is_stopped(), t.in_focus)).collect();
            v.sort();
            json!(v.iter().map(|(t, s, f)| json!({"tid": t, "stopped": s, "focus": f})).collect::<Vec<_>>())
        }
        Err(e) => json!({"err": e.to_string()}),
    }
}

/// prompt probe: report event with what the API returned + /proc task states + believed thread list
fn report(s: &Session, ncmd: usize, res: &Result<Result<Value, String>, String>) -> Value {
    let (kind, tid, pc, err) = match res {
        Ok(Ok(v)) => (
            v["kind"].as_str().unwrap_or("?").to_string(),
            v["tid"].as_i64().unwrap_or(0),
            v["pc"].as_u64().unwrap_or(0),
            Value::Null,
        ),
        Ok(Err(e)) => ("error".to_string(), 0, 0, json!(e)),
        Err(p) => ("panic".to_string(), 0, 0, json!(p)),
    };
    let tasks = probe::task_states_json(s.pid);
    let threads = match (&s.dbg, kind.as_str()) {
        (Some(d), "breakpoint" | "signal" | "watchpoint") => belief(d),
        _ => Value::Null,
    };
    // second look at /proc a little later: "stays stopped until the user resumes"
    json!({"ev": "report", "cmd": ncmd, "kind": kind, "tid": tid, "pc": pc, "err": err,
           "code": res.as_ref().ok().and_then(|r| r.as_ref().ok()).map(|v| v["code"].clone()).unwrap_or(Value::Null),
           "tasks": tasks, "threads": threads})
}

fn delay_cfg(job: &Value) -> Option<DelayCfg> {
    let d = job.get("delays")?;
    if d.is_null() {
        return None;
    }
    let pt = |k: &str| DelayPoint {
        permille: d[k][0].as_u64().unwrap_or(0) as u32,
        max_us: d[k][1].as_u64().unwrap_or(0) as u32,
    };
    Some(DelayCfg {
        seed: num(job, "seed", 1) as u64,
        after_wait: pt("after_wait"),
        before_interrupt: pt("before_interrupt"),
        before_wait_tid: pt("before_wait_tid"),
        before_resume: pt("before_resume"),
        yield_below_us: d["yield_below_us"].as_u64().unwrap_or(20) as u32,
    })
}

fn set_breakpoints(d: &mut Debugger, src: &str, lines: &Value, sites: i64) -> Result<Vec<u64>, String> {
    let mut addrs = vec![];
    let mut which = vec!["a"];
    if sites >= 2 {
        which.push("b");
    }
    for w in which {
        let line = lines[w].as_u64().ok_or("no line")?;
        let views = d.set_breakpoint_at_line(src, line).map_err(|e| format!("break {src}:{line}: {e}"))?;
        for v in views.iter() {
            if let bugstalker::debugger::address::Address::Relocated(r) = v.addr {
                addrs.push(u64::from(r));
            } else if let bugstalker::debugger::address::Address::Global(g) = v.addr {
                addrs.push(u64::from(g) + 0x5555_5555_4000);
            }
        }
    }
    Ok(addrs)
}

fn one_command(d: &mut Debugger, first: bool) -> Result<Result<Value, String>, String> {
    catch(|| {
        let r = if first { d.start_debugee_with_reason() } else { d.continue_debugee_with_reason() };
        r.map(|s| stop_json(&s)).map_err(|e| e.to_string())
    })
}

fn parse_pass(stdout: &str) -> Value {
    let mut o = serde_json::Map::new();
    for l in stdout.lines() {
        if let Some(rest) = l.strip_prefix("PASS") {
            for kv in rest.split_whitespace() {
                if let Some((k, v)) = kv.split_once('=') {
                    o.insert(k.to_string(), json!(v.parse::<u64>().unwrap_or(u64::MAX)));
                }
            }
        }
    }
    Value::Object(o)
}

fn finish(mut s: Session, job: &Value, meta: Value, ok_exit: bool, t0: Instant) -> Value {
    interpose::stop();
    interpose::clear_hold();
    let injected = interpose::clear_delays();
    let mut events = interpose::take();
    s.close_fds();
    if ok_exit {
        // normal teardown; a panic in Drop is data
        if let Some(d) = s.dbg.take() {
            if let Err(p) = catch(move || drop(d)) {
                events.push(json!({"ev": "drop_panic", "msg": p}));
            }
        }
    } else if let Some(d) = s.dbg.take() {
        std::mem::forget(d);
        unsafe {
            libc::kill(s.pid, libc::SIGKILL);
        }
    }
    // let the output drainers see EOF
    let deadline = Instant::now() + Duration::from_millis(if ok_exit { 1500 } else { 100 });
    let mut stdout = s.out.stdout_string();
    while ok_exit && !stdout.contains("PASS") && Instant::now() < deadline {
        std::thread::sleep(Duration::from_millis(5));
        stdout = s.out.stdout_string();
    }
    let pass = parse_pass(&stdout);
    let acks = s.acks.lock().unwrap();
    let tids: BTreeMap<String, i32> = acks.tids.iter().map(|(k, v)| (k.to_string(), *v)).collect();
    // header line first (TraceKernel reads Raw[1].main)
    let head = json!({"ev": "head", "main": s.pid, "job": job["id"], "mode": job["mode"], "n": job["n"], "k": job["k"],
                      "k2": job["k2"], "sites": job["sites"], "spawn": job["spawn"], "seed": job["seed"],
                      "tids": tids, "pass": pass, "meta": meta, "delays_injected": injected});
    let path = job["out"].as_str().unwrap_or("/dev/null");
    let mut f = std::fs::File::create(path).unwrap_or_else(|e| vharness::tool_error(&format!("create {path}: {e}")));
    let mut buf = String::new();
    buf.push_str(&serde_json::to_string(&head).unwrap());
    buf.push('\n');
    for e in &events {
        buf.push_str(&serde_json::to_string(e).unwrap());
        buf.push('\n');
    }
    let _ = f.write_all(buf.as_bytes());
    json!({"id": job["id"], "ok": ok_exit, "events": events.len(), "pass": pass, "tids": tids, "out": path,
           "wall_ms": t0.elapsed().as_millis() as u64, "stdout_tail": stdout.chars().rev().take(200).collect::<String>().chars().rev().collect::<String>()})
}

// ---------------------------------------------------------------------------------------------------
// free-running sessions
// ---------------------------------------------------------------------------------------------------
fn run_free(puppet: &str, src: &str, lines: &Value, job: &Value) -> Value {
    let t0 = Instant::now();
    let mut s = launch(puppet, job);
    let mut d = s.dbg.take().unwrap();
    let bps = match set_breakpoints(&mut d, src, lines, num(job, "sites", 1)) {
        Ok(a) => a,
        Err(e) => vharness::tool_error(&e),
    };
    s.dbg = Some(d);
    interpose::push(json!({"ev": "bps", "addrs": bps}));
    if let Some(c) = delay_cfg(job) {
        interpose::set_delays(c);
    }
    interpose::start();
    let max_cmds = num(job, "max_cmds", 100000) as usize;
    let mut ncmd = 0usize;
    let mut ok_exit = false;
    let mut last = String::new();
    while ncmd < max_cmds {
        ncmd += 1;
        interpose::push(json!({"ev": "cmd", "cmd": ncmd, "name": if ncmd == 1 { "start" } else { "continue" }}));
        let res = one_command(s.dbg.as_mut().unwrap(), ncmd == 1);
        let rep = report(&s, ncmd, &res);
        last = rep["kind"].as_str().unwrap_or("").to_string();
        interpose::push(rep);
        match last.as_str() {
            "breakpoint" | "signal" => {}
            "exit" => {
                ok_exit = true;
                break;
            }
            _ => break,
        }
    }
    finish(s, job, json!({"cmds": ncmd, "last": last}), ok_exit, t0)
}

fn main() {
    let args: Vec<String> = std::env::args().collect();
    if args.len() < 2 {
        vharness::tool_error("usage: c09 <jobs.json>");
    }
    interpose::set_tracer_thread();
    let spec = read_json(&args[1]);
    let puppet = spec["puppet"].as_str().unwrap().to_string();
    let src = spec["src"].as_str().unwrap_or("c09p.rs").to_string();
    let lines = spec["lines"].clone();
    let so = std::io::stdout();
    for job in spec["jobs"].as_array().cloned().unwrap_or_default() {
        let res = match job["mode"].as_str() {
            Some("free") => run_free(&puppet, &src, &lines, &job),
            _ => json!({"id": job["id"], "ok": false, "err": "unknown mode"}),
        };
        let mut h = so.lock();
        let _ = writeln!(h, "{}", serde_json::to_string(&res).unwrap());
        let _ = h.flush();
    }
    let _ = (mpsc::channel::<Pending>, AsRawFd::as_raw_fd as fn(&std::fs::File) -> i32);
}

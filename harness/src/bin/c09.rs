//! c09: runs multi-threaded puppets under the real `Debugger` with the ptrace/waitpid interposer,
//! free-running (seeded perturbation) or steered (tracer held at a syscall, puppet threads released
//! through their gates), and records the syscall-grain trace + prompt probes for TraceKernel.tla.
//!
//! usage: c09 <jobs.json>          jobs.json = {"puppet": exe, "src": "c09p.rs", "lines": {"a": n, "b": n},
//!                                              "jobs": [ {job}, ... ]}
//! job  = {"id": s, "out": path, "mode": "free"|"steer", "n":N, "k":K, "k2":K2, "sites":1|2, "spawn":0|1,
//!         "seed": u64, "pin": cpu|-1, "delays": {...}, "max_cmds": M, "script": [steps...]}
//! One result line per job on stdout: {"id":.., "ok":bool, "events":n, "pass":{t:n}, "reports":{t:n}, ...}
#[path = "../interpose.rs"]
mod interpose;

use bugstalker::debugger::Debugger;
use interpose::{DelayCfg, DelayPoint, Pending};
use serde_json::{json, Value};
use std::collections::BTreeMap;
use std::io::{Read, Write};
use std::os::fd::IntoRawFd;
use std::sync::{Arc, Mutex};
use std::time::{Duration, Instant};
use vharness::dbg::{self, stop_json};
use vharness::probe;
use vharness::{catch, read_json};

/// messages of the puppet's report pipe, decoded
#[derive(Default)]
struct Acks {
    /// logical -> tid
    tids: BTreeMap<u8, i32>,
    /// logical -> highest statement index announced at a gate
    at_gate: BTreeMap<u8, u32>,
    /// logical -> passes announced on leaving
    left: BTreeMap<u8, u32>,
    /// total messages
    seen: u64,
}

fn drain_acks(mut r: os_pipe::PipeReader, acks: Arc<Mutex<Acks>>) {
    std::thread::spawn(move || {
        let mut buf = [0u8; 8];
        loop {
            if r.read_exact(&mut buf).is_err() {
                return;
            }
            let v = u32::from_le_bytes([buf[4], buf[5], buf[6], buf[7]]);
            let mut a = acks.lock().unwrap();
            a.seen += 1;
            match buf[0] {
                1 => {
                    a.tids.insert(buf[1], v as i32);
                }
                2 => {
                    a.at_gate.insert(buf[1], v);
                }
                3 => {
                    a.left.insert(buf[1], v);
                }
                _ => {}
            }
        }
    });
}

fn set_cloexec(fd: i32, on: bool) {
    unsafe {
        let fl = libc::fcntl(fd, libc::F_GETFD);
        libc::fcntl(fd, libc::F_SETFD, if on { fl | libc::FD_CLOEXEC } else { fl & !libc::FD_CLOEXEC });
    }
}

/// plain pipe(2): both ends inheritable; returns (read, write)
fn raw_pipe() -> (i32, i32) {
    let mut fds = [0i32; 2];
    let r = unsafe { libc::pipe(fds.as_mut_ptr()) };
    if r != 0 {
        vharness::tool_error("pipe");
    }
    (fds[0], fds[1])
}

/// a debugger kept across sessions of one worker: later sessions re-run the puppet through the
/// debugger's own restart path (the DWARF of the puppet is parsed once; the tracer state is rebuilt)
struct Kept {
    dbg: Debugger,
    rec: dbg::Recorder,
    out: dbg::Output,
    bps: Vec<u64>,
}

struct Session {
    dbg: Option<Debugger>,
    rec: dbg::Recorder,
    out: dbg::Output,
    bps: Vec<u64>,
    fresh: bool,
    stdout_mark: usize,
    pid: i32,
    acks: Arc<Mutex<Acks>>,
    /// write ends of the gates by logical thread
    gate_w: Vec<i32>,
    gate_r: Vec<i32>,
    ack_w: i32,
}

fn num(j: &Value, k: &str, d: i64) -> i64 {
    j.get(k).and_then(|v| v.as_i64()).unwrap_or(d)
}

fn launch(puppet: &str, src: &str, lines: &Value, job: &Value, kept: &mut Option<Kept>) -> Session {
    let n = num(job, "n", 2);
    let spawn = num(job, "spawn", 0);
    let gated = job["mode"] == "steer";
    let (ack_r, ack_w) = os_pipe::pipe().unwrap();
    let ack_w = ack_w.into_raw_fd();
    set_cloexec(ack_w, false);
    let acks = Arc::new(Mutex::new(Acks::default()));
    drain_acks(ack_r, acks.clone());
    let mut gate_r = vec![];
    let mut gate_w = vec![];
    if gated {
        let total = if spawn != 0 { 2 * n } else { n };
        for _ in 0..total {
            let (r, w) = raw_pipe();
            set_cloexec(w, true);
            gate_r.push(r);
            gate_w.push(w);
        }
    }
    // the environment is inherited by the forked debuggee
    std::env::set_var("C09_N", n.to_string());
    std::env::set_var("C09_K", num(job, "k", 2).to_string());
    std::env::set_var("C09_K2", num(job, "k2", 1).to_string());
    std::env::set_var("C09_SITES", num(job, "sites", 1).to_string());
    std::env::set_var("C09_SPAWN", spawn.to_string());
    std::env::set_var("C09_ACK", ack_w.to_string());
    std::env::set_var("C09_YIELD", if gated { "0".to_string() } else { num(job, "yield", 0).to_string() });
    std::env::set_var("C09_PIN", num(job, "pin", -1).to_string());
    if gated {
        std::env::set_var("C09_GATES", gate_r.iter().map(|f| f.to_string()).collect::<Vec<_>>().join(","));
    } else {
        std::env::remove_var("C09_GATES");
    }
    let tl = Instant::now();
    let reuse = job["reuse"].as_bool().unwrap_or(false);
    if !reuse {
        if let Some(k) = kept.take() {
            let _ = catch(move || drop(k.dbg));
        }
    }
    if let Some(k) = kept.take() {
        let mark = k.out.stdout.lock().unwrap().len();
        k.rec.take();
        return Session { dbg: Some(k.dbg), rec: k.rec, out: k.out, bps: k.bps, fresh: false, stdout_mark: mark, pid: 0,
                         acks, gate_w, gate_r, ack_w };
    }
    let (mut dbg, rec, out, pid) = dbg::launch(puppet, &[]);
    if std::env::var("C09_TIMING").is_ok() {
        eprintln!("[c09] launch {:?}", tl.elapsed());
    }
    let bps = match set_breakpoints(&mut dbg, src, lines, 2) {
        Ok(a) => a,
        Err(e) => vharness::tool_error(&e),
    };
    rec.take();
    Session { dbg: Some(dbg), rec, out, bps, fresh: true, stdout_mark: 0, pid: pid.as_raw(), acks, gate_w, gate_r, ack_w }
}

impl Session {
    fn close_fds(&mut self) {
        for f in self.gate_w.drain(..).chain(self.gate_r.drain(..)) {
            unsafe { libc::close(f) };
        }
        if self.ack_w >= 0 {
            unsafe { libc::close(self.ack_w) };
            self.ack_w = -1;
        }
    }
}

/// what the debugger says its threads are: [[tid, "stopped"|"running"], ...] sorted by tid
fn belief(d: &Debugger) -> Value {
    match d.thread_state() {
        Ok(ts) => {
            let mut v: Vec<(i32, bool, bool)> =
                ts.iter().map(|t| (t.thread.pid.as_raw(), t.thread.is_stopped(), t.in_focus)).collect();
            v.sort();
            json!(v.iter().map(|(t, s, f)| json!({"tid": t, "stopped": s, "focus": f})).collect::<Vec<_>>())
        }
        Err(e) => json!({"err": e.to_string()}),
    }
}

/// prompt probe: report event with what the API returned + /proc task states + believed thread list
fn report(s: &Session, ncmd: usize, res: &Result<Result<Value, String>, String>) -> Value {
    let (kind, tid, pc, err) = match res {
        Ok(Ok(v)) => (
            v["kind"].as_str().unwrap_or("?").to_string(),
            v["tid"].as_i64().unwrap_or(0),
            v["pc"].as_u64().unwrap_or(0),
            Value::Null,
        ),
        Ok(Err(e)) => ("error".to_string(), 0, 0, json!(e)),
        Err(p) => ("panic".to_string(), 0, 0, json!(p)),
    };
    let tasks = probe::task_states_json(s.pid);
    let threads = match (&s.dbg, kind.as_str()) {
        (Some(d), "breakpoint" | "signal" | "watchpoint" | "step") => belief(d),
        _ => Value::Null,
    };
    // second look at /proc a little later: "stays stopped until the user resumes"
    json!({"ev": "report", "cmd": ncmd, "kind": kind, "tid": tid, "pc": pc, "err": err,
           "code": res.as_ref().ok().and_then(|r| r.as_ref().ok()).map(|v| v["code"].clone()).unwrap_or(Value::Null),
           "tasks": tasks, "threads": threads})
}

fn delay_cfg(job: &Value) -> Option<DelayCfg> {
    let d = job.get("delays")?;
    if d.is_null() {
        return None;
    }
    let pt = |k: &str| DelayPoint {
        permille: d[k][0].as_u64().unwrap_or(0) as u32,
        max_us: d[k][1].as_u64().unwrap_or(0) as u32,
    };
    Some(DelayCfg {
        seed: num(job, "seed", 1) as u64,
        after_wait: pt("after_wait"),
        before_interrupt: pt("before_interrupt"),
        before_wait_tid: pt("before_wait_tid"),
        before_resume: pt("before_resume"),
        yield_below_us: d["yield_below_us"].as_u64().unwrap_or(20) as u32,
    })
}

fn set_breakpoints(d: &mut Debugger, src: &str, lines: &Value, sites: i64) -> Result<Vec<u64>, String> {
    let mut addrs = vec![];
    let mut which = vec!["a"];
    if sites >= 2 {
        which.push("b");
    }
    for w in which {
        let line = lines[w].as_u64().ok_or("no line")?;
        let views = d.set_breakpoint_at_line(src, line).map_err(|e| format!("break {src}:{line}: {e}"))?;
        for v in views.iter() {
            if let bugstalker::debugger::address::Address::Relocated(r) = v.addr {
                addrs.push(u64::from(r));
            } else if let bugstalker::debugger::address::Address::Global(g) = v.addr {
                addrs.push(u64::from(g) + 0x5555_5555_4000);
            }
        }
    }
    Ok(addrs)
}

fn one_command(s: &mut Session, first: bool, name: &str) -> Result<Result<Value, String>, String> {
    let fresh = s.fresh;
    let rec = s.rec.clone();
    let d = s.dbg.as_mut().unwrap();
    let r = catch(|| {
        if first && !fresh {
            // restart path: the API returns a synthetic reason; what was reported is in the hook events
            d.start_debugee_force_with_reason().map_err(|e| e.to_string()).map(|_| {
                let hooks = rec.take();
                let tid = d.ecx().pid_on_focus().as_raw();
                if let Some(h) = hooks.iter().rev().find(|h| h["hook"] == "breakpoint") {
                    json!({"kind": "breakpoint", "tid": tid, "pc": h["pc"], "hooks": hooks.len()})
                } else if let Some(h) = hooks.iter().rev().find(|h| h["hook"] == "exit") {
                    json!({"kind": "exit", "code": h["code"]})
                } else {
                    json!({"kind": "start"})
                }
            })
        } else if name == "next" {
            // `next` (step over): what it reports comes through the hook interface
            rec.take();
            d.step_over().map_err(|e| e.to_string()).map(|_| {
                let hooks = rec.take();
                let tid = d.ecx().pid_on_focus().as_raw();
                let pc = u64::from(d.ecx().location().pc);
                let said: Vec<String> = hooks.iter().map(|h| h["hook"].as_str().unwrap_or("?").to_string()).collect();
                if said.iter().any(|h| h == "exit") {
                    json!({"kind": "exit", "code": 0})
                } else if said.iter().any(|h| h == "breakpoint") {
                    json!({"kind": "breakpoint", "tid": tid, "pc": pc, "during": "next"})
                } else {
                    json!({"kind": "step", "tid": tid, "pc": pc, "hooks": said})
                }
            })
        } else {
            let r = if first { d.start_debugee_with_reason() } else { d.continue_debugee_with_reason() };
            r.map(|s| stop_json(&s)).map_err(|e| e.to_string())
        }
    });
    if first && !fresh {
        // pid of the re-created process: the main thread is the tracee the debugger lists with the lowest tid
        if let Some(d) = s.dbg.as_ref() {
            if let Ok(ts) = d.thread_state() {
                if let Some(m) = ts.iter().map(|t| t.thread.pid.as_raw()).min() {
                    if let Ok(st) = std::fs::read_to_string(format!("/proc/{m}/status")) {
                        if let Some(l) = st.lines().find(|l| l.starts_with("Tgid:")) {
                            s.pid = l[5..].trim().parse().unwrap_or(m);
                        }
                    }
                }
            }
        }
    }
    r
}


// ---------------------------------------------------------------------------------------------------
// watchdog: a command that does not return is data.  The trace so far is written with a final
// `report kind=hung`, the debuggee is killed and the worker exits with code 3.
// ---------------------------------------------------------------------------------------------------
struct Dump {
    job: Value,
    pid: i32,
    ncmd: usize,
    deadline: Instant,
}
static DUMP: Mutex<Option<Dump>> = Mutex::new(None);

fn arm_watchdog(job: &Value, pid: i32, ncmd: usize) {
    // the first command parses the debug information of every shared object: slow on a loaded machine
    let secs = if ncmd == 1 { num(job, "start_timeout", 180) } else { num(job, "cmd_timeout", 30) } as u64;
    *DUMP.lock().unwrap() = Some(Dump { job: job.clone(), pid, ncmd, deadline: Instant::now() + Duration::from_secs(secs) });
}
fn disarm_watchdog() {
    *DUMP.lock().unwrap() = None;
}
fn start_watchdog() {
    std::thread::spawn(|| loop {
        std::thread::sleep(Duration::from_millis(100));
        let g = DUMP.lock().unwrap();
        let Some(d) = g.as_ref() else { continue };
        if Instant::now() < d.deadline {
            continue;
        }
        let tasks = if d.pid > 0 { probe::task_states_json(d.pid) } else { Value::Null };
        interpose::push(json!({"ev": "report", "cmd": d.ncmd, "kind": "hung", "tid": 0, "pc": 0, "err": "command did not return",
                               "tasks": tasks, "threads": Value::Null, "parked": format!("{:?}", interpose::parked())}));
        let events = interpose::take();
        let head = json!({"ev": "head", "main": d.pid, "job": d.job["id"], "mode": d.job["mode"], "n": d.job["n"], "k": d.job["k"],
                          "k2": d.job["k2"], "sites": d.job["sites"], "spawn": d.job["spawn"], "seed": d.job["seed"],
                          "tids": {}, "pass": {}, "meta": {"cmds": d.ncmd, "last": "hung"}});
        let path = d.job["out"].as_str().unwrap_or("/dev/null");
        let mut buf = serde_json::to_string(&head).unwrap();
        buf.push('\n');
        for e in &events {
            buf.push_str(&serde_json::to_string(e).unwrap());
            buf.push('\n');
        }
        let _ = std::fs::write(path, buf);
        println!("{}", serde_json::to_string(&json!({"id": d.job["id"], "ok": false, "hung": true, "events": events.len(), "out": path})).unwrap());
        let _ = std::io::stdout().flush();
        if d.pid > 0 {
            unsafe { libc::kill(d.pid, libc::SIGKILL) };
        }
        std::process::exit(3);
    });
}

fn parse_pass(stdout: &str) -> Value {
    let mut o = serde_json::Map::new();
    for l in stdout.lines() {
        if let Some(rest) = l.strip_prefix("PASS") {
            for kv in rest.split_whitespace() {
                if let Some((k, v)) = kv.split_once('=') {
                    o.insert(k.to_string(), json!(v.parse::<u64>().unwrap_or(u64::MAX)));
                }
            }
        }
    }
    Value::Object(o)
}

fn finish(mut s: Session, job: &Value, meta: Value, ok_exit: bool, t0: Instant, kept: &mut Option<Kept>) -> Value {
    if std::env::var("C09_TIMING").is_ok() {
        eprintln!("[c09] to finish {:?}", t0.elapsed());
    }
    interpose::stop();
    interpose::clear_hold();
    let injected = interpose::clear_delays();
    let events = interpose::take();
    s.close_fds();
    if ok_exit {
        // keep the debugger for the next session of this worker
        if let Some(d) = s.dbg.take() {
            *kept = Some(Kept { dbg: d, rec: s.rec.clone(), out: s.out.clone(), bps: s.bps.clone() });
        }
    } else if let Some(d) = s.dbg.take() {
        std::mem::forget(d);
        unsafe {
            libc::kill(s.pid, libc::SIGKILL);
        }
    }
    // let the output drainers see EOF
    let deadline = Instant::now() + Duration::from_millis(if ok_exit { 1500 } else { 100 });
    let mark = s.stdout_mark;
    let tail = |o: &dbg::Output| -> String {
        let b = o.stdout.lock().unwrap();
        String::from_utf8_lossy(&b[mark.min(b.len())..]).to_string()
    };
    let mut stdout = tail(&s.out);
    while ok_exit && !stdout.contains("PASS") && Instant::now() < deadline {
        std::thread::sleep(Duration::from_millis(5));
        stdout = tail(&s.out);
    }
    if std::env::var("C09_TIMING").is_ok() {
        eprintln!("[c09] after drop {:?}", t0.elapsed());
    }
    let pass = parse_pass(&stdout);
    let acks = s.acks.lock().unwrap();
    let tids: BTreeMap<String, i32> = acks.tids.iter().map(|(k, v)| (k.to_string(), *v)).collect();
    // header line first (TraceKernel reads Raw[1].main)
    let head = json!({"ev": "head", "main": s.pid, "fresh": s.fresh, "job": job["id"], "mode": job["mode"], "n": job["n"], "k": job["k"],
                      "k2": job["k2"], "sites": job["sites"], "spawn": job["spawn"], "seed": job["seed"],
                      "tids": tids, "pass": pass, "meta": meta, "delays_injected": injected});
    let path = job["out"].as_str().unwrap_or("/dev/null");
    let mut f = std::fs::File::create(path).unwrap_or_else(|e| vharness::tool_error(&format!("create {path}: {e}")));
    let mut buf = String::new();
    buf.push_str(&serde_json::to_string(&head).unwrap());
    buf.push('\n');
    for e in &events {
        buf.push_str(&serde_json::to_string(e).unwrap());
        buf.push('\n');
    }
    let _ = f.write_all(buf.as_bytes());
    json!({"id": job["id"], "ok": ok_exit, "events": events.len(), "pass": pass, "tids": tids, "out": path,
           "wall_ms": t0.elapsed().as_millis() as u64, "stdout_tail": stdout.chars().rev().take(200).collect::<String>().chars().rev().collect::<String>()})
}

// ---------------------------------------------------------------------------------------------------
// free-running sessions
// ---------------------------------------------------------------------------------------------------
fn run_free(puppet: &str, src: &str, lines: &Value, job: &Value, kept: &mut Option<Kept>) -> Value {
    let t0 = Instant::now();
    let mut s = launch(puppet, src, lines, job, kept);
    interpose::push(json!({"ev": "bps", "addrs": s.bps}));
    if let Some(c) = delay_cfg(job) {
        interpose::set_delays(c);
    }
    interpose::start();
    let max_cmds = num(job, "max_cmds", 100000) as usize;
    let mut ncmd = 0usize;
    let mut ok_exit = false;
    let mut last = String::new();
    while ncmd < max_cmds {
        ncmd += 1;
        let tasks = if ncmd > 1 { probe::task_states_json(s.pid) } else { Value::Null };
        interpose::push(json!({"ev": "cmd", "cmd": ncmd, "name": if ncmd == 1 { "start" } else { "continue" }, "tasks": tasks}));
        let tc = Instant::now();
        arm_watchdog(job, s.pid, ncmd);
        let res = one_command(&mut s, ncmd == 1, "continue");
        disarm_watchdog();
        let t1 = tc.elapsed();
        let rep = report(&s, ncmd, &res);
        if std::env::var("C09_TIMING").is_ok() {
            let mut ru: libc::rusage = unsafe { std::mem::zeroed() };
            unsafe { libc::getrusage(libc::RUSAGE_SELF, &mut ru) };
            eprintln!("[c09] free cmd {ncmd} {:?} report {:?} cpu_user {}.{:03} sys {}.{:03}", t1, tc.elapsed() - t1,
                      ru.ru_utime.tv_sec, ru.ru_utime.tv_usec / 1000, ru.ru_stime.tv_sec, ru.ru_stime.tv_usec / 1000);
        }
        last = rep["kind"].as_str().unwrap_or("").to_string();
        interpose::push(rep);
        match last.as_str() {
            "breakpoint" | "signal" => {}
            "exit" => {
                ok_exit = true;
                break;
            }
            _ => break,
        }
    }
    finish(s, job, json!({"cmds": ncmd, "last": last}), ok_exit, t0, kept)
}


// ---------------------------------------------------------------------------------------------------
// steered sessions: a schedule skeleton from a Stalk behaviour decides, for each stop-producing step
// of a puppet thread (breakpoint arrival, clone, exit), before which tracer syscall it happens.
// The tracer's own choices (hash-map order, waitpid(-1) pick) are observed, not forced: the skeleton is
// guidance, the verdict comes from validating the recorded trace.
// ---------------------------------------------------------------------------------------------------
#[derive(Clone, Debug)]
struct Item {
    c: i64,
    k: i64,
    t: usize,
    sys: String,
    lb: String,
}

#[derive(Default)]
struct Steer {
    items: Vec<Item>,
    next: usize,
    /// model command index (= real command number - 1)
    cmd: i64,
    /// counted tracer calls started in this command
    k: i64,
    ready: bool,
    in_wait_any: bool,
    last_call: Option<Instant>,
    free: bool,
    done: bool,
    applied: u64,
    forced: u64,
    deferred: u64,
    sys_match: u64,
    settle_timeouts: u64,
}

fn counted(name: &str) -> bool {
    matches!(name, "cont" | "step" | "interrupt" | "wait" | "patch" | "setregs")
}

fn due(st: &Steer) -> bool {
    if st.free || !st.ready {
        return false;
    }
    match st.items.get(st.next) {
        Some(it) => it.c < st.cmd || (it.c == st.cmd && it.k <= st.k),
        None => false,
    }
}

/// state letter of one task, by tid alone (the pid of a restarted process is not known in advance)
fn proc_state(_pid: i32, tid: i32) -> String {
    match std::fs::read_to_string(format!("/proc/{tid}/stat")) {
        Ok(s) => s.rfind(')').map(|i| s[i + 1..].split_whitespace().next().unwrap_or("?").to_string()).unwrap_or("-".into()),
        Err(_) => "-".to_string(),
    }
}

/// write one byte to the gate of logical thread t and wait until it has settled
fn release_thread(s: &SessionShared, t: usize, st: &Arc<Mutex<Steer>>) -> Value {
    let tid = s.acks.lock().unwrap().tids.get(&(t as u8)).copied();
    let gate_before = s.acks.lock().unwrap().at_gate.get(&(t as u8)).copied();
    let Some(&fd) = s.gate_w.get(t) else { return json!({"err": "no gate"}) };
    let b = [1u8];
    unsafe { libc::write(fd, b.as_ptr() as *const libc::c_void, 1) };
    let mut settled = "unknown_tid";
    if let Some(tid) = tid {
        let deadline = Instant::now() + Duration::from_millis(1500);
        settled = "timeout";
        while Instant::now() < deadline {
            let ps = proc_state(s.pid, tid);
            if ps == "t" {
                settled = "stop";
                break;
            }
            if ps == "Z" || ps == "X" || ps == "-" {
                settled = "gone";
                break;
            }
            let g = s.acks.lock().unwrap().at_gate.get(&(t as u8)).copied();
            if g != gate_before && g.is_some() {
                settled = "next_gate";
                break;
            }
            std::thread::sleep(Duration::from_micros(200));
        }
        if settled == "timeout" {
            st.lock().unwrap().settle_timeouts += 1;
        }
    }
    json!({"tid": tid, "settled": settled})
}

struct SessionShared {
    pid: i32,
    acks: Arc<Mutex<Acks>>,
    gate_w: Vec<i32>,
    nworkers: usize,
}

fn scheduler(sh: SessionShared, st: Arc<Mutex<Steer>>) {
    loop {
        if st.lock().unwrap().done {
            return;
        }
        // workers at their first gate -> the model's initial prompt is reached
        {
            let mut g = st.lock().unwrap();
            if !g.ready {
                let a = sh.acks.lock().unwrap();
                if (0..sh.nworkers).all(|w| a.at_gate.contains_key(&(w as u8))) {
                    g.ready = true;
                    g.k = sh.nworkers as i64 + 1;
                }
            }
        }
        if let Some(p) = interpose::wait_parked(Duration::from_millis(10)) {
            // perform everything that is due at this point of the tracer
            loop {
                let it = {
                    let g = st.lock().unwrap();
                    if !due(&g) {
                        break;
                    }
                    g.items[g.next].clone()
                };
                let tid = sh.acks.lock().unwrap().tids.get(&(it.t as u8)).copied();
                // a thread that sits in a ptrace-stop cannot move: retry at the tracer's next counted call
                if let Some(tid) = tid {
                    if proc_state(sh.pid, tid) == "t" {
                        let mut g = st.lock().unwrap();
                        let (c, k) = (g.cmd, g.k);
                        let n = g.next;
                        g.items[n].c = c;
                        g.items[n].k = k + 1;
                        g.deferred += 1;
                        break;
                    }
                }
                let r = release_thread(&sh, it.t, &st);
                let mut g = st.lock().unwrap();
                g.next += 1;
                g.applied += 1;
                if it.sys == p.name {
                    g.sys_match += 1;
                }
                let (c, k) = (g.cmd, g.k);
                drop(g);
                interpose::push(json!({"ev": "release", "thread": it.t, "at": p.name, "at_tid": p.tid, "cmd": c, "k": k,
                                       "want": {"c": it.c, "k": it.k, "sys": it.sys, "lb": it.lb}, "forced": false, "res": r}));
            }
            interpose::release();
            continue;
        }
        // tracer not parked: is it blocked in waitpid(-1) with nothing coming?
        let (stuck, exhausted) = {
            let g = st.lock().unwrap();
            let quiet = g.last_call.is_some_and(|t| t.elapsed() > Duration::from_millis(25));
            (g.ready && !g.free && g.in_wait_any && quiet, g.next >= g.items.len())
        };
        if !stuck {
            continue;
        }
        if exhausted {
            // free tail: every thread may run to its end
            let mut g = st.lock().unwrap();
            g.free = true;
            drop(g);
            let buf = [1u8; 64];
            for &fd in &sh.gate_w {
                unsafe { libc::write(fd, buf.as_ptr() as *const libc::c_void, buf.len()) };
            }
            interpose::push(json!({"ev": "free_tail"}));
            continue;
        }
        let it = {
            let g = st.lock().unwrap();
            g.items[g.next].clone()
        };
        let r = release_thread(&sh, it.t, &st);
        let mut g = st.lock().unwrap();
        g.next += 1;
        g.forced += 1;
        g.last_call = Some(Instant::now());
        let (c, k) = (g.cmd, g.k);
        drop(g);
        interpose::push(json!({"ev": "release", "thread": it.t, "at": "wait", "at_tid": -1, "cmd": c, "k": k,
                               "want": {"c": it.c, "k": it.k, "sys": it.sys, "lb": it.lb}, "forced": true, "res": r}));
    }
}

fn run_steer(puppet: &str, src: &str, lines: &Value, job: &Value, kept: &mut Option<Kept>) -> Value {
    let t0 = Instant::now();
    let mut s = launch(puppet, src, lines, job, kept);
    interpose::push(json!({"ev": "bps", "addrs": s.bps}));
    let items: Vec<Item> = job["script"]
        .as_array()
        .cloned()
        .unwrap_or_default()
        .iter()
        .map(|i| Item {
            c: i["c"].as_i64().unwrap_or(0),
            k: i["k"].as_i64().unwrap_or(0),
            t: i["t"].as_u64().unwrap_or(0) as usize,
            sys: i["sys"].as_str().unwrap_or("").to_string(),
            lb: i["lb"].as_str().unwrap_or("").to_string(),
        })
        .collect();
    let nitems = items.len();
    let st = Arc::new(Mutex::new(Steer { items, ..Default::default() }));
    let sh = SessionShared { pid: s.pid, acks: s.acks.clone(), gate_w: s.gate_w.clone(), nworkers: num(job, "n", 2) as usize };
    let st2 = st.clone();
    let sched = std::thread::spawn(move || scheduler(sh, st2));
    let st3 = st.clone();
    interpose::hold_when(move |p: &Pending| {
        let mut g = st3.lock().unwrap();
        g.last_call = Some(Instant::now());
        let hold = due(&g);
        g.in_wait_any = p.name == "wait" && p.tid == -1;
        if counted(p.name) {
            g.k += 1;
        }
        hold
    });
    interpose::start();
    let max_cmds = num(job, "max_cmds", 1000) as usize;
    let mut ncmd = 0usize;
    let mut ok_exit = false;
    let mut last = String::new();
    while ncmd < max_cmds {
        ncmd += 1;
        {
            let mut g = st.lock().unwrap();
            g.cmd = ncmd as i64 - 1;
            if ncmd > 1 {
                g.k = 0;
            }
            g.in_wait_any = false;
        }
        let tasks = if ncmd > 1 { probe::task_states_json(s.pid) } else { Value::Null };
        let name = if ncmd == 1 { "start".to_string() } else { job["cmds"][ncmd - 2].as_str().unwrap_or("continue").to_string() };
        interpose::push(json!({"ev": "cmd", "cmd": ncmd, "name": name, "tasks": tasks}));
        let tc = Instant::now();
        arm_watchdog(job, s.pid, ncmd);
        let res = one_command(&mut s, ncmd == 1, &name);
        disarm_watchdog();
        if std::env::var("C09_TIMING").is_ok() {
            eprintln!("[c09] cmd {ncmd} {:?}", tc.elapsed());
        }
        st.lock().unwrap().in_wait_any = false;
        let rep = report(&s, ncmd, &res);
        last = rep["kind"].as_str().unwrap_or("").to_string();
        interpose::push(rep);
        match last.as_str() {
            "breakpoint" | "signal" | "step" => {}
            "exit" => {
                ok_exit = true;
                break;
            }
            _ => break,
        }
    }
    let meta = {
        let mut g = st.lock().unwrap();
        g.done = true;
        json!({"cmds": ncmd, "last": last, "items": nitems, "applied": g.applied, "forced": g.forced,
               "deferred": g.deferred, "sys_match": g.sys_match, "unused": nitems.saturating_sub(g.next),
               "settle_timeouts": g.settle_timeouts})
    };
    interpose::clear_hold();
    interpose::release();
    let _ = sched.join();
    finish(s, job, meta, ok_exit, t0, kept)
}

fn main() {
    let args: Vec<String> = std::env::args().collect();
    if args.len() < 2 {
        vharness::tool_error("usage: c09 <jobs.json>");
    }
    interpose::set_tracer_thread();
    start_watchdog();
    let spec = read_json(&args[1]);
    let puppet = spec["puppet"].as_str().unwrap().to_string();
    let src = spec["src"].as_str().unwrap_or("c09p.rs").to_string();
    let lines = spec["lines"].clone();
    let so = std::io::stdout();
    let mut kept: Option<Kept> = None;
    for job in spec["jobs"].as_array().cloned().unwrap_or_default() {
        let res = match job["mode"].as_str() {
            Some("free") => run_free(&puppet, &src, &lines, &job, &mut kept),
            Some("steer") => run_steer(&puppet, &src, &lines, &job, &mut kept),
            _ => json!({"id": job["id"], "ok": false, "err": "unknown mode"}),
        };
        let mut h = so.lock();
        let _ = writeln!(h, "{}", serde_json::to_string(&res).unwrap());
        let _ = h.flush();
    }
    if let Some(k) = kept.take() {
        let _ = catch(move || drop(k.dbg));
    }
}

//! C16 driver: binds spec/CallInject.tla to the real debugger.
//!
//!   c16 call <cfg.json> <out.ndjson>     one debugging session: stop at a position, replay call cases, go on
//!   c16 dbg  <cfg.json> <out.ndjson>     vard / argd on the generated dbg puppet
//!
//! call cfg: {"puppet", "source", "lines": {...}, "entry_addr", "fp_addr", "known_sym", "pos": entry|body|mid|leaf|fp,
//!            "keep_bp": bool, "extra_bps": [fn...], "heal": bool, "cases": ndjson path, "finish": bool,
//!            "fault": null | {"nth": k, "errno": n}}
//! a case:   {"id", "route": "console"|"api", "fn", "args": [{"k": int|bool|addr|float|str, "txt": "...", "bits": "hex u64"}]}
//!
//! The driver performs and observes only.  Around every case it takes an independent snapshot of the debuggee
//! (PTRACE_GETREGS + PTRACE_GETFPREGS on this thread = the tracer, text vs ELF file, word at pc, /proc/<pid>/maps,
//! stack window rsp-256..rsp+64 through /proc/<pid>/mem, breakpoints_snapshot, the callee log) and writes what
//! changed.  tools/checks/c16.py compares with the outcome spec/CallInject.tla printed for the same case.

use bugstalker::debugger::address::{Address, RelocatedAddress};
use bugstalker::debugger::variable::dqe::Literal;
use bugstalker::debugger::{Debugger, StopReason};
use bugstalker::ui::command::Command;
use bugstalker::ui::config::{self, Theme, UIConfig};
use bugstalker::ui::generic::command_handler::{CommandHandler, Completer, ProgramTaker, YesQuestion};
use bugstalker::ui::generic::file::FileView;
use bugstalker::ui::generic::help::Helper;
use bugstalker::ui::generic::print::{ExternalPrinter, InStringPrinter};
use bugstalker::ui::generic::trigger::{TriggerRegistry, UserProgram};
use serde_json::{json, Value};
use std::cell::RefCell;
use std::rc::Rc;
use std::sync::atomic::{AtomicI64, AtomicU64, Ordering};
use vharness::probe::{self, Elf};
use vharness::{catch, read_json, read_ndjson, tool_error, NdjsonOut};

const BIAS0: u64 = 0x555555554000;
const BELOW: u64 = 256;
const ABOVE: u64 = 64;

// ------------------------------------------------------------------------------------------------
// ptrace interposition: count the library's requests, optionally fail the n-th one inside a window
// ------------------------------------------------------------------------------------------------
static WINDOW: AtomicI64 = AtomicI64::new(0); // 1 while a case is being executed
static NREQ: AtomicU64 = AtomicU64::new(0); // requests seen inside the window
static FAIL_NTH: AtomicI64 = AtomicI64::new(-1); // fail this one (0-based) ...
static FAIL_ERRNO: AtomicI64 = AtomicI64::new(0); // ... with this errno
static FAILED_REQ: AtomicI64 = AtomicI64::new(-1); // the request number that was failed
static CASE_NO: AtomicU64 = AtomicU64::new(0); // odd while a case is being executed
static REQLOG: std::sync::Mutex<Vec<u32>> = std::sync::Mutex::new(Vec::new()); // request numbers inside the window

/// A call that never comes back is data: after `secs` inside one case the watchdog records it, kills the
/// debuggee and ends the driver.
fn watchdog(path: String, pid: i32, secs: u64) {
    std::thread::spawn(move || {
        let mut last = 0u64;
        let mut since = std::time::Instant::now();
        loop {
            std::thread::sleep(std::time::Duration::from_millis(200));
            let n = CASE_NO.load(Ordering::SeqCst);
            if n != last {
                last = n;
                since = std::time::Instant::now();
            } else if n % 2 == 1 && since.elapsed().as_secs() >= secs {
                let state = probe::process_state(pid).unwrap_or_default();
                let sys = std::fs::read_to_string(format!("/proc/{pid}/syscall")).unwrap_or_default();
                if let Ok(mut f) = std::fs::OpenOptions::new().append(true).open(&path) {
                    use std::io::Write;
                    let _ = writeln!(f, "{}", json!({"meta": "hang", "secs": secs, "debuggee_state": state, "debuggee_syscall": sys.trim()}));
                    let _ = writeln!(f, "{}", json!({"meta": "done"}));
                }
                unsafe { libc::kill(pid, libc::SIGKILL) };
                std::process::exit(0);
            }
        }
    });
}

type PtraceFn = unsafe extern "C" fn(libc::c_uint, libc::pid_t, *mut libc::c_void, *mut libc::c_void) -> libc::c_long;

/// # Safety
/// called like libc's ptrace
#[no_mangle]
pub unsafe extern "C" fn ptrace(req: libc::c_uint, pid: libc::pid_t, addr: *mut libc::c_void, data: *mut libc::c_void) -> libc::c_long {
    static REAL: std::sync::OnceLock<usize> = std::sync::OnceLock::new();
    let real = *REAL.get_or_init(|| libc::dlsym(libc::RTLD_NEXT, c"ptrace".as_ptr()) as usize);
    let f: PtraceFn = std::mem::transmute(real);
    if WINDOW.load(Ordering::SeqCst) == 1 {
        let n = NREQ.fetch_add(1, Ordering::SeqCst) as i64;
        if let Ok(mut l) = REQLOG.try_lock() {
            l.push(req);
        }
        if n == FAIL_NTH.load(Ordering::SeqCst) {
            FAILED_REQ.store(req as i64, Ordering::SeqCst);
            *libc::__errno_location() = FAIL_ERRNO.load(Ordering::SeqCst) as i32;
            return -1;
        }
    }
    f(req, pid, addr, data)
}

// ------------------------------------------------------------------------------------------------
// console layer
// ------------------------------------------------------------------------------------------------
struct Yes;
impl YesQuestion for Yes {
    fn yes(&self, _q: &str) -> Result<bool, bugstalker::ui::command::CommandError> {
        Ok(true)
    }
}
struct NoComplete;
impl Completer for NoComplete {
    fn update_completer_variables(&self, _d: &Debugger) -> anyhow::Result<()> {
        Ok(())
    }
}
struct NoProg;
impl ProgramTaker for NoProg {
    fn take_user_command_list(&self, _h: &str) -> Result<UserProgram, bugstalker::ui::command::CommandError> {
        Ok(vec![])
    }
}

struct Console {
    buf: Rc<RefCell<String>>,
    printer: ExternalPrinter,
    file_view: FileView,
    helper: Helper,
    trig: TriggerRegistry,
}

impl Console {
    fn new() -> Self {
        let buf = Rc::new(RefCell::new(String::new()));
        let printer = ExternalPrinter::new(Box::new(InStringPrinter::new(buf.clone())));
        Console { buf, printer, file_view: FileView::new(), helper: Helper::default(), trig: TriggerRegistry::default() }
    }

    /// One console line through the real parser and the real generic command handler.
    /// Returns (Ok(printed text) | Err(message), stage at which it failed)
    fn line(&self, dbg: &mut Debugger, line: &str) -> Result<String, (String, &'static str)> {
        self.buf.borrow_mut().clear();
        let cmd = match catch(|| Command::parse(line)) {
            Ok(r) => r.map_err(|e| (format!("{e}"), "parse"))?,
            Err(p) => return Err((p, "parse_panic")),
        };
        let mut h = CommandHandler {
            yes_handler: Yes,
            complete_handler: NoComplete,
            prog_taker: NoProg,
            trigger_reg: &self.trig,
            debugger: dbg,
            printer: &self.printer,
            file_view: &self.file_view,
            helper: &self.helper,
        };
        h.handle_command(cmd).map_err(|e| (format!("{e}"), "handle"))?;
        Ok(self.buf.borrow().clone())
    }
}

fn strip_ansi(s: &str) -> String {
    let mut out = String::new();
    let mut it = s.chars().peekable();
    while let Some(c) = it.next() {
        if c == '\x1b' && it.peek() == Some(&'[') {
            it.next();
            for d in it.by_ref() {
                if d.is_ascii_alphabetic() {
                    break;
                }
            }
        } else {
            out.push(c);
        }
    }
    out
}

// ------------------------------------------------------------------------------------------------
// snapshots
// ------------------------------------------------------------------------------------------------
fn regs_json(r: &libc::user_regs_struct) -> Value {
    json!({"rax": r.rax, "rbx": r.rbx, "rcx": r.rcx, "rdx": r.rdx, "rdi": r.rdi, "rsi": r.rsi, "rbp": r.rbp,
        "rsp": r.rsp, "r8": r.r8, "r9": r.r9, "r10": r.r10, "r11": r.r11, "r12": r.r12, "r13": r.r13,
        "r14": r.r14, "r15": r.r15, "rip": r.rip, "eflags": r.eflags, "orig_rax": r.orig_rax,
        "cs": r.cs, "ss": r.ss, "ds": r.ds, "es": r.es, "fs": r.fs, "gs": r.gs, "fs_base": r.fs_base, "gs_base": r.gs_base})
}

struct Snap {
    regs: Value,
    rsp: u64,
    rip: u64,
    fp: Vec<u8>,
    word: Vec<u8>,
    patched: Vec<u64>,
    maps: Vec<String>,
    stack: Vec<u8>,
    stack_base: u64,
    bps: Value,
    log_len: u64,
}

struct Ctx {
    pid: i32,
    npid: nix::unistd::Pid,
    elf: Elf,
    log_addr: u64,
    len_addr: u64,
}

fn getfpregs(pid: i32) -> Option<Vec<u8>> {
    let mut buf = vec![0u8; 512];
    let r = unsafe { libc::ptrace(libc::PTRACE_GETFPREGS, pid, 0usize, buf.as_mut_ptr()) };
    if r == -1 {
        None
    } else {
        Some(buf)
    }
}

fn snap(cx: &Ctx, dbg: &Debugger, base_rsp: Option<u64>) -> Option<Snap> {
    let w = WINDOW.swap(0, Ordering::SeqCst);
    let r = nix::sys::ptrace::getregs(cx.npid).ok();
    let fp = getfpregs(cx.pid);
    WINDOW.store(w, Ordering::SeqCst);
    let r = r?;
    let base = base_rsp.unwrap_or(r.rsp);
    let stack = probe::read_mem(cx.pid, base - BELOW, (BELOW + ABOVE) as usize)?;
    let bps: Vec<Value> = dbg.breakpoints_snapshot().iter().map(|b| json!([b.number, format!("{}", b.addr)])).collect();
    Some(Snap {
        regs: regs_json(&r),
        rsp: r.rsp,
        rip: r.rip,
        fp: fp?,
        word: probe::read_mem(cx.pid, r.rip, 8).unwrap_or_default(),
        patched: probe::patched_text(cx.pid, &cx.elf)?,
        maps: probe::maps(cx.pid).iter().map(|m| format!("{:x}-{:x} {} {}", m.start, m.end, m.perms, m.path)).collect(),
        stack,
        stack_base: base - BELOW,
        bps: json!(bps),
        log_len: probe::read_u64(cx.pid, cx.len_addr)?,
    })
}

fn log_entries(cx: &Ctx, from: u64, to: u64) -> Vec<Value> {
    let mut out = vec![];
    for i in from..to.min(from + 8) {
        if let Some(b) = probe::read_mem(cx.pid, cx.log_addr + i * 80, 80) {
            let w: Vec<u64> = b.chunks(8).map(|c| u64::from_le_bytes(c.try_into().unwrap())).collect();
            out.push(json!({"id": w[0], "n": w[1], "a": w[2..9].iter().map(|x| format!("{x:x}")).collect::<Vec<_>>(), "sp": w[9]}));
        }
    }
    out
}

/// What differs between two snapshots, as data.
fn diff(b: &Snap, a: &Snap) -> Value {
    let mut regs = serde_json::Map::new();
    for (k, v) in b.regs.as_object().unwrap() {
        if a.regs[k] != *v {
            regs.insert(k.clone(), json!([v, a.regs[k]]));
        }
    }
    // fxsave image: st/mm 32..160, xmm0-15 160..416, header 0..32
    let mut fpd = vec![];
    for i in 0..(b.fp.len() / 16) {
        if b.fp[i * 16..i * 16 + 16] != a.fp[i * 16..i * 16 + 16] {
            let name = match i {
                0 | 1 => format!("fxhdr{i}"),
                2..=9 => format!("st{}", i - 2),
                10..=25 => format!("xmm{}", i - 10),
                _ => format!("fxpad{i}"),
            };
            fpd.push(name);
        }
    }
    let mut stack = vec![];
    if b.stack_base == a.stack_base {
        for i in 0..b.stack.len() {
            if b.stack[i] != a.stack[i] {
                stack.push(i as i64 - BELOW as i64);
            }
        }
    }
    let maps_added: Vec<&String> = a.maps.iter().filter(|m| !b.maps.contains(m)).collect();
    let maps_removed: Vec<&String> = b.maps.iter().filter(|m| !a.maps.contains(m)).collect();
    json!({
        "regs": regs, "fp": fpd,
        "word": if b.word != a.word || b.rip != a.rip { json!([b.word, a.word]) } else { Value::Null },
        "patched": if b.patched != a.patched { json!([b.patched, a.patched]) } else { Value::Null },
        "maps_added": maps_added, "maps_removed": maps_removed,
        "stack_changed": stack,
        "bps": if b.bps != a.bps { json!([b.bps, a.bps]) } else { Value::Null },
        "log_grew": a.log_len as i64 - b.log_len as i64,
    })
}

fn literal_of(a: &Value) -> Literal {
    let bits = u64::from_str_radix(a["bits"].as_str().unwrap_or("0"), 16).unwrap_or(0);
    match a["k"].as_str().unwrap_or("") {
        "int" => Literal::Int(bits as i64),
        "bool" => Literal::Bool(bits != 0),
        "addr" => Literal::Address(bits as usize),
        "float" => Literal::Float(a["txt"].as_str().unwrap_or("0").parse().unwrap_or(0.0)),
        _ => Literal::String(a["txt"].as_str().unwrap_or("").to_string()),
    }
}

fn stop_brief(r: &StopReason) -> Value {
    vharness::dbg::stop_json(r)
}

fn alive(pid: i32) -> bool {
    matches!(probe::process_state(pid).as_deref(), Some("t") | Some("S") | Some("R") | Some("D"))
}

/// The pipes are drained by background threads: give them time to deliver the program's last line.
fn wait_output(o: &vharness::dbg::Output, last_prefix: &str) {
    for _ in 0..100 {
        let s = o.stdout_string();
        if s.ends_with('\n') && s.lines().last().map(|l| l.starts_with(last_prefix)).unwrap_or(false) {
            return;
        }
        std::thread::sleep(std::time::Duration::from_millis(50));
    }
}

fn ui_init() {
    config::set(UIConfig { theme: Theme::None, tui_keymap: Default::default(), save_history: false });
}

// ------------------------------------------------------------------------------------------------
// call sessions
// ------------------------------------------------------------------------------------------------
fn mode_call(cfg: &Value, out: &mut NdjsonOut) {
    let puppet = cfg["puppet"].as_str().unwrap();
    let elf = Elf::load(puppet);
    let src_name = std::path::Path::new(cfg["source"].as_str().unwrap()).file_name().unwrap().to_string_lossy().to_string();
    let pos = cfg["pos"].as_str().unwrap();
    let cases = read_ndjson(cfg["cases"].as_str().unwrap());
    let (mut dbg, _rec, output, npid) = vharness::dbg::launch(puppet, &[]);
    let pid = npid.as_raw();
    let want_pc: Option<u64> = match pos {
        "entry" => Some(BIAS0 + cfg["entry_addr"].as_u64().unwrap()),
        "fp" => Some(BIAS0 + cfg["fp_addr"].as_u64().unwrap()),
        _ => None,
    };
    let r = match pos {
        "entry" | "fp" => dbg.set_breakpoint_at_addr(RelocatedAddress::from(want_pc.unwrap())).map(|_| ()),
        "body" => dbg.set_breakpoint_at_fn("host_entry").map(|_| ()),
        "mid" => dbg.set_breakpoint_at_line(&src_name, cfg["lines"]["mid"].as_u64().unwrap()).map(|_| ()),
        "leaf" => dbg.set_breakpoint_at_line(&src_name, cfg["lines"]["leaf"].as_u64().unwrap()).map(|_| ()),
        "callee" => dbg.set_breakpoint_at_fn("f2").map(|_| ()),
        _ => tool_error("unknown pos"),
    };
    r.unwrap_or_else(|e| tool_error(&format!("stop breakpoint: {e}")));
    let stop = dbg.start_debugee_with_reason().unwrap_or_else(|e| tool_error(&format!("start: {e}")));
    if probe::load_bias(pid, &elf) != BIAS0 {
        tool_error("unexpected load bias");
    }
    let stop_pc = match &stop {
        StopReason::Breakpoint(_, a) => u64::from(*a),
        other => tool_error(&format!("did not reach the stop position: {:?}", stop_brief(other))),
    };
    if let Some(w) = want_pc {
        if w != stop_pc {
            tool_error("stopped at another breakpoint first");
        }
    }
    {
        let ga = stop_pc - BIAS0;
        let want_fn = match pos { "entry" | "body" => "host_entry", "mid" => "host_mid", "leaf" => "leaf_rz", "fp" => "host_fp", _ => "f2" };
        let (v, sz) = elf.symbols.get(want_fn).copied().unwrap_or((0, 0));
        if !(v <= ga && ga < v + sz) {
            tool_error(&format!("stopped at {ga:#x}, outside {want_fn}"));
        }
    }
    for f in cfg["extra_bps"].as_array().cloned().unwrap_or_default() {
        dbg.set_breakpoint_at_fn(f.as_str().unwrap()).unwrap_or_else(|e| tool_error(&format!("extra breakpoint {f}: {e}")));
    }
    if !cfg["keep_bp"].as_bool().unwrap_or(true) {
        dbg.remove_breakpoint(Address::Relocated(RelocatedAddress::from(stop_pc)))
            .unwrap_or_else(|e| tool_error(&format!("remove stop breakpoint: {e}")));
    }
    let cx = Ctx {
        pid,
        npid,
        log_addr: BIAS0 + elf.sym("C16_LOG").unwrap_or_else(|| tool_error("no C16_LOG")),
        len_addr: BIAS0 + elf.sym("C16_LOG_LEN").unwrap_or_else(|| tool_error("no C16_LOG_LEN")),
        elf,
    };
    let known = BIAS0 + cx.elf.sym("C16_KNOWN").unwrap_or_else(|| tool_error("no C16_KNOWN"));
    let s0 = snap(&cx, &dbg, None).unwrap_or_else(|| tool_error("first snapshot failed"));
    out.emit(&json!({"meta": "stopped", "pos": pos, "pc": stop_pc, "rsp": s0.rsp, "rsp_mod16": s0.rsp % 16, "regs": s0.regs,
        "word": s0.word, "patched": s0.patched, "bps": s0.bps, "log_len": s0.log_len, "known": known,
        "maps": s0.maps.len(), "func": dbg.ecx().location().pc.to_string()}));
    let console = Console::new();
    watchdog(cfg["out_path"].as_str().unwrap_or("").to_string(), pid, cfg["hang_secs"].as_u64().unwrap_or(20));
    let heal = cfg["heal"].as_bool().unwrap_or(false);
    let fault = cfg.get("fault").cloned().unwrap_or(Value::Null);
    let mut lost = Value::Null;
    for c in &cases {
        let before = match snap(&cx, &dbg, Some(s0.rsp)) {
            Some(s) => s,
            None => {
                lost = json!("snapshot before the case failed");
                break;
            }
        };
        let name = c["fn"].as_str().unwrap_or("");
        let args: Vec<Value> = c["args"].as_array().cloned().unwrap_or_default();
        let route = c["route"].as_str().unwrap_or("console");
        NREQ.store(0, Ordering::SeqCst);
        REQLOG.lock().unwrap().clear();
        FAILED_REQ.store(-1, Ordering::SeqCst);
        if let (Some(n), true) = (fault["nth"].as_i64(), c["faulty"].as_bool().unwrap_or(false)) {
            FAIL_NTH.store(n, Ordering::SeqCst);
            FAIL_ERRNO.store(fault["errno"].as_i64().unwrap_or(libc::ESRCH as i64), Ordering::SeqCst);
        }
        out.emit(&json!({"begin": c["id"]}));
        CASE_NO.fetch_add(1, Ordering::SeqCst);
        WINDOW.store(1, Ordering::SeqCst);
        let t_call = std::time::Instant::now();
        let res: Result<Result<String, (String, &'static str)>, String> = if route == "console" {
            let mut line = format!("call {name}");
            for a in &args {
                line.push(' ');
                // pointers by symbol: the address is only known at run time
                if a["k"] == "addr" && a["txt"] == "KNOWN" {
                    line.push_str(&format!("{known:#x}"));
                } else {
                    line.push_str(a["txt"].as_str().unwrap_or(""));
                }
            }
            catch(|| console.line(&mut dbg, &line))
        } else {
            let lits: Vec<Literal> = args
                .iter()
                .map(|a| if a["k"] == "addr" && a["txt"] == "KNOWN" { Literal::Address(known as usize) } else { literal_of(a) })
                .collect();
            catch(|| dbg.call(name, &lits).map(|_| String::new()).map_err(|e| (format!("{e}"), "handle")))
        };
        WINDOW.store(0, Ordering::SeqCst);
        let us_call = t_call.elapsed().as_micros() as u64;
        CASE_NO.fetch_add(1, Ordering::SeqCst);
        FAIL_NTH.store(-1, Ordering::SeqCst);
        let nreq = NREQ.load(Ordering::SeqCst);
        let (ok, err, stage) = match &res {
            Ok(Err((e, "parse_panic"))) => (Value::Null, e.clone(), "parse_panic"),
            Ok(Ok(_)) => (json!(true), String::new(), ""),
            Ok(Err((e, st))) => (json!(false), e.clone(), *st),
            Err(p) => (Value::Null, p.clone(), "panic"),
        };
        let t_snap = std::time::Instant::now();
        let after = snap(&cx, &dbg, Some(s0.rsp));
        let us_snap = t_snap.elapsed().as_micros() as u64;
        let mut rec = json!({"id": c["id"], "ok": ok, "err": err, "stage": stage, "ptrace_requests": nreq,
            "requests": if fault.is_null() { Value::Null } else { json!(*REQLOG.lock().unwrap()) }, "us_call": us_call, "us_snap": us_snap,
            "failed_request": FAILED_REQ.load(Ordering::SeqCst)});
        match &after {
            Some(a) => {
                rec["diff"] = diff(&before, a);
                rec["entries"] = json!(log_entries(&cx, before.log_len, a.log_len));
                if heal && !rec["diff"]["stack_changed"].as_array().unwrap().is_empty() {
                    rec["healed"] = json!(probe::write_mem(pid, before.stack_base, &before.stack));
                }
            }
            None => rec["diff"] = Value::Null,
        }
        out.emit(&rec);
        if after.is_none() || !alive(pid) {
            lost = json!(format!("debuggee lost after case {}", c["id"]));
            break;
        }
        if ok.is_null() && stage != "parse_panic" {
            // a panic inside the debugger: its internal state is unknown, end of session
            lost = json!(format!("debugger panicked in case {}", c["id"]));
            break;
        }
    }
    if !lost.is_null() {
        out.emit(&json!({"meta": "lost", "why": lost}));
    }
    // go on to the end of the program
    let mut stops = vec![];
    if lost.is_null() && cfg["finish"].as_bool().unwrap_or(true) {
        for _ in 0..8 {
            match catch(|| dbg.continue_debugee_with_reason()) {
                Ok(Ok(StopReason::DebugeeExit(code))) => {
                    stops.push(json!({"kind": "exit", "code": code}));
                    break;
                }
                Ok(Ok(r)) => {
                    let mut j = stop_brief(&r);
                    if let StopReason::Breakpoint(_, a) = &r {
                        let ga = u64::from(*a) - BIAS0;
                        let f = cx.elf.symbols.iter().filter(|(_, (v, s))| *v <= ga && ga < *v + (*s).max(1)).map(|(k, _)| k.clone()).next();
                        j["in_fn"] = json!(f);
                    }
                    stops.push(j);
                }
                Ok(Err(e)) => {
                    stops.push(json!({"kind": "error", "err": format!("{e}")}));
                    break;
                }
                Err(p) => {
                    stops.push(json!({"kind": "panic", "err": p}));
                    break;
                }
            }
        }
        wait_output(&output, "SUM ");
        out.emit(&json!({"meta": "finished", "stops": stops, "stdout": output.stdout_string(), "stderr": output.stderr_string()}));
    }
    out.emit(&json!({"meta": "done"}));
    unsafe { libc::kill(pid, libc::SIGKILL) };
    std::mem::forget(dbg);
}

// ------------------------------------------------------------------------------------------------
// vard / argd
// ------------------------------------------------------------------------------------------------
fn mode_dbg(cfg: &Value, out: &mut NdjsonOut) {
    let puppet = cfg["puppet"].as_str().unwrap();
    let elf = Elf::load(puppet);
    let src_name = std::path::Path::new(cfg["source"].as_str().unwrap()).file_name().unwrap().to_string_lossy().to_string();
    let (mut dbg, _rec, output, npid) = vharness::dbg::launch(puppet, &[]);
    let pid = npid.as_raw();
    for k in ["vars", "args"] {
        dbg.set_breakpoint_at_line(&src_name, cfg["lines"][k].as_u64().unwrap()).unwrap_or_else(|e| tool_error(&format!("breakpoint {k}: {e}")));
    }
    let stop = dbg.start_debugee_with_reason().unwrap_or_else(|e| tool_error(&format!("start: {e}")));
    if !matches!(stop, StopReason::Breakpoint(_, _)) {
        tool_error("dbg puppet did not stop at the vars line");
    }
    // the dbg puppet has no callee log: point the log probes at any readable word
    let any = probe::load_bias(pid, &elf) + elf.exec_segments[0].0;
    let cx = Ctx { pid, npid, elf, log_addr: any, len_addr: any };
    let console = Console::new();
    let mut lost = false;
    for (stage, cmd, key) in [("vars", "vard", "vars"), ("args", "argd", "args")] {
        if stage == "args" {
            match catch(|| dbg.continue_debugee_with_reason()) {
                Ok(Ok(StopReason::Breakpoint(_, _))) => {}
                other => {
                    out.emit(&json!({"meta": "lost", "why": format!("continue to the args line: {:?}", other.map(|r| r.map(|s| stop_brief(&s)).map_err(|e| e.to_string())))}));
                    lost = true;
                    break;
                }
            }
        }
        let s0 = snap(&cx, &dbg, None).unwrap_or_else(|| tool_error("snapshot failed"));
        let mut lines: Vec<(String, String)> = cfg[key].as_array().unwrap().iter()
            .map(|v| (v["name"].as_str().unwrap().to_string(), format!("{cmd} {}", v["name"].as_str().unwrap()))).collect();
        lines.push(("*".to_string(), format!("{cmd} {}", if cmd == "vard" { "locals" } else { "all" })));
        for (name, line) in lines {
            let before = snap(&cx, &dbg, Some(s0.rsp)).unwrap_or_else(|| tool_error("snapshot failed"));
            let res = catch(|| console.line(&mut dbg, &line));
            let after = snap(&cx, &dbg, Some(s0.rsp));
            let (ok, text, err) = match &res {
                Ok(Ok(t)) => (json!(true), strip_ansi(t), String::new()),
                Ok(Err((e, _))) => (json!(false), String::new(), e.clone()),
                Err(p) => (Value::Null, String::new(), p.clone()),
            };
            let mut rec = json!({"cmd": cmd, "name": name, "line": line, "ok": ok, "text": text, "err": err});
            rec["diff"] = after.as_ref().map(|a| diff(&before, a)).unwrap_or(Value::Null);
            out.emit(&rec);
            if ok.is_null() || after.is_none() || !alive(pid) {
                out.emit(&json!({"meta": "lost", "why": format!("after `{line}`")}));
                lost = true;
                break;
            }
        }
        if lost {
            break;
        }
    }
    if !lost {
        let mut stops = vec![];
        for _ in 0..4 {
            match catch(|| dbg.continue_debugee_with_reason()) {
                Ok(Ok(StopReason::DebugeeExit(code))) => {
                    stops.push(json!({"kind": "exit", "code": code}));
                    break;
                }
                Ok(Ok(r)) => stops.push(stop_brief(&r)),
                Ok(Err(e)) => {
                    stops.push(json!({"kind": "error", "err": format!("{e}")}));
                    break;
                }
                Err(p) => {
                    stops.push(json!({"kind": "panic", "err": p}));
                    break;
                }
            }
        }
        wait_output(&output, "END ");
        out.emit(&json!({"meta": "finished", "stops": stops, "stdout": output.stdout_string()}));
    }
    out.emit(&json!({"meta": "done"}));
    unsafe { libc::kill(pid, libc::SIGKILL) };
    std::mem::forget(dbg);
}

fn main() {
    let a: Vec<String> = std::env::args().collect();
    if a.len() != 4 {
        tool_error("usage: c16 call|dbg <cfg.json> <out.ndjson>");
    }
    // own process group + die with the parent: a lost debuggee never outlives the check
    unsafe {
        libc::prctl(libc::PR_SET_PDEATHSIG, libc::SIGKILL);
    }
    std::panic::set_hook(Box::new(|_| {}));
    ui_init();
    let mut cfg = read_json(&a[2]);
    cfg["out_path"] = json!(a[3]);
    let mut out = NdjsonOut::create(&a[3]);
    match a[1].as_str() {
        "call" => mode_call(&cfg, &mut out),
        "dbg" => mode_dbg(&cfg, &mut out),
        _ => tool_error("unknown mode"),
    }
}

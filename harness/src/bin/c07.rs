//! C07 driver: binds spec/Dqe.tla to the real expression parser and the real DQE executor.
//!
//!   c07 parse <cases.ndjson> <out.ndjson>
//!       every case {id, ast, texts:{canon, full, spaced}}: the JSON AST is converted to a real `Dqe`,
//!       every text is parsed with `expression::parser()`, the result is compared with `==`.
//!   c07 eval <puppet> <file> <line> <cases.ndjson> <out.ndjson> [skip]
//!       launches the puppet, stops at file:line, then for every case {id, ast} evaluates
//!       `Debugger::read_variable(dqe)` and writes the projected outcome.  Symbolic addresses in the AST
//!       (`sym`) are resolved through the puppet's own self-report (`C07-ENV`), which is also written out.
//!
//! The driver never judges: it reports what the real code returned; tools/checks/c07.py compares with
//! what TLC computed from the specification.
use bugstalker::debugger::variable::dqe::{Dqe, Literal, LiteralOrWildcard, PointerCast, Selector};
use bugstalker::debugger::variable::value::{SpecializedValue, SupportedScalar, Value as BsValue};
use bugstalker::ui::command::parser::expression;
use chumsky::Parser;
use serde_json::{json, Value};
use std::collections::HashMap;
use vharness::{catch, read_ndjson, tool_error, NdjsonOut};

type Syms<'a> = &'a dyn Fn(&str) -> usize;

fn opt_usize(v: &Value) -> Option<usize> {
    v.as_array().and_then(|a| a.first()).and_then(|n| n.as_u64()).map(|n| n as usize)
}

fn lit_or_wild(v: &Value, syms: Syms) -> LiteralOrWildcard {
    if v["t"] == "wild" {
        LiteralOrWildcard::Wildcard
    } else {
        LiteralOrWildcard::Literal(lit(v, syms))
    }
}

fn lit(v: &Value, syms: Syms) -> Literal {
    match v["t"].as_str().unwrap_or("") {
        "int" => Literal::Int(v["i"].as_i64().unwrap()),
        "float" => Literal::Float(v["f"].as_str().unwrap().parse::<f64>().unwrap()),
        "str" => Literal::String(v["s"].as_str().unwrap().to_string()),
        "bool" => Literal::Bool(v["b"].as_bool().unwrap()),
        "addr" => Literal::Address(syms(v["sym"].as_str().unwrap())),
        "variant" => Literal::EnumVariant(
            v["name"].as_str().unwrap().to_string(),
            v["arg"].as_array().and_then(|a| a.first()).map(|l| Box::new(lit(l, syms))),
        ),
        "arr" => Literal::Array(
            v["items"].as_array().unwrap().iter().map(|l| lit_or_wild(l, syms)).collect::<Vec<_>>().into_boxed_slice(),
        ),
        "assoc" => Literal::AssocArray(
            v["fields"]
                .as_array()
                .unwrap()
                .iter()
                .map(|p| (p[0].as_str().unwrap().to_string(), lit_or_wild(&p[1], syms)))
                .collect::<HashMap<_, _>>(),
        ),
        other => tool_error(&format!("unknown literal form {other}: {v}")),
    }
}

fn dqe(v: &Value, syms: Syms) -> Dqe {
    let sub = || Box::new(dqe(&v["e"], syms));
    match v["op"].as_str().unwrap_or("") {
        "var" => Dqe::Variable(Selector::by_name(v["name"].as_str().unwrap(), false)),
        "ptrcast" => Dqe::PtrCast(PointerCast::new(syms(v["sym"].as_str().unwrap()), v["ty"].as_str().unwrap())),
        "field" => Dqe::Field(sub(), v["name"].as_str().unwrap().to_string()),
        "index" => Dqe::Index(sub(), lit(&v["lit"], syms)),
        "slice" => Dqe::Slice(sub(), opt_usize(&v["l"]), opt_usize(&v["r"])),
        "deref" => Dqe::Deref(sub()),
        "addr" => Dqe::Address(sub()),
        "canonic" => Dqe::Canonic(sub()),
        other => tool_error(&format!("unknown operator {other}: {v}")),
    }
}

/// Replace `$name$` placeholders of a text by the hexadecimal address the symbol stands for.
fn subst(text: &str, syms: Syms) -> String {
    let mut out = String::new();
    let mut rest = text;
    while let Some(i) = rest.find('$') {
        out.push_str(&rest[..i]);
        let tail = &rest[i + 1..];
        let j = tail.find('$').unwrap_or_else(|| tool_error(&format!("unbalanced $ in {text}")));
        out.push_str(&format!("{:X}", syms(&tail[..j])));
        rest = &tail[j + 1..];
    }
    out.push_str(rest);
    out
}

// ------------------------------------------------------------------------------------------------
// leg (i): parser round trip
// ------------------------------------------------------------------------------------------------

/// Fixed numbers for symbolic addresses in the parse leg (any number does; parsing is text only).
fn fake_addr(sym: &str) -> usize {
    let mut h: usize = 0x1000;
    for b in sym.bytes() {
        h = h.wrapping_mul(31).wrapping_add(b as usize) & 0x7FFF_FFFF_FFFF;
    }
    h
}

fn parse_text(text: &str) -> Result<Dqe, String> {
    expression::parser()
        .parse(text)
        .into_result()
        .map_err(|e| e.iter().map(|e| e.to_string()).collect::<Vec<_>>().join("; "))
}

fn run_parse(cases: &str, out: &str) {
    let cases = read_ndjson(cases);
    let mut o = NdjsonOut::create(out);
    let syms: Syms = &fake_addr;
    for c in &cases {
        let want = dqe(&c["ast"], syms);
        let mut res = serde_json::Map::new();
        for (name, t) in c["texts"].as_object().unwrap() {
            let text = subst(t.as_str().unwrap(), syms);
            let got = catch(|| parse_text(&text));
            let r = match got {
                Err(p) => json!({"r": "panic", "text": text, "msg": p}),
                Ok(Err(e)) => json!({"r": "error", "text": text, "msg": e}),
                Ok(Ok(g)) if g == want => json!({"r": "same"}),
                Ok(Ok(g)) => json!({"r": "different", "text": text, "want": format!("{want:?}"), "got": format!("{g:?}")}),
            };
            res.insert(name.clone(), r);
        }
        o.emit(&json!({"id": c["id"], "res": res}));
    }
}

// ------------------------------------------------------------------------------------------------
// leg (ii): evaluation against the live puppet
// ------------------------------------------------------------------------------------------------

fn scalar(s: &SupportedScalar) -> Value {
    match s {
        SupportedScalar::I8(v) => json!({"k":"int","i":v}),
        SupportedScalar::I16(v) => json!({"k":"int","i":v}),
        SupportedScalar::I32(v) => json!({"k":"int","i":v}),
        SupportedScalar::I64(v) => json!({"k":"int","i":v}),
        SupportedScalar::I128(v) => json!({"k":"int","i":*v as i64}),
        SupportedScalar::Isize(v) => json!({"k":"int","i":v}),
        SupportedScalar::U8(v) => json!({"k":"int","i":v}),
        SupportedScalar::U16(v) => json!({"k":"int","i":v}),
        SupportedScalar::U32(v) => json!({"k":"int","i":v}),
        SupportedScalar::U64(v) => json!({"k":"int","i":v}),
        SupportedScalar::U128(v) => json!({"k":"int","i":*v as u64}),
        SupportedScalar::Usize(v) => json!({"k":"int","i":v}),
        SupportedScalar::F32(v) => json!({"k":"float","f":format!("{v:?}")}),
        SupportedScalar::F64(v) => json!({"k":"float","f":format!("{v:?}")}),
        SupportedScalar::Bool(v) => json!({"k":"bool","b":v}),
        SupportedScalar::Char(v) => json!({"k":"str","s":v.to_string()}),
        SupportedScalar::Empty() => json!({"k":"unit"}),
    }
}

fn members(ms: &[bugstalker::debugger::variable::value::Member]) -> Value {
    Value::Array(ms.iter().map(|m| json!([m.field_name, proj(&m.value)])).collect())
}

fn items(v: &BsValue) -> Value {
    match v {
        BsValue::Array(a) => match &a.items {
            Some(it) => Value::Array(it.iter().map(|i| proj(&i.value)).collect()),
            None => Value::Null,
        },
        _ => Value::Null,
    }
}

/// Project the debugger's value tree to the abstract shape of spec/Dqe.tla.
fn proj(v: &BsValue) -> Value {
    match v {
        BsValue::Scalar(s) => match &s.value {
            Some(x) => scalar(x),
            None => json!({"k":"unknown"}),
        },
        BsValue::Struct(s) => json!({"k":"struct","fields":members(&s.members)}),
        BsValue::Array(_) => json!({"k":"array","items":items(v)}),
        BsValue::CEnum(e) => json!({"k":"cenum","v":e.value}),
        BsValue::RustEnum(e) => match &e.value {
            Some(m) => json!({"k":"enum","variant":m.field_name,"payload":proj(&m.value)}),
            None => json!({"k":"enum","variant":null}),
        },
        BsValue::Pointer(p) => json!({"k":"ptr","addr":p.value.map(|a| a as usize)}),
        BsValue::Subroutine(_) => json!({"k":"fn"}),
        BsValue::CModifiedVariable(c) => match &c.value {
            Some(x) => proj(x),
            None => json!({"k":"unknown"}),
        },
        BsValue::Specialized { value: None, original } => {
            json!({"k":"struct","fields":members(&original.members),"unspecialized":true})
        }
        BsValue::Specialized { value: Some(sv), .. } => match sv {
            SpecializedValue::Vector(x) => {
                json!({"k":"vec","items":x.structure.members.first().map(|m| items(&m.value))})
            }
            SpecializedValue::VecDeque(x) => {
                json!({"k":"vecdeque","items":x.structure.members.first().map(|m| items(&m.value))})
            }
            SpecializedValue::HashMap(m) | SpecializedValue::BTreeMap(m) => {
                json!({"k":"map","kv":m.kv_items.iter().map(|(k, v)| json!([proj(k), proj(v)])).collect::<Vec<_>>()})
            }
            SpecializedValue::HashSet(s) | SpecializedValue::BTreeSet(s) => {
                json!({"k":"set","items":s.items.iter().map(proj).collect::<Vec<_>>()})
            }
            SpecializedValue::String(s) => json!({"k":"str","s":s.value}),
            SpecializedValue::Str(s) => json!({"k":"str","s":s.value}),
            SpecializedValue::Cell(c) => json!({"k":"cell","inner":proj(c)}),
            SpecializedValue::RefCell(c) => match proj(c) {
                Value::Object(mut o) if o.get("k") == Some(&json!("struct")) => {
                    o.insert("k".into(), json!("refcell"));
                    Value::Object(o)
                }
                other => json!({"k":"refcell","inner":other}),
            },
            SpecializedValue::Rc(p) | SpecializedValue::Arc(p) => {
                json!({"k":"rc","addr":p.value.map(|a| a as usize)})
            }
            SpecializedValue::Tls(_) => json!({"k":"tls"}),
            SpecializedValue::Uuid(_) => json!({"k":"uuid"}),
            SpecializedValue::SystemTime(_) => json!({"k":"systime"}),
            SpecializedValue::Instant(_) => json!({"k":"instant"}),
        },
    }
}

/// Address of a symbol (`root/step/step`) according to the puppet's self-report.
fn resolve(env: &Value, sym: &str) -> usize {
    let mut parts = sym.split('/');
    let root = parts.next().unwrap();
    let mut node = &env[root];
    for step in parts {
        node = match node["k"].as_str().unwrap_or("") {
            "array" | "vec" | "vecdeque" => &node["items"][step.parse::<usize>().unwrap_or(usize::MAX)],
            "struct" | "refcell" => node["fields"]
                .as_array()
                .and_then(|fs| fs.iter().find(|p| p[0] == step))
                .map(|p| &p[1])
                .unwrap_or(&Value::Null),
            _ => &Value::Null,
        };
    }
    node["@"].as_u64().unwrap_or_else(|| tool_error(&format!("symbol {sym} has no address in the puppet report"))) as usize
}

fn run_eval(puppet: &str, file: &str, line: u64, cases: &str, out: &str, skip: usize) {
    let cases = read_ndjson(cases);
    let mut o = NdjsonOut::create(out);
    let (mut dbg, _rec, output, pid) = vharness::dbg::launch(puppet, &[]);
    dbg.set_breakpoint_at_line(file, line).unwrap_or_else(|e| tool_error(&format!("breakpoint {file}:{line}: {e}")));
    dbg.start_debugee().unwrap_or_else(|e| tool_error(&format!("start: {e}")));
    // the self-report is printed before the probe line
    let mut env = Value::Null;
    for _ in 0..200 {
        let so = output.stdout_string();
        if let Some(l) = so.lines().find(|l| l.starts_with("C07-ENV ")) {
            if so.contains('\n') {
                env = serde_json::from_str(&l[8..]).unwrap_or_else(|e| tool_error(&format!("puppet report: {e}")));
                break;
            }
        }
        std::thread::sleep(std::time::Duration::from_millis(10));
    }
    if env.is_null() {
        tool_error("puppet did not print its self-report before the probe line");
    }
    o.emit(&json!({"env": env}));
    let envc = env.clone();
    let resolver = move |s: &str| resolve(&envc, s);
    let syms: Syms = &resolver;
    for c in cases.iter().skip(skip) {
        let q = dqe(&c["ast"], syms);
        o.emit(&json!({"begin": c["id"]}));
        let res = catch(|| match dbg.read_variable(q.clone()) {
            Err(e) => json!({"r": "none", "why": format!("error: {e}")}),
            Ok(rs) => {
                let vals: Vec<Value> = rs.iter().filter_map(|r| r.value.as_ref().map(proj)).collect();
                match vals.len() {
                    0 => json!({"r": "none", "why": "empty"}),
                    1 => json!({"r": "value", "v": vals[0]}),
                    _ => json!({"r": "multi", "vs": vals}),
                }
            }
        });
        let res = match res {
            Ok(r) => r,
            Err(p) => json!({"r": "panic", "msg": p}),
        };
        o.emit(&json!({"id": c["id"], "res": res}));
    }
    // leave without running destructors of a possibly confused debugger
    std::mem::forget(dbg);
    unsafe { libc::kill(pid.as_raw(), libc::SIGKILL) };
    std::process::exit(0);
}

fn main() {
    let a: Vec<String> = std::env::args().collect();
    match a.get(1).map(|s| s.as_str()) {
        Some("parse") if a.len() == 4 => run_parse(&a[2], &a[3]),
        Some("eval") if a.len() >= 7 => run_eval(
            &a[2],
            &a[3],
            a[4].parse().unwrap_or_else(|_| tool_error("line")),
            &a[5],
            &a[6],
            a.get(7).and_then(|s| s.parse().ok()).unwrap_or(0),
        ),
        _ => tool_error("usage: c07 parse <cases> <out> | c07 eval <puppet> <file> <line> <cases> <out> [skip]"),
    }
}
